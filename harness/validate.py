#!/usr/bin/env python3
"""validate MANIFEST.json and evidence/*.json against the schemas in /root/.vp (run with python3-vt: needs jsonschema)"""
import glob
import json
import sys

import jsonschema

bad = 0
for path, schema in [("/verif/MANIFEST.json", "/root/.vp/MANIFEST.schema.json")] + [(p, "/root/.vp/EVIDENCE.schema.json") for p in sorted(glob.glob("/verif/evidence/*.json"))]:
    try:
        jsonschema.validate(json.load(open(path)), json.load(open(schema)))
    except Exception as e:  # noqa
        bad += 1
        print("INVALID", path, str(e)[:300])
print("validated, %d invalid" % bad)
sys.exit(1 if bad else 0)
