#!/usr/bin/env python3
import sys, json, random, time
sys.path.insert(0, '/verif/harness')
from vlib import build, coqrun, model, cfggen
from checks import common

def mkspecs(n, seed, inj_rate=0.5):
    specs = []
    for k in range(n):
        r = random.Random("%d/%d" % (seed, k))
        g = cfggen.Gen(r)
        cfg = g.config()
        what = []
        if r.random() < inj_rate:
            for _ in range(r.choice([1, 1, 2, 3])):
                w = cfggen.INJECTORS[r.choice(sorted(cfggen.INJECTORS))](r, cfg)
                if w: what.append(w)
        nfiles = r.choice([1, 1, 2, 3])
        files = cfggen.split_files(r, cfg, nfiles) if nfiles > 1 else [cfg]
        fs = [{"path": "cfg/f%d.yaml" % i, "content": cfggen.to_yaml(f)} for i, f in enumerate(files)]
        flags = {"ignore_params": r.random() < 0.2, "ignore_services": r.random() < 0.2, "quiet": r.random() < 0.05, "stub": r.random() < 0.2}
        specs.append({"id": str(k), "files": fs, "patterns": ["cfg/*.yaml"], "output": "out.go", "flags": flags,
                      "version": "1.2.3", "build_info": "bi", "dump": True, "what": what})
    return specs

if __name__ == "__main__":
    n = int(sys.argv[1]); seed = int(sys.argv[2])
    t0 = time.time()
    tooldir = build.ensure_tools()
    from vlib import gen
    env = coqrun.ensure_coq(tooldir, gen.write_gen)
    print("env", env.dir, env.failed, time.time() - t0)
    specs = mkspecs(n, seed)
    obs = build.gx_run(tooldir, specs)
    print("real done", time.time() - t0)
    res, err = model.correspond(env, specs, obs)
    print("model done", time.time() - t0)
    if res is None:
        print("MODEL EVAL FAILED", err); sys.exit(1)
    exits = {}
    for ob in obs: exits[ob.get("exit")] = exits.get(ob.get("exit"), 0) + 1
    lim = int(sys.argv[3]) if len(sys.argv) > 3 else 3
    for k, d in res[:lim]:
        sp = specs[k]
        print("---- case", sp["id"], sp["what"], sp["flags"])
        for f in sp["files"]: print(f["content"])
        print("  ", d)
    print("cases", n, "mismatching", len(res), "exits", exits)
