#!/usr/bin/env python3
"""run every registered check (default quick tier), N at a time; print one summary line per property; exit 1 if any fails.
usage: runall.py [quick|thorough] [jobs]"""
import json
import os
import subprocess
import sys
import time
from concurrent.futures import ThreadPoolExecutor

VERIF = os.path.dirname(os.path.dirname(os.path.abspath(__file__)))
tier = sys.argv[1] if len(sys.argv) > 1 else "quick"
jobs = int(sys.argv[2]) if len(sys.argv) > 2 else 3
ids = [json.loads(l)["id"] for l in open(os.path.join(VERIF, "properties.jsonl")) if l.strip()]


def one(pid):
    t0 = time.time()
    p = subprocess.run([os.path.join(VERIF, "harness", "vcheck"), pid, "--tier", tier], cwd=VERIF, stdout=subprocess.PIPE, stderr=subprocess.PIPE, text=True)
    lines = [l for l in p.stdout.splitlines() if l.startswith(("OK ", "VIOLATION", "KNOWN-FINDING"))]
    return pid, p.returncode, lines, time.time() - t0, p.stderr[-1500:] if p.returncode not in (0, 1) else ""


# the first one alone (builds the per-tree caches), then the rest in parallel
res = [one(ids[0])]
with ThreadPoolExecutor(jobs) as ex:
    res += list(ex.map(one, ids[1:]))
bad = 0
for pid, rc, lines, dt, err in res:
    print("%s rc=%d %.0fs %s" % (pid, rc, dt, " | ".join(l[:160] for l in lines[-2:])))
    if err:
        print(err)
    bad += rc != 0
sys.exit(1 if bad else 0)
