package compiler

import "regexp"

func VerifRegexps() map[string]*regexp.Regexp {
	return map[string]*regexp.Regexp{
		"DecoratorMethod":    regexDecoratorMethod,
		"MetaGoFn":           regexMetaGoFn,
		"ServiceType":        regexServiceType,
		"ServiceConstructor": regexServiceConstructor,
	}
}

func VerifDefaults() map[string]any {
	return map[string]any{
		"MetaPkg":                  defaultMetaPkg,
		"MetaContainerType":        defaultMetaContainerType,
		"MetaContainerConstructor": defaultMetaContainerConstructor,
		"MetaMustGetter":           defaultMetaMustGetter,
		"ServiceGetter":            defaultServiceGetter,
	}
}

// VerifSteps exposes the ordered compile steps.
func (c Compiler) VerifSteps() []any {
	r := make([]any, len(c.steps))
	for i, s := range c.steps {
		r[i] = s
	}
	return r
}

// the resolver objects the compile steps were actually wired with
func (s StepCompileParams) VerifResolver() any        { return s.resolver }
func (s StepCompileServices) VerifArgResolver() any   { return s.argResolver }
func (s StepCompileDecorators) VerifArgResolver() any { return s.argResolver }
