package resolver

import "regexp"

func VerifRegexps() map[string]*regexp.Regexp {
	return map[string]*regexp.Regexp{
		"servicePrefix": servicePrefixRegex,
		"service":       serviceRegex,
		"taggedPrefix":  taggedPrefixRegex,
		"tagged":        taggedRegex,
		"valuePrefix":   valuePrefixRegex,
		"value":         valueRegex,
	}
}

// VerifStrategies exposes the ordered strategy list of an ArgResolver.
func (a *ArgResolver) VerifStrategies() []any {
	r := make([]any, len(a.strategies))
	for i, s := range a.strategies {
		r[i] = s
	}
	return r
}

// VerifFixed exposes the id/value pair of a FixedValueResolver.
func (f FixedValueResolver) VerifFixed() (string, string) { return f.id, f.value }

// VerifInner exposes the argument resolver a ParamResolver delegates to.
func (p ParamResolver) VerifInner() any { return p.resolver }
