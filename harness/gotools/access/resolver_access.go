package resolver

import "regexp"

func VerifRegexps() map[string]*regexp.Regexp {
	return map[string]*regexp.Regexp{
		"servicePrefix": servicePrefixRegex,
		"service":       serviceRegex,
		"taggedPrefix":  taggedPrefixRegex,
		"tagged":        taggedRegex,
		"valuePrefix":   valuePrefixRegex,
		"value":         valueRegex,
	}
}
