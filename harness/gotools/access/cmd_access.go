package cmd

import (
	"io"

	"github.com/gontainer/gontainer-helpers/v3/container"
	"github.com/gontainer/gontainer/internal/cmd/runner"
	"github.com/gontainer/gontainer/internal/gontainer"
	"github.com/gontainer/gontainer/internal/pkg/imports"
	"github.com/gontainer/gontainer/internal/pkg/input"
	"github.com/gontainer/gontainer/internal/pkg/output"
)

// VerifFrontEnd runs the first three runner steps (default input, read config, compile) of a fresh
// self-generated container and returns the merged input, the compiled output, the compile error and the
// state of the alias table. It is used only to dump intermediate values for the correspondence check;
// the verdicts come from the real command.
func VerifFrontEnd(version string, patterns []string) (in input.Input, out output.Output, errs [3]error, imps []imports.Import, fatal error) {
	defer func() {
		if r := recover(); r != nil {
			fatal = panicErr{r}
		}
	}()
	c := gontainer.New()
	ws := container.NewService()
	ws.SetValue(io.Discard)
	c.OverrideService("writer", ws)
	c.OverrideParam("version", container.NewDependencyValue(version))
	c.OverrideParam("buildInfo", container.NewDependencyValue(""))
	c.OverrideParam("inputPatterns", container.NewDependencyValue(patterns))
	c.OverrideParam("outputFile", container.NewDependencyValue("/dev/null"))
	c.OverrideParam("stub", container.NewDependencyValue(false))
	for k, id := range []string{"stepDefaultInput", "stepReadConfig", "stepCompile"} {
		s, err := c.Get(id)
		if err != nil {
			fatal = err
			return
		}
		errs[k] = s.(runner.Step).Run(&in, &out)
	}
	ip, err := c.Get("imports")
	if err != nil {
		fatal = err
		return
	}
	imps = ip.(interface{ Imports() []imports.Import }).Imports()
	return
}

type panicErr struct{ v any }

func (p panicErr) Error() string { return "panic" }

// VerifRunner builds the runner exactly as the build command does.
func VerifRunner(w io.Writer, pe, se bool) *runner.Runner {
	return buildRunner(runnerPayload{writer: w, version: "", buildInfo: "", paramsExistActive: pe, servicesExistActive: se,
		inputPatterns: nil, outputFile: "", stub: false})
}

// VerifService returns a service of a fresh self-generated container (static wiring dump).
func VerifService(id string) (any, error) {
	c := gontainer.New()
	ws := container.NewService()
	ws.SetValue(io.Discard)
	c.OverrideService("writer", ws)
	c.OverrideParam("version", container.NewDependencyValue(""))
	c.OverrideParam("buildInfo", container.NewDependencyValue(""))
	c.OverrideParam("inputPatterns", container.NewDependencyValue([]string{}))
	c.OverrideParam("outputFile", container.NewDependencyValue(""))
	c.OverrideParam("stub", container.NewDependencyValue(false))
	return c.Get(id)
}
