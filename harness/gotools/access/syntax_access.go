package syntax

import "regexp"

func VerifRegexps() map[string]*regexp.Regexp {
	return map[string]*regexp.Regexp{"ServiceValue": regexServiceValue}
}
