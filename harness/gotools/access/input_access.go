package input

import "regexp"

// VerifRegexps exposes the live compiled regular expressions of this package (verification overlay; not part of /repo).
func VerifRegexps() map[string]*regexp.Regexp {
	return map[string]*regexp.Regexp{
		"ServiceName":              regexServiceName,
		"ServiceGetter":            regexServiceGetter,
		"ServiceType":              regexServiceType,
		"ServiceValue":             regexServiceValue,
		"ServiceConstructor":       regexServiceConstructor,
		"ServiceCallName":          regexServiceCallName,
		"ServiceFieldName":         regexServiceFieldName,
		"ServiceTag":               regexServiceTag,
		"ParamName":                regexParamName,
		"DecoratorsTag":            regexDecoratorsTag,
		"DecoratorMethod":          regexDecoratorMethod,
		"MetaPkg":                  regexpMetaPkg,
		"MetaContainerType":        regexpMetaContainerType,
		"MetaContainerConstructor": regexpMetaContainerConstructor,
		"MetaImport":               regexMetaImport,
		"MetaImportAlias":          regexMetaImportAlias,
		"MetaFn":                   regexMetaFn,
		"MetaGoFn":                 regexMetaGoFn,
	}
}

// VerifReservedGetters exposes the reserved getter set computed in init().
func VerifReservedGetters() map[string]bool { return reservedGetters }
