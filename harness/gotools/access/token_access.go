package token

import "regexp"

func VerifRegexps() map[string]*regexp.Regexp {
	return map[string]*regexp.Regexp{"TokenRef": regexTokenRef, "SimpleFn": regexSimpleFn}
}

// VerifStrategies exposes the ordered factory list.
func (f *StrategyFactory) VerifStrategies() []any {
	r := make([]any, len(f.strategies))
	for i, s := range f.strategies {
		r[i] = s
	}
	return r
}
