package token

import "regexp"

func VerifRegexps() map[string]*regexp.Regexp {
	return map[string]*regexp.Regexp{"TokenRef": regexTokenRef, "SimpleFn": regexSimpleFn}
}
