package runner

// VerifConsts exposes the printer constants.
func VerifConsts() (int, string, string) { return rowWidth, checkMark, xMark }

// VerifSteps exposes the step list of a runner (for the wiring dump).
func (r *Runner) VerifSteps() []Step { return r.steps }

// VerifParent exposes the decorated step and the active flag.
func (s *StepVerboseSwitchable) VerifParent() (Step, bool) { return s.parent, s.active }

// VerifSubSteps exposes the sub-steps of an amalgamated step.
func (s *StepAmalgamated) VerifSubSteps() []Step { return s.steps }

// VerifValidator exposes the validator function of a rule step.
func (s *StepOutputValidationRule) VerifValidator() any { return s.validator }
