// gxtool: verification helper compiled INTO /repo's module with `go build -overlay` (see harness/vlib/build.py).
// Nothing is written under /repo. Subcommands:
//
//	gxtool regex            dump every live compiled regexp of the repo as a syntax tree (JSON)
//	gxtool consts           dump constants / defaults / reserved getters / wiring read from the live objects (JSON)
//	gxtool run <tmpbase>    read JSON cases on stdin (one per line), execute the real build command in-process on each,
//	                        print one JSON observation per line
//	gxtool quote            read JSON strings (one per line), print %+q, exporter.Export and strconv.Unquote round trip
package main

import (
	"bufio"
	"bytes"
	"crypto/sha256"
	"encoding/hex"
	"encoding/json"
	"fmt"
	"go/ast"
	"go/parser"
	"go/printer"
	token2 "go/token"
	"math/rand"
	"os"
	"path/filepath"
	"reflect"
	"regexp"
	"regexp/syntax"
	"runtime"
	"runtime/debug"
	"sort"
	"strconv"
	"strings"
	"time"
	"unicode/utf8"

	"github.com/gontainer/gontainer-helpers/v3/exporter"
	"github.com/gontainer/gontainer-helpers/v3/grouperror"
	"github.com/gontainer/gontainer/internal/cmd"
	"github.com/gontainer/gontainer/internal/cmd/runner"
	"github.com/gontainer/gontainer/internal/pkg/compiler"
	"github.com/gontainer/gontainer/internal/pkg/consts"
	"github.com/gontainer/gontainer/internal/pkg/imports"
	"github.com/gontainer/gontainer/internal/pkg/input"
	"github.com/gontainer/gontainer/internal/pkg/output"
	"github.com/gontainer/gontainer/internal/pkg/resolver"
	syn "github.com/gontainer/gontainer/internal/pkg/syntax"
	tpl "github.com/gontainer/gontainer/internal/pkg/template"
	"github.com/gontainer/gontainer/internal/pkg/token"
	"gopkg.in/yaml.v3"
)

func main() {
	// unbounded recursion dies as a stack overflow quickly instead of growing a 1 GB stack
	debug.SetMaxStack(128 << 20)
	if len(os.Args) < 2 {
		fmt.Fprintln(os.Stderr, "usage: gxtool regex|consts|run|quote")
		os.Exit(2)
	}
	switch os.Args[1] {
	case "regex":
		dumpRegex()
	case "consts":
		dumpConsts()
	case "run":
		runCases(os.Args[2])
	case "quote":
		quoteLines()
	case "format":
		formatLines()
	case "api":
		apiLines()
	case "fuzz":
		fuzz(os.Args[2], os.Args[3], os.Args[4])
	default:
		fmt.Fprintln(os.Stderr, "unknown subcommand")
		os.Exit(2)
	}
}

// ---------------------------------------------------------------------------------------------- regex

type reNode struct {
	Op    string    `json:"op"`
	Name  string    `json:"name,omitempty"`
	Cap   int       `json:"cap,omitempty"`
	Runes []int     `json:"runes,omitempty"` // literal runes, or class ranges lo,hi,lo,hi
	Fold  bool      `json:"fold,omitempty"`
	NonGr bool      `json:"nongreedy,omitempty"`
	Min   int       `json:"min,omitempty"`
	Max   int       `json:"max,omitempty"`
	Sub   []*reNode `json:"sub,omitempty"`
}

func conv(r *syntax.Regexp) *reNode {
	n := &reNode{Op: r.Op.String()}
	switch r.Op {
	case syntax.OpLiteral:
		for _, x := range r.Rune {
			n.Runes = append(n.Runes, int(x))
		}
		n.Fold = r.Flags&syntax.FoldCase != 0
	case syntax.OpCharClass:
		for _, x := range r.Rune {
			n.Runes = append(n.Runes, int(x))
		}
	case syntax.OpCapture:
		n.Name = r.Name
		n.Cap = r.Cap
	case syntax.OpStar, syntax.OpPlus, syntax.OpQuest:
		n.NonGr = r.Flags&syntax.NonGreedy != 0
	case syntax.OpRepeat:
		n.Min, n.Max = r.Min, r.Max
		n.NonGr = r.Flags&syntax.NonGreedy != 0
	}
	for _, s := range r.Sub {
		n.Sub = append(n.Sub, conv(s))
	}
	return n
}

type reSite struct {
	Site    string   `json:"site"`
	Pattern string   `json:"pattern"`
	Names   []string `json:"names"`
	Tree    *reNode  `json:"tree"`
}

func dumpRegex() {
	var sites []reSite
	add := func(pkg string, m map[string]*regexp.Regexp) {
		keys := make([]string, 0, len(m))
		for k := range m {
			keys = append(keys, k)
		}
		sort.Strings(keys)
		for _, k := range keys {
			re := m[k]
			t, err := syntax.Parse(re.String(), syntax.Perl)
			if err != nil {
				panic(err)
			}
			sites = append(sites, reSite{Site: pkg + "_" + k, Pattern: re.String(), Names: re.SubexpNames(), Tree: conv(t)})
		}
	}
	add("input", input.VerifRegexps())
	add("compiler", compiler.VerifRegexps())
	add("syntax", syn.VerifRegexps())
	add("resolver", resolver.VerifRegexps())
	add("token", token.VerifRegexps())
	add("imports", imports.VerifRegexps())
	enc := json.NewEncoder(os.Stdout)
	enc.SetEscapeHTML(false)
	_ = enc.Encode(sites)
}

// ---------------------------------------------------------------------------------------------- consts / wiring

func stepDesc(s runner.Step) map[string]any {
	d := map[string]any{"type": fmt.Sprintf("%T", s)}
	if v, ok := s.(interface{ Name() string }); ok {
		d["name"] = v.Name()
	}
	switch x := s.(type) {
	case *runner.StepVerboseSwitchable:
		p, active := x.VerifParent()
		d["active"] = active
		d["parent"] = stepDesc(p)
	case *runner.StepOutputValidationRule:
		d["validator"] = runtime.FuncForPC(reflect.ValueOf(x.VerifValidator()).Pointer()).Name()
	case *runner.StepAmalgamated:
		var subs []any
		for _, q := range x.VerifSubSteps() {
			subs = append(subs, stepDesc(q))
		}
		d["steps"] = subs
	}
	return d
}

func dumpConsts() {
	rw, ck, xm := runner.VerifConsts()
	res := map[string]any{
		"GontainerHelperPath":            consts.GontainerHelperPath,
		"FuncEnv":                        consts.FuncEnv,
		"FuncEnvInt":                     consts.FuncEnvInt,
		"FuncTodo":                       consts.FuncTodo,
		"SpecialGontainerID":             consts.SpecialGontainerID,
		"SpecialGontainerValue":          consts.SpecialGontainerValue,
		"TplDependencyService":           consts.TplDependencyService,
		"TplDependencyTag":               consts.TplDependencyTag,
		"TplDependencyValue":             consts.TplDependencyValue,
		"TplDependencyProvider":          consts.TplDependencyProvider,
		"TplDependencyConcatenateChunks": consts.TplDependencyConcatenateChunks,
		"TplTokenGetParam":               consts.TplTokenGetParam,
		"TplTokenProvider":               consts.TplTokenProvider,
		"BuiltInGetEnv":                  consts.BuiltInGetEnv,
		"BuiltinGetEnvInt":               consts.BuiltinGetEnvInt,
		"BuiltInParamTodo":               consts.BuiltInParamTodo,
		"TokenDelimiter":                 token.Delimiter,
		"rowWidth":                       rw,
		"checkMark":                      ck,
		"xMark":                          xm,
		"defaults":                       compiler.VerifDefaults(),
		"DefaultServiceTodo":             input.DefaultServiceTodo,
	}
	var rg []string
	for k, v := range input.VerifReservedGetters() {
		if v {
			rg = append(rg, k)
		}
	}
	sort.Strings(rg)
	res["reservedGetters"] = rg
	wiring := map[string]any{}
	for _, fl := range [][2]bool{{true, true}, {false, true}, {true, false}, {false, false}} {
		var steps []any
		r := cmd.VerifRunner(os.Stderr, fl[0], fl[1])
		for _, s := range r.VerifSteps() {
			steps = append(steps, stepDesc(s))
		}
		wiring[fmt.Sprintf("params=%v,services=%v", fl[0], fl[1])] = steps
	}
	res["wiring"] = wiring
	strategies := func(obj any) []any {
		out := []any{}
		sv, ok := obj.(interface{ VerifStrategies() []any })
		if !ok {
			return append(out, map[string]any{"type": fmt.Sprintf("!unexpected %T", obj)})
		}
		for _, st := range sv.VerifStrategies() {
			d := map[string]any{"type": fmt.Sprintf("%T", st)}
			if f, ok := st.(interface{ VerifFixed() (string, string) }); ok {
				id, v := f.VerifFixed()
				d["id"], d["value"] = id, v
			}
			out = append(out, d)
		}
		return out
	}
	chain := func(id string) []any {
		svc, err := cmd.VerifService(id)
		if err != nil {
			// the wiring no longer has this service: an empty chain makes the wiring tie fail instead of the translator
			return []any{map[string]any{"type": "!missing service " + id}}
		}
		return strategies(svc)
	}
	res["tokenStrategyFactory"] = chain("tokenStrategyFactory")
	// the chains are read from the objects the compile steps are wired with, not from services looked up by name
	res["argResolver"] = []any{map[string]any{"type": "!no StepCompileServices"}}
	res["primitiveArgResolver"] = []any{map[string]any{"type": "!no StepCompileParams"}}
	res["decoratorArgResolver"] = []any{map[string]any{"type": "!no StepCompileDecorators"}}
	{
		svc, err := cmd.VerifService("compiler")
		if err != nil {
			panic(err)
		}
		var out []any
		for _, st := range svc.(interface{ VerifSteps() []any }).VerifSteps() {
			out = append(out, fmt.Sprintf("%T", st))
			tn := fmt.Sprintf("%T", st)
			switch {
			case strings.HasSuffix(tn, "StepCompileParams"):
				r := st.(interface{ VerifResolver() any }).VerifResolver()
				if in, ok := r.(interface{ VerifInner() any }); ok {
					res["primitiveArgResolver"] = strategies(in.VerifInner())
				} else {
					res["primitiveArgResolver"] = []any{map[string]any{"type": fmt.Sprintf("!unexpected %T", r)}}
				}
			case strings.HasSuffix(tn, "StepCompileServices"):
				res["argResolver"] = strategies(st.(interface{ VerifArgResolver() any }).VerifArgResolver())
			case strings.HasSuffix(tn, "StepCompileDecorators"):
				res["decoratorArgResolver"] = strategies(st.(interface{ VerifArgResolver() any }).VerifArgResolver())
			}
		}
		res["compilerSteps"] = out
	}
	enc := json.NewEncoder(os.Stdout)
	enc.SetEscapeHTML(false)
	enc.SetIndent("", " ")
	_ = enc.Encode(res)
}

// ---------------------------------------------------------------------------------------------- run

type flags struct {
	IgnoreParams   bool `json:"ignore_params"`
	IgnoreServices bool `json:"ignore_services"`
	Quiet          bool `json:"quiet"`
	Stub           bool `json:"stub"`
}

type fileSpec struct {
	Path    string `json:"path"`
	Content string `json:"content"`
	Dir     bool   `json:"dir,omitempty"`
	Mode    *int   `json:"mode,omitempty"`
	Link    string `json:"link,omitempty"` // a symbolic link with this target
}

type caseSpec struct {
	ID        string     `json:"id"`
	Files     []fileSpec `json:"files"`
	Patterns  []string   `json:"patterns"`
	Output    string     `json:"output"`
	Flags     flags      `json:"flags"`
	Version   string     `json:"version"`
	BuildInfo string     `json:"build_info"`
	Dump      bool       `json:"dump"`
	KeepOut   bool       `json:"keep_out"` // return the generated file's content
	NoOutput  bool       `json:"no_output_flag"`
	NoInput   bool       `json:"no_input_flag"`
	ExtraArgs []string   `json:"extra_args"`
}

type fstat struct {
	Exists bool   `json:"exists"`
	IsDir  bool   `json:"is_dir"`
	Hash   string `json:"hash,omitempty"`
	Size   int64  `json:"size"`
	// the path itself (not what it leads to): a symbolic link and its target text
	Link string `json:"link,omitempty"`
}

func statOf(p string) fstat {
	link := ""
	if lst, err := os.Lstat(p); err == nil && lst.Mode()&os.ModeSymlink != 0 {
		t, _ := os.Readlink(p)
		link = "-> " + t
	}
	st, err := os.Stat(p)
	if err != nil {
		return fstat{Link: link}
	}
	if st.IsDir() {
		return fstat{Exists: true, IsDir: true, Link: link}
	}
	b, err := os.ReadFile(p)
	if err != nil {
		return fstat{Exists: true, Size: st.Size(), Hash: "unreadable", Link: link}
	}
	h := sha256.Sum256(b)
	return fstat{Exists: true, Size: st.Size(), Hash: hex.EncodeToString(h[:]), Link: link}
}

func dumpAny(v any) map[string]any {
	switch x := v.(type) {
	case nil:
		return map[string]any{"t": "nil"}
	case bool:
		return map[string]any{"t": "bool", "b": x}
	case string:
		return map[string]any{"t": "string", "s": x}
	case float64:
		return map[string]any{"t": "float64", "v": strconv.FormatFloat(x, 'f', -1, 64)}
	case float32:
		return map[string]any{"t": "float32", "v": strconv.FormatFloat(float64(x), 'f', -1, 32)}
	}
	rv := reflect.ValueOf(v)
	switch rv.Kind() {
	case reflect.Int, reflect.Int8, reflect.Int16, reflect.Int32, reflect.Int64,
		reflect.Uint, reflect.Uint8, reflect.Uint16, reflect.Uint32, reflect.Uint64:
		if rv.Type().PkgPath() == "" {
			return map[string]any{"t": rv.Kind().String(), "v": fmt.Sprintf("%d", v)}
		}
	}
	return map[string]any{"t": "other", "gotype": fmt.Sprintf("%T", v), "kind": rv.Kind().String()}
}

func dumpAnys(l []any) []any {
	r := make([]any, 0, len(l))
	for _, x := range l {
		r = append(r, dumpAny(x))
	}
	return r
}

func dumpAnyMap(m map[string]any) any {
	if m == nil {
		return nil
	}
	r := map[string]any{}
	for k, v := range m {
		r[k] = dumpAny(v)
	}
	return r
}

func optS(p *string) any {
	if p == nil {
		return nil
	}
	return *p
}
func optB(p *bool) any {
	if p == nil {
		return nil
	}
	return *p
}

func dumpInput(i input.Input) map[string]any {
	var ver any
	if i.Version != nil {
		ver = string(*i.Version)
	}
	svcs := map[string]any{}
	for n, s := range i.Services {
		var calls []any
		for _, c := range s.Calls {
			calls = append(calls, map[string]any{"method": c.Method, "args": dumpAnys(c.Args), "immutable": c.Immutable})
		}
		var tags []any
		for _, t := range s.Tags {
			tags = append(tags, map[string]any{"name": t.Name, "priority": strconv.Itoa(t.Priority)})
		}
		var sc any
		if s.Scope != nil {
			sc = s.Scope.String()
		}
		svcs[n] = map[string]any{
			"getter": optS(s.Getter), "must_getter": optB(s.MustGetter), "type": optS(s.Type), "value": optS(s.Value),
			"constructor": optS(s.Constructor), "args": dumpAnys(s.Args), "calls": calls, "fields": dumpAnyMap(s.Fields),
			"tags": tags, "scope": sc, "todo": optB(s.Todo),
		}
	}
	var decs []any
	for _, d := range i.Decorators {
		decs = append(decs, map[string]any{"tag": d.Tag, "decorator": d.Decorator, "args": dumpAnys(d.Args)})
	}
	var imp, fns any
	if i.Meta.Imports != nil {
		imp = i.Meta.Imports
	}
	if i.Meta.Functions != nil {
		fns = i.Meta.Functions
	}
	var svcsAny any = svcs
	if i.Services == nil {
		svcsAny = nil
	}
	return map[string]any{
		"version": ver,
		"meta": map[string]any{"pkg": optS(i.Meta.Pkg), "container_type": optS(i.Meta.ContainerType),
			"container_constructor": optS(i.Meta.ContainerConstructor), "default_must_getter": optB(i.Meta.DefaultMustGetter),
			"imports": imp, "functions": fns},
		"params":     dumpAnyMap(i.Params),
		"services":   svcsAny,
		"decorators": decs,
	}
}

func dumpArg(a output.Arg) map[string]any {
	return map[string]any{"code": a.Code, "raw": dumpAny(a.Raw), "params": a.DependsOnParams, "services": a.DependsOnServices, "tags": a.DependsOnTags}
}
func dumpArgs(l []output.Arg) []any {
	r := make([]any, 0, len(l))
	for _, a := range l {
		r = append(r, dumpArg(a))
	}
	return r
}

func dumpOutput(o output.Output) map[string]any {
	var ps []any
	for _, p := range o.Params {
		ps = append(ps, map[string]any{"name": p.Name, "code": p.Code, "raw": dumpAny(p.Raw), "depends": p.DependsOn})
	}
	var ss []any
	for _, s := range o.Services {
		var calls []any
		for _, c := range s.Calls {
			calls = append(calls, map[string]any{"method": c.Method, "args": dumpArgs(c.Args), "immutable": c.Immutable})
		}
		var fields []any
		for _, f := range s.Fields {
			fields = append(fields, map[string]any{"name": f.Name, "value": dumpArg(f.Value)})
		}
		var tags []any
		for _, t := range s.Tags {
			tags = append(tags, map[string]any{"name": t.Name, "priority": strconv.Itoa(t.Priority)})
		}
		ss = append(ss, map[string]any{"name": s.Name, "getter": s.Getter, "must_getter": s.MustGetter, "type": s.Type,
			"value": s.Value, "constructor": s.Constructor, "args": dumpArgs(s.Args), "calls": calls, "fields": fields,
			"tags": tags, "scope": int(s.Scope), "todo": s.Todo})
	}
	var ds []any
	for _, d := range o.Decorators {
		ds = append(ds, map[string]any{"tag": d.Tag, "decorator": d.Decorator, "args": dumpArgs(d.Args), "raw": d.Raw})
	}
	return map[string]any{"meta": map[string]any{"pkg": o.Meta.Pkg, "container_type": o.Meta.ContainerType,
		"container_constructor": o.Meta.ContainerConstructor}, "params": ps, "services": ss, "decorators": ds}
}

func errList(err error) []string {
	var r []string
	for _, e := range grouperror.Collection(err) {
		r = append(r, e.Error())
	}
	return r
}

func runOne(tmpbase string, c caseSpec) (res map[string]any) {
	res = map[string]any{"id": c.ID}
	dir, err := os.MkdirTemp(tmpbase, "case")
	if err != nil {
		res["harness_error"] = err.Error()
		return
	}
	defer func() {
		_ = filepath.Walk(dir, func(p string, info os.FileInfo, err error) error {
			if err == nil {
				_ = os.Chmod(p, 0o755)
			}
			return nil
		})
		_ = os.RemoveAll(dir)
	}()
	var chmods []fileSpec
	for _, f := range c.Files {
		p := filepath.Join(dir, f.Path)
		if f.Link != "" {
			_ = os.MkdirAll(filepath.Dir(p), 0o755)
			if err := os.Symlink(f.Link, p); err != nil {
				res["harness_error"] = err.Error()
				return
			}
			continue
		}
		if f.Dir {
			_ = os.MkdirAll(p, 0o755)
		} else {
			_ = os.MkdirAll(filepath.Dir(p), 0o755)
			if err := os.WriteFile(p, []byte(f.Content), 0o644); err != nil {
				res["harness_error"] = err.Error()
				return
			}
		}
		if f.Mode != nil {
			chmods = append(chmods, f)
		}
	}
	for _, f := range chmods {
		_ = os.Chmod(filepath.Join(dir, f.Path), os.FileMode(*f.Mode))
	}
	old, _ := os.Getwd()
	_ = os.Chdir(dir)
	defer func() { _ = os.Chdir(old) }()

	// what the file system says (oracle inputs of the model): glob results and file decoding
	var globs []any
	seen := map[string]bool{}
	filesInfo := map[string]any{}
	for _, p := range c.Patterns {
		g := map[string]any{"pattern": p, "goquoted": strconv.Quote(p)}
		m, err := filepath.Glob(p)
		if err != nil {
			g["err"] = err.Error()
		}
		var ms []any
		for _, x := range m {
			cl := filepath.Clean(x)
			ms = append(ms, map[string]any{"raw": x, "clean": cl})
			if !seen[cl] {
				seen[cl] = true
				fi := map[string]any{}
				b, err := os.ReadFile(cl)
				if err != nil {
					fi["read_err"] = err.Error()
				} else {
					tmp := input.Input{}
					if err := yaml.Unmarshal(b, &tmp); err != nil {
						fi["yaml_err"] = err.Error()
					} else {
						fi["input"] = dumpInput(tmp)
					}
				}
				filesInfo[cl] = fi
			}
		}
		g["matches"] = ms
		globs = append(globs, g)
	}
	res["globs"] = globs
	res["files"] = filesInfo

	// age a pre-existing output file so that a rewrite with identical bytes is still visible
	aged := time.Date(2001, 2, 3, 4, 5, 6, 0, time.UTC)
	if st, err := os.Stat(c.Output); err == nil && !st.IsDir() {
		_ = os.Chtimes(c.Output, aged, aged)
	}
	before := statOf(c.Output)
	res["out_before"] = before

	// the real command
	bc := cmd.NewBuildCmd(c.Version, c.BuildInfo)
	var args []string
	if !c.NoInput {
		for _, p := range c.Patterns {
			args = append(args, "-i", p)
		}
	}
	if !c.NoOutput {
		args = append(args, "-o", c.Output)
	}
	if c.Flags.IgnoreParams {
		args = append(args, "--ignore-missing-params")
	}
	if c.Flags.IgnoreServices {
		args = append(args, "--ignore-missing-services")
	}
	if c.Flags.Quiet {
		args = append(args, "--quiet")
	}
	if c.Flags.Stub {
		args = append(args, "--stub")
	}
	args = append(args, c.ExtraArgs...)
	bc.SetArgs(args)
	var stdout, stderr bytes.Buffer
	bc.SetOut(&stdout)
	bc.SetErr(&stderr)
	func() {
		defer func() {
			if r := recover(); r != nil {
				res["panic"] = fmt.Sprint(r)
			}
		}()
		err := bc.Execute()
		if err != nil {
			res["exit"] = 1
			res["errors"] = errList(err)
		} else {
			res["exit"] = 0
		}
	}()
	res["stdout"] = stdout.String()
	res["stderr"] = stderr.String()
	after := statOf(c.Output)
	res["out_after"] = after
	if st, err := os.Stat(c.Output); err == nil && !st.IsDir() {
		res["out_touched"] = !before.Exists || !st.ModTime().Equal(aged)
	} else {
		res["out_touched"] = false
	}
	if c.KeepOut && after.Exists && !after.IsDir {
		b, _ := os.ReadFile(c.Output)
		res["out_content"] = string(b)
	}

	if c.Dump {
		in, out, errs, imps, fatal := cmd.VerifFrontEnd(c.Version, c.Patterns)
		d := map[string]any{}
		if fatal != nil {
			d["fatal"] = fatal.Error()
		} else {
			d["input"] = dumpInput(in)
			d["output"] = dumpOutput(out)
			d["read_errors"] = errList(errs[1])
			d["compile_errors"] = errList(errs[2])
			var il []any
			for _, i := range imps {
				il = append(il, map[string]any{"alias": i.Alias, "path": i.Path})
			}
			d["imports"] = il
		}
		res["front"] = d
	}
	return
}

func runCases(tmpbase string) {
	_ = os.MkdirAll(tmpbase, 0o755)
	sc := bufio.NewScanner(os.Stdin)
	sc.Buffer(make([]byte, 1<<20), 1<<28)
	w := bufio.NewWriter(os.Stdout)
	defer w.Flush()
	enc := json.NewEncoder(w)
	enc.SetEscapeHTML(false)
	for sc.Scan() {
		line := sc.Bytes()
		if len(bytes.TrimSpace(line)) == 0 {
			continue
		}
		var c caseSpec
		// strict: a misspelt key (a flag the tool would silently not get) is a fault of the harness, not an input
		dec := json.NewDecoder(bytes.NewReader(line))
		dec.DisallowUnknownFields()
		if err := dec.Decode(&c); err != nil {
			_ = enc.Encode(map[string]any{"harness_error": err.Error()})
			continue
		}
		// strings that are not valid UTF-8 arrive as "\uE000HEX:<hex>" (the same marker the answers use)
		for i := range c.Files {
			c.Files[i].Content = unmarkHex(c.Files[i].Content)
			c.Files[i].Path = unmarkHex(c.Files[i].Path)
		}
		for i := range c.Patterns {
			c.Patterns[i] = unmarkHex(c.Patterns[i])
		}
		c.Output = unmarkHex(c.Output)
		// watchdog: a case that does not finish is reported as a hang and ends this process (the goroutine cannot be stopped)
		done := make(chan map[string]any, 1)
		go func() { done <- runOne(tmpbase, c) }()
		select {
		case r := <-done:
			_ = enc.Encode(hexInvalid(r))
		case <-time.After(caseTimeout()):
			_ = enc.Encode(map[string]any{"id": c.ID, "hang": true, "seconds": caseTimeout().Seconds()})
			w.Flush()
			os.Exit(3)
		}
		w.Flush()
	}
}

func unmarkHex(s string) string {
	const pfx = "\uE000HEX:"
	if strings.HasPrefix(s, pfx) {
		if b, err := hex.DecodeString(s[len(pfx):]); err == nil {
			return string(b)
		}
	}
	return s
}

// hexInvalid walks a result and replaces every string that is not valid UTF-8 (keys included) by a marker carrying its bytes in
// hex: encoding/json would silently turn such bytes into U+FFFD.  The harness decodes the marker back to the exact bytes.
func hexInvalid(v any) any {
	mark := func(s string) string {
		if utf8.ValidString(s) {
			return s
		}
		return "\uE000HEX:" + hex.EncodeToString([]byte(s))
	}
	switch x := v.(type) {
	case string:
		return mark(x)
	case []string:
		out := make([]any, len(x))
		for i, e := range x {
			out[i] = mark(e)
		}
		return out
	case []any:
		out := make([]any, len(x))
		for i, e := range x {
			out[i] = hexInvalid(e)
		}
		return out
	case map[string]any:
		out := make(map[string]any, len(x))
		for k, e := range x {
			out[mark(k)] = hexInvalid(e)
		}
		return out
	case map[string]string:
		out := make(map[string]any, len(x))
		for k, e := range x {
			out[mark(k)] = mark(e)
		}
		return out
	}
	return v
}

func caseTimeout() time.Duration {
	if v, err := strconv.Atoi(os.Getenv("GX_CASE_TIMEOUT")); err == nil && v > 0 {
		return time.Duration(v) * time.Second
	}
	return 30 * time.Second
}

// ---------------------------------------------------------------------------------------------- fuzz

// fuzz <tmpbase> <seconds> <seed>: corpus (one JSON string per line) on stdin. Mutates the corpus, runs the real build
// command in-process on every mutant with a watchdog; prints one JSON line per finding and a final summary line.
func fuzz(tmpbase, secs, seed string) {
	dur, _ := strconv.Atoi(secs)
	_ = os.MkdirAll(tmpbase, 0o755)
	sd, _ := strconv.ParseInt(seed, 10, 64)
	rnd := rand.New(rand.NewSource(sd))
	var corpus []string
	sc := bufio.NewScanner(os.Stdin)
	sc.Buffer(make([]byte, 1<<20), 1<<26)
	for sc.Scan() {
		var s string
		if json.Unmarshal(sc.Bytes(), &s) == nil {
			corpus = append(corpus, s)
		}
	}
	dict := []string{"~", "[]", "{}", "[[]]", "{a: {b: {c: [1, {d: 2}]}}}", "!!binary aGVsbG8=", "&anc", "*anc", "<<: *anc", "!!str 5", "!!int \"x\"",
		"2001-12-14t21:59:43.10-05:00", "%" + strings.Repeat("ą", 20) + "%", strings.Repeat("ż", 40), "%env(\"" + strings.Repeat("ŻÓŁĆ", 9) + "\")%", ".inf", "-.inf", ".nan", "0x7fffffffffffffff", "18446744073709551616", "1e400", "%", "%%", "%a%", "%f(%",
		"@", "@@", "!value", "!value &", "!tagged ", "$gontainer", "\"", "'", ": ", "- ", "? ", "|", ">", "#", "\t", "\x00", "\xff\xfe", "\u2028",
		strings.Repeat("a", 5000), strings.Repeat("[", 300), strings.Repeat("{a: ", 200), strings.Repeat("- ", 300), strings.Repeat("%x%", 400),
		"services", "parameters", "meta", "decorators", "version", "arguments", "calls", "fields", "tags", "scope", "todo", "getter", "must_getter"}
	mutate := func(s string) string {
		b := []byte(s)
		n := 1 + rnd.Intn(4)
		for i := 0; i < n; i++ {
			switch rnd.Intn(8) {
			case 0:
				if len(b) > 0 {
					b[rnd.Intn(len(b))] = byte(rnd.Intn(256))
				}
			case 1:
				if len(b) > 0 {
					k := rnd.Intn(len(b))
					b = append(b[:k], b[k+1:]...)
				}
			case 2:
				k := rnd.Intn(len(b) + 1)
				d := dict[rnd.Intn(len(dict))]
				b = append(b[:k], append([]byte(d), b[k:]...)...)
			case 3:
				if len(b) > 2 {
					i0 := rnd.Intn(len(b) - 1)
					i1 := i0 + 1 + rnd.Intn(minInt(len(b)-i0-1, 40))
					b = append(b[:i1], append(append([]byte{}, b[i0:i1]...), b[i1:]...)...)
				}
			case 4:
				// replace a scalar-looking token
				toks := regexp.MustCompile(`[A-Za-z0-9_.@%!$"*&/-]+`).FindAllIndex(b, -1)
				if len(toks) > 0 {
					tk := toks[rnd.Intn(len(toks))]
					d := dict[rnd.Intn(len(dict))]
					b = append(b[:tk[0]], append([]byte(d), b[tk[1]:]...)...)
				}
			case 5:
				o := corpus[rnd.Intn(len(corpus))]
				ls := strings.Split(o, "\n")
				l := ls[rnd.Intn(len(ls))]
				k := rnd.Intn(len(b) + 1)
				b = append(b[:k], append([]byte("\n"+l+"\n"), b[k:]...)...)
			case 6:
				if len(b) > 1 {
					b = b[:rnd.Intn(len(b))]
				}
			case 7:
				if len(b) > 0 {
					k := rnd.Intn(len(b))
					b[k] ^= 1 << uint(rnd.Intn(8))
				}
			}
		}
		return string(b)
	}
	deadline := time.Now().Add(time.Duration(dur) * time.Second)
	enc := json.NewEncoder(os.Stdout)
	enc.SetEscapeHTML(false)
	n, bad := 0, 0
	exits := map[int]int{}
	flagsets := []flags{{}, {Stub: true}, {IgnoreParams: true, IgnoreServices: true}, {Quiet: true}}
	for time.Now().Before(deadline) {
		src := corpus[rnd.Intn(len(corpus))]
		if rnd.Intn(10) > 0 {
			src = mutate(src)
		}
		c := caseSpec{ID: strconv.Itoa(n), Files: []fileSpec{{Path: "c.yaml", Content: src}}, Patterns: []string{"*.yaml"}, Output: "o.go",
			Flags: flagsets[rnd.Intn(len(flagsets))], Version: "1.2.3", BuildInfo: "fz"}
		if rnd.Intn(6) == 0 {
			c.Files = append(c.Files, fileSpec{Path: "d.yaml", Content: mutate(corpus[rnd.Intn(len(corpus))])})
		}
		done := make(chan map[string]any, 1)
		go func() { done <- runOne(tmpbase, c) }()
		var res map[string]any
		select {
		case res = <-done:
		case <-time.After(20 * time.Second):
			res = map[string]any{"hang": true}
		}
		n++
		finding := ""
		if res["panic"] != nil {
			finding = "panic"
		} else if res["hang"] != nil {
			finding = "hang"
		} else if res["harness_error"] != nil || res["out_after"] == nil {
			continue
		} else {
			ex, _ := res["exit"].(int)
			exits[ex]++
			after := res["out_after"].(fstat)
			before := res["out_before"].(fstat)
			if ex != 0 && ex != 1 {
				finding = "exit-range"
			} else if ex == 1 && (after != before) {
				finding = "failure-touches-output"
			} else if ex == 0 && (!after.Exists || after.Size == 0) {
				finding = "exit0-no-output"
			}
		}
		if finding != "" {
			bad++
			_ = enc.Encode(map[string]any{"finding": finding, "detail": fmt.Sprint(res["panic"]), "case": c})
			if finding == "hang" {
				break // the goroutine is stuck, stop this worker
			}
		}
	}
	_ = enc.Encode(map[string]any{"summary": true, "executions": n, "findings": bad, "exit0": exits[0], "exit1": exits[1]})
}

func minInt(a, b int) int {
	if a < b {
		return a
	}
	return b
}

// ---------------------------------------------------------------------------------------------- format

// formatLines: JSON strings on stdin (one per line) -> the repo's real CodeFormatter (go/format + goimports) -> JSON {"out":..}|{"err":..}
func formatLines() {
	sc := bufio.NewScanner(os.Stdin)
	sc.Buffer(make([]byte, 1<<20), 1<<28)
	w := bufio.NewWriter(os.Stdout)
	defer w.Flush()
	enc := json.NewEncoder(w)
	enc.SetEscapeHTML(false)
	f := tpl.NewCodeFormatter()
	for sc.Scan() {
		var s string
		if err := json.Unmarshal(sc.Bytes(), &s); err != nil {
			_ = enc.Encode(map[string]any{"err": "harness: " + err.Error()})
			continue
		}
		o, err := f.Format(s)
		if err != nil {
			_ = enc.Encode(map[string]any{"err": err.Error()})
		} else {
			_ = enc.Encode(map[string]any{"out": o})
		}
	}
}

// ---------------------------------------------------------------------------------------------- api

// apiLines: JSON strings (Go sources) on stdin -> one JSON object per line describing the exported surface:
// package, build constraints, imports, types, functions and methods with signatures in which every package qualifier
// is replaced by its import path (alias numbering differs between stub and normal output).
func apiLines() {
	sc := bufio.NewScanner(os.Stdin)
	sc.Buffer(make([]byte, 1<<20), 1<<28)
	w := bufio.NewWriter(os.Stdout)
	defer w.Flush()
	enc := json.NewEncoder(w)
	enc.SetEscapeHTML(false)
	for sc.Scan() {
		var src string
		if err := json.Unmarshal(sc.Bytes(), &src); err != nil {
			_ = enc.Encode(map[string]any{"err": err.Error()})
			continue
		}
		fset := token2.NewFileSet()
		f, err := parser.ParseFile(fset, "x.go", src, parser.ParseComments)
		if err != nil {
			_ = enc.Encode(map[string]any{"err": err.Error()})
			continue
		}
		imps := map[string]string{}
		var implist []any
		for _, im := range f.Imports {
			p, _ := strconv.Unquote(im.Path.Value)
			n := ""
			if im.Name != nil {
				n = im.Name.Name
			} else {
				n = p[strings.LastIndex(p, "/")+1:]
			}
			imps[n] = p
			implist = append(implist, map[string]any{"name": n, "path": p})
		}
		render := func(e ast.Expr) string {
			var b bytes.Buffer
			_ = printer.Fprint(&b, fset, e)
			s := b.String()
			// replace qualifiers by import paths
			return regexp.MustCompile(`\b([A-Za-z_][A-Za-z0-9_]*)\.([A-Za-z_])`).ReplaceAllStringFunc(s, func(m string) string {
				i := strings.Index(m, ".")
				if p, ok := imps[m[:i]]; ok {
					return "<" + p + ">." + m[i+1:]
				}
				return m
			})
		}
		fields := func(fl *ast.FieldList, names bool) []string {
			var out []string
			if fl == nil {
				return out
			}
			for _, fd := range fl.List {
				ty := render(fd.Type)
				if len(fd.Names) == 0 {
					out = append(out, ty)
				}
				for _, n := range fd.Names {
					if names {
						out = append(out, n.Name+" "+ty)
					} else {
						out = append(out, ty)
					}
				}
			}
			return out
		}
		var constraints []string
		for _, cg := range f.Comments {
			for _, c := range cg.List {
				if cg.Pos() < f.Package && (strings.HasPrefix(c.Text, "//go:build") || strings.HasPrefix(c.Text, "// +build")) {
					constraints = append(constraints, c.Text)
				}
			}
		}
		var types, funcs, methods []any
		usedQual := map[string]bool{}
		ast.Inspect(f, func(n ast.Node) bool {
			if se, ok := n.(*ast.SelectorExpr); ok {
				if id, ok := se.X.(*ast.Ident); ok {
					if _, isImp := imps[id.Name]; isImp {
						usedQual[imps[id.Name]+"."+se.Sel.Name] = true
					}
				}
			}
			return true
		})
		for _, d := range f.Decls {
			switch x := d.(type) {
			case *ast.GenDecl:
				for _, sp := range x.Specs {
					if ts, ok := sp.(*ast.TypeSpec); ok {
						types = append(types, map[string]any{"name": ts.Name.Name, "type": render(ts.Type)})
					}
				}
			case *ast.FuncDecl:
				body := ""
				if x.Body != nil {
					var b bytes.Buffer
					_ = printer.Fprint(&b, fset, x.Body)
					body = b.String()
				}
				onlyPanic := x.Body != nil && len(x.Body.List) == 1 && strings.HasPrefix(strings.TrimSpace(strings.Trim(strings.TrimSpace(body), "{}")), "panic(")
				ent := map[string]any{"name": x.Name.Name, "params": fields(x.Type.Params, false), "results": fields(x.Type.Results, false), "only_panic": onlyPanic}
				if x.Recv != nil {
					ent["recv"] = fields(x.Recv, false)
					methods = append(methods, ent)
				} else {
					funcs = append(funcs, ent)
				}
			}
		}
		var uq []string
		for k := range usedQual {
			uq = append(uq, k)
		}
		sort.Strings(uq)
		_ = enc.Encode(map[string]any{"package": f.Name.Name, "constraints": constraints, "imports": implist, "types": types, "funcs": funcs, "methods": methods, "qualified_uses": uq})
	}
}

// ---------------------------------------------------------------------------------------------- quote

func quoteLines() {
	sc := bufio.NewScanner(os.Stdin)
	sc.Buffer(make([]byte, 1<<20), 1<<26)
	w := bufio.NewWriter(os.Stdout)
	defer w.Flush()
	for sc.Scan() {
		b, err := hex.DecodeString(strings.TrimSpace(sc.Text()))
		if err != nil {
			fmt.Fprintln(w, "ERR")
			continue
		}
		s := string(b)
		q := fmt.Sprintf("%+q", s)
		e := exporter.MustExport(s)
		u, uerr := strconv.Unquote(q)
		ok := uerr == nil && u == s
		cs, _ := exporter.CastToString(s)
		fmt.Fprintf(w, "%s %s %v %s\n", hex.EncodeToString([]byte(q)), hex.EncodeToString([]byte(e)), ok, hex.EncodeToString([]byte(cs)))
	}
}
