// sitestool <repo-dir>: inventory of the constructs the determinism (C08) and totality (C12) arguments depend on, over the
// non-test, non-generated Go sources of the repository (type-checked with go/packages):
//   map-range   every `for ... range m` whose operand is a map
//   ambient     calls that read something other than the inputs (time, rand, environment, host, cwd, pid, goroutines, select)
//   panic-site  explicit panic(...), one-value type assertions, MustXxx calls, and slice/index expressions on strings and slices
//               whose bounds are not constants (each must be guarded by the surrounding code)
// Output: JSON list of {kind, pkg, func, text, hash}; identity of a site = (kind, pkg, func, hash of its normalised source text).
package main

import (
	"bytes"
	"crypto/sha256"
	"encoding/json"
	"fmt"
	"go/ast"
	"go/printer"
	"go/token"
	"go/types"
	"os"
	"sort"
	"strings"

	"golang.org/x/tools/go/packages"
)

type site struct {
	Kind string `json:"kind"`
	Pkg  string `json:"pkg"`
	Func string `json:"func"`
	Text string `json:"text"`
	Hash string `json:"hash"`
}

func src(fset *token.FileSet, n ast.Node) string {
	var b bytes.Buffer
	_ = printer.Fprint(&b, fset, n)
	return strings.Join(strings.Fields(b.String()), " ")
}

var ambient = map[string]bool{
	"time.Now": true, "time.Since": true, "time.Until": true, "os.Getenv": true, "os.LookupEnv": true, "os.Environ": true, "os.Hostname": true,
	"os.Getwd": true, "os.Getpid": true, "os.Getuid": true, "os.UserHomeDir": true, "os.TempDir": true, "os.Executable": true,
	"runtime.NumCPU": true, "runtime.GOMAXPROCS": true, "runtime.NumGoroutine": true,
}

func main() {
	dir := os.Args[1]
	cfg := &packages.Config{Mode: packages.NeedName | packages.NeedFiles | packages.NeedSyntax | packages.NeedTypes | packages.NeedTypesInfo | packages.NeedImports | packages.NeedDeps,
		Dir: dir, Tests: false, Env: append(os.Environ(), "GOFLAGS=-mod=mod", "GOPROXY=off", "GOSUMDB=off", "GOTOOLCHAIN=local")}
	pkgs, err := packages.Load(cfg, "./...")
	if err != nil {
		fmt.Fprintln(os.Stderr, err)
		os.Exit(2)
	}
	var out []site
	for _, p := range pkgs {
		if len(p.Errors) > 0 {
			fmt.Fprintln(os.Stderr, "package errors:", p.PkgPath, p.Errors)
			os.Exit(2)
		}
		if strings.Contains(p.PkgPath, "/internal/zzverif") {
			continue
		}
		for _, f := range p.Syntax {
			fname := p.Fset.Position(f.Pos()).Filename
			if strings.HasSuffix(fname, "_test.go") || strings.HasSuffix(fname, "zz_verif_access.go") {
				continue
			}
			generated := false
			for _, cg := range f.Comments {
				if cg.Pos() < f.Package && strings.Contains(cg.Text(), "Code generated") {
					generated = true
				}
			}
			if generated {
				continue
			}
			for _, d := range f.Decls {
				fn := "<init>"
				if fd, ok := d.(*ast.FuncDecl); ok {
					fn = fd.Name.Name
					if fd.Recv != nil && len(fd.Recv.List) == 1 {
						fn = src(p.Fset, fd.Recv.List[0].Type) + "." + fn
					}
				}
				add := func(kind string, n ast.Node) {
					t := src(p.Fset, n)
					if len(t) > 400 {
						t = t[:400]
					}
					h := sha256.Sum256([]byte(t))
					out = append(out, site{kind, strings.TrimPrefix(p.PkgPath, "github.com/gontainer/gontainer"), fn, t, fmt.Sprintf("%x", h[:6])})
				}
				ast.Inspect(d, func(n ast.Node) bool {
					switch x := n.(type) {
					case *ast.RangeStmt:
						if tv, ok := p.TypesInfo.Types[x.X]; ok {
							if _, isMap := tv.Type.Underlying().(*types.Map); isMap {
								add("map-range", x)
							}
						}
					case *ast.GoStmt:
						add("ambient", x)
					case *ast.SelectStmt:
						add("ambient", x)
					case *ast.CallExpr:
						if id, ok := x.Fun.(*ast.Ident); ok && id.Name == "panic" {
							if _, isBuiltin := p.TypesInfo.Uses[id].(*types.Builtin); isBuiltin {
								add("panic-site", x)
							}
						}
						if sel, ok := x.Fun.(*ast.SelectorExpr); ok {
							if pid, ok := sel.X.(*ast.Ident); ok {
								if pn, ok := p.TypesInfo.Uses[pid].(*types.PkgName); ok {
									q := pn.Imported().Name() + "." + sel.Sel.Name
									if ambient[q] || pn.Imported().Path() == "math/rand" || pn.Imported().Path() == "crypto/rand" {
										add("ambient", x)
									}
								}
							}
							if strings.HasPrefix(sel.Sel.Name, "Must") && fn != "<init>" {
								add("panic-site", x)
							}
						}
					case *ast.TypeAssertExpr:
						if x.Type != nil {
							// one-value form panics on mismatch; the two-value form appears as the Rhs of an assignment with 2 Lhs
							add("type-assert", x)
						}
					case *ast.SliceExpr:
						if isSeq(p.TypesInfo, x.X) {
							add("panic-site", x)
						}
					case *ast.IndexExpr:
						if isSeq(p.TypesInfo, x.X) {
							if tv, ok := p.TypesInfo.Types[x.Index]; !ok || tv.Value == nil {
								add("panic-site", x)
							}
						}
					}
					return true
				})
				// two-value type assertions are safe: drop them again
				ast.Inspect(d, func(n ast.Node) bool {
					var rhs []ast.Expr
					var nl int
					switch x := n.(type) {
					case *ast.AssignStmt:
						rhs, nl = x.Rhs, len(x.Lhs)
					case *ast.ValueSpec:
						rhs, nl = x.Values, len(x.Names)
					case *ast.TypeSwitchStmt:
						_ = x
					}
					if nl == 2 && len(rhs) == 1 {
						if ta, ok := rhs[0].(*ast.TypeAssertExpr); ok && ta.Type != nil {
							t := src(p.Fset, ta)
							for i := range out {
								if out[i].Kind == "type-assert" && out[i].Func == fn && out[i].Text == t {
									out[i].Kind = "safe-assert"
									break
								}
							}
						}
					}
					return true
				})
			}
		}
	}
	var res []site
	for _, s := range out {
		if s.Kind == "safe-assert" {
			continue
		}
		if s.Kind == "type-assert" {
			s.Kind = "panic-site"
		}
		res = append(res, s)
	}
	sort.Slice(res, func(i, j int) bool {
		a, b := res[i], res[j]
		return a.Kind+"|"+a.Pkg+"|"+a.Func+"|"+a.Hash < b.Kind+"|"+b.Pkg+"|"+b.Func+"|"+b.Hash
	})
	enc := json.NewEncoder(os.Stdout)
	enc.SetEscapeHTML(false)
	enc.SetIndent("", " ")
	_ = enc.Encode(res)
}

func isSeq(info *types.Info, e ast.Expr) bool {
	tv, ok := info.Types[e]
	if !ok {
		return false
	}
	switch u := tv.Type.Underlying().(type) {
	case *types.Slice:
		return true
	case *types.Basic:
		return u.Info()&types.IsString != 0
	case *types.Array:
		return true
	}
	return false
}
