// Self-describing fixture universe: every Go symbol the generated configurations may name exists here, and every
// object records how it was made (constructor, ordered arguments, fields, calls, decorators) plus a serial number.
package @PKG@

import (
	"fmt"
	"os"
	"runtime"
	"sync/atomic"

	"github.com/gontainer/gontainer-helpers/v3/container"
	gvserial "gv.test/fix/serial"
)

const FixturePkg = "@PATH@"

// Counters of constructor / function invocations (for the concurrency probes).
var Invocations = map[string]*int64{}

// GV_YIELD=1: every counted constructor / function gives up the processor a few times (widens check-then-act windows)
var yield = os.Getenv("GV_YIELD") != ""

func count(name string) {
	// the map is filled at init time only, so concurrent reads are fine
	if c, ok := Invocations[name]; ok {
		atomic.AddInt64(c, 1)
	}
	if yield {
		for i := 0; i < 4; i++ {
			runtime.Gosched()
		}
	}
}

func init() {
	for _, n := range []string{"NewA", "NewB", "MakeC", "Build", "Provide", "New", "GetEnv", "Lookup", "Fn", "Decorate", "Wrap"} {
		var z int64
		Invocations[n] = &z
	}
}

type T struct {
	Origin   string
	Args     []interface{}
	Name     interface{}
	Port     interface{}
	Dep      interface{}
	Zeta     interface{}
	Injected interface{}
	Np       interface{}
	F        interface{}
	Log      []string
	Serial   int64
}

type (
	Srv      = T
	Handler  = T
	Box      = T
	MyStruct = T
)

// named types a plain result is convertible (not assignable) to
type (
	Celsius float64
	Label   string
	Count   int
)

func NewFloat(args ...interface{}) float64 { return 36.6 }
func NewText(args ...interface{}) string  { return "txt" }
func NewInt(args ...interface{}) int       { return 7 }

func mk(origin string, args []interface{}) *T {
	return &T{Origin: FixturePkg + "." + origin, Args: args, Serial: gvserial.Next()}
}

func NewA(args ...interface{}) *T    { count("NewA"); return mk("NewA", args) }
func NewB(args ...interface{}) *T    { count("NewB"); return mk("NewB", args) }
func MakeC(args ...interface{}) *T   { count("MakeC"); return mk("MakeC", args) }
func Build(args ...interface{}) *T   { count("Build"); return mk("Build", args) }
func Provide(args ...interface{}) *T { count("Provide"); return mk("Provide", args) }
func New(args ...interface{}) *T     { count("New"); return mk("New", args) }

// user symbols named like identifiers the generated constructor declares itself
func newService(args ...interface{}) *T      { return mk("newService", args) }
func getParam(args ...interface{}) *T        { return mk("getParam", args) }
func callProvider(args ...interface{}) *T    { return mk("callProvider", args) }
func dependencyValue(args ...interface{}) *T { return mk("dependencyValue", args) }
func getEnv(args ...interface{}) *T          { return mk("getEnv", args) }

// NewFailing is a constructor that always fails.
func NewFailing(args ...interface{}) (*T, error) { return nil, fmt.Errorf("constructor failed on purpose") }

var Value = T{Origin: "@PATH@.Value"}

var GlobalVar = struct{ Field T }{Field: T{Origin: "@PATH@.GlobalVar.Field"}}

func describeArgs(args []interface{}) string { return fmt.Sprint(len(args)) }

// calls (pointer receiver, mutate) and withers (value receiver, return a modified copy)
func (t *T) SetX(args ...interface{}) { t.Log = append(t.Log, "SetX"); t.Args = append(t.Args, append([]interface{}{"<SetX>"}, args...)...) }
func (t *T) Init(args ...interface{}) { t.Log = append(t.Log, "Init"); t.Args = append(t.Args, append([]interface{}{"<Init>"}, args...)...) }
func (t *T) Inject(args ...interface{}) {
	t.Log = append(t.Log, "Inject")
	t.Args = append(t.Args, append([]interface{}{"<Inject>"}, args...)...)
}
func (t T) WithY(args ...interface{}) T {
	t.Log = append(append([]string{}, t.Log...), "WithY")
	t.Args = append(append([]interface{}{}, t.Args...), append([]interface{}{"<WithY>"}, args...)...)
	return t
}

// decorators
func Decorate(p container.DecoratorPayload, args ...interface{}) interface{} {
	count("Decorate")
	return &T{Origin: FixturePkg + ".Decorate", Args: append([]interface{}{p.Tag, p.ServiceID, p.Service}, args...), Serial: gvserial.Next()}
}
func Wrap(p container.DecoratorPayload, args ...interface{}) interface{} {
	count("Wrap")
	return &T{Origin: FixturePkg + ".Wrap", Args: append([]interface{}{p.Tag, p.ServiceID, p.Service}, args...), Serial: gvserial.Next()}
}

// parameter functions
func GetEnv(args ...interface{}) (interface{}, error) { count("GetEnv"); return fmt.Sprintf("%s.GetEnv%v", FixturePkg, args), nil }
func Lookup(args ...interface{}) (interface{}, error) { count("Lookup"); return fmt.Sprintf("%s.Lookup%v", FixturePkg, args), nil }
func Fn(args ...interface{}) (interface{}, error) {
	count("Fn")
	if len(args) > 0 && args[0] == "fail" {
		return nil, fmt.Errorf("Fn failed on purpose")
	}
	return fmt.Sprintf("%s.Fn%v", FixturePkg, args), nil
}
