// Probe: executes a history of container operations on the generated container and prints one canonical JSON line per operation.
package main

import (
	"time"
	"encoding/hex"
	"unicode/utf8"
	"context"
	"encoding/json"
	"fmt"
	"os"
	"math/rand"
	"reflect"
	"sort"
	"strconv"
	"sync"

	"github.com/gontainer/gontainer-helpers/v3/container"
)

type probeOp struct {
	Op     string        `json:"op"`
	Name   string        `json:"name"`
	Ctx    int           `json:"ctx"`
	Value  interface{}   `json:"value"`
	Kind   string        `json:"kind"`
	Origin string        `json:"origin"`
	Args   []interface{} `json:"args"`
}

func describe(v interface{}, root interface{}) interface{} {
	if v == nil {
		return map[string]interface{}{"k": "nil"}
	}
	if v == root {
		return map[string]interface{}{"k": "container"}
	}
	switch x := v.(type) {
	case *T:
		if x == nil {
			return map[string]interface{}{"k": "nil"}
		}
		return describeT(*x, root)
	case T:
		return describeT(x, root)
	case []interface{}:
		items := make([]interface{}, 0, len(x))
		for _, e := range x {
			items = append(items, describe(e, root))
		}
		return map[string]interface{}{"k": "list", "items": items}
	case string:
		if !utf8.ValidString(x) {
			// JSON cannot carry invalid UTF-8: the exact bytes travel in hex
			return map[string]interface{}{"k": "str", "v": x, "hex": hex.EncodeToString([]byte(x))}
		}
		return map[string]interface{}{"k": "str", "v": x}
	case bool:
		return map[string]interface{}{"k": "bool", "v": x}
	case error:
		return map[string]interface{}{"k": "err", "msg": x.Error()}
	}
	rv := reflect.ValueOf(v)
	switch rv.Kind() {
	case reflect.Int, reflect.Int8, reflect.Int16, reflect.Int32, reflect.Int64, reflect.Uint, reflect.Uint8, reflect.Uint16, reflect.Uint32, reflect.Uint64:
		return map[string]interface{}{"k": "num", "t": rv.Kind().String(), "v": fmt.Sprintf("%d", v)}
	case reflect.Float32, reflect.Float64:
		return map[string]interface{}{"k": "num", "t": rv.Kind().String(), "v": strconv.FormatFloat(rv.Float(), 'f', -1, 64)}
	case reflect.String:
		return describe(rv.String(), root) // a named string type
	case reflect.Bool:
		return map[string]interface{}{"k": "bool", "v": rv.Bool()}
	case reflect.Ptr:
		if rv.Type().Elem().Name() == "T" && !rv.IsNil() {
			// a T of another fixture package: same shape
			return describeForeign(rv.Elem(), root)
		}
	case reflect.Struct:
		if rv.Type().Name() == "T" {
			return describeForeign(rv, root)
		}
	}
	if rv.Kind() == reflect.Ptr && rv.Type().Elem().Kind() == reflect.Struct && rv.Type().Elem().NumField() == 1 && rv.Type().Elem().Field(0).Name == "Container" {
		return map[string]interface{}{"k": "container"}
	}
	return map[string]interface{}{"k": "other", "t": fmt.Sprintf("%T", v)}
}

func describeForeign(rv reflect.Value, root interface{}) interface{} {
	get := func(n string) interface{} {
		f := rv.FieldByName(n)
		if !f.IsValid() {
			return nil
		}
		return f.Interface()
	}
	t := T{}
	t.Origin, _ = get("Origin").(string)
	t.Args, _ = get("Args").([]interface{})
	t.Name, t.Port, t.Dep, t.Zeta, t.Injected, t.Np, t.F = get("Name"), get("Port"), get("Dep"), get("Zeta"), get("Injected"), get("Np"), get("F")
	t.Log, _ = get("Log").([]string)
	t.Serial, _ = get("Serial").(int64)
	return describeT(t, root)
}

func describeT(x T, root interface{}) interface{} {
	args := make([]interface{}, 0, len(x.Args))
	for _, a := range x.Args {
		args = append(args, describe(a, root))
	}
	fields := map[string]interface{}{}
	for n, f := range map[string]interface{}{"Name": x.Name, "Port": x.Port, "Dep": x.Dep, "Zeta": x.Zeta, "Injected": x.Injected, "Np": x.Np, "F": x.F} {
		if f != nil {
			fields[n] = describe(f, root)
		}
	}
	log := x.Log
	if log == nil {
		log = []string{}
	}
	return map[string]interface{}{"k": "obj", "origin": x.Origin, "args": args, "fields": fields, "log": log, "serial": x.Serial}
}

func literal(kind string, v interface{}) interface{} {
	switch kind {
	case "int":
		return int(v.(float64))
	case "nil":
		return nil
	}
	return v
}

// concurrent mode: probe <ops.json> concurrent <goroutines> <rounds> <seed> [<contexts>]
// goroutine g works in context g mod <contexts> (default: one context each) and executes the whole (shuffled) history; afterwards the invocation counters and, per goroutine,
// the serial numbers observed per (operation, name) are printed.
func concurrent(ops []probeOp, n, rounds int, seed int64, groups int) {
	c := @CTOR@()
	if groups <= 0 || groups > n {
		groups = n
	}
	ctxs := make([]context.Context, groups)
	cancels := make([]context.CancelFunc, groups)
	for i := range ctxs {
		cx, cancel := context.WithCancel(context.Background())
		defer cancel()
		cancels[i] = cancel
		ctxs[i] = container.ContextWithContainer(cx, c)
	}
	// GV_CANCEL=1: every odd context is cancelled while its goroutines are at work (what they return then is not judged; a data race
	// or a crash is)
	cancelOdd := os.Getenv("GV_CANCEL") != ""
	enc := json.NewEncoder(os.Stdout)
	enc.SetEscapeHTML(false)
	type obsv struct {
		G      int    `json:"g"`
		Op     string `json:"op"`
		Name   string `json:"name"`
		Serial string `json:"serial"`
		Err    bool   `json:"err"`
		// every object reachable from the result (arguments, fields, decorator payloads): "origin#serial"
		Inner []string `json:"inner,omitempty"`
		// address of a pointer result (identity of objects that no counting constructor made)
		Ptr string `json:"ptr,omitempty"`
	}
	var collect func(v interface{}, depth int, acc *[]string)
	collect = func(v interface{}, depth int, acc *[]string) {
		if depth > 12 {
			return
		}
		var t *T
		switch x := v.(type) {
		case *T:
			t = x
		case T:
			t = &x
		case []interface{}:
			for _, e := range x {
				collect(e, depth+1, acc)
			}
			return
		}
		if t == nil {
			return
		}
		*acc = append(*acc, fmt.Sprintf("%s#%d", t.Origin, t.Serial))
		for _, a := range t.Args {
			collect(a, depth+1, acc)
		}
		for _, f := range []interface{}{t.Name, t.Port, t.Dep, t.Zeta, t.Injected, t.Np, t.F} {
			collect(f, depth+1, acc)
		}
	}
	results := make([][]obsv, n)
	keep := make([][]interface{}, n) // every result stays reachable until the end: addresses are identities only among live objects
	start := make(chan struct{})
	var wg sync.WaitGroup
	for g := 0; g < n; g++ {
		wg.Add(1)
		go func(g int) {
			defer wg.Done()
			rnd := rand.New(rand.NewSource(seed*1000 + int64(g)))
			ctx := ctxs[g%groups]
			<-start
			for r := 0; r < rounds; r++ {
				perm := rnd.Perm(len(ops))
				for _, i := range perm {
					o := ops[i]
					var v interface{}
					var err error
					switch o.Op {
					case "get":
						v, err = c.Get(o.Name)
					case "getctx":
						v, err = c.GetInContext(ctx, o.Name)
					case "tagged":
						v, err = c.GetTaggedBy(o.Name)
					case "taggedctx":
						v, err = c.GetTaggedByInContext(ctx, o.Name)
					case "param":
						v, err = c.GetParam(o.Name)
					case "getterctx":
						m := reflect.ValueOf(c).MethodByName(o.Name)
						if m.IsValid() {
							func() {
								defer func() {
									if r := recover(); r != nil {
										err = fmt.Errorf("panic: %v", r)
									}
								}()
								res := m.Call([]reflect.Value{reflect.ValueOf(ctx)})
								v = res[0].Interface()
								if len(res) == 2 && !res[1].IsNil() {
									err = res[1].Interface().(error)
								}
							}()
						}
					case "getter":
						m := reflect.ValueOf(c).MethodByName(o.Name)
						if m.IsValid() {
							res := m.Call(nil)
							v = res[0].Interface()
							if len(res) == 2 && !res[1].IsNil() {
								err = res[1].Interface().(error)
							}
						}
					}
					ser := ""
					if t, ok := v.(*T); ok && t != nil {
						ser = fmt.Sprint(t.Serial)
					} else if t, ok := v.(T); ok {
						ser = fmt.Sprint(t.Serial)
					} else if rv := reflect.ValueOf(v); v != nil && rv.Kind() == reflect.Ptr && !rv.IsNil() && rv.Elem().Kind() == reflect.Struct && rv.Elem().FieldByName("Serial").IsValid() {
						ser = fmt.Sprint(rv.Elem().FieldByName("Serial").Interface())
					}
					var inner []string
					if o.Op == "getctx" || o.Op == "taggedctx" {
						collect(v, 0, &inner)
					}
					keep[g] = append(keep[g], v)
					ptr := ""
					if rv := reflect.ValueOf(v); v != nil && rv.Kind() == reflect.Ptr && !rv.IsNil() {
						ptr = fmt.Sprintf("%p", v)
					}
					results[g] = append(results[g], obsv{G: g, Op: o.Op, Name: o.Name, Serial: ser, Err: err != nil, Inner: inner, Ptr: ptr})
				}
			}
		}(g)
	}
	close(start)
	if cancelOdd {
		for i := 1; i < groups; i += 2 {
			go func(i int) {
				time.Sleep(time.Duration(50+137*i%900) * time.Microsecond)
				cancels[i]()
			}(i)
		}
	}
	wg.Wait()
	defer func() { _ = len(keep) }()
	inv := map[string]int64{}
	for k, p := range Invocations {
		inv[k] = *p
	}
	_ = enc.Encode(map[string]interface{}{"k": "invocations", "v": inv})
	for g := 0; g < n; g++ {
		_ = enc.Encode(map[string]interface{}{"k": "goroutine", "g": g, "ctx": g % groups, "cancelled": cancelOdd && (g%groups)%2 == 1, "obs": results[g]})
	}
}

func main() {
	raw, err := os.ReadFile(os.Args[1])
	if err != nil {
		panic(err)
	}
	var ops []probeOp
	if err := json.Unmarshal(raw, &ops); err != nil {
		panic(err)
	}
	if len(os.Args) > 2 && os.Args[2] == "concurrent" {
		n, _ := strconv.Atoi(os.Args[3])
		rounds, _ := strconv.Atoi(os.Args[4])
		seed, _ := strconv.ParseInt(os.Args[5], 10, 64)
		groups := 0
		if len(os.Args) > 6 {
			groups, _ = strconv.Atoi(os.Args[6])
		}
		concurrent(ops, n, rounds, seed, groups)
		return
	}
	c := @CTOR@()
	ctxs := map[int]context.Context{}
	cancels := []context.CancelFunc{}
	enc := json.NewEncoder(os.Stdout)
	enc.SetEscapeHTML(false)
	emit := func(v interface{}, err error) {
		if err != nil {
			_ = enc.Encode(map[string]interface{}{"k": "err", "msg": err.Error()})
			return
		}
		_ = enc.Encode(describe(v, c))
	}
	ctxOf := func(id int) context.Context {
		if x, ok := ctxs[id]; ok {
			return x
		}
		cx, cancel := context.WithCancel(context.Background())
		cancels = append(cancels, cancel)
		ctxs[id] = container.ContextWithContainer(cx, c)
		return ctxs[id]
	}
	for _, o := range ops {
		func() {
			defer func() {
				if r := recover(); r != nil {
					_ = enc.Encode(map[string]interface{}{"k": "panic", "msg": fmt.Sprint(r)})
				}
			}()
			switch o.Op {
			case "get":
				emit(c.Get(o.Name))
			case "getctx":
				emit(c.GetInContext(ctxOf(o.Ctx), o.Name))
			case "tagged":
				v, err := c.GetTaggedBy(o.Name)
				if err != nil {
					emit(nil, err)
				} else {
					emit(v, nil)
				}
			case "taggedctx":
				v, err := c.GetTaggedByInContext(ctxOf(o.Ctx), o.Name)
				if err != nil {
					emit(nil, err)
				} else {
					emit(v, nil)
				}
			case "param":
				emit(c.GetParam(o.Name))
			case "newctx":
				// a NEW context under this id: the previous one (and its instances) is forgotten
				delete(ctxs, o.Ctx)
				ctxOf(o.Ctx)
				emit(nil, nil)
			case "override_param":
				c.OverrideParam(o.Name, container.NewDependencyValue(literal(o.Kind, o.Value)))
				emit(nil, nil)
			case "override_service":
				s := container.NewService()
				deps := make([]container.Dependency, 0, len(o.Args))
				for _, a := range o.Args {
					m := a.(map[string]interface{})
					deps = append(deps, container.NewDependencyValue(literal(m["kind"].(string), m["value"])))
				}
				var fn interface{} = NewB
				switch o.Origin {
				case "NewA":
					fn = NewA
				case "NewFailing":
					fn = NewFailing
				}
				s.SetConstructor(fn, deps...)
				c.OverrideService(o.Name, s)
				emit(nil, nil)
			case "getter", "getterctx":
				m := reflect.ValueOf(c).MethodByName(o.Name)
				if !m.IsValid() {
					_ = enc.Encode(map[string]interface{}{"k": "nomethod"})
					return
				}
				var in []reflect.Value
				if o.Op == "getterctx" {
					in = append(in, reflect.ValueOf(ctxOf(o.Ctx)))
				}
				res := m.Call(in)
				if len(res) == 2 && !res[1].IsNil() {
					emit(nil, res[1].Interface().(error))
				} else {
					emit(res[0].Interface(), nil)
				}
			case "circular":
				emit(nil, c.CircularDeps())
			case "invocations":
				keys := make([]string, 0)
				for k := range Invocations {
					keys = append(keys, k)
				}
				sort.Strings(keys)
				m := map[string]int64{}
				for _, k := range keys {
					m[k] = *Invocations[k]
				}
				_ = enc.Encode(map[string]interface{}{"k": "invocations", "v": m})
			}
		}()
	}
	for _, cancel := range cancels {
		cancel()
	}
}
