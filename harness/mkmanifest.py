import json
props=[json.loads(l) for l in open('/verif/properties.jsonl')]
T="Coq theorems + regenerated Gen/ tie + model-vs-implementation correspondence + independent spec oracle"
claimed={
"C02":("run-time semantics of generated program ∘ runtime library as an executable model (Runtime/RT.v, Load.v): creation order (constructor args, fields, calls/withers), argument forms, todo/unknown/failing constructors are errors; probes link the real generated package with the real runtime and compare object graphs",T+" + probes against the real runtime"),
"C04":("tagged = exactly the carriers, ordered by priority desc then name; decorators folded in declaration order with the documented payload; probes on dense tag/decorator constellations incl. multi-file configs",T+" + probes against the real runtime"),
"C15":("loading evaluates nothing; todo always errors with the documented message; overrides replace the definition and drop caches so later dependants see them; probe histories over GetParam/Get/OverrideParam/OverrideService",T+" + probes against the real runtime"),
"C20":("partial. Interleaving model of the library's lock/cache protocol (Runtime/Conc.v), proved for every schedule: shared built at most once, contextual at most once per context, context isolation, lock discipline, non-shared never cached (Props/C20.v); the real container under the race detector with invocation counters (search, not proof)",T+" + race-detector runs (search only)"),
"C03":("build-time half proved: chunker partition/shape/parity, escaping round trip; exhaustive strings against the real tool and %+q quoting against Go; run-time evaluation through probes",T),
"C13":("method set = truth table (names, signatures), no collisions, names or defaults; go/parser view of the real output over the full truth table",T+" + real go build"),
"C14":("alias resolution cases (whole segments only), once-only, injective legal local names; import block and qualified identifiers of the real output vs denote_pkg, compiled against self-identifying fixtures",T+" + real go build"),
"C17":("stub parity of names/params/results, panic-only bodies, constraint lines; pairwise go/parser comparison of both modes on the real tool, stubs compiled against types-only packages",T+" + real go build"),
"C19":("computed on regenerated data: wiring of the live tool = wiring declared in the YAML; byte fixpoint over generations on the real tool",T+" + real regeneration"),
"C01":("partial. Theorems on the rendered file (distinct methods, init() interface = method set, import names distinct and legal); the model's rendering piped through the repo's real formatter equals the written bytes; ground truth: go build / gofmt -l / init() of every explored output against the fixture universe",T+" + real go build"),
"C05":("build-time half proved exactly: a scope diagnostic iff a declared-shared service transitively depends (documented relation incl. tags and decorators) on a different declared-contextual one; exhaustive 3-service graphs x scopes x edge kinds against the real tool",T),
"C06":("exactness of both existence rules w.r.t. the references written in the configuration (bridge lemma: recorded dependencies = source references, declared = every param/service incl. todo); position-enumerated cases against the real tool",T),
"C07":("accepted iff the documented dependency relation is acyclic; every on-cycle element shown; no false cycle (cycle enumerator of the library modelled and validated); exhaustive small structures",T),
"C08":("the front end depends on every mapping only through its lookup function (compile_perm, compile_files_perm); fresh-process hashes of the real binary over repeated runs and key permutations",T+" + repeated real runs"),
"C09":("merge algebra (associativity, identities) and the fold characterisation of multi-file merging; byte comparison of multi-file vs single-file reference merge on the real tool",T),
"C10":("run = straight-line pipeline (refinement), exit 0 iff the single write happened, count = numbered list length, non-zero exit has a non-empty well-formed error list ending the report, quiet; fault matrix on the real command with stat+hash of the -o path",T+" + fault enumeration"),
"C11":("every validator regex (regenerated from the live regexps) = documented language for strings of any length via a verified equivalence-certificate checker, independent recognisers, all validators run; exhaustive short strings per position on the real tool",T),
"C12":("partial. The model never reaches a panic site for any decoded input; arbitrary bytes explored by mutation fuzzing and a type-confusion matrix (search, not proof)",T+" + fuzzing (search only)"),
"C16":("flags only narrow: per-rule diagnostics lists are flag-independent, accepted-without-flags implies identical pipeline under any flags; regenerated wiring tie; 4 flag combinations on the real tool",T),
"C18":("gate theorem for all (B,V) strings incl. numeric comparison of canonical decimals; full grid on the real command and linked binaries",T),
}
m={"version":1,
 "setup_cmd":"cd /verif/coq && coq_makefile -f _CoqProject -o Makefile && make -j16",
 "hooks":{"guard":"verif","enable":"none needed: internal packages are reached with `go build -overlay` from /verif/harness/gotools (nothing is written under /repo, no build tag)","baseline_off_cmd":"cd /repo && go test -vet=off -count=1 ./...","source_commits":[],"add_only":True},
 "engines":[{"name":"vcheck","path":"harness/vcheck","serves_properties":sorted(claimed),"kind_free_text":"Coq 8.16 development (coq/, ~28k lines, no axioms) + Go translator/runner built into /repo's module with an overlay (harness/gotools) + Python correspondence driver and spec oracles (harness/vlib, harness/checks)"}],
 "checks":[], "not_applicable":[]}
for p in props:
    pid=p['id']
    if pid in claimed:
        text,tech=claimed[pid]
        m["checks"].append({"property_id":pid,"quick_cmd":"harness/vcheck %s --tier quick"%pid,"thorough_cmd":"harness/vcheck %s --tier thorough"%pid,
          "evidence_file":"evidence/%s.json"%pid,"replay_cmd_template":"harness/vcheck %s --replay {path}"%pid,"engine":"vcheck",
          "level_claimed":{"category":"proof","text":text,"design_ref":"DESIGN.md §5 "+pid},
          "level_note":"trusted: Coq kernel+VM; gxtool translator and Python harness; external libraries (yaml.v3, x/mod/semver, gontainer-helpers, text/template, go/format, goimports, gonum) are modelled and validated by the correspondence runs, not verified",
          "technique":tech})
    else:
        m["not_applicable"].append({"property_id":pid,"reason":"check under construction in this round (model layer / probe not yet committed); it will be claimed once its theorem and correspondence exist"})
json.dump(m,open('/verif/MANIFEST.json','w'),indent=1)
print(len(m["checks"]),"claimed")
