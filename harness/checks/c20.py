"""C20 — the generated container is safe under concurrent use.   (partial: real schedules are sampled, not proved)
theorems: Props/C20.v (interleaving model of the library's get/getParam locking protocol: at-most-once construction of shared services
and parameters, contextual isolation; generated helpers hold no shared mutable state);
search (not proof): the real generated container under `go build -race`, many goroutines with one context each, randomised order,
invocation counters of constructors / parameter functions, instance serials per context."""
import json
import os
import random
import re
import subprocess

from vlib import build, cfggen, gobuild, rt
from . import common

LOCAL_CTORS = ["NewA", "NewB", "MakeC", "Build", "Provide", "New"]


def conc_cfg(r):
    """every shared / contextual service uses its own constructor of the local package, every parameter its own function"""
    ctors = LOCAL_CTORS[:]
    r.shuffle(ctors)
    svcs = {}
    names = []
    scopes = {}
    for i, c in enumerate(ctors[: r.randint(3, 6)]):
        n = "s%d" % i
        sc = r.choice(["shared", "shared", "contextual", None, "non_shared"])
        args = []
        for _ in range(r.randint(0, 3)):
            k = r.random()
            if k < 0.4 and names:
                args.append("@" + r.choice(names))
            elif k < 0.7:
                args.append(r.choice(["%pa%", "%pb% x %pa%", "%pc%", "lit", 7]))
            else:
                args.append("$gontainer")
        sv = {"constructor": c, "arguments": args, "getter": "GetS%d" % i, "type": "*T"}
        if sc:
            sv["scope"] = sc
        if r.random() < 0.4:
            sv["fields"] = {"Name": "%pa%"}
        if r.random() < 0.4:
            sv["calls"] = [["SetX", ["%pb%"]]]
        if r.random() < 0.5:
            sv["tags"] = ["tg"]
        svcs[n] = sv
        names.append(n)
        scopes[n] = (sc, c)
    # contextual / non_shared pointer values: a fresh instance is required per construction
    # one declared-shared service carries a tag of its own with a decorator of its own: the decorator runs once per container
    solo = [n for n, (sc, _) in scopes.items() if sc == "shared"]
    decs = []
    if solo and r.random() < 0.6:
        svcs[solo[0]]["tags"] = (svcs[solo[0]].get("tags") or []) + ["solo"]
        decs = [{"tag": "solo", "decorator": "Wrap", "arguments": ["%pa%"]}]
        scopes["__solo__"] = (solo[0], None)
    # arguments that are evaluated inline on every construction (no parameter cache involved)
    for n in list(svcs):
        if r.random() < 0.3:
            svcs[n]["arguments"] = svcs[n]["arguments"] + [r.choice(["%env(\"GV_UNSET\", \"dflt\")%", "%envInt(\"GV_UNSET\", 7)%", "!value Value"])]
    svcs["val"] = {"value": "&MyStruct{}", "scope": r.choice(["contextual", "non_shared"]), "fields": {"Name": "%pa%"}, "getter": "GetVal", "type": "*T"}
    # services without a constructor (a pointer value, a bare pointer type) in every declared scope: their identity is the address
    svcs["vctx"] = {"value": "&MyStruct{}", "scope": "contextual", "getter": "GetVctx", "type": "*T"}
    svcs["tctx"] = {"type": "*T", "scope": "contextual", "getter": "GetTctx"}
    svcs["tns"] = {"type": "*T", "scope": "non_shared", "getter": "GetTns"}
    svcs["vsh"] = {"value": "&MyStruct{}", "scope": "shared", "getter": "GetVsh", "type": "*T"}
    svcs["vns"] = {"value": "&MyStruct{}", "scope": "non_shared", "getter": "GetVns", "type": "*T"}      # (a bare pointer TYPE yields nil: no identity to observe)
    # repair the scope rule: shared must not depend on contextual -> drop offending references
    ctxl = {n for n, (sc, _) in scopes.items() if sc == "contextual"}
    for n, sv in svcs.items():
        if sv.get("scope") == "shared":
            sv["arguments"] = [a for a in sv.get("arguments", []) if not (isinstance(a, str) and a.startswith("@") and (a[1:] in ctxl or svcs[a[1:]].get("scope") in (None,) and any(isinstance(b, str) and b[1:] in ctxl for b in svcs[a[1:]].get("arguments", []))))]
    cfg = {"meta": {"functions": {"fa": "GetEnv", "fb": "Lookup", "fc": "Fn"}},
           "parameters": {"pa": "%fa(\"a\")%", "pb": "%fb(\"b\")% and %pa%", "pc": "%fc(\"c\")%", "palias": "%pa%", "palias2": "%palias%", "pcalias": "%pc%"},
           "services": svcs}
    if decs:
        cfg["decorators"] = decs
    # whatever the repair above left: a service declared shared that still reaches a contextual one (through a chain of services without a
    # declared scope, a tag, a decorator) loses its declaration (it is then contextual by inference) - the configurations must be accepted
    from vlib import spec as _spec
    for _ in range(8):
        pairs = _spec.output_violations(cfg)[0]
        if not pairs:
            break
        for a_, _b in pairs:
            cfg["services"][a_].pop("scope", None)
            if a_ in scopes:
                scopes[a_] = (None, scopes[a_][1])
    return cfg, scopes


_EFF = {}


def eff_scope(cfg, name):
    """declared scope, or for a service without one: contextual iff it transitively depends (arguments, fields, calls, tags, decorators of
    its tags) on a service declared contextual, shared otherwise"""
    key = (id(cfg), name)
    if key not in _EFF:
        from vlib import spec as _sp
        sv = (cfg.get("services") or {}).get(name) or {}
        sc = sv.get("scope")
        if sc is None and not sv.get("todo"):
            edges = _sp.Deps(cfg).svc_edges()
            sc = "contextual" if any((cfg["services"].get(x) or {}).get("scope") == "contextual" for x in _sp.reach(edges, name) if x != name) else "shared"
        _EFF[key] = sc
    return _EFF[key]


def inferred_cfgs():
    """services WITHOUT a declared scope that are contextual only by inference: through an argument, a field, a call, a tag request, and -
    for a leaf without any argument - only through the decorator of a tag they carry"""
    base = {"meta": {"functions": {"fa": "GetEnv", "fb": "Lookup", "fc": "Fn"}}, "parameters": {"pa": "%fa(\"a\")%", "pb": "%fb(\"b\")%", "pc": "%fc(\"c\")%"}}
    T = {"type": "*T"}
    svcs = {"tx": dict({"constructor": "NewB", "scope": "contextual", "getter": "GetTx", "tags": ["txs"]}, **T),
            "leaf": dict({"constructor": "NewA", "tags": ["dd"], "getter": "GetLeaf"}, **T),                      # no argument at all: contextual through the decorator only
            "viaarg": dict({"constructor": "MakeC", "arguments": ["@tx"], "getter": "GetViaarg"}, **T),
            "viatag": dict({"constructor": "Build", "arguments": ["!tagged txs"], "getter": "GetViatag"}, **T),
            "viafield": dict({"constructor": "Provide", "fields": {"Dep": "@tx"}, "getter": "GetViafield"}, **T),
            "vialeaf": dict({"constructor": "New", "arguments": ["@leaf"], "getter": "GetVialeaf"}, **T),
            "plainleaf": dict({"value": "&MyStruct{}", "getter": "GetPlainleaf"}, **T)}
    cfg = dict(base, services=svcs, decorators=[{"tag": "dd", "decorator": "Decorate", "arguments": ["@tx"]}])
    return [cfg]


def bait_cfgs():
    """shapes the scope rule exists for: a service declared shared that reaches a contextual one only through a tag / a decorator /
    a chain of default-scope services.  The documented build rejects them; whatever the build accepts is run concurrently, and a
    contextual instance seen from two contexts is reported."""
    out = []
    base = {"meta": {"functions": {"fa": "GetEnv", "fb": "Lookup", "fc": "Fn"}}, "parameters": {"pa": "%fa(\"a\")%", "pb": "%fb(\"b\")%", "pc": "%fc(\"c\")%"}}
    tx = {"constructor": "NewB", "scope": "contextual", "getter": "GetTx", "type": "*T"}
    def mk(svcs, decs=None):
        c = json.loads(json.dumps(base))
        c["services"] = svcs
        if decs:
            c["decorators"] = decs
        return c
    out.append(mk({"tx": tx, "repo": {"constructor": "NewA", "scope": "shared", "tags": ["tg"], "getter": "GetRepo", "type": "*T"}},
                  [{"tag": "tg", "decorator": "Decorate", "arguments": ["@tx"]}]))
    out.append(mk({"tx": tx, "repo": {"constructor": "NewA", "scope": "shared", "tags": ["tg"], "getter": "GetRepo", "type": "*T", "fields": {"Name": "%pa%"}}},
                  [{"tag": "tg", "decorator": "Decorate", "arguments": ["@tx"]}]))
    out.append(mk({"tx": dict(tx, tags=["tg"]), "repo": {"constructor": "NewA", "scope": "shared", "arguments": ["!tagged tg"], "getter": "GetRepo", "type": "*T"}}))
    out.append(mk({"tx": tx, "mid": {"constructor": "MakeC", "arguments": ["@tx"], "getter": "GetMid", "type": "*T"},
                   "repo": {"constructor": "NewA", "scope": "shared", "arguments": ["@mid"], "getter": "GetRepo", "type": "*T"}}))
    out.append(mk({"tx": tx, "repo": {"constructor": "NewA", "scope": "shared", "fields": {"Dep": "@tx"}, "getter": "GetRepo", "type": "*T"}}))
    # a parameter / a tag named like the contextual service, referenced just before it
    nm = mk({"tx": tx, "repo": {"constructor": "NewA", "scope": "shared", "arguments": ["%tx%", "@tx"], "getter": "GetRepo", "type": "*T"}})
    nm["parameters"]["tx"] = "plain"
    out.append(nm)
    out.append(mk({"tx": tx, "other": {"constructor": "MakeC", "tags": ["tx"], "getter": "GetOther", "type": "*T"},
                   "repo": {"constructor": "NewA", "scope": "shared", "arguments": ["!tagged tx", "@tx"], "getter": "GetRepo", "type": "*T"}}))
    out.append(mk({"tx": tx, "repo": {"constructor": "NewA", "scope": "shared", "calls": [["SetX", ["@tx"]]], "getter": "GetRepo", "type": "*T"}}))
    return out


def run(tier, seed, replay):
    out, tooldir, env = common.setup("C20", tier, seed)
    common.proof_part(out, env, "C20")
    n = 10 if tier == "quick" else 120
    runs = 3 if tier == "quick" else 25
    specs, metas = [], []
    for k in range(n):
        r = random.Random("%s/c20/%d" % (seed, k))
        cfg, scopes = conc_cfg(r)
        files = [cfg]
        if k % 2:
            # scopes, constructors and arguments live in the base file; a later overlay mentions every service again (adds a tag)
            files = [cfg, {"services": {n: {"tags": ["late"]} for n in cfg["services"]}}]
        sp = common.mk_spec(k, files, keep_out=True)
        sp["cfg"] = cfg
        sp["what"] = ["concurrent" + ("/overlay" if k % 2 else "")]
        specs.append(sp)
        metas.append({a: b for a, b in scopes.items() if a != "__solo__"})
        sp["solo"] = (scopes.get("__solo__") or (None, None))[0]
    for cfg in inferred_cfgs():
        sp = common.mk_spec(len(specs), [cfg], keep_out=True)
        sp["cfg"] = cfg
        sp["what"] = ["inferred-contextual"]
        specs.append(sp)
        metas.append({n: (sv.get("scope"), sv.get("constructor")) for n, sv in cfg["services"].items()})
    nbait = 0
    for cfg in bait_cfgs():
        sp = common.mk_spec(len(specs), [cfg], keep_out=True)
        sp["cfg"] = cfg
        sp["what"] = ["scope-bait"]
        specs.append(sp)
        metas.append({n: (sv.get("scope"), sv.get("constructor")) for n, sv in cfg["services"].items()})
        nbait += 1
    obs = build.gx_run(tooldir, specs)
    common.real_sanity(out, specs, obs, "C20")
    common.correspondence(out, env, specs, obs, "C20 front end")
    hists = []
    for sp in specs:
        cfg = sp["cfg"]
        h = []
        for s in cfg["services"]:
            h += [{"op": "get", "name": s}, {"op": "getctx", "name": s}, {"op": "getter", "name": cfg["services"][s]["getter"]},
                  {"op": "getterctx", "name": cfg["services"][s]["getter"] + "InContext"}]
        h += [{"op": "param", "name": p} for p in cfg["parameters"]] + [{"op": "tagged", "name": "tg"}, {"op": "taggedctx", "name": "tg"}]
        hists.append(h)
    # build with the race detector
    b = gobuild.Batch()
    evals = 0
    dist = {"programs": 0, "runs": 0, "races": 0, "max_shared_ctor_calls": 0, "max_param_fn_calls": 0}
    nontrivial = set()
    samples = []
    try:
        names = {}
        for k, (sp, ob) in enumerate(zip(specs, obs)):
            if ob.get("exit") != 0:
                if sp["what"] == ["scope-bait"]:
                    dist["bait_rejected_as_documented"] = dist.get("bait_rejected_as_documented", 0) + 1
                else:
                    out.broke("harness: C20 configuration rejected", {"errors": ob.get("errors"), "files": sp["files"]})
                continue
            src = ob["out_content"]
            ctor = re.search(r"^func (\w+)\(\) \(rootGontainer \*", src, re.M).group(1)
            b.add("p%04d" % k, src, "main", extra_files={"zz_probe.go": open(rt.PROBE_TPL).read().replace("@CTOR@", ctor)})
            names[k] = "p%04d" % k
        bindir = os.path.join(b.dir, "bin")
        os.makedirs(bindir, exist_ok=True)
        envb = dict(gobuild.GOENV, CGO_ENABLED="1")
        p = subprocess.run(["go", "build", "-race", "-o", bindir + "/", "./gen/..."], cwd=b.dir, env=envb, stdout=subprocess.PIPE, stderr=subprocess.STDOUT, text=True, timeout=1800)
        race_ok = p.returncode == 0
        if not race_ok:
            # no cgo / race runtime available: fall back to a plain build (counters and identity are still checked); the data-race
            # half of the search is then NOT done, which is reported
            out.broke("search:C20 race detector unavailable (go build -race failed)", p.stdout[-1500:])
            p = subprocess.run(["go", "build", "-o", bindir + "/", "./gen/..."], cwd=b.dir, env=gobuild.GOENV, stdout=subprocess.PIPE, stderr=subprocess.STDOUT, text=True, timeout=1800)
        penv = {"PATH": os.environ.get("PATH", ""), "GORACE": "halt_on_error=0"}
        # run all probe processes up front, several at a time (each one is an independent container in its own process)
        from concurrent.futures import ThreadPoolExecutor
        for k, name in names.items():
            json.dump(hists[k], open(os.path.join(b.dir, name + ".ops.json"), "w"))
        jobs = [(k, rr) for k, name in names.items() if os.path.exists(os.path.join(bindir, name)) for rr in range(runs)]

        def _probe(job):
            k, rr = job
            # odd runs: 6 contexts shared by 4 goroutines each, constructors yield the processor; even runs: one context per goroutine
            return job, subprocess.run([os.path.join(bindir, names[k]), os.path.join(b.dir, names[k] + ".ops.json"), "concurrent", "24", "2", str(seed * 100 + rr), "6" if rr % 2 else "24"],
                                       # (every third run: the odd contexts are cancelled while their goroutines work)
                                       env=dict(penv, **dict({"GV_YIELD": "1"} if rr % 2 else {}, **({"GV_CANCEL": "1", "GV_YIELD": "1"} if rr % 3 == 2 else {}))), stdout=subprocess.PIPE, stderr=subprocess.PIPE, text=True, timeout=600)
        with ThreadPoolExecutor(5) as ex:
            probed = dict(ex.map(_probe, jobs))
        for k, name in names.items():
            binp = os.path.join(bindir, name)
            if not os.path.exists(binp):
                out.violation("does-not-compile", "accepted configuration does not build: %s" % p.stdout[-400:], common.slim(specs[k], obs[k]))
                continue
            dist["programs"] += 1
            opsf = os.path.join(b.dir, name + ".ops.json")
            json.dump(hists[k], open(opsf, "w"))
            cfg = specs[k]["cfg"]
            inv = {}
            for rr in range(runs):
                q = probed[(k, rr)]
                dist["runs"] += 1
                evals += 24 * 2 * len(hists[k])
                rep = dict(common.slim(specs[k], obs[k]), history=hists[k], goroutines=24, rounds=2, seed=seed * 100 + rr)
                if "DATA RACE" in q.stderr:
                    dist["races"] += 1
                    out.violation("data-race", "the race detector reports a data race: %s" % q.stderr[q.stderr.index("DATA RACE"):][:600], dict(rep, stderr=q.stderr[-4000:]))
                    break
                if q.returncode != 0:
                    out.violation("concurrent-crash", "concurrent probe exits %d: %s" % (q.returncode, q.stderr[-400:]), dict(rep, stderr=q.stderr[-3000:]))
                    break
                lines = [json.loads(l) for l in q.stdout.splitlines() if l.strip()]
                inv = lines[0]["v"]
                if rr % 3 == 2:
                    # cancellation run: what a cancelled context gets is not judged (nor are the counters: a cancelled build may never happen);
                    # races and crashes were looked for above, the goroutines of live contexts are judged as usual
                    dist["cancel_runs"] = dist.get("cancel_runs", 0) + 1
                    lines = [lines[0]] + [g_ for g_ in lines[1:] if not g_.get("cancelled")]
                    live_failed = sorted({(o["op"], o["name"]) for g_ in lines[1:] for o in g_["obs"] if o.get("err")})
                    if live_failed:
                        out.violation("concurrent-op-fails", "operations in contexts that were NOT cancelled fail while other contexts are being cancelled: %s" % live_failed[:5], rep)
                    continue
                failed = sorted({(o["op"], o["name"]) for g in lines[1:] for o in g["obs"] if o.get("err")})
                if failed:
                    # none of these configurations has a failing constructor, function or reference: sequentially every operation succeeds
                    out.violation("concurrent-op-fails", "operations that cannot fail sequentially return an error under concurrent use: %s" % failed[:5], rep)
                    break
                # shared services: constructor invoked at most once per container
                from vlib import spec as _spec
                _d = _spec.Deps(cfg)
                _edges = _d.svc_edges()
                for s, (sc, ctor) in metas[k].items():
                    uses = sum(1 for s2, (sc2, c2) in metas[k].items() if c2 == ctor)
                    if sc is None and ctor:
                        # no declared scope: contextual iff it transitively depends on a service declared contextual, else shared
                        sc = "contextual" if any((cfg["services"].get(x) or {}).get("scope") == "contextual" for x in _spec.reach(_edges, s)) else "shared"
                    if sc == "shared" and uses == 1:
                        dist["max_shared_ctor_calls"] = max(dist["max_shared_ctor_calls"], inv.get(ctor, 0))
                        if inv.get(ctor, 0) > 1:
                            out.violation("shared-constructed-twice", "shared service %s: its constructor ran %d times under concurrent Get" % (s, inv[ctor]), rep)
                        elif inv.get(ctor, 0) != 1:
                            out.violation("shared-not-constructed", "shared service %s was obtained by every goroutine but its constructor ran %d times" % (s, inv.get(ctor, 0)), rep)
                        # ... and everybody got that one instance, through Get, GetInContext and the getter
                        sers = {o["serial"] for g in lines[1:] for o in g["obs"] if o["op"] in ("get", "getctx") and o["name"] == s} | \
                               {o["serial"] for g in lines[1:] for o in g["obs"] if o["op"] == "getter" and o["name"] == cfg["services"][s]["getter"]}
                        if len(sers) != 1 and specs[k].get("solo") != s:
                            out.violation("shared-identity", "shared service %s: %d different instances were handed out (%s)" % (s, len(sers), sorted(sers)[:5]), rep)
                if specs[k].get("solo"):
                    if inv.get("Wrap", 0) != 1:
                        out.violation("decorator-ran-%s" % ("twice" if inv.get("Wrap", 0) > 1 else "never"), "the decorator of the shared service %s ran %d times" % (specs[k]["solo"], inv.get("Wrap", 0)), rep)
                for fn in ("GetEnv", "Lookup", "Fn"):
                    dist["max_param_fn_calls"] = max(dist["max_param_fn_calls"], inv.get(fn, 0))
                    if inv.get(fn, 0) > 1:
                        out.violation("param-evaluated-twice", "parameter function %s ran %d times: a parameter was evaluated more than once" % (fn, inv[fn]), rep)
                    elif inv.get(fn, 0) != 1:
                        out.violation("param-not-evaluated", "every goroutine read the parameters, but parameter function %s ran %d times" % (fn, inv.get(fn, 0)), rep)
                # contextual services: the instances one goroutine (= one context) sees via getctx are its own
                owner = {}
                # nested instances: an object of a contextual service (identified by its own constructor) reachable from what one
                # context obtained must not be reachable from what another context obtained
                ctx_ctors = {c: s for s, (sc, c) in metas[k].items() if sc == "contextual" and c and sum(1 for _, (_, c2) in metas[k].items() if c2 == c) == 1}
                nested_owner = {}
                for g in lines[1:]:
                    for o in g["obs"]:
                        for item in o.get("inner") or []:
                            origin, _, ser = item.rpartition("#")
                            cname = origin.rsplit(".", 1)[-1]
                            if cname in ctx_ctors:
                                if item in nested_owner and nested_owner[item] != g.get("ctx", g["g"]):
                                    out.violation("contextual-shared-between-contexts", "contextual service %s: instance %s is reachable from objects handed to two different contexts (via %s)" % (ctx_ctors[cname], item, o["name"]), rep)
                                nested_owner[item] = g.get("ctx", g["g"])
                for g in lines[1:]:
                    for o in g["obs"]:
                        if o["op"] == "getctx" and o["serial"] not in ("", "0"):
                            sc = eff_scope(cfg, o["name"])
                            if sc == "contextual":
                                key = (o["name"], o["serial"])
                                if key in owner and owner[key] != g.get("ctx", g["g"]):
                                    out.violation("contextual-shared-between-contexts", "contextual service %s: one instance observed from two different contexts" % o["name"], rep)
                                owner[key] = g.get("ctx", g["g"])
                # objects no constructor made (value / type-only services): identity by address
                addr_ctx, addr_all = {}, {}
                for g in lines[1:]:
                    for o in g["obs"]:
                        sv_ = cfg["services"].get(o["name"]) or {}
                        if o["op"] in ("get", "getctx") and o.get("ptr") and "constructor" not in sv_ and not sv_.get("todo"):
                            sc_ = sv_.get("scope")
                            addr_all.setdefault(o["name"], []).append(o["ptr"])
                            if sc_ == "contextual" and o["op"] == "getctx":
                                addr_ctx.setdefault(o["name"], {}).setdefault(o["ptr"], set()).add(g.get("ctx", g["g"]))
                for nm_, m_ in addr_ctx.items():
                    shared_addr = [a_ for a_, cs in m_.items() if len(cs) > 1]
                    if shared_addr:
                        out.violation("contextual-shared-between-contexts", "contextual service %s (no constructor): the object at %s was handed to %d different contexts" % (nm_, shared_addr[0], len(m_[shared_addr[0]])), rep)
                for nm_, addrs in addr_all.items():
                    sc_ = (cfg["services"].get(nm_) or {}).get("scope")
                    if sc_ == "non_shared" and len(set(addrs)) != len(addrs):
                        out.violation("non-shared-reused", "non_shared service %s (no constructor): an object was handed out twice (%d results, %d distinct addresses)" % (nm_, len(addrs), len(set(addrs))), rep)
                    if sc_ == "shared" and len(set(addrs)) != 1:
                        out.violation("shared-identity", "shared service %s (no constructor): %d different objects were handed out" % (nm_, len(set(addrs))), rep)
                # ... and within one context there is one instance, whichever goroutine of that context asked, in every round
                per_ctx = {}
                for g in lines[1:]:
                    for o in g["obs"]:
                        if o["op"] == "getctx" and eff_scope(cfg, o["name"]) == "contextual" and o["serial"] not in ("", "0"):
                            per_ctx.setdefault((g.get("ctx", g["g"]), o["name"]), set()).add(o["serial"])
                for (cx_, nm_), ss in per_ctx.items():
                    if len(ss) > 1:
                        out.violation("contextual-built-twice-in-one-context", "contextual service %s: context %s was handed %d different instances (%s)" % (nm_, cx_, len(ss), sorted(ss)[:4]), rep)
                nontrivial.add(json.dumps(inv, sort_keys=True))
            if len(samples) < 2:
                samples.append({"config": cfggen.to_yaml(cfg)[:1200], "invocations": inv})
        dist["race_detector"] = race_ok
    finally:
        b.close()
    out.coverage.update({
        "evaluations": evals, "distinct_nontrivial": len(nontrivial), "programs": dist["programs"],
        "rule": "%d accepted configurations (each shared/contextual service with its own constructor, each parameter with its own function, pointer-valued contextual value services) x %d runs of 24 goroutines x 2 rounds over Get / GetInContext / getters / GetParam / GetTaggedBy in per-goroutine random order, built with -race; invocation counters and per-context instance serials; non-trivial = distinct counter vector" % (n, runs),
        "distribution": dist, "samples": samples or [{"note": "none"}],
    })
    out.assumptions = ["partial: schedules of the real runtime are sampled; the race detector only sees races that happen in a sampled schedule",
                       "the locking protocol of the external runtime library is modelled (Runtime/Conc.v), not verified against its source"]
    return out.finish()
