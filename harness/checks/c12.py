"""C12 — total on arbitrary input: no panic, no hang.   (partial)
theorem: Props/C12.v — the model of the command never reaches a panic site, for every decoded input / file-system answer.
tie: model vs real on a schema-aware type-confusion matrix (every position x every YAML node kind), deep nesting and
very long names; search (never claimed as proof): mutation fuzzing of arbitrary bytes through the real command
in-process with a watchdog, and the CLI binary under timeout/ulimit."""
import json
import os
import subprocess
import shutil
import tempfile

from vlib import build, cfggen
from . import common

KINDS = {
    "int": "7", "neg": "-3", "bool": "true", "float": "1.5", "null": "~", "str": "\"txt\"", "empty": "\"\"", "seq": "[1, \"a\"]", "emptyseq": "[]",
    "map": "{k: v}", "emptymap": "{}", "nested": "[[{a: [1]}]]", "ts": "2001-12-14t21:59:43.10-05:00", "bin": "!!binary aGk=",
    "tagstr": "!!str 12", "tagint": "!!int \"12\"", "inf": ".inf", "big": "18446744073709551616", "long": "\"" + "n" * 400 + "\"",
    "alias": "*anc", "pct": "\"%\"", "at": "\"@\"", "bang": "\"!value \"",
    # strings on the boundary of a prefix / suffix / marker rule (a validator that looks one character past them must not fall off the end)
    "sMust": "\"Must\"", "sMus": "\"Mus\"", "sM": "\"M\"", "sInContext": "\"InContext\"", "sMustInContext": "\"MustInContext\"", "sGet": "\"Get\"", "sStar": "\"*\"", "sStar2": "\"**\"",
    "sAmp": "\"&\"", "sBangValue": "\"!value\"", "sBangTagged": "\"!tagged\"", "sBangTaggedSp": "\"!tagged \"", "sDollar": "\"$\"", "sGontainer": "\"$gontainer\"", "sDot": "\".\"", "sQuote": "\"\\\"\"",
    "sQuotes": "\"\\\"\\\"\"", "sQDot": "\"\\\".\\\"\"", "sQDotDot": "\"\\\".\\\".\"", "sTrailDot": "\"a.\"", "sLeadDot": "\".a\"", "sDash": "\"-\"", "sUnder": "\"_\"", "sZero": "\"0\"", "sSpace": "\" \"", "sPct2": "\"%%\"",
    "sPctOpen": "\"%a\"", "sFnOpen": "\"%env(\"", "sFnEmpty": "\"%env()%\"", "sFnNoName": "\"%()%\"", "sSlash": "\"/\"", "sBrace": "\"{}\"", "sAmpBrace": "\"&{}\"", "sPtrDot": "\"*.\"", "sNewline": "\"\\n\"",
    "mbtoken": "\"%" + "ą" * 18 + "%\"", "mbfn": "\"%env(\\\"" + "ŻÓŁĆ_GĘŚLĄ_" * 4 + "\\\")%\"", "mbname": "\"" + "ż" * 40 + "\"", "mbref": "\"@" + "ó" * 20 + "\"",
}

# a configuration exercising every position; @@POS@@ markers are replaced one at a time
TEMPLATE = """\
anchors: &anc [1, 2]
version: @@version@@
meta:
  pkg: @@pkg@@
  container_type: @@ctype@@
  container_constructor: @@cctor@@
  default_must_getter: @@dmg@@
  imports: @@imports@@
  functions: @@functions@@
parameters: @@params@@
services: @@services@@
decorators: @@decorators@@
"""
DEFAULTS = {
    "version": "\"1.2.3\"", "pkg": "main", "ctype": "Gontainer", "cctor": "NewGontainer", "dmg": "false",
    "imports": "{al: \"example.com/lib\"}", "functions": "{fn: \"os.Getenv\"}", "params": "{p: 1, q: \"%p%\"}",
    "services": "{s: @@service@@, t: {value: V}}", "decorators": "[@@decorator@@]",
    "service": "{getter: @@getter@@, must_getter: @@mg@@, type: @@type@@, constructor: @@ctor@@, arguments: @@args@@, calls: @@calls@@, fields: @@fields@@, tags: @@tags@@, scope: @@scope@@, todo: @@todo@@}",
    "getter": "GetS", "mg": "true", "type": "\"*T\"", "ctor": "NewS", "args": "[1, \"@t\", \"%p%\"]", "calls": "[@@call@@]", "fields": "{F: @@fieldv@@}",
    "tags": "[@@tag@@]", "scope": "shared", "todo": "false", "call": "[SetX, @@callargs@@, @@callimm@@]", "callargs": "[1]", "callimm": "true",
    "fieldv": "2", "tag": "{name: @@tagname@@, priority: @@tagprio@@}", "tagname": "tg", "tagprio": "3",
    "decorator": "{tag: @@dtag@@, decorator: @@dfn@@, arguments: @@dargs@@}", "dtag": "tg", "dfn": "Dec", "dargs": "[1]",
    "imports_v": None,
}
EXTRA_POS = {  # positions inside maps/lists addressed by giving the whole container
    "imports": ["{al: @@X@@}", "{@@X@@: \"example.com/lib\"}"],
    "functions": ["{fn: @@X@@}", "{@@X@@: \"os.Getenv\"}"],
    "params": ["{p: @@X@@}", "{@@X@@: 1}"],
    "services": ["{s: @@X@@}", "{@@X@@: {value: V}}"],
    "args": ["[@@X@@]", "[1, @@X@@, 2]"],
    "callargs": ["[@@X@@]"],
    "call": ["[@@X@@]", "[SetX, @@X@@]", "[SetX, [1], @@X@@]"],
    "tag": ["@@X@@"],
}


def expand(text, overrides):
    """replace the @@position@@ markers, an override taking precedence over the default of the same position at every nesting level"""
    for _ in range(12):
        changed = False
        for k in list(DEFAULTS) + [k for k in overrides if k not in DEFAULTS]:
            v = overrides[k] if k in overrides else DEFAULTS[k]
            if v is not None and "@@%s@@" % k in text:
                text = text.replace("@@%s@@" % k, v)
                changed = True
        if not changed:
            break
    return text


def matrix():
    cases = []
    positions = [k for k in DEFAULTS if DEFAULTS[k] is not None]
    for pos in positions:
        for kn, kv in KINDS.items():
            cases.append(("%s=%s" % (pos, kn), expand(TEMPLATE, {pos: kv})))
        for tpl in EXTRA_POS.get(pos, []):
            for kn, kv in KINDS.items():
                cases.append(("%s[%s]=%s" % (pos, tpl, kn), expand(TEMPLATE, {pos: tpl.replace("@@X@@", kv)})))
    deep = "[" * 200 + "]" * 200
    cases.append(("deep-args", expand(TEMPLATE, {"args": deep})))
    cases.append(("deep-param", expand(TEMPLATE, {"params": "{p: %s}" % ("{a: " * 150 + "1" + "}" * 150)})))
    # (a simple key of a flow mapping may not exceed 1024 characters: block style with explicit keys, so that the names reach the validators)
    LN = "n" * 3000
    cases.append(("long-names", "parameters:\n  ? %s\n  : 1\nservices:\n  ? %s\n  : {constructor: N%s, getter: G%s, type: \"*T%s\", tags: [t%s], fields: {F%s: 1}, calls: [[M%s]], arguments: [\"%%%s%%\", \"@%s\"]}\n" % (("x" + LN), ("y" + LN), LN, LN, LN, LN, LN, LN, "x" + LN, "y" + LN)))
    cases.append(("long-names-flow", expand(TEMPLATE, {"params": "{%s: 1}" % ("x" * 3000), "services": "{%s: {value: V}}" % ("y" * 3000)})))
    cases.append(("many-cycles", "services:\n" + "".join("  s%d: {constructor: N, arguments: [%s]}\n" % (i, ", ".join("\"@s%d\"" % j for j in range(6) if j != i)) for i in range(6))))
    # self-referential structures in every namespace (anything that is looked up again after being resolved)
    for nm, imps in [("alias-self", "{lib: \"lib/v2\"}"), ("alias-self-exact", "{lib: \"lib\"}"), ("alias-cycle2", "{app: \"core\", core: \"app\"}"),
                     ("alias-cycle3", "{a: \"b/x\", b: \"c/y\", c: \"a/z\"}"), ("alias-chain", "{a: \"b\", b: \"c\", c: \"d\", d: \"example.com/e\"}"),
                     ("alias-of-path", "{\"example.com\": \"example.com/x\", x: \"example.com/y\"}")]:
        first = imps[1:].split(":")[0].strip("\"")
        cases.append((nm, "meta:\n  imports: %s\n  functions: {fn: \"%s.Fn\"}\nparameters: {p: \"%%fn()%%\"}\nservices:\n  s: {constructor: \"%s.New\", type: \"*%s/sub.T\", arguments: [\"!value %s.V\"]}\n  v: {value: \"%s.Value\"}\ndecorators:\n  - {tag: t, decorator: \"%s.Decorate\"}\n"
                      % (imps, first, first, first, first, first, first)))
    # acyclic graphs with exponentially many paths, long chains and wide fan-out: bounded size, no cycle at all.  Small instances go
    # through the model as well; the big ones ("big:" - the model evaluated inside Coq is too slow for them) through the real command only
    for pre, L, CH, FAN in (("", 6, 40, 60), ("big:", 28, 1500, 1500)):
        lad = "".join("  a%d: {constructor: N, arguments: [\"@a%d\", \"@b%d\"]}\n  b%d: {constructor: N, arguments: [\"@a%d\", \"@b%d\"]}\n" % (i, i + 1, i + 1, i, i + 1, i + 1) for i in range(L))
        cases.append((pre + "ladder-services", "services:\n" + lad + "  a%d: {value: V}\n  b%d: {value: V}\n" % (L, L)))
        cases.append((pre + "ladder-params", "parameters:\n" + "".join("  a%d: \"%%a%d%%%%b%d%%\"\n  b%d: \"%%a%d%% %%b%d%%\"\n" % (i, i + 1, i + 1, i, i + 1, i + 1) for i in range(L)) + "  a%d: 1\n  b%d: x\n" % (L, L)))
        cases.append((pre + "ladder-tagged", "services:\n" + "".join("  a%d: {constructor: N, tags: [t%d], arguments: [\"!tagged t%d\", \"!tagged t%d\"]}\n  b%d: {constructor: N, tags: [t%d], arguments: [\"!tagged t%d\"]}\n" % (i, i, i + 1, i + 1, i, i, i + 1) for i in range(L)) + "  z: {value: V, tags: [t%d]}\n" % L))
        cases.append((pre + "ladder-one-cycle", "services:\n" + lad + "  a%d: {constructor: N, arguments: [\"@a%d\"]}\n  b%d: {value: V}\n" % (L, L, L)))
        cases.append((pre + "chain-services", "services:\n" + "".join("  s%d: {constructor: N, arguments: [\"@s%d\"]}\n" % (i, i + 1) for i in range(CH)) + "  s%d: {value: V}\n" % CH))
        cases.append((pre + "chain-params", "parameters:\n" + "".join("  p%d: \"%%p%d%%\"\n" % (i, i + 1) for i in range(CH)) + "  p%d: 1\n" % CH))
        cases.append((pre + "chain-scopes", "services:\n" + "".join("  s%d: {constructor: N, arguments: [\"@s%d\"]}\n" % (i, i + 1) for i in range(CH // 2)) + "  s%d: {value: V, scope: contextual}\n  top: {constructor: N, scope: shared, arguments: [\"@s0\"]}\n" % (CH // 2)))
        cases.append((pre + "fan-out", "services:\n  hub: {constructor: N, arguments: [%s]}\n" % ", ".join("\"@l%d\"" % i for i in range(FAN)) + "".join("  l%d: {value: V}\n" % i for i in range(FAN))))
        cases.append((pre + "fan-in", "services:\n  leaf: {value: V}\n" + "".join("  u%d: {constructor: N, arguments: [\"@leaf\", \"%%p%%\"]}\n" % i for i in range(FAN)) + "parameters: {p: 1}\n"))
        cases.append((pre + "many-tokens", "parameters:\n  p: \"%s\"\n  q: 1\n" % ("%q% " * (2 * FAN))))
        cases.append((pre + "many-small-cycles", "services:\n" + "".join("  x%d: {constructor: N, arguments: [\"@y%d\"]}\n  y%d: {constructor: N, arguments: [\"@x%d\"]}\n" % (i, i, i, i) for i in range(L + 2))))
    # validators that look a referenced service up again: references that lead nowhere, from every scope
    for sc in ("shared", "contextual", "non_shared"):
        cases.append(("dangling-from-" + sc, "services:\n  a: {constructor: N, scope: %s, arguments: [\"@ghost\", \"@b\"], fields: {F: \"@nope\"}, tags: [t]}\n  b: {constructor: N, arguments: [\"@ghost2\", \"!tagged nobody\", \"%%gone%%\"]}\ndecorators:\n  - {tag: t, decorator: D, arguments: [\"@phantom\", \"%%void%%\"]}\n" % sc))
    cases.append(("param-self", "parameters: {p: \"%p%\"}\n"))
    cases.append(("param-mutual", "parameters: {p: \"%q%\", q: \"x%p%\"}\nservices: {s: {constructor: N, arguments: [\"%p%\"]}}\n"))
    cases.append(("service-self", "services: {s: {constructor: N, arguments: [\"@s\"], tags: [t], fields: {F: \"!tagged t\"}}}\n"))
    cases.append(("decorator-self", "services: {s: {constructor: N, tags: [t]}}\ndecorators:\n  - {tag: t, decorator: D, arguments: [\"@s\", \"!tagged t\"]}\n"))
    cases.append(("function-shadows-builtin", "meta: {functions: {env: \"os.Getenv\", todo: \"os.Getenv\", envInt: \"os.Getenv\"}}\nparameters: {p: \"%env(\\\"A\\\")%%todo()%\"}\n"))
    for n in (9, 10, 11, 99, 100, 101, 1000):
        cases.append(("errors-%d" % n, "parameters:\n" + "".join("  p%d: \"%%nofn%d()%%\"\n" % (i, i) for i in range(n))))
    cases.append(("top-level-seq", "[1, 2]\n"))
    cases.append(("top-level-scalar", "hello\n"))
    cases.append(("empty", ""))
    cases.append(("only-comment", "# nothing\n"))
    for b_ in range(256):
        cases.append(("byte-%02x" % b_, bytes([b_]).decode("utf-8", "surrogateescape")))
    for bs_ in (b"\xef\xbb", b"\xef\xbb\xbf", b"\xef\xbb\xbfparameters: {p: 1}\n", b"\xef\xbb\xbf\xef\xbb\xbf", b"\xff\xfe", b"\xfe\xff", b"\xff\xfep\x00:\x00 \x001\x00", b"\x00\x00\xfe\xff",
                b"\xef\xbbx", b"\xef", b"\xc3", b"\xe2\x82", b"\xf0\x9f\x98", b"\r", b"\r\n", b"\n\n\n", b"\t", b"--", b"---", b"...", b"%", b"%Y", b"&", b"*", b"!", b"|", b">", b"'", b"\"", b"{", b"[", b"?", b":", b"-", b"- ", b"? ", b": "):
        cases.append(("bytes-%s" % bs_.hex()[:16], bs_.decode("utf-8", "surrogateescape")))
    cases.append(("nul-byte", "parameters: {p: \"a\\0b\"}\n"))
    # (bytes that are not UTF-8 travel to the tool exactly: surrogateescape here, a hex marker on the wire)
    cases.append(("invalid-utf8", b"parameters: {p: \"\xff\xfe\"}\n".decode("utf-8", "surrogateescape")))
    cases.append(("invalid-utf8-key", b"parameters: {\"\xc3(\": 1}\nservices: {\"\xe2\x82\": {value: V}}\n".decode("utf-8", "surrogateescape")))
    cases.append(("invalid-utf8-binary", "parameters: {p: !!binary \"//79\"}\nservices: {s: {constructor: N, arguments: [!!binary \"gIE=\"]}}\n"))
    cases.append(("merge-key", "base: &b {value: V}\nservices:\n  s:\n    <<: *b\n    getter: GetS\n"))
    cases.append(("dup-keys", "parameters: {p: 1, p: 2}\n"))
    cases.append(("multi-doc", "parameters: {p: 1}\n---\nparameters: {q: 2}\n"))
    return cases


def run(tier, seed, replay):
    out, tooldir, env = common.setup("C12", tier, seed)
    common.proof_part(out, env, "C12", ties=["Tie/SitesPanicTie.v", "Tie/EnvTie.v"])
    common.sites_report(out, tooldir, ("panic-site",))
    cases = matrix()
    if len(set(t for _, t in cases)) * 10 < len(cases) * 9:
        # (until round h of the seeded changes the overrides of nested positions were silently replaced by their defaults)
        out.broke("harness: the C12 type-confusion matrix is degenerate", "%d cases, %d distinct texts" % (len(cases), len(set(t for _, t in cases))))
    specs = []
    for name, text in cases:
        for fl in (({}, {"stub": True}) if tier == "thorough" else ({},)) + (({"ignore_services": True}, {"ignore_services": True, "ignore_params": True}) if name.startswith("dangling-from-") else ()):
            sp = common.mk_spec(len(specs), [text], flags=dict(fl))
            sp["what"] = [name]
            specs.append(sp)
    # file-system layouts: globs that match directories (first / middle / last / only), empty directories, nested ones, a file named like a directory
    Y = "parameters: {p: 1}\n"
    D = lambda p: {"path": p, "content": "", "dir": True}
    F = lambda p, c=Y: {"path": p, "content": c}
    L = lambda p, target: {"path": p, "content": "", "link": target}
    layouts = [
        ("dirs-last", [F("conf/a.yaml"), D("conf/b.d"), F("conf/c.yaml", "parameters: {q: 2}\n"), D("conf/d.d")], ["conf/*"]),
        ("dirs-first", [D("conf/0.d"), D("conf/1.d"), F("conf/a.yaml")], ["conf/*"]),
        ("dirs-only", [D("conf/a.d"), D("conf/b.d"), D("conf/c.d")], ["conf/*"]),
        ("dirs-only-suffix", [D("conf/a.d"), D("conf/b.d"), F("conf/x.yaml")], ["conf/*.d"]),
        ("dir-single", [D("conf/a.d")], ["conf/*"]),
        ("dirs-between-files", [F("conf/a.yaml"), D("conf/b"), D("conf/c"), D("conf/d"), F("conf/e.yaml", "parameters: {q: 2}\n")], ["conf/*"]),
        ("dirs-two-patterns", [D("x/a.d"), D("y/b.d"), F("x/f.yaml")], ["x/*", "y/*"]),
        ("nested", [F("conf/a/b/c.yaml"), D("conf/a/b/d"), D("conf/a/e")], ["conf/*", "conf/*/*", "conf/*/*/*"]),
        ("dot-and-dotdot", [F("conf/a.yaml")], [".", "..", "conf", "conf/."]),
        ("empty-pattern", [F("conf/a.yaml")], ["", "conf/a.yaml"]),
        ("many-dirs", [D("conf/d%02d" % i) for i in range(40)] + [F("conf/z.yaml")], ["conf/*"]),
        # paths and patterns around and beyond the width of the report's rows (40 .. 300 characters), ASCII and multi-byte
        ("long-path-49", [F("c/" + "a" * 42 + ".yaml")], ["c/*.yaml"]), ("long-path-50", [F("c/" + "a" * 43 + ".yaml")], ["c/*.yaml"]), ("long-path-51", [F("c/" + "a" * 44 + ".yaml")], ["c/*.yaml"]),
        ("long-path-60", [F("c/" + "a" * 53 + ".yaml")], ["c/*.yaml"]), ("long-path-120", [F("c/" + "b" * 113 + ".yaml")], ["c/" + "b" * 113 + ".yaml"]), ("long-path-250", [F("d/" * 20 + "e" * 200 + ".yaml")], ["d/" * 20 + "*.yaml"]),
        ("long-path-multibyte", [F("c/" + "\u00e9" * 60 + ".yaml")], ["c/*.yaml"]), ("long-pattern-no-match", [F("c/a.yaml")], ["c/" + "x" * 300 + "*.yaml", "c/a.yaml"]),
        ("long-path-broken-yaml", [F("c/" + "a" * 70 + ".yaml", "a: [\n")], ["c/*.yaml"]), ("long-output-path", [F("c/a.yaml")], ["c/a.yaml"]),
        # symbolic links: dangling, to itself, in a loop, to a directory, to a file that is matched as well, to a file outside
        ("link-dangling-glob", [F("conf/a.yaml"), L("conf/b.yaml", "nowhere.yaml")], ["conf/*.yaml"]),
        ("link-dangling-literal", [F("conf/a.yaml"), L("conf/b.yaml", "nowhere.yaml")], ["conf/b.yaml"]),
        ("link-dangling-only", [L("conf/b.yaml", "/nonexistent/x.yaml")], ["conf/*.yaml"]),
        ("link-self", [L("conf/c.yaml", "c.yaml")], ["conf/*.yaml"]),
        ("link-loop", [L("conf/c.yaml", "d.yaml"), L("conf/d.yaml", "c.yaml"), F("conf/a.yaml")], ["conf/a.yaml", "conf/c.yaml"]),
        ("link-to-dir", [D("conf/sub"), L("conf/e.yaml", "sub"), F("conf/a.yaml")], ["conf/*.yaml"]),
        ("link-to-matched-file", [F("conf/a.yaml"), L("conf/z.yaml", "a.yaml")], ["conf/*.yaml"]),
        ("link-to-outside", [F("elsewhere/x.yaml", "parameters: {q: 2}\n"), L("conf/l.yaml", "../elsewhere/x.yaml")], ["conf/*.yaml"]),
        ("link-dir-in-glob", [F("real/a.yaml"), L("conf", "real")], ["conf/*.yaml"]),
        ("output-is-dangling-link", [F("conf/a.yaml"), L("out.go", "nowhere/gen.go")], ["conf/*.yaml"]),
        ("output-is-link-to-file", [F("conf/a.yaml"), F("target.go", "OLD\n"), L("out.go", "target.go")], ["conf/*.yaml"]),
    ]
    for name, files, pats in layouts:
        sp = common.mk_spec(len(specs), files, patterns=pats)
        sp["what"] = ["layout:" + name]
        specs.append(sp)
    # type confusion across files: a later file gives a position another node kind than the earlier file did (merging meets both)
    import itertools as _it
    for pos in ("pkg", "imports", "functions", "params", "services", "decorators", "service", "args", "calls", "fields", "tags", "scope", "getter", "dmg", "version"):
        for kn in ("int", "null", "seq", "map", "emptymap", "str", "alias", "nested"):
            for order in (0, 1):
                # (the second file carries another tag and decorator: both files with the same tag would stop every case at "duplicate tag")
                pair = [expand(TEMPLATE, {}), expand(TEMPLATE, dict({"tagname": "tg2", "dtag": "tg2"}, **{pos: KINDS[kn]}))]
                sp = common.mk_spec(len(specs), pair[::-1] if order else pair)
                sp["what"] = ["two-files:%s=%s/%d" % (pos, kn, order)]
                specs.append(sp)
    # pairs of positions set to null / left out together
    ABSENT = "@@ABSENT@@"
    for p1, p2 in _it.combinations(["pkg", "imports", "functions", "params", "services", "decorators", "version", "dmg"], 2):
        for v1, v2 in (("~", "~"), ("~", ABSENT), (ABSENT, ABSENT)):
            text = expand(TEMPLATE, {p1: v1, p2: v2})
            text = "\n".join(l for l in text.split("\n") if ABSENT not in l)
            sp = common.mk_spec(len(specs), [text])
            sp["what"] = ["pair-null:%s,%s" % (p1, p2)]
            specs.append(sp)
    for p1, p2 in _it.combinations(["getter", "mg", "type", "ctor", "args", "calls", "fields", "tags", "scope", "todo"], 2):
        text = expand(TEMPLATE, {p1: "~", p2: "~"})
        sp = common.mk_spec(len(specs), [text])
        sp["what"] = ["pair-null-service:%s,%s" % (p1, p2)]
        specs.append(sp)
    # every subset of the boolean flags, repeated flags and explicit values, on an accepted, a rejected and an unparsable configuration,
    # with and without something at the output path
    FLG = ["--quiet", "--stub", "--ignore-missing-params", "--ignore-missing-services"]
    texts = [("ok", expand(TEMPLATE, {})), ("rejected", expand(TEMPLATE, {"args": "[\"%nope%\", \"@nope\"]"})), ("unparsable", "services: [")]
    for (tn, text), k_ in _it.product(texts, range(16)):
        extra = [f for j, f in enumerate(FLG) if k_ >> j & 1]
        for pre in (False, True):
            if pre and k_ % 5:
                continue
            sp = common.mk_spec(len(specs), [text] + ([{"path": "out.go", "content": "OLD\n"}] if pre else []),
                                flags={n_: True for j, n_ in enumerate(["quiet", "stub", "ignore_params", "ignore_services"]) if k_ >> j & 1})
            sp["what"] = ["flags:%s:%s%s" % (tn, "".join(f[2] for f in extra) or "-", "/pre" if pre else "")]
            specs.append(sp)
    for extra in (["--stub", "--stub"], ["--quiet=false", "--quiet"], ["--stub=maybe"], ["--nope"], ["-q"], ["--", "x"], ["--stub=", "--quiet"], ["--ignore-missing-params=2"], ["extra-positional"]):
        sp = common.mk_spec(len(specs), [expand(TEMPLATE, {})], flags={})
        sp["extra_args"] = extra
        sp["what"] = ["argv:" + " ".join(extra)]
        specs.append(sp)
    # glob patterns: metacharacters, escapes, classes, very long and non-UTF-8 patterns
    GL = ["*", "**", "**/*.yaml", "conf/**", "conf/?.yaml", "conf/[a-c].yaml", "conf/[^a].yaml", "conf/[!a].yaml", "conf/[a-].yaml", "conf/[]a].yaml", "conf/[", "conf/]", "conf/\\", "conf/\\*",
          "conf/{a,b}.yaml", "conf/a.yaml/", "/", "//", "conf//a.yaml", "./conf/./a.yaml", "conf/a.yaml/..", "~", "~/x", "$HOME/*", "conf/*.ya?l", "conf/*" * 30, "x" * 5000, "conf/\udcff*", "\x00", "conf/a.yaml\x00b", " ", "conf/ *", "-", "--", "-o"]
    for g_ in GL:
        sp = common.mk_spec(len(specs), [F("conf/a.yaml"), F("conf/b.yaml", "parameters: {q: 2}\n"), F("conf/[.yaml", "parameters: {r: 3}\n")], patterns=[g_])
        sp["what"] = ["glob:" + g_[:40]]
        specs.append(sp)
        sp = common.mk_spec(len(specs), [F("conf/a.yaml")], patterns=["conf/a.yaml", g_])
        sp["what"] = ["glob2:" + g_[:40]]
        specs.append(sp)
    if replay:
        rp = json.load(open(replay))["replay"]
        specs = [dict(rp, id="0", dump=True, build_info="bi")]
    import time as _t
    _t0 = _t.time()
    obs = build.gx_run(tooldir, specs, timeout=900)
    build.log("matrix real %.1fs" % (_t.time() - _t0))
    common.real_sanity(out, specs, obs, "C12")
    small = [k for k, sp in enumerate(specs) if not sp["what"][0].startswith("big:") and not sp.get("extra_args")]   # (the model takes the decoded flags, not an argv)
    common.correspondence(out, env, [specs[k] for k in small], [obs[k] for k in small], "C12 type-confusion matrix")
    # the big instances: expected verdicts (the graphs are acyclic unless the name says otherwise), each within the watchdog's time
    for sp, ob in zip(specs, obs):
        nm = sp["what"][0]
        if nm.startswith("big:") and not ob.get("skipped") and not ob.get("hang") and not ob.get("crashed") and not ob.get("panic"):
            want = 1 if nm.endswith(("one-cycle", "chain-scopes", "small-cycles")) else 0
            if ob.get("exit") != want:
                out.violation("big-instance-verdict:" + nm, "%s: exit %s, expected %d: %s" % (nm, ob.get("exit"), want, (ob.get("errors") or [])[:2]), common.slim(sp, ob))
    kinds = {}
    nontrivial = set()
    for sp, ob in zip(specs, obs):
        if ob.get("skipped"):
            continue
        ex = ob.get("exit")
        if ex not in (0, 1) and not ob.get("panic") and not ob.get("crashed"):
            out.violation("exit-range:" + sp["what"][0], "exit status outside {0,1}", common.slim(sp, ob))
        if ex == 1 and (ob.get("out_after") or {}).get("link") != (ob.get("out_before") or {}).get("link"):
            out.violation("failure-touches-output:" + sp["what"][0], "failing run changed the symbolic link at the output path", common.slim(sp, ob))
        if ex == 1 and ob.get("out_after", {}).get("exists") and not (ob.get("out_before") or {}).get("exists"):
            out.violation("failure-touches-output:" + sp["what"][0], "failing run created the output", common.slim(sp, ob))
        if ex == 1 and (ob.get("out_before") or {}).get("exists") and (ob["out_after"].get("hash"), ob["out_after"].get("size"), ob["out_after"].get("link")) != (ob["out_before"].get("hash"), ob["out_before"].get("size"), ob["out_before"].get("link")):
            out.violation("failure-touches-output:" + sp["what"][0], "failing run changed the existing output file", common.slim(sp, ob))
        cls = "accepted" if ex == 0 else ((ob.get("errors") or ["?"])[0].split(":")[0])
        kinds[cls] = kinds.get(cls, 0) + 1
        nontrivial.add(json.dumps(ob.get("errors"))[:300])
    build.log("matrix done %.1fs" % (_t.time() - _t0))
    # ---- search over arbitrary bytes (not a proof): mutation fuzzing in-process
    secs = 20 if tier == "quick" else 300
    workers = 8 if tier == "quick" else 16
    corpus = [t for _, t in cases[::7]] + [cfggen.to_yaml(sp["cfg"]) for sp in common.random_specs(seed, 30, "c12corpus", inj_rate=0.5)]
    feed = "\n".join(json.dumps(c) for c in corpus) + "\n"
    procs = []
    for wk in range(workers):
        procs.append(subprocess.Popen([os.path.join(tooldir, "gxtool"), "fuzz", "/dev/shm/gvfz_%d_%d" % (os.getpid(), wk), str(secs), str(seed * 1000 + wk)],
                                      stdin=subprocess.PIPE, stdout=subprocess.PIPE, stderr=subprocess.PIPE, text=True, env=build.GOENV))
    execs = 0
    fuzz_dist = {"exit0": 0, "exit1": 0}
    for p in procs:          # start all workers: each reads its corpus until EOF
        p.stdin.write(feed)
        p.stdin.close()
    for wk, p in enumerate(procs):
        try:
            o = p.stdout.read()
            e = p.stderr.read()
            p.wait(timeout=secs + 120)
        except subprocess.TimeoutExpired:
            p.kill()
            out.violation("hang:fuzz-worker", "a fuzz worker did not finish", {"stderr": e[-1000:]})
        shutil.rmtree("/dev/shm/gvfz_%d_%d" % (os.getpid(), wk), ignore_errors=True)
        got_summary = False
        for line in o.splitlines():
            try:
                d = json.loads(line)
            except ValueError:
                continue
            if d.get("summary"):
                got_summary = True
                execs += d["executions"]
                fuzz_dist["exit0"] += d["exit0"]
                fuzz_dist["exit1"] += d["exit1"]
            elif d.get("finding"):
                c = d["case"]
                out.violation("%s:fuzz" % d["finding"], "fuzzing: %s %s" % (d["finding"], d.get("detail", "")[:200]),
                              {"files": c["files"], "patterns": c["patterns"], "output": c["output"], "flags": {k.lower(): v for k, v in (c.get("flags") or {}).items()}, "version": "1.2.3"})
        if not got_summary and p.returncode != 0:
            out.violation("crash:fuzz-worker", "the fuzz worker died (uncaught panic / fatal error): %s" % e[-600:], {"stderr": e[-3000:]})
    build.log("fuzz done %.1fs" % (_t.time() - _t0))
    # ---- the CLI binary itself under a timeout and a memory limit (exit status and stderr as a process)
    nbin = 0
    tmp = tempfile.mkdtemp(prefix="gvc12_", dir="/dev/shm")
    try:
        # every directed case (big graphs, nesting, long names, byte strings, many errors ...) and a stride of the matrix, byte for byte
        directed = [c for c in cases if "=" not in c[0]]
        matrix_cells = [c for c in cases if "=" in c[0]]
        for name, text in directed + (matrix_cells[::29] if tier == "quick" else matrix_cells[::5]):
            cfg = os.path.join(tmp, "c.yaml")
            open(cfg, "wb").write(text.encode("utf-8", "surrogateescape"))
            p = subprocess.run("ulimit -v 4000000; timeout 30 %s build -i %s -o %s" % (os.path.join(tooldir, "gontainer"), cfg, os.path.join(tmp, "o.go")),
                               shell=True, stdout=subprocess.PIPE, stderr=subprocess.PIPE, text=True, errors="replace")
            nbin += 1
            if p.returncode not in (0, 1) or "panic:" in p.stderr or "goroutine " in p.stderr:
                out.violation("cli:" + name, "CLI binary: exit %d, stderr %r" % (p.returncode, p.stderr[-300:]), {"files": [{"path": "c.yaml", "content": text}], "patterns": ["c.yaml"], "output": "o.go", "flags": {}, "version": ""})
    finally:
        shutil.rmtree(tmp, ignore_errors=True)
    build.log("cli done %.1fs" % (_t.time() - _t0))
    out.coverage.update({
        "evaluations": len(specs) + execs + nbin, "distinct_nontrivial": len(nontrivial),
        "rule": "type-confusion matrix: %d positions x %d YAML node kinds (+ container variants, deep nesting, 20k-character names, dense cycles, anchors/merge keys/duplicate keys/multi-doc) compared with the model; + mutation fuzzing of raw bytes (in-process, watchdog 20 s) and the CLI binary under timeout/ulimit; non-trivial = distinct diagnostics lists of the matrix" % (len([k for k in DEFAULTS if DEFAULTS[k]]), len(KINDS)),
        "distribution": {"matrix_by_first_error": kinds, "fuzz": fuzz_dist, "fuzz_executions": execs, "cli_binary_runs": nbin},
        "samples": [{"case": sp["what"][0], "exit": ob.get("exit"), "errors": (ob.get("errors") or [])[:3]} for sp, ob in list(zip(specs, obs))[3::97]][:8],
    })
    out.assumptions = ["partial: the theorem quantifies over decoded YAML values; arbitrary bytes -> yaml.v3 -> values is explored by search only",
                       "hang detection = 20 s watchdog in-process / 30 s timeout for the binary"]
    return out.finish()
