"""C05 — scope semantics and the shared-on-contextual rule.
build-time half: theorems Props/C05.v; tie: model vs real on exhaustive 3-service graphs x scope assignments x edge kinds;
oracle: {(s, s') | s declared shared, s' declared contextual, s depends transitively on s'} computed independently.
run-time half (instance identity over histories of Get / GetInContext): see checks/rt.py (probe against the real runtime)."""
import itertools
import json
import random
import re

from vlib import build, cfggen, graphgen, spec
from . import common

PFX = "output.ValidateServicesScopes: "
SCOPES = [None, "shared", "contextual", "non_shared"]
MSG = re.compile(r'^output\.ValidateServicesScopes: "([^"]*)": service is shared, but dependant "([^"]*)" is contextual$')


def families(tier, seed):
    r = random.Random("%s/c05" % seed)
    out = []
    graphs = [es for es in graphgen.all_digraphs(3, self_loops=False)]   # 64 simple digraphs
    combos = []
    for es in graphs:
        for sc in itertools.product(SCOPES, repeat=3):
            if "shared" in sc and "contextual" in sc:
                combos.append((es, sc))
    r.shuffle(combos)
    for es, sc in combos[: (len(combos) if tier == "thorough" else 250)]:
        out.append(("arg-edges", graphgen.graph_cfg(3, es, scopes=dict(enumerate(sc)))))
    # tag and decorator edges
    tagc = []
    for sc in itertools.product(SCOPES, repeat=3):
        if "shared" not in sc or "contextual" not in sc:
            continue
        for carriers in [(0,), (1,), (2,), (0, 1), (1, 2)]:
            for req in [0, 1, 2]:
                tagc.append(("tag", dict(enumerate(sc)), {"t0": list(carriers)}, {req: ["t0"]}, None, set()))
            for dref in [(0,), (1,), (2,), ()]:
                for dtag in [(), ("t1",)]:
                    for es in [set(), {(0, 1)}, {(1, 2)}, {(2, 0)}]:
                        tagc.append(("decorator", dict(enumerate(sc)), {"t0": list(carriers), "t1": [2]}, None, [("t0", list(dref), list(dtag))], es))
    r.shuffle(tagc)
    if tier != "thorough":
        # stratified: the tag-request tuples are a tenth of the decorator tuples and would all but vanish from a common sample
        tagc = [t for t in tagc if t[0] == "tag"][:120] + [t for t in tagc if t[0] == "decorator"][:230]
    for kind, sc, tc, tr, ds, es in tagc:
        out.append((kind, graphgen.graph_cfg(3, es, tag_carriers=tc, tag_requests=tr, decorators=ds, scopes=sc)))
    # several decorators on different tags, in both declaration orders: the dependencies of one decorator are not those of another
    multi = []
    for sc in itertools.product(SCOPES, repeat=3):
        if "shared" not in sc or "contextual" not in sc:
            continue
        for c0, c1 in itertools.product(range(3), repeat=2):
            for dref in range(3):
                for rev in (False, True):
                    ds = [("t0", [dref], []), ("t1", [], [])]
                    multi.append((dict(enumerate(sc)), {"t0": [c0], "t1": [c1]}, ds[::-1] if rev else ds))
    r.shuffle(multi)
    for sc, tc, ds in multi[: (len(multi) if tier == "thorough" else 200)]:
        out.append(("multi-decorator", graphgen.graph_cfg(3, set(), tag_carriers=tc, decorators=ds, scopes=sc)))
    # todo placeholders keep their declared scope: a shared service reaching a contextual placeholder is rejected like any other
    for sc in itertools.product(SCOPES, repeat=3):
        if "shared" not in sc or "contextual" not in sc:
            continue
        for td in range(3):
            for es in [{(0, 1), (1, 2)}, {(0, 2)}, {(1, 0), (2, 1)}, {(2, 0)}, {(0, 1), (0, 2)}, {(1, 2), (2, 0)}]:
                es2 = {(a, b) for (a, b) in es if a != td}
                out.append(("todo-scoped", graphgen.graph_cfg(3, es2, scopes=dict(enumerate(sc)), todos=(td,))))
    for refs in [["%x%", "@x"], ["!tagged x", "@x"], ["@x", "%x%"], ["%x%", "!tagged x", "@x"], ["%x%"], ["!tagged x"]]:
        for perm in itertools.permutations(refs):
            for where in ("arguments", "decorator", "calls"):
                for carrier_scope in ("contextual", None):
                    svcs = {"a": {"constructor": "NewA", "scope": "shared", "tags": ["deco"]}, "x": {"constructor": "NewA", "scope": "contextual"},
                            "c": dict({"constructor": "NewA", "tags": ["x"]}, **({"scope": carrier_scope} if carrier_scope else {}))}
                    cfg = {"parameters": {"x": "v"}, "services": svcs}
                    if where == "arguments":
                        svcs["a"]["arguments"] = list(perm)
                    elif where == "calls":
                        svcs["a"]["calls"] = [["Init"], ["SetX", list(perm)]]
                    else:
                        cfg["decorators"] = [{"tag": "deco", "decorator": "Decorate", "arguments": list(perm)}]
                    out.append(("namesakes", cfg))
    # a reference to an undeclared service is not a scope matter, wherever it stands among the arguments
    for k in range(60 if tier == "quick" else 1500):
        n = r.randint(3, 5)
        es = {(a, b) for a in range(n) for b in range(n) if a < b and r.random() < 0.4}
        sc = {i: r.choice(["shared", "contextual", None]) for i in range(n)}
        gh = {i: r.choice(["first", "last"]) for i in range(n) if r.random() < 0.5}
        out.append(("undeclared-dep", graphgen.graph_cfg(n, es, scopes=sc, ghosts=gh, order=r.choice(["asc", "desc"]))))
    for k in range(60 if tier == "quick" else 3000):
        n = r.randint(4, 7)
        es = {(a, b) for a in range(n) for b in range(n) if a < b and r.random() < 0.3}   # acyclic
        sc = {i: r.choice(SCOPES) for i in range(n)}
        tc = {"t0": r.sample(range(n), r.randint(0, 2))}
        ds = [("t0", r.sample(range(n), r.randint(0, 1)), [])] if r.random() < 0.5 else None
        out.append(("random", graphgen.graph_cfg(n, es, tag_carriers=tc, decorators=ds, scopes=sc)))
    return out


def run(tier, seed, replay):
    out, tooldir, env = common.setup("C05", tier, seed)
    common.proof_part(out, env, "C05")
    fams = families(tier, seed)
    specs = []
    for k, (fam, cfg) in enumerate(fams):
        files = [cfg]
        if k % 3 == 1 and cfg.get("services"):
            # scopes are declared in the base file; a later overlay mentions every service again without restating its scope
            files = [cfg, {"services": {n: ({"todo": True} if (sv or {}).get("todo") else {"fields": {"Zeta": 1}}) for n, sv in cfg["services"].items()}}]
        sp = common.mk_spec(k, files)
        sp["what"] = [fam]
        sp["cfg"] = cfg
        specs.append(sp)
    if replay:
        rp = json.load(open(replay))["replay"]
        specs = [dict(rp, id="0", dump=True, build_info="bi")]
    obs = build.gx_run(tooldir, specs)
    common.real_sanity(out, specs, obs, "C05")
    common.correspondence(out, env, specs, obs, "C05 scope diagnostics", verdict_claim="a configuration is rejected for scope reasons iff a service declared shared transitively depends on a contextual service")
    dist = {}
    nontrivial = set()
    samples = []
    for sp, ob in zip(specs, obs):
        cfg = sp.get("cfg")
        if cfg is None:
            continue
        fam = sp["what"][0]
        d = spec.Deps(cfg)
        edges = d.svc_edges()
        want = set()
        for a, sv in d.services.items():
            if sv.get("scope") == "shared":
                for b in spec.reach(edges, a):
                    if b != a and (d.services.get(b) or {}).get("scope") == "contextual":
                        want.add((a, b))
        errs = ob.get("errors") or []
        got = set()
        for e in errs:
            if e.startswith(PFX):
                m = MSG.match(e)
                if not m:
                    out.violation("scope-message:" + fam, "unparsable scope diagnostic %r" % e, common.slim(sp, ob))
                else:
                    got.add((m.group(1), m.group(2)))
        rep = dict(common.slim(sp, ob), cfg_text=cfggen.to_yaml(cfg), expected_pairs=sorted(want), reported_pairs=sorted(got))
        key = "%s:%s" % (fam, "conflict" if want else "clean")
        dist[key] = dist.get(key, 0) + 1
        if got != want:
            if want - got:
                out.violation("scope-missed:" + fam, "shared service depending on a contextual one is not reported: %s" % sorted(want - got), rep)
            else:
                out.violation("scope-spurious:" + fam, "rejected for scope reasons without a shared->contextual dependency: %s" % sorted(got - want), rep)
        if want:
            nontrivial.add(json.dumps(sorted(want)) + fam)
            if len(samples) < 4 and len(nontrivial) % 50 == 1:
                samples.append({"family": fam, "config": cfggen.to_yaml(cfg), "pairs": sorted(want)})
    # ---- run-time half: instance identity over histories of Get / GetInContext (same context, different contexts, no context)
    from . import rtcommon
    rs, hs, gs = rtcommon.gen_cases(seed, "c05rt", 30 if tier == "quick" else 500, weights={"scope": 0.9, "todo": 0.0, "failing": 0.0, "decorators": 0.3},
                                    hist_len=14, kinds=["get", "get", "getctx", "getctx", "getctx", "tagged", "taggedctx", "newctx"])
    # directed: services WITHOUT a declared scope that reach a contextual service through every kind of edge (and some that do not)
    imp = {"services": {
        "cx": {"constructor": "NewB", "scope": "contextual", "tags": ["tg"]},
        "ns": {"constructor": "MakeC", "scope": "non_shared"},
        "sh": {"constructor": "NewA", "scope": "shared"},
        "plain": {"constructor": "NewA"},
        "overns": {"constructor": "NewA", "arguments": ["@ns"]},
        "mid": {"constructor": "NewA", "arguments": ["@cx"]},
        "top": {"constructor": "NewA", "arguments": ["@mid", "@sh"]},
        "viafield": {"constructor": "NewA", "fields": {"Dep": "@cx"}},
        "viacall": {"constructor": "NewA", "calls": [["SetX", ["@mid"]]]},
        "viatag": {"constructor": "NewA", "arguments": ["!tagged tg"]},
        "viadeco": {"constructor": "NewA", "tags": ["dd"]},
        "overdeco": {"constructor": "NewA", "arguments": ["@viadeco"]},
        "value": {"value": "&MyStruct{}", "fields": {"Dep": "@cx"}},
    }, "decorators": [{"tag": "dd", "decorator": "Decorate", "arguments": ["@cx"]}]}
    for n_, sv_ in imp["services"].items():
        if "constructor" in sv_:
            sv_.update({"getter": "Get" + n_.capitalize(), "must_getter": True, "type": "*T"})
    import random as _rnd
    for j in range(3 if tier == "quick" else 30):
        rr_ = _rnd.Random("%s/c05imp/%d" % (seed, j))
        h_ = []
        for _ in range(40):
            n_ = rr_.choice(list(imp["services"]))
            h_.append(rr_.choice([{"op": "get", "name": n_}, {"op": "getctx", "ctx": rr_.randint(1, 3), "name": n_}, {"op": "getctx", "ctx": rr_.randint(1, 3), "name": n_}]))
            if "getter" in imp["services"][n_] and rr_.random() < 0.5:
                g_ = imp["services"][n_]["getter"]
                # the generated getters are Get / GetInContext under another name: same instances
                h_.append(rr_.choice([{"op": "getter", "name": g_, "svc": n_}, {"op": "getter", "name": "Must" + g_, "svc": n_},
                                      {"op": "getterctx", "ctx": rr_.randint(1, 3), "name": g_ + "InContext", "svc": n_}, {"op": "getterctx", "ctx": rr_.randint(1, 3), "name": "Must" + g_ + "InContext", "svc": n_}]))
            if rr_.random() < 0.05:
                h_.append({"op": "newctx", "ctx": rr_.randint(1, 3)})
        sp_ = common.mk_spec(len(rs), [imp], keep_out=True)
        sp_["cfg"] = imp
        sp_["what"] = ["c05rt-implicit"]
        rs.append(sp_)
        hs.append(h_)
    robs, rl, ml, acc = rtcommon.run_histories(out, tooldir, env, rs, hs, "C05 instance identity", "C05")
    import re as _re
    ident = {"histories": len(acc), "shared_checked": 0, "nonshared_checked": 0, "contextual_checked": 0}
    for k in acc:
        cfg = rs[k]["cfg"]
        seen = {}
        eff_edges = spec.Deps(cfg).svc_edges()
        for o, line in zip(hs[k], rl[k]):
            if o["op"] == "newctx":
                # a new context under this id: what the old one held says nothing about the new one
                for key in [x for x in seen if isinstance(x, tuple) and x[0] == "cxby"]:
                    seen[key].pop(o["ctx"], None)
                continue
            if o["op"] in ("getter", "getterctx") and o.get("svc") and line.startswith("O("):
                o = {"op": "get" if o["op"] == "getter" else "getctx", "name": o["svc"], "ctx": o.get("ctx")}
            if o["op"] not in ("get", "getctx") or not line.startswith("O("):
                continue
            sv = cfg["services"].get(o["name"]) or {}
            m = _re.search(r";#(\d+)\)$", line)
            if not m or m.group(1) == "0":
                continue
            ser = m.group(1)
            sc = sv.get("scope")
            if sc is None and not sv.get("todo"):
                # no declared scope: contextual iff it transitively depends on a service declared contextual, shared otherwise
                sc = "contextual" if any((cfg["services"].get(x) or {}).get("scope") == "contextual" for x in spec.reach(eff_edges, o["name"]) if x != o["name"]) else "shared"
                ident["implicit_" + sc] = ident.get("implicit_" + sc, 0) + 1
            ctx = o.get("ctx") if o["op"] == "getctx" else None
            if sc == "shared":
                ident["shared_checked"] += 1
                if o["name"] in seen and seen[o["name"]] != ser:
                    out.violation("shared-twice", "service %s is declared shared but two Gets return different instances" % o["name"], dict(common.slim(rs[k], robs[k]), history=hs[k], results=rl[k]))
                seen[o["name"]] = ser
            elif sc == "non_shared":
                ident["nonshared_checked"] += 1
                key = ("ns", o["name"])
                if ser in seen.setdefault(key, set()):
                    out.violation("non-shared-reused", "service %s is declared non_shared but an instance is returned twice" % o["name"], dict(common.slim(rs[k], robs[k]), history=hs[k], results=rl[k]))
                seen[key].add(ser)
            elif sc == "contextual":
                ident["contextual_checked"] += 1
                key = ("cx", o["name"])
                owners = seen.setdefault(key, {})
                if ser in owners and owners[ser] != ("ctx", ctx) or (ctx is None and ser in owners):
                    out.violation("contextual-leak", "contextual service %s: one instance observed from two call trees / contexts" % o["name"], dict(common.slim(rs[k], robs[k]), history=hs[k], results=rl[k]))
                owners[ser] = ("ctx", ctx)
                bykey = seen.setdefault(("cxby", o["name"]), {})
                if ctx is not None:
                    if ctx in bykey and bykey[ctx] != ser:
                        out.violation("contextual-not-reused", "contextual service %s: two instances inside one attached context" % o["name"], dict(common.slim(rs[k], robs[k]), history=hs[k], results=rl[k]))
                    bykey[ctx] = ser
    dist["identity"] = ident
    out.coverage.update({
        "evaluations": len(specs) + sum(len(h) for h in hs), "distinct_nontrivial": len(nontrivial), "exhaustive": tier == "thorough", "programs": len(acc),
        "rule": "all 64 simple digraphs on 3 services x every assignment of {unset, shared, contextual, non_shared} containing a shared and a contextual service; tag-request and decorator edges; random larger acyclic graphs; non-trivial = at least one expected shared->contextual pair",
        "distribution": dist, "samples": samples or [{"note": "none"}],
    })
    out.assumptions = ["run-time instance identity over Get histories is exercised by the probe check (see DESIGN §5 C05), not by this build-time half"]
    return out.finish()
