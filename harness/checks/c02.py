"""C02 — the generated container builds each service exactly as declared.
theorems: Props/C02.v; tie: front-end correspondence + probe: the real generated package linked with the real runtime library and the
self-describing fixture executes Get on every service; the printed object graphs must equal the runtime model's."""
import json
from vlib import cfggen
from . import common, rtcommon


def run(tier, seed, replay):
    out, tooldir, env = common.setup("C02", tier, seed)
    common.proof_part(out, env, "C02")
    n = 40 if tier == "quick" else 600
    specs, hists, gens = rtcommon.gen_cases(seed, "c02", n, weights={"decorators": 0.2, "todo": 0.12, "failing": 0.1}, hist_len=0)
    hists = [[{"op": "get", "name": s} for s in sp["cfg"]["services"]] + [{"op": "get", "name": s} for s in list(sp["cfg"]["services"])[:2]]
             + [o for s in sp["cfg"]["services"] for o in ({"op": "getctx", "ctx": 1, "name": s}, {"op": "get", "name": s}, {"op": "getctx", "ctx": 2, "name": s}, {"op": "getctx", "ctx": 1, "name": s})]
             for sp in specs]
    # the same configurations spread over files: followed by an unrelated file, preceded by one, split at attribute level
    import random as _rnd
    for k, sp in enumerate(specs):
        cfg = sp["cfg"]
        rr_ = _rnd.Random("%s/c02files/%d" % (seed, k))
        if k % 4 == 1:
            sp["files"] = [{"path": "cfg/10.yaml", "content": cfggen.to_yaml(cfg)}, {"path": "cfg/20.yaml", "content": "parameters: {late_extra: 1}\n"}, {"path": "cfg/30.yaml", "content": "meta: {pkg: main}\n"}]
        elif k % 4 == 2:
            sp["files"] = [{"path": "cfg/10.yaml", "content": "parameters: {early_extra: 1}\n"}, {"path": "cfg/20.yaml", "content": cfggen.to_yaml(cfg)}]
        elif k % 4 == 3:
            sp["files"] = [{"path": "cfg/f%d.yaml" % i, "content": cfggen.to_yaml(p_)} for i, p_ in enumerate(cfggen.split_files(rr_, cfg, rr_.randint(2, 4)))]
        if k % 4:
            sp["patterns"] = ["cfg/*.yaml"]
            sp["what"] = [sp["what"][0] + "/files%d" % (k % 4)]
    # pointer-valued value services in every scope with fields and calls: each construction starts from a fresh value
    for sc in ("non_shared", "contextual", "shared", None):
        for val in ("&MyStruct{}", "&al.MyStruct{}", "MyStruct{}"):
            sv = {"value": val, "fields": {"Name": "n"}, "calls": [["SetX", [1]], ["Init", []]]}
            if sc:
                sv["scope"] = sc
            cfg = {"meta": {"imports": {"al": "gv.test/fix/alpha"}}, "services": {"v": sv, "user": {"constructor": "NewA", "arguments": ["@v", "@v"]}}}
            sp = common.mk_spec(len(specs), [cfg], keep_out=True)
            sp["cfg"] = cfg
            sp["what"] = ["c02-value-scope"]
            specs.append(sp)
            hists.append([{"op": "get", "name": "v"}, {"op": "get", "name": "v"}, {"op": "getctx", "ctx": 1, "name": "v"}, {"op": "getctx", "ctx": 1, "name": "v"},
                          {"op": "getctx", "ctx": 2, "name": "v"}, {"op": "get", "name": "user"}, {"op": "get", "name": "v"}])
    # aliases named like packages the generated code imports for itself (function tokens register fmt / os / strconv ...), and aliases of aliases:
    # the declared constructor / value is the one of the package the alias denotes
    for alias, target in (("fmt", "gv.test/fix/alpha"), ("errors", "example.com/lib"), ("os", "example.com/other"), ("strconv", "gv.test/fix/alpha"), ("context", "example.com/lib"), ("reflect", "example.com/other")):
        for with_fn in (False, True):
            cfg = {"meta": {"imports": {alias: target, "std": alias}},
                   "parameters": dict({"plain": 1}, **({"viafn": "%env(\"GV_SET\")%", "viaint": "%envInt(\"GV_INT\")%", "vt": "%todo()%"} if with_fn else {})),
                   "services": {"a": {"constructor": alias + ".NewA", "arguments": ["%plain%"] + (["%viafn%", "%env(\"GV_SET\")%"] if with_fn else [])},
                                "b": {"value": alias + ".Value"}, "c": {"constructor": "NewB", "arguments": ["!value " + alias + ".Value", "@a"], "type": "*" + alias + ".T", "getter": "GetC"},
                                "d": {"value": "&" + alias + ".MyStruct{}", "tags": ["t"]},
                                # a name the shadowed standard package exports too (errors.New): nothing fails to compile if the alias is bypassed
                                "e": {"constructor": alias + ".New", "arguments": ["x"]}},
                   "decorators": [{"tag": "t", "decorator": alias + ".Decorate", "arguments": ["%plain%"]}]}
            sp = common.mk_spec(len(specs), [cfg], keep_out=True)
            sp["cfg"] = cfg
            sp["what"] = ["alias-like-own-import:%s%s" % (alias, "+fn" if with_fn else "")]
            specs.append(sp)
            hists.append([{"op": "get", "name": n_} for n_ in cfg["services"]] + [{"op": "param", "name": p_} for p_ in cfg["parameters"]])
    # patterns whose literal text contains quotes, brackets and escapes around the references (the text is not Go source: nothing in it is special)
    QP = ["say \"%p%\"", "{\"rate\": \"%n%%%\"}", "\"%p%", "%p%\"", "'%n%'", "`%p%`", "(%n%", "a \" b \" c \" %p% %%", "\\\"%p%", "%p%\\", "\"\"\"%n%", "x\ty %p%", "%%p%%", "%%n%%", "%%p%% %p%", "a%%n%%b"]
    for j in range(0, len(QP), 4):
        ch_ = QP[j:j + 4]
        cfg = {"parameters": {"p": "Bob", "n": 5}, "services": {"s": {"constructor": "NewA", "arguments": ch_, "fields": {"Name": ch_[0], "Port": ch_[1]}, "calls": [["SetX", ch_[2:]], ["WithY", [ch_[3]], True]], "tags": ["t"]}},
               "decorators": [{"tag": "t", "decorator": "Decorate", "arguments": ch_}]}
        sp = common.mk_spec(len(specs), [cfg], keep_out=True)
        sp["cfg"] = cfg
        sp["what"] = ["quoted-literal-text"]
        specs.append(sp)
        hists.append([{"op": "get", "name": "s"}])
    if replay:
        rp = json.load(open(replay))["replay"]
        specs = [dict(rp, id="0", dump=True, build_info="bi", keep_out=True)]
        hists = [rp["history"]]
    obs, rl, ml, acc = rtcommon.run_histories(out, tooldir, env, specs, hists, "C02 object graphs", "C02")
    # user functions of the local package named like identifiers the generated constructor declares for itself (known finding F2)
    if not replay:
        ispecs, ihists = [], []
        for nm in ("newService", "getParam", "callProvider", "dependencyValue", "getEnv"):
            cfg = {"services": {"s": {"constructor": nm, "arguments": [1, "x"]}}}
            sp = common.mk_spec(len(ispecs), [cfg], keep_out=True)
            sp["cfg"] = cfg
            sp["what"] = ["template-ident:" + nm]
            ispecs.append(sp)
            ihists.append([{"op": "get", "name": "s"}])
        rtcommon.run_histories(out, tooldir, env, ispecs, ihists, "C02ident constructor named like a local of the generated constructor", "C02")
    nontrivial = set()
    dist = {"accepted": len(acc), "rejected": len(specs) - len(acc), "objects": 0, "errors": 0}
    # ---- independent of the runtime model: what the documentation says each argument form injects, decoded here from the configuration
    # and compared position by position with what the constructor / setters / methods of the fixture received
    from decimal import Decimal
    import math

    def strip(x):
        if isinstance(x, dict):
            return {k_: strip(v) for k_, v in x.items() if k_ != "serial"}
        if isinstance(x, list):
            return [strip(v) for v in x]
        return x

    def expect(a, cfg, got_of):
        """expected probe description of one argument, or None when this oracle does not decide the form"""
        if isinstance(a, cfggen.Raw):
            # a scalar written verbatim: decide it like YAML does (integers first, then floats; anything else is left to the model)
            try:
                a = int(a.text)
            except ValueError:
                try:
                    a = float({".inf": "inf", "-.inf": "-inf", ".nan": "nan"}.get(a.text, a.text))
                except ValueError:
                    return None
            if isinstance(a, int) and not -2 ** 63 <= a < 2 ** 64:
                a = float(a)
        if isinstance(a, bool):
            return {"k": "bool", "v": a}
        if a is None:
            return {"k": "nil"}
        if isinstance(a, int):
            if -2 ** 63 <= a < 2 ** 63:
                return {"k": "num", "t": "int", "v": str(a)}
            return {"k": "num", "t": "uint64", "v": str(a)} if 0 <= a < 2 ** 64 else None
        if isinstance(a, float):
            if not math.isfinite(a):
                return None
            txt = format(Decimal(repr(a)), "f")
            if "." in txt:
                txt = txt.rstrip("0").rstrip(".")
            return {"k": "num", "t": "float64", "v": "-0" if a == 0 and math.copysign(1, a) < 0 else txt}
        if not isinstance(a, str):
            return None
        if a == "$gontainer":
            return {"k": "container"}
        if a.startswith("@"):
            dep = cfg["services"].get(a[1:]) or {}
            g = got_of.get(a[1:])
            if g is None or g.get("k") != "obj" or ("value" in dep and (dep.get("fields") or dep.get("calls"))):
                return None
            return strip(g)
        if a.startswith("!"):
            return None
        if "%" not in a.replace("%%", ""):
            try:
                a.encode("utf-8")
            except UnicodeEncodeError:
                return None
            return {"k": "str", "v": a.replace("%%", "%")}
        return None

    arg_stat = {"services": 0, "positions_checked": 0, "positions_skipped": 0}
    for k in acc:
        cfg = specs[k].get("cfg")
        if cfg is None or "rt_raw" not in obs[k]:
            continue
        raw = obs[k]["rt_raw"]
        got_of = {}
        for j, o in enumerate(hists[k]):
            if o["op"] == "get" and o["name"] not in got_of:
                got_of[o["name"]] = raw[j]
        decorated_tags = {d["tag"] for d in cfg.get("decorators") or []}
        for n_, sv in cfg["services"].items():
            g = got_of.get(n_)
            if not g or g.get("k") != "obj" or "constructor" not in sv or sv.get("todo"):
                continue
            if any((t if isinstance(t, str) else t.get("name")) in decorated_tags for t in sv.get("tags") or []):
                continue
            if g["origin"].rsplit(".", 1)[-1] != sv["constructor"].rsplit(".", 1)[-1]:
                out.violation("created-by-another-method", "service %s is declared with constructor %s, the object was made by %s" % (n_, sv["constructor"], g["origin"]), dict(common.slim(specs[k], obs[k]), history=hists[k]))
                continue
            want = [("arg", a) for a in sv.get("arguments") or []]
            for c in sv.get("calls") or []:
                want.append(("mark", c[0]))
                want += [("arg", a) for a in (c[1] if len(c) > 1 else [])]
            gargs = g["args"]
            arg_stat["services"] += 1
            if len(gargs) != len(want):
                out.violation("argument-count", "service %s: %d values reached its constructor and methods, %d are declared" % (n_, len(gargs), len(want)), dict(common.slim(specs[k], obs[k]), history=hists[k]))
                continue
            for pos, ((kind, a), ga) in enumerate(zip(want, gargs)):
                e = {"k": "str", "v": "<%s>" % a} if kind == "mark" else expect(a, cfg, got_of)
                if e is None or "hex" in ga:
                    arg_stat["positions_skipped"] += 1
                    continue
                arg_stat["positions_checked"] += 1
                if strip(ga) != e:
                    out.violation("argument-injected:%s" % ("call-order" if kind == "mark" else type(a).__name__ if not isinstance(a, str) else ("service" if a.startswith("@") else "container" if a == "$gontainer" else "string")),
                                  "service %s, position %d (%r): the documentation says %s is injected, the fixture received %s" % (n_, pos, a, json.dumps(e)[:200], json.dumps(strip(ga))[:200]),
                                  dict(common.slim(specs[k], obs[k]), history=hists[k]))
                    break
            for fn_, fv in (sv.get("fields") or {}).items():
                e = expect(fv, cfg, got_of)
                gf = (g.get("fields") or {}).get(fn_)
                if e is None or gf is None and e == {"k": "nil"} or (gf or {}).get("hex"):
                    continue
                arg_stat["positions_checked"] += 1
                if gf is None or strip(gf) != e:
                    out.violation("field-assigned", "service %s, field %s (%r): expected %s, the object holds %s" % (n_, fn_, fv, json.dumps(e)[:200], json.dumps(strip(gf))[:200]), dict(common.slim(specs[k], obs[k]), history=hists[k]))
    dist["argument_oracle"] = arg_stat
    for k in acc:
        for l in rl[k]:
            if l.startswith("O("):
                dist["objects"] += 1
                nontrivial.add(l)
            elif l.startswith("E("):
                dist["errors"] += 1
                nontrivial.add(l)
    out.coverage.update({
        "evaluations": sum(len(h) for h in hists), "distinct_nontrivial": len(nontrivial), "programs": len(acc),
        "rule": "random accepted configurations over the fixture universe: creation method (local / aliased / quoted-path constructor, failing constructor, value, todo) x argument forms (typed literals incl. look-alike strings, @service, !tagged, !value, $gontainer, patterns) x fields x calls/withers x scopes x getters; Get on every service; non-trivial = distinct object description / error",
        "distribution": dist, "samples": [{"config": cfggen.to_yaml(specs[k]["cfg"])[:1500], "results": rl[k][:3]} for k in acc[:2]],
    })
    out.assumptions = ["fixture universe: constructors are variadic and record their arguments; conversions of the reflection-based caller/setter/copier are exercised only on always-convertible signatures"]
    return out.finish()
