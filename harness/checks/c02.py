"""C02 — the generated container builds each service exactly as declared.
theorems: Props/C02.v; tie: front-end correspondence + probe: the real generated package linked with the real runtime library and the
self-describing fixture executes Get on every service; the printed object graphs must equal the runtime model's."""
import json
from vlib import cfggen
from . import common, rtcommon


def run(tier, seed, replay):
    out, tooldir, env = common.setup("C02", tier, seed)
    common.proof_part(out, env, "C02")
    n = 40 if tier == "quick" else 600
    specs, hists, gens = rtcommon.gen_cases(seed, "c02", n, weights={"decorators": 0.2, "todo": 0.12, "failing": 0.1}, hist_len=0)
    hists = [[{"op": "get", "name": s} for s in sp["cfg"]["services"]] + [{"op": "get", "name": s} for s in list(sp["cfg"]["services"])[:2]]
             + [o for s in sp["cfg"]["services"] for o in ({"op": "getctx", "ctx": 1, "name": s}, {"op": "get", "name": s}, {"op": "getctx", "ctx": 2, "name": s}, {"op": "getctx", "ctx": 1, "name": s})]
             for sp in specs]
    # pointer-valued value services in every scope with fields and calls: each construction starts from a fresh value
    for sc in ("non_shared", "contextual", "shared", None):
        for val in ("&MyStruct{}", "&al.MyStruct{}", "MyStruct{}"):
            sv = {"value": val, "fields": {"Name": "n"}, "calls": [["SetX", [1]], ["Init", []]]}
            if sc:
                sv["scope"] = sc
            cfg = {"meta": {"imports": {"al": "gv.test/fix/alpha"}}, "services": {"v": sv, "user": {"constructor": "NewA", "arguments": ["@v", "@v"]}}}
            sp = common.mk_spec(len(specs), [cfg], keep_out=True)
            sp["cfg"] = cfg
            sp["what"] = ["c02-value-scope"]
            specs.append(sp)
            hists.append([{"op": "get", "name": "v"}, {"op": "get", "name": "v"}, {"op": "getctx", "ctx": 1, "name": "v"}, {"op": "getctx", "ctx": 1, "name": "v"},
                          {"op": "getctx", "ctx": 2, "name": "v"}, {"op": "get", "name": "user"}, {"op": "get", "name": "v"}])
    if replay:
        rp = json.load(open(replay))["replay"]
        specs = [dict(rp, id="0", dump=True, build_info="bi", keep_out=True)]
        hists = [rp["history"]]
    obs, rl, ml, acc = rtcommon.run_histories(out, tooldir, env, specs, hists, "C02 object graphs", "C02")
    # user functions of the local package named like identifiers the generated constructor declares for itself (known finding F2)
    if not replay:
        ispecs, ihists = [], []
        for nm in ("newService", "getParam", "callProvider", "dependencyValue", "getEnv"):
            cfg = {"services": {"s": {"constructor": nm, "arguments": [1, "x"]}}}
            sp = common.mk_spec(len(ispecs), [cfg], keep_out=True)
            sp["cfg"] = cfg
            sp["what"] = ["template-ident:" + nm]
            ispecs.append(sp)
            ihists.append([{"op": "get", "name": "s"}])
        rtcommon.run_histories(out, tooldir, env, ispecs, ihists, "C02ident constructor named like a local of the generated constructor", "C02")
    nontrivial = set()
    dist = {"accepted": len(acc), "rejected": len(specs) - len(acc), "objects": 0, "errors": 0}
    for k in acc:
        for l in rl[k]:
            if l.startswith("O("):
                dist["objects"] += 1
                nontrivial.add(l)
            elif l.startswith("E("):
                dist["errors"] += 1
                nontrivial.add(l)
    out.coverage.update({
        "evaluations": sum(len(h) for h in hists), "distinct_nontrivial": len(nontrivial), "programs": len(acc),
        "rule": "random accepted configurations over the fixture universe: creation method (local / aliased / quoted-path constructor, failing constructor, value, todo) x argument forms (typed literals incl. look-alike strings, @service, !tagged, !value, $gontainer, patterns) x fields x calls/withers x scopes x getters; Get on every service; non-trivial = distinct object description / error",
        "distribution": dist, "samples": [{"config": cfggen.to_yaml(specs[k]["cfg"])[:1500], "results": rl[k][:3]} for k in acc[:2]],
    })
    out.assumptions = ["fixture universe: constructors are variadic and record their arguments; conversions of the reflection-based caller/setter/copier are exercised only on always-convertible signatures"]
    return out.finish()
