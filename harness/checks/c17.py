"""C17 — --stub output has the same API surface as the real output.
theorems: Props/C17.v; tie: rendered stub/real files = real bytes; oracle: go/parser view of both outputs compared pairwise,
build of the stub with -tags gontainerstub against a types-only fixture."""
import json
import os
import re
import subprocess

from vlib import build, cfggen, codegen, gobuild
from . import common

KEYWORDS = ["break", "case", "chan", "const", "continue", "default", "defer", "else", "fallthrough", "for", "func", "go", "goto", "if", "import", "interface", "map",
            "package", "range", "return", "select", "struct", "switch", "type", "var"]


def keyword_cfgs():
    out = []
    for kw in ["go", "func", "type", "range"]:
        out.append(("keyword:value", {"services": {"s": {"value": kw}}}))
        out.append(("keyword:constructor", {"services": {"s": {"constructor": kw}}}))
        out.append(("keyword:decorator", {"services": {"s": {"value": "Value", "tags": ["t"]}}, "decorators": [{"tag": "t", "decorator": kw}]}))
        out.append(("keyword:argvalue", {"services": {"s": {"constructor": "NewA", "arguments": ["!value " + kw]}}}))
        out.append(("keyword:function", {"meta": {"functions": {"f": kw}}, "parameters": {"p": "%f()%"}}))
        out.append(("keyword:fn-args", {"parameters": {"p": "%env(" + kw + ")%"}}))
    return out


def run(tier, seed, replay):
    out, tooldir, env = common.setup("C17", tier, seed)
    common.proof_part(out, env, "C17", ties=["Tie/EnvTie.v"])
    bases = []
    for sp in common.random_specs(seed, 100 if tier == "quick" else 2000, "c17", inj_rate=0.35):
        bases.append(("random", sp))
    for kind, cfg in keyword_cfgs():
        sp = common.mk_spec(0, [cfg])
        sp["cfg"] = cfg
        bases.append((kind, sp))
    for names in [{"container_constructor": "BuildContainer"}, {"container_type": "Crate"}, {"pkg": "di", "container_type": "C", "container_constructor": "NewC"}]:
        cfg = {"meta": dict(names), "services": {"s": {"value": "Value", "getter": "GetS", "type": "T", "must_getter": True}, "t": {"constructor": "example.com/lib.NewA", "getter": "GetT", "type": "*example.com/lib.T"}}}
        sp = common.mk_spec(0, [cfg])
        sp["cfg"] = cfg
        bases.append(("names", sp))
    # packages that only the normal output names (constructor / value / argument), with import paths sorting before, between and
    # after the imports of the generated file itself: the stub must not keep any of them
    for nm, svc in [("bytes", {"constructor": "bytes.NewBufferString", "arguments": ["x"]}), ("bufio", {"value": "\"bufio\".ErrTooLong"}),
                    ("archive", {"constructor": "NewA", "arguments": ["!value \"archive/tar\".TypeReg"]}), ("errors", {"constructor": "errors.New", "arguments": ["x"]}),
                    ("strings", {"constructor": "strings.NewReader", "arguments": ["x"]}), ("unicode", {"value": "\"unicode/utf8\".RuneError"}),
                    # packages of the helper library the generated code itself imports, named by the user where only the normal output prints them
                    ("helpers-grouperror", {"constructor": "NewA", "arguments": ["!value \"github.com/gontainer/gontainer-helpers/v3/grouperror\".Join"]}),
                    ("helpers-caller", {"value": "\"github.com/gontainer/gontainer-helpers/v3/caller\".Call"}),
                    ("helpers-container", {"constructor": "\"github.com/gontainer/gontainer-helpers/v3/container\".New"}),
                    ("helpers-copier", {"constructor": "NewA", "arguments": ["!value \"github.com/gontainer/gontainer-helpers/v3/copier\".Copy"]})]:
        for extra in ({}, {"g": {"value": "Value", "getter": "GetG", "type": "T"}}):
            cfg = {"services": dict({"s": svc}, **extra)}
            sp = common.mk_spec(0, [cfg])
            sp["cfg"] = cfg
            bases.append(("normal-only-import:" + nm, sp))
    # many packages (import names are numbered in hexadecimal: i9_, ia_, ... i10_ ...), each named only where the stub prints nothing
    MANY = ["\"math\".Pi", "\"unicode/utf8\".RuneError", "\"archive/tar\".TypeReg", "\"time\".Second", "\"os\".PathSeparator", "\"net/http\".MethodGet", "\"io\".SeekStart", "\"strconv\".IntSize",
            "\"math/bits\".UintSize", "\"compress/gzip\".BestSpeed", "\"encoding/json\".Marshal", "\"path\".Base", "\"sort\".Strings", "\"strings\".ToUpper", "\"bytes\".MinRead", "\"unicode\".MaxRune",
            "\"math/rand\".Int", "\"path/filepath\".Separator", "\"text/tabwriter\".Debug", "\"hash/crc32\".IEEE", "\"container/list\".New", "\"encoding/hex\".EncodeToString", "\"html\".EscapeString",
            "\"net/url\".PathEscape", "\"regexp\".QuoteMeta", "\"mime\".BEncoding", "\"log\".LstdFlags", "\"flag\".ContinueOnError", "\"errors\".ErrUnsupported", "\"io/fs\".ModeDir",
            "\"os/signal\".Ignore", "\"sync/atomic\".AddInt64", "\"unicode/utf16\".IsSurrogate", "\"text/scanner\".EOF", "\"go/token\".NoPos"]
    for n_many in (11, 12, 17, 27, 35):
        for typed in (False, True):
            svcs = {"v%02d" % i: {"value": v} for i, v in enumerate(MANY[:n_many])}
            if typed:
                svcs["typed"] = {"constructor": "NewA", "getter": "GetTyped", "type": "*example.com/lib.T"}
            cfg = {"services": svcs}
            sp = common.mk_spec(0, [cfg])
            sp["cfg"] = cfg
            bases.append(("many-imports:%d" % n_many, sp))
    for ty in ("\"fmt\".Stringer", "\"errors\".Unwrapper" if False else "\"os\".Signal", "*\"os\".File", "\"context\".Context", "\"reflect\".Type"):
        for params in ({}, {"p": "%env(\"X\")%"}, {"p": "%todo()%", "q": "%envInt(\"N\", 1)%"}):
            cfg = {"services": {"s": {"constructor": "NewA", "getter": "GetS", "type": ty, "must_getter": True}}}
            if params:
                cfg["parameters"] = dict(params)
            sp = common.mk_spec(0, [cfg])
            sp["cfg"] = cfg
            bases.append(("helper-package-type", sp))
    for g in ("clock", "getDB", "x", "GetX", "g_1"):
        cfg = {"services": {"s": {"constructor": "NewA", "getter": g, "must_getter": True, "type": "*T"}, "t": {"value": "Value", "getter": "Other" + g, "type": "T"}}}
        sp = common.mk_spec(0, [cfg])
        sp["cfg"] = cfg
        bases.append(("getter-case:" + g, sp))
    specs = []
    for kind, sp in bases:
        for stub in (False, True):
            c = dict(sp, id=str(len(specs)), flags=dict(sp.get("flags") or {}, stub=stub), keep_out=True)
            c["what"] = [kind]
            specs.append(c)
    if replay:
        rp = json.load(open(replay))["replay"]
        specs = [dict(rp, id="0", dump=True, build_info="bi", keep_out=True, flags=dict(rp["flags"], stub=False)),
                 dict(rp, id="1", dump=True, build_info="bi", keep_out=True, flags=dict(rp["flags"], stub=True))]
    obs = build.gx_run(tooldir, specs)
    common.real_sanity(out, specs, obs, "C17")
    common.correspondence(out, env, specs, obs, "C17 front end")
    codegen.render_correspondence(out, env, tooldir, specs, obs, "C17")
    acc = [k for k, o in enumerate(obs) if o.get("exit") == 0 and o.get("out_content")]
    api_of = dict(zip(acc, build.gx_api(tooldir, [obs[k]["out_content"] for k in acc])))
    dist = {"both-accepted": 0, "both-rejected": 0, "verdict-differs": 0}
    nontrivial = set()
    samples = []
    stub_items = []
    pub = lambda api: sorted((m["name"], tuple(m["recv"]), tuple(m["params"] or []), tuple(m["results"] or [])) for m in (api["methods"] or []) if not m["name"].startswith("_"))
    ctor = lambda api: sorted((f["name"], tuple(f["params"] or []), tuple(f["results"] or [])) for f in (api["funcs"] or []) if f["name"] != "init")
    for g in range(0, len(specs) - 1, 2):
        real, stub = obs[g], obs[g + 1]
        kind = specs[g]["what"][0]
        rep = dict(common.slim(specs[g + 1], stub), normal_exit=real.get("exit"), normal_errors=real.get("errors"))
        if (real.get("exit") == 0) != (stub.get("exit") == 0):
            dist["verdict-differs"] += 1
            key = "verdict-differs:" + (kind if kind.startswith("keyword") else "other")
            out.violation(key, "the accept/reject decision differs between normal (exit %s) and --stub (exit %s)" % (real.get("exit"), stub.get("exit")), rep)
            if stub.get("exit") == 0 and stub.get("out_content") and (g + 1) in api_of:
                # the stub that was written is still a stub: constraint, panic-only bodies, compiles against types only
                b = api_of[g + 1]
                if not b["constraints"] or "//go:build gontainerstub" not in b["constraints"]:
                    out.violation("constraint:" + kind, "build constraint of the stub: %s" % b["constraints"], rep)
                if not all(m["only_panic"] for m in (b["methods"] or [])) or not all(f["only_panic"] for f in b["funcs"] if f["name"] != "init"):
                    out.violation("stub-body:" + kind, "a stub constructor/getter does something other than panic", rep)
                stub_items.append(("c%04d" % (g + 1), stub["out_content"]))
            continue
        if real.get("exit") != 0:
            dist["both-rejected"] += 1
            if (real.get("errors") or []) != (stub.get("errors") or []):
                out.violation("diagnostics-differ:" + kind, "the two modes reject with different diagnostics", rep)
            continue
        dist["both-accepted"] += 1
        a, b = api_of[g], api_of[g + 1]
        if a["package"] != b["package"] or [t["name"] for t in a["types"]] != [t["name"] for t in b["types"]] or ctor(a) != ctor(b) or pub(a) != pub(b):
            out.violation("surface-differs:" + kind, "package / type / constructor / getter signatures differ between the two modes",
                          dict(rep, normal={"package": a["package"], "funcs": ctor(a), "methods": pub(a)}, stub={"package": b["package"], "funcs": ctor(b), "methods": pub(b)}))
        if not b["constraints"] or "//go:build gontainerstub" not in b["constraints"] or a["constraints"]:
            out.violation("constraint:" + kind, "build constraint: stub %s, normal %s" % (b["constraints"], a["constraints"]), rep)
        if not all(m["only_panic"] for m in (b["methods"] or [])) or not all(f["only_panic"] for f in b["funcs"] if f["name"] != "init"):
            out.violation("stub-body:" + kind, "a stub constructor/getter does something other than panic", rep)
        stub_items.append(("c%04d" % (g + 1), stub["out_content"]))
        nontrivial.add(json.dumps(pub(a)))
        if len(samples) < 3 and pub(a):
            samples.append({"files": specs[g]["files"], "methods": [m[0] for m in pub(a)]})
    # the stub must compile, with the tag, against packages that only have the TYPES (no values, constructors, functions)
    if stub_items:
        b = gobuild.Batch()
        try:
            types_only = "package @PKG@\n\ntype T struct{ X int }\ntype (\n\tSrv = T\n\tHandler = T\n\tBox = T\n\tMyStruct = T\n)\n"
            for path, (d, pkg) in gobuild.FIXTURES.items():
                open(os.path.join(b.dir, "fx", d, "fixture.go"), "w").write(types_only.replace("@PKG@", pkg))
            stub_items.sort(key=lambda it: (specs[int(it[0][1:])]["what"][0] == "random", it[0]))     # directed families first
            for name, src in stub_items[: (140 if tier == "quick" else 800)]:
                b.add(name, src, codegen.pkg_of(src))
                open(os.path.join(b.dir, "gen", name, "zz_fixture.go"), "w").write(types_only.replace("@PKG@", codegen.pkg_of(src)))
            rc, errs = b.build(tags="gontainerstub")
            for name, lines in errs.items():
                if name != "_batch":
                    k = int(name[1:])
                    out.violation("stub-needs-values:" + specs[k]["what"][0], "the stub does not compile against a types-only user package: %s" % lines[:3], dict(common.slim(specs[k], obs[k]), compiler_output=lines[:10]))
                else:
                    out.broke("harness: stub batch", lines[:5])
        finally:
            b.close()
    # regenerating over the tool's own earlier output, in the same and in the other mode: accepted, and the same bytes as into a fresh path
    if not replay:
        rsp, rref = [], []
        for g in [g for g in range(0, len(specs) - 1, 2) if obs[g].get("exit") == 0 and obs[g + 1].get("exit") == 0][: (6 if tier == "quick" else 60)]:
            for target, old in ((g, g), (g + 1, g + 1), (g + 1, g), (g, g + 1)):
                sp_ = dict(specs[target], id="rg%d" % len(rsp), keep_out=True)
                sp_["files"] = list(sp_["files"]) + [{"path": sp_["output"], "content": obs[old]["out_content"]}]
                sp_["what"] = ["regenerate-over-own-output:%s-over-%s" % ("stub" if target % 2 else "normal", "stub" if old % 2 else "normal")]
                rsp.append(sp_)
                rref.append(target)
        for sp_, ro, j in zip(rsp, build.gx_run(tooldir, rsp), rref):
            if ro.get("exit") != 0 or ro["out_after"].get("hash") != obs[j]["out_after"].get("hash"):
                out.violation(sp_["what"][0], "%s: exit %s, %s" % (sp_["what"][0], ro.get("exit"), (ro.get("errors") or ["other bytes than a build into a fresh path"])[:1]), common.slim(sp_, ro))
        dist["regenerated_over_own_output"] = len(rsp)
    # spellings of the flag: --stub=false is the normal mode, --stub=true / =1 the stub mode (same bytes as the canonical spelling)
    if not replay:
        sps, ref = [], []
        okg = [g for g in range(0, len(specs) - 1, 2) if obs[g].get("exit") == 0]
        half = 6 if tier == "quick" else 60
        for g in [g for g in okg if specs[g]["what"][0] == "random"][:half] + [g for g in okg if specs[g]["what"][0] != "random"][::max(1, len(okg) // (3 * half))][:half]:
            for extra, j in ((["--stub=false"], g), (["--stub=true"], g + 1), (["--stub=1"], g + 1), (["--stub=0"], g), (["--stub", "--stub=false"], g)):
                # (the other flags of the configuration stay as they are: only the spelling of --stub changes)
                sps.append(dict(specs[g], id="sp%d" % len(sps), flags={k_: v_ for k_, v_ in (specs[g].get("flags") or {}).items() if k_ != "stub"}, extra_args=extra, keep_out=True))
                ref.append(j)
        for sp_, so, j in zip(sps, build.gx_run(tooldir, sps), ref):
            if so.get("exit") != obs[j].get("exit") or so["out_after"].get("hash") != obs[j]["out_after"].get("hash"):
                out.violation("flag-spelling:%s" % " ".join(sp_["extra_args"]), "%s does not behave like %s" % (" ".join(sp_["extra_args"]), "--stub" if j % 2 else "no flag"), common.slim(sp_, so))
        dist["flag_spellings"] = len(sps)
        # the repository's own configuration: its stub has the API of its real container, and the whole repository compiles and
        # vets with the stub in place of the generated file (that is what the stub is for)
        import glob as _glob, subprocess as _sp, tempfile as _tf, shutil as _sh
        d = os.path.join(build.REPO, "internal", "gontainer")
        files = [{"path": "internal/gontainer/" + os.path.basename(q), "content": open(q).read()} for q in [os.path.join(d, "gontainer.yaml")] + sorted(_glob.glob(os.path.join(d, "gontainer_*.yaml")))]
        selfs = [{"id": "self%d" % st, "files": files, "patterns": ["internal/gontainer/gontainer.yaml", "internal/gontainer/gontainer_*.yaml"], "output": "out.go", "flags": {"stub": bool(st)},
                  "version": "dev", "build_info": "self", "dump": False, "keep_out": True, "what": ["self"]} for st in (0, 1)]
        so = build.gx_run(tooldir, selfs)
        if so[0].get("exit") != 0 or so[1].get("exit") != 0:
            out.violation("self:verdict", "the repository's own configuration: normal exit %s, --stub exit %s" % (so[0].get("exit"), so[1].get("exit")), common.slim(selfs[1], so[1]))
        else:
            a, b = build.gx_api(tooldir, [so[0]["out_content"], so[1]["out_content"]])
            if a["package"] != b["package"] or ctor(a) != ctor(b) or pub(a) != pub(b) or [t["name"] for t in a["types"]] != [t["name"] for t in b["types"]]:
                out.violation("surface-differs:self", "the repository's own configuration: the stub's API differs from the real container's", {"normal": pub(a), "stub": pub(b)})
            tmp = _tf.mkdtemp(prefix="gvc17_", dir="/dev/shm")
            try:
                lst = _sp.run(["git", "-C", build.REPO, "ls-files", "-co", "--exclude-standard"], stdout=_sp.PIPE, text=True).stdout.split("\n")
                for f in lst:
                    if f.strip() and os.path.isfile(os.path.join(build.REPO, f)):
                        os.makedirs(os.path.dirname(os.path.join(tmp, f)) or tmp, exist_ok=True)
                        _sh.copy(os.path.join(build.REPO, f), os.path.join(tmp, f))
                open(os.path.join(tmp, "internal/gontainer/gontainer.go"), "w").write(so[1]["out_content"])
                q = _sp.run(["go", "vet", "-tags", "gontainerstub", ".", "./internal/gontainer/...", "./internal/cmd/..."], cwd=tmp, env=build.GOENV, stdout=_sp.PIPE, stderr=_sp.STDOUT, text=True, timeout=900)
                if q.returncode != 0:
                    out.violation("self:stub-does-not-build", "the repository does not compile with the stub of its own container in place of the generated file: %s" % q.stdout[-500:], {"output": q.stdout[-3000:]})
                dist["self_stub_built"] = 1
            finally:
                _sh.rmtree(tmp, ignore_errors=True)
    out.coverage.update({
        "evaluations": len(specs), "distinct_nontrivial": len(nontrivial), "programs": len(stub_items),
        "rule": "random configurations (valid and with injected defects), configurations whose identifiers are Go keywords, custom package/type/constructor names; each run in both modes and compared pairwise (verdict, diagnostics, go/parser view of package, type, constructor, methods, build constraint, panic-only bodies); stubs compiled with -tags gontainerstub against types-only packages; non-trivial = distinct public method set",
        "distribution": dist, "samples": samples or [{"note": "none"}],
    })
    out.assumptions = ["calling the stub (panic) is checked syntactically: the body is a single panic(...) call"]
    return out.finish()
