import os
import random
import re

from vlib import build, coqrun, report


def setup(pid, tier, seed, gen_writer=None):
    out = report.Outcome(pid, tier, seed)
    bad = coqrun.forbidden_scan()
    tooldir = build.ensure_tools()
    if gen_writer is None:
        try:
            from vlib import gen
            gen_writer = gen.write_gen
        except ImportError:
            gen_writer = None
    env = coqrun.ensure_coq(tooldir, gen_writer)
    if bad:
        out.broke("forbidden-vernacular", bad)
    return out, tooldir, env


def proof_part(out, env, pid, ties=()):
    """obligations = theorems of Props/<pid>.v + the Tie lemmas the property relies on; all re-checked against the
    per-tree build (the Gen/ layer is regenerated from the current /repo)."""
    ok, names, text = coqrun.props_check(env, pid)
    obligations = list(names)
    discharged = list(names) if ok else []
    if not ok:
        out.broke("Props/%s.v" % pid, text[-3000:])
    for rel in ties:
        tn = re.findall(r"^(?:Theorem|Lemma|Example|Corollary)\s+(\w+)", open(os.path.join(env.dir, rel)).read(), re.M)
        obligations += ["%s:%s" % (rel, n) for n in tn]
        if env.ok(rel):
            discharged += ["%s:%s" % (rel, n) for n in tn]
        else:
            out.broke(rel, _err_of(env.log, rel))
    # anything else that failed in the development is reported too (a dependency of the Props file would already
    # have made props_check fail)
    axioms = sorted(set(re.findall(r"^\s*([\w.]+)\s*:", "\n".join(
        blk for blk in re.findall(r"Axioms:\n((?:.+\n)+)", text)), re.M)))
    closed = text.count("Closed under the global context")
    out.coverage.update({
        "obligations": len(obligations), "discharged": len(discharged),
        "obligation_names": obligations,
        "checker_cmd": "coq_makefile -f _CoqProject -o Makefile && make -k -j16 (in .cache/<tree>/coq_*), then coqc -Q . GV Props/%s.v" % pid,
        "assumptions_report": {"closed_under_global_context": closed, "axioms": axioms},
    })
    return ok


def _err_of(log, rel):
    i = log.find('File "./%s"' % rel)
    return log[i:i + 1500] if i >= 0 else "not built (a dependency failed)"


def rng(seed, salt=""):
    return random.Random("%s/%s" % (seed, salt))
