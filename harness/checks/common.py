import os
import random
import re

from vlib import build, coqrun, report


def setup(pid, tier, seed, gen_writer=None):
    out = report.Outcome(pid, tier, seed)
    bad = coqrun.forbidden_scan()
    tooldir = build.ensure_tools()
    if gen_writer is None:
        try:
            from vlib import gen
            gen_writer = gen.write_gen
        except ImportError:
            gen_writer = None
    env = coqrun.ensure_coq(tooldir, gen_writer)
    if bad:
        out.broke("forbidden-vernacular", bad)
    return out, tooldir, env


def proof_part(out, env, pid, ties=()):
    """obligations = theorems of Props/<pid>.v + the Tie lemmas the property relies on; all re-checked against the
    per-tree build (the Gen/ layer is regenerated from the current /repo)."""
    ok, names, text = coqrun.props_check(env, pid)
    obligations = list(names)
    discharged = list(names) if ok else []
    if not ok:
        out.broke("Props/%s.v" % pid, text[-3000:])
    for rel in ties:
        tn = re.findall(r"^(?:Theorem|Lemma|Example|Corollary)\s+(\w+)", open(os.path.join(env.dir, rel)).read(), re.M)
        obligations += ["%s:%s" % (rel, n) for n in tn]
        if env.ok(rel):
            discharged += ["%s:%s" % (rel, n) for n in tn]
        else:
            out.broke(rel, _err_of(env.log, rel))
    # anything else that failed in the development is reported too (a dependency of the Props file would already
    # have made props_check fail)
    axioms = sorted(set(re.findall(r"^\s*([\w.]+)\s*:", "\n".join(
        blk for blk in re.findall(r"Axioms:\n((?:.+\n)+)", text)), re.M)))
    closed = text.count("Closed under the global context")
    chk = None
    if out.tier == "thorough" and ok:
        # independent re-check of the compiled theorems of this property (and everything they depend on) with coqchk
        import subprocess as _sp
        mods = ["GV.Props.%s" % pid] + ["GV." + rel[:-2].replace("/", ".") for rel in ties if env.ok(rel)]
        try:
            p = _sp.run(["coqchk", "-silent", "-o", "-Q", ".", "GV"] + mods, cwd=env.dir, stdout=_sp.PIPE, stderr=_sp.STDOUT, text=True, timeout=3000)
            txt = p.stdout
            m = re.search(r"\* Axioms:(.*?)\n\s*\n\* Constants/Inductives relying on type-in-type:(.*?)\n\s*\n\* Constants/Inductives relying on unsafe \(co\)fixpoints:(.*?)\n\s*\n\* Inductives whose positivity is assumed:(.*?)\n", txt, re.S)
            chk = {"rc": p.returncode, "modules": mods,
                   "axioms": m.group(1).strip() if m else "?", "type_in_type": m.group(2).strip() if m else "?",
                   "unsafe_fixpoints": m.group(3).strip() if m else "?", "assumed_positivity": m.group(4).strip() if m else "?"}
            if p.returncode != 0 or not m or any(chk[k] != "<none>" for k in ("axioms", "type_in_type", "unsafe_fixpoints", "assumed_positivity")):
                out.broke("coqchk:Props/%s.v" % pid, txt[-2000:])
        except _sp.TimeoutExpired:
            chk = {"rc": "timeout", "modules": mods}
    out.coverage.update({
        "obligations": len(obligations), "discharged": len(discharged),
        "obligation_names": obligations,
        "checker_cmd": "coq_makefile -f _CoqProject -o Makefile && make -k -j16 (in .cache/<tree>/coq_*), then coqc -Q . GV Props/%s.v" % pid,
        "assumptions_report": dict({"closed_under_global_context": closed, "axioms": axioms}, **({"coqchk": chk} if chk else {})),
    })
    return ok


def _err_of(log, rel):
    i = log.find('File "./%s"' % rel)
    return log[i:i + 1500] if i >= 0 else "not built (a dependency failed)"


def rng(seed, salt=""):
    return random.Random("%s/%s" % (seed, salt))


# ---------------------------------------------------------------------------------------------------------------
from vlib import model as _model
from vlib import cfggen as _cfggen
import random as _random


def mk_spec(k, files, patterns=None, flags=None, version="1.2.3", output="out.go", dump=True, keep_out=False, extra=None):
    fs = []
    for i, f in enumerate(files):
        if isinstance(f, dict) and "path" in f:
            fs.append(f)
        else:
            content = f if isinstance(f, str) else _cfggen.to_yaml(f)
            fs.append({"path": "cfg/f%d.yaml" % i, "content": content})
    sp = {"id": str(k), "files": fs, "patterns": patterns or ["cfg/*.yaml"], "output": output, "flags": flags or {},
          "version": version, "build_info": "bi", "dump": dump, "keep_out": keep_out}
    if extra:
        sp.update(extra)
    return sp


def random_specs(seed, n, salt, inj_rate=0.5, injectors=None, flags_fn=None, features=None, nfiles_choices=(1, 1, 2, 3)):
    specs = []
    for k in range(n):
        r = _random.Random("%s/%s/%d" % (seed, salt, k))
        g = _cfggen.Gen(r, features=features)
        cfg = g.config()
        what = []
        if r.random() < inj_rate:
            names = injectors or sorted(_cfggen.INJECTORS)
            for _ in range(r.choice([1, 1, 2, 3])):
                w = _cfggen.INJECTORS[r.choice(names)](r, cfg)
                if w:
                    what.append(w)
        nf = r.choice(nfiles_choices)
        files = _cfggen.split_files(r, cfg, nf) if nf > 1 else [cfg]
        fl = flags_fn(r) if flags_fn else {"ignore_params": r.random() < 0.2, "ignore_services": r.random() < 0.2,
                                           "quiet": r.random() < 0.05, "stub": r.random() < 0.2}
        sp = mk_spec(k, files, flags=fl)
        sp["what"] = what
        sp["cfg"] = cfg
        specs.append(sp)
    return specs


def slim(spec, obs=None):
    """replay payload of a case"""
    d = {k: spec[k] for k in ("files", "patterns", "output", "flags", "version") if k in spec}
    for k in ("what", "extra_args", "no_output_flag"):
        if k in spec:
            d[k] = spec[k]
    if obs is not None:
        d["observed"] = {k: obs.get(k) for k in ("exit", "errors", "stdout", "out_before", "out_after", "panic", "crashed") if k in obs}
    return d


def correspondence(out, env, specs, obs, name, verdict_claim=None):
    """model vs real on every case.  A mismatch is 'something that no longer checks'.  When [verdict_claim] is given
    (a sentence of the property about acceptance) and the model - whose verdict is the specified one by the theorems -
    and the implementation disagree on the exit status, the case is reported as a concrete failing input."""
    live = [k for k in range(len(specs)) if "globs" in obs[k]]   # crashed / hanging cases are reported by real_sanity
    res, err = _model.correspond(env, [specs[k] for k in live], [obs[k] for k in live])
    if res is None:
        out.broke("correspondence:%s (model evaluation failed)" % name, err)
        return None
    res = [(live[k], d) for k, d in res]
    nb = 0
    for k, d in res:
        if verdict_claim and d.startswith("line 0:"):
            out.violation("verdict:%s" % (specs[k].get("what") or specs[k]["id"]),
                          "%s: the implementation exits %s where the specified verdict (model, Props theorems) is the opposite" % (verdict_claim, obs[k].get("exit")),
                          dict(slim(specs[k], obs[k]), diff=d))
        elif nb < 5:
            nb += 1
            out.broke("correspondence:%s" % name, {"case": slim(specs[k], obs[k]), "diff": d})
    return [k for k, _ in res]


def real_sanity(out, specs, obs, pid):
    """panics / crashes of the real command are violations of every property that quantifies over inputs"""
    for sp, ob in zip(specs, obs):
        if ob.get("panic") or ob.get("crashed"):
            out.violation("panic:" + str(sp.get("what")), "the build command panicked: %s" % (ob.get("panic") or ob.get("stderr", ""))[:300], slim(sp, ob))
        if ob.get("hang"):
            out.violation("hang:" + str(sp.get("what")), "the build command did not finish within %s s" % ob.get("seconds"), slim(sp, ob))
        if ob.get("harness_error"):
            out.broke("harness", ob.get("harness_error"))


def sites_report(out, tooldir, kinds):
    """when the audited inventory (Tie/SitesTie.v) and the inventory of the current tree differ, name the sites"""
    import json as _json
    from vlib import gen as _gen
    audited = set(re.findall(r'\(s "([^"]*\|[^"]*\|[0-9a-f]{12})"\)', "".join(open(os.path.join(build.VERIF, "coq", "Tie", f)).read() for f in ("SitesOrderTie.v", "SitesPanicTie.v"))))
    now = {}
    for x in _json.load(open(os.path.join(tooldir, "sites.json"))):
        if x["kind"] in kinds:
            now[_gen.site_id(x)] = x
    added = [dict(now[i], id=i) for i in sorted(set(now) - audited)]
    kinds_audited = audited  # ids carry no kind: removed = audited ids that are in no current list of any kind
    allnow = {_gen.site_id(x) for x in _json.load(open(os.path.join(tooldir, "sites.json")))}
    removed = sorted(audited - allnow)
    if added:
        out.broke("Tie/Sites*Tie.v: unaudited sites", {"unaudited": [{k: a[k] for k in ("kind", "pkg", "func", "text")} for a in added][:20], "no_longer_present": removed[:20]})
    return added, removed
