"""C15 — todo placeholders and run-time overrides.
theorems: Props/C15.v (todo services/params always error with the documented message; overriding replaces the definition and drops the cache;
loading evaluates nothing); tie: probe histories {GetParam, Get, OverrideParam, OverrideService} against the real runtime."""
import itertools
import json
import random

from vlib import cfggen
from . import common, rtcommon

BASE = {
    "meta": {"imports": {"al": "gv.test/fix/alpha"}},
    "parameters": {"host": "%todo(\"host is missing\")%", "port": "%todo()%", "endpoint": "%host%", "url": "http://%host%:%port%/", "plain": 5,
                   "m1": "%todo(\"not ready,retry later\")%", "m2": "%todo(\"see step 1 ,then  step 2\")%", "m3": "%todo(\"a,,b\")%", "m4": "x %todo(\"inside, a pattern\")% y", "m6": "%todo(\"port is not configured\", \"see docs/deploy.md\")%", "m7": "%todo(\"a\", \"b\", \"c\")% tail",
                   # the failing chunk at the beginning / at the end / repeated / next to another failing chunk
                   "addr": "%host%:%port%", "first": "%todo(\"first chunk\")% tail", "last": "head %host%", "twice": "%host%%host%", "both": "%port%%host%", "deep": "%addr%/%endpoint%",
                   # a failing chunk FOLLOWED by a reference to an intermediate parameter: nothing behind the failure may be evaluated (and cached)
                   "basePort": 80, "port2": "%basePort%", "addr2": "%host%:%port2%", "proto": "%scheme%", "scheme": "https", "url2": "%m1% %proto%://%port2%"},
    "services": {
        "db": {"todo": True},
        "repo": {"constructor": "NewA", "arguments": ["@db", "%endpoint%"]},
        "api": {"constructor": "al.NewA", "arguments": ["@repo", "%url%"], "scope": "non_shared"},
        "misc": {"constructor": "NewB", "arguments": ["%plain%"]},
        "srv": {"constructor": "NewA", "arguments": ["%host%:%port%", "%addr%"], "fields": {"Name": "%host%-%plain%"}, "scope": "non_shared"},
    },
}
OPS = [
    {"op": "param", "name": "host"}, {"op": "param", "name": "endpoint"}, {"op": "param", "name": "url"}, {"op": "param", "name": "port"},
    {"op": "param", "name": "m1"}, {"op": "param", "name": "m2"}, {"op": "param", "name": "m3"}, {"op": "param", "name": "m4"}, {"op": "param", "name": "m6"}, {"op": "param", "name": "m7"},
    {"op": "param", "name": "addr"}, {"op": "param", "name": "first"}, {"op": "param", "name": "last"}, {"op": "param", "name": "twice"}, {"op": "param", "name": "both"}, {"op": "param", "name": "deep"},
    {"op": "param", "name": "addr2"}, {"op": "param", "name": "port2"}, {"op": "param", "name": "url2"}, {"op": "param", "name": "proto"},
    {"op": "override_param", "name": "basePort", "kind": "int", "value": 8080}, {"op": "override_param", "name": "scheme", "kind": "str", "value": "http"},
    {"op": "get", "name": "srv"},
    {"op": "get", "name": "db"}, {"op": "get", "name": "repo"}, {"op": "get", "name": "api"}, {"op": "get", "name": "misc"},
    {"op": "override_param", "name": "host", "kind": "str", "value": "localhost"}, {"op": "override_param", "name": "port", "kind": "int", "value": 8080},
    {"op": "override_param", "name": "plain", "kind": "str", "value": "six"},
    {"op": "override_service", "name": "db", "origin": "NewB", "args": [{"kind": "str", "value": "dsn"}]},
    {"op": "override_service", "name": "misc", "origin": "NewA", "args": []},
]


def run(tier, seed, replay):
    out, tooldir, env = common.setup("C15", tier, seed)
    common.proof_part(out, env, "C15")
    r = random.Random("%s/c15" % seed)
    L = 4 if tier == "quick" else 5
    hists = []
    # exhaustive short histories would be 13^L; sample them exhaustively up to length 2 and randomly beyond
    for h in itertools.product(OPS, repeat=2):
        hists.append(list(h))
    for _ in range(150 if tier == "quick" else 4000):
        hists.append([r.choice(OPS) for _ in range(r.randint(3, L + 2))])
    # directed: a failed evaluation, then an override of something BEHIND the failing chunk, then reads
    P = lambda n: {"op": "param", "name": n}
    OV = lambda n, k, v: {"op": "override_param", "name": n, "kind": k, "value": v}
    directed = [[P("addr2"), OV("basePort", "int", 8080), P("port2"), OV("host", "str", "h"), P("addr2")],
                [P("url2"), OV("scheme", "str", "http"), P("proto"), OV("basePort", "int", 1), P("port2")],
                [P("addr2"), P("url2"), OV("basePort", "int", 9), OV("scheme", "str", "s"), P("port2"), P("proto"), {"op": "get", "name": "srv"}]]
    # the same base configuration with every subset of {host, port, db} marked todo is covered by overriding them first
    specs = []
    allh = []
    # pack many histories per probe binary: one binary per configuration, histories concatenated with fresh containers is not possible
    # (one container per process), so group histories into a few long ones separated by nothing: instead use several configurations
    variants = []
    for todo_host, todo_port, todo_db in itertools.product([True, False], repeat=3):
        cfg = json.loads(json.dumps(BASE))
        if not todo_host:
            cfg["parameters"]["host"] = "h0"
        if not todo_port:
            cfg["parameters"]["port"] = 80
        if not todo_db:
            cfg["services"]["db"] = {"constructor": "NewA"}
        variants.append(cfg)
    per = max(1, len(hists) // (24 if tier == "quick" else 200))
    k = 0
    for a in range(0, len(hists), per):
        cfg = variants[(a // per) % len(variants)]
        files = [cfg]
        lay = k % 3
        if lay == 1:
            # the documented workflow: a base file and an environment overlay that both spell out `todo` with different values
            # (the later file wins: the merged configuration is cfg)
            first = json.loads(json.dumps(cfg))
            db_todo = bool(cfg["services"]["db"].get("todo"))
            first["services"]["db"] = {"todo": False, "constructor": "NewA"} if db_todo else {"todo": True}
            files = [first, {"services": {"db": {"todo": True} if db_todo else {"todo": False, "constructor": "NewA"}}}]
        if lay == 2:
            # the flag is set in the FIRST file only; a later overlay mentions every service again (adds a tag, a getter switch) without
            # saying anything about todo: placeholders stay placeholders, ordinary services stay ordinary
            base1 = json.loads(json.dumps(cfg))
            for n_, sv_ in base1["services"].items():
                if not sv_.get("todo"):
                    sv_["must_getter"] = True
                    sv_["getter"] = "Get" + n_.capitalize()
            files = [base1, {"services": {n_: {"tags": ["late"]} for n_ in cfg["services"]}}]
        sp = common.mk_spec(k, files, keep_out=True)
        sp["cfg"] = cfg
        sp["what"] = ["todo/override" + ("/two-files" if lay == 1 else "/overlay" if lay == 2 else "")]
        specs.append(sp)
        # a probe process has ONE container: run the histories of this group back to back; later histories see earlier overrides,
        # which is just a longer history
        allh.append([o for h in hists[a:a + per] for o in h])
        k += 1
    # fresh containers: the directed histories on several todo subsets, and a sample of the length-2 histories (in the groups above only
    # the first history of a group starts from a container nothing has happened to)
    fresh = [(variants[v], h) for h in directed for v in (0, 3, 7)]
    pairs2 = [list(h) for h in itertools.product(OPS, repeat=2)]
    r.shuffle(pairs2)
    fresh += [(variants[j % 8], h) for j, h in enumerate(pairs2[: (16 if tier == "quick" else 200)])]
    for cfg, h in fresh:
        sp = common.mk_spec(k, [cfg], keep_out=True)
        sp["cfg"] = cfg
        sp["what"] = ["todo/override/fresh"]
        specs.append(sp)
        allh.append(h)
        k += 1
    rs, hs, gs = rtcommon.gen_cases(seed, "c15r", 20 if tier == "quick" else 300, weights={"todo": 0.3}, hist_len=10,
                                    kinds=["get", "param", "param", "override_param", "override_service", "get"])
    specs += [dict(sp, id=str(len(specs) + i)) for i, sp in enumerate(rs)]
    allh += hs
    if replay:
        rp = json.load(open(replay))["replay"]
        specs = [dict(rp, id="0", dump=True, build_info="bi", keep_out=True)]
        allh = [rp["history"]]
    obs, rl, ml, acc = rtcommon.run_histories(out, tooldir, env, specs, allh, "C15 todo/override histories", "C15")
    # todo parameters and services count as declared: every configuration of the directed family is valid by construction (whatever
    # subset is marked todo, however the declaration is spread over files) and must be accepted
    for k, (sp, ob) in enumerate(zip(specs, obs)):
        if str((sp.get("what") or [""])[0]).startswith("todo/override") and ob.get("exit") != 0:
            out.violation("valid-todo-configuration-rejected:" + sp["what"][0], "a configuration whose only peculiarity are todo placeholders is rejected: %s" % ((ob.get("errors") or [])[:3],), common.slim(sp, ob))
    # direct oracle on the real results: a todo parameter/service that was never overridden always errors with the documented message
    nontrivial = set()
    dist = {"ops": 0, "todo_errors": 0, "after_override_ok": 0}
    # direct oracle for "a dependant not yet evaluated receives the overriding value": `endpoint` is "%host%", `port2` is "%basePort%"
    DEP = {"endpoint": "host", "port2": "basePort", "proto": "scheme"}
    # operations whose SUCCESS evaluates (and caches) the dependant on the way; a failing one stops at its first failing chunk / argument
    MAY = {"endpoint": {("param", "endpoint"), ("param", "deep"), ("get", "repo"), ("get", "api")}, "port2": {("param", "port2"), ("param", "addr2"), ("param", "url2")},
           "proto": {("param", "proto"), ("param", "url2")}}
    for k in acc:
        cfg = specs[k].get("cfg")
        if cfg is None:
            continue
        overridden = set()
        ov_val, ok_before = {}, set()
        for o, line in zip(allh[k], rl[k]):
            dist["ops"] += 1
            if o["op"] == "override_param":
                ov_val[o["name"]] = o
            if o["op"] == "param" and o["name"] in DEP and str((sp_ := specs[k]).get("what", [""])[0]).startswith("todo/override"):
                src = DEP[o["name"]]
                if src in ov_val and o["name"] not in ok_before:
                    # never successfully evaluated before the override: the value must be the overriding one
                    v_ = ov_val[src]
                    want_line = "I(int,%s)" % v_["value"] if v_["kind"] == "int" else "S(%s)" % v_["value"]
                    dist["after_override_ok"] += 1
                    if line != want_line:
                        out.violation("override-not-seen", "GetParam(%s) after OverrideParam(%s, %r) returns %s (the dependant had not been evaluated successfully before)" % (o["name"], src, v_["value"], line[:120]),
                                      dict(common.slim(specs[k], obs[k]), history=allh[k]))
            for dep_, ops_ in MAY.items():
                if (o["op"], o.get("name")) in ops_ and not line.startswith(("E(", "PANIC(")):
                    ok_before.add(dep_)
            if o["op"] == "get" and o.get("name") in ("repo", "api"):
                ok_before.add("endpoint")      # the library evaluates every argument of a service and joins the errors: %endpoint% is evaluated even when @db fails
            if o["op"] == "override_param" and o["name"] in DEP.values():
                # the cache of the dependants is NOT dropped by an override of their source: a dependant evaluated earlier keeps its value (modelled; not decided here)
                pass
            if o["op"] in ("override_param", "override_service"):
                overridden.add((o["op"][9:], o["name"]))
            if o["op"] == "param":
                v = cfg["parameters"].get(o["name"])
                if isinstance(v, str) and v.startswith("%todo(") and ("param", o["name"]) not in overridden:
                    dist["todo_errors"] += 1
                    # the documented message is the FIRST argument of todo(...)
                    msg = "parameter todo" if v == "%todo()%" else v[v.index("%todo(\"") + 7:v.rindex("\")%")].replace("\\x25", "%").split("\", \"")[0]
                    if not line.endswith(msg.replace("\"", "\\x22") + ")"):
                        out.violation("todo-param-wrong-message", "GetParam(%s): the error does not END with the documented message %r: %s" % (o["name"], msg, line[-160:]), dict(common.slim(specs[k], obs[k]), history=allh[k]))
                    if not (line.startswith("E(") and msg in line):
                        out.violation("todo-param-no-error", "GetParam(%s) on a todo parameter returns %s instead of the documented error %r" % (o["name"], line[:200], msg), dict(common.slim(specs[k], obs[k]), history=allh[k]))
            if o["op"] == "get":
                sv = cfg["services"].get(o["name"]) or {}
                if sv.get("todo") and ("service", o["name"]) not in overridden:
                    dist["todo_errors"] += 1
                    if not (line.startswith("E(") and "service todo" in line):
                        out.violation("todo-service-no-error", "Get(%s) on a todo service returns %s" % (o["name"], line[:200]), dict(common.slim(specs[k], obs[k]), history=allh[k]))
                if not sv.get("todo") and o["name"] == "misc" and "service todo" in line:
                    out.violation("ordinary-service-is-todo", "Get(misc): the service is not marked todo and depends on no placeholder, yet: %s" % line[:200], dict(common.slim(specs[k], obs[k]), history=allh[k]))
            nontrivial.add(o["op"] + line[:80])
    out.coverage.update({
        "evaluations": sum(len(h) for h in allh), "distinct_nontrivial": len(nontrivial), "programs": len(acc),
        "rule": "the documented workflow configuration with every subset of {host, port, db} marked todo x all histories of length 2 and random histories up to length %d over {GetParam, Get, OverrideParam, OverrideService} (incl. aliases of todo parameters, multi-chunk patterns, dependants built before and after an override), plus random configurations with 30%% todo entries; non-trivial = distinct (operation, result)" % (L + 2),
        "distribution": dist, "samples": [{"history": allh[k][:6], "results": rl[k][:6]} for k in acc[:2]],
    })
    out.assumptions = ["overriding values are literals / constructors over literals (container.NewDependencyValue, SetConstructor)"]
    return out.finish()
