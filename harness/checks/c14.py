"""C14 — package references resolve to exactly the package the alias table denotes.
theorems: Props/C14.v; tie: front-end correspondence (alias table, generated expressions) + rendered file = real bytes;
oracle: denote_pkg computed in Python from meta.imports; the import block and every qualified identifier of the real output are read
with go/parser; the outputs are compiled against fixture packages that export identical self-identifying symbols and executed."""
import json
import random
import re

from vlib import build, cfggen, codegen, gobuild
from . import common

STD = {"context", "errors", "fmt", "os", "reflect", "strconv"}
HELP = "github.com/gontainer/gontainer-helpers/v3/"


def denote(table, ref):
    """the package a written import denotes: "." -> current package (None), quotes stripped, alias = whole first segment"""
    r = ref.strip('"')
    if r == ".":
        return None
    seg, _, rest = r.partition("/")
    if seg in table:
        return table[seg] + ("/" + rest if rest else "")
    return r


def tables(r):
    pk = list(gobuild.FIXTURES)
    base = [p for p in pk if p.count("/") <= 2]
    out = []
    out.append({"foo": "example.com/lib", "fo": "example.com/other", "f": "gv.test/fix/alpha"})
    out.append({"fmt": "example.com/other", "os": "example.com/lib", "github.com": "gv.test/fix/alpha", "errors": "gv.test/fix/x.y"})
    out.append({"example.com": "gv.test/fix/alpha", "gv.test": "example.com/lib"})
    out.append({"a": "example.com/lib", "a.b": "example.com/other", "a-b": "gv.test/fix/alpha", "a_b": "gv.test/fix/x.y"})
    out.append({"lib": "example.com/lib", "sub": "example.com/lib/sub", "x": "gv.test/fix/beta-pkg"})
    # aliases that are proper string prefixes of the FIRST segment of referenced paths (gv.test/..., example.com/...), and of each other
    out.append({"gv": "example.com/lib", "gv.tes": "example.com/other", "example": "gv.test/fix/alpha", "example.co": "gv.test/fix/x.y", "e": "gv.test/fix/beta-pkg"})
    out.append({"g": "example.com/other", "gv.t": "example.com/lib", "example.": "gv.test/fix/alpha"} if False else {"g": "example.com/other", "gv.t": "example.com/lib", "exampl": "gv.test/fix/alpha"})
    # aliases that equal a LATER segment of referenced paths (only the first segment is an alias position)
    out.append({"fix": "example.com/lib", "alpha": "example.com/other", "com": "gv.test/fix/x.y", "test": "gv.test/fix/beta-pkg"})
    # aliases differing only in letter case
    out.append({"Lib": "example.com/lib", "lib": "example.com/other", "LIB": "gv.test/fix/alpha", "lIb": "gv.test/fix/x.y"})
    for _ in range(6):
        names = r.sample(["foo", "fo", "f", "fmt", "context", "strconv", "reflect", "lib", "al", "al.pha", "be-ta", "github.com", "example.com"], r.randint(1, 4))
        out.append({n: r.choice(base) for n in names})
    return out


def ref_forms(r, table):
    """(written import, symbol-bearing positions) covering bare alias, alias/sub, unquoted path, quoted path, '.'"""
    forms = []
    for a, p in table.items():
        forms.append(a)
        forms.append('"%s"' % a)
        if p + "/sub" in gobuild.FIXTURES:
            forms.append(a + "/sub")
            forms.append('"%s/sub"' % a)
    for p in gobuild.FIXTURES:
        if p.split("/")[0] in table:
            continue            # the first segment is an alias: the path would denote the alias expansion, not this package
        forms.append('"%s"' % p)
        if "." not in p.split("/")[-1]:
            forms.append(p)
    forms.append('"."')
    return forms


def cfg_for(r, table):
    forms = ref_forms(r, table)
    r.shuffle(forms)
    svcs = {}
    expect = []     # (position, written import, symbol)
    for i, f in enumerate(forms[:10]):
        kind = ["constructor", "value", "type", "argvalue", "struct"][i % 5]
        if "." in f.strip('"').split("/")[-1] and not f.startswith('"') and (kind == "struct" or r.random() < 0.6):
            f = '"%s"' % f          # (otherwise: an unquoted reference whose last path element has a dot - the import is the longest prefix)
        n = "s%d" % i
        if kind == "constructor":
            svcs[n] = {"constructor": "%s.NewA" % f}
            expect.append(("constructor", f, "NewA"))
        elif kind == "value":
            svcs[n] = {"value": "%s.Value" % f}
            expect.append(("value", f, "Value"))
        elif kind == "type":
            svcs[n] = {"value": "&%s.Value" % f, "type": "*%s.T" % f, "getter": "GetS%d" % i}
            expect.append(("type", f, "T"))
        elif kind == "argvalue":
            svcs[n] = {"constructor": "NewA", "arguments": ["!value %s.Value" % f]}
            expect.append(("argvalue", f, "Value"))
        else:
            svcs[n] = {"value": "&%s.MyStruct{}" % f}
            expect.append(("struct", f, "MyStruct"))
    cfg = {"meta": {"imports": dict(table)}, "services": svcs}
    fdec = forms[-1]
    if "." in fdec.strip('"').split("/")[-1] and not fdec.startswith('"'):
        fdec = '"%s"' % fdec
    svcs["s0"]["tags"] = ["tg"]
    cfg["decorators"] = [{"tag": "tg", "decorator": "%s.Decorate" % fdec}]
    expect.append(("decorator", fdec, "Decorate"))
    ffn = forms[-2]
    if "." in ffn.strip('"').split("/")[-1] and not ffn.startswith('"'):
        ffn = '"%s"' % ffn
    cfg["meta"]["functions"] = {"pf": "%s.GetEnv" % ffn}
    cfg["parameters"] = {"p": "%pf(\"x\")%", "q": "%env(\"HOME\", \"d\")%"}
    expect.append(("function", ffn, "GetEnv"))
    return cfg, expect


def run(tier, seed, replay):
    out, tooldir, env = common.setup("C14", tier, seed)
    common.proof_part(out, env, "C14")
    r = random.Random("%s/c14" % seed)
    specs, plan = [], []
    for t in tables(r):
        for rep in range(3 if tier == "quick" else 40):
            cfg, expect = cfg_for(r, t)
            sp = common.mk_spec(len(specs), [cfg], keep_out=True)
            sp["what"] = ["aliases:" + ",".join(sorted(t))]
            specs.append(sp)
            plan.append((t, expect))
    # packages that are named only by the type of getter-less services: the import block lists none of them (adjacent, first, last)
    pk = ["gv.test/fix/alpha", "gv.test/fix/beta-pkg", "gv.test/fix/x.y", "example.com/lib", "example.com/other", "gv.test/fix/alpha/sub"]
    # the alias table arrives in several files: later files add aliases and re-point earlier ones
    for t1, t2 in [({"foo": "example.com/lib", "fo": "example.com/other"}, {"f": "gv.test/fix/alpha"}),
                   ({"foo": "example.com/lib", "bar": "example.com/other"}, {"foo": "gv.test/fix/alpha"}),
                   ({"a": "example.com/lib"}, {"a": "example.com/other", "a.b": "example.com/lib", "A": "gv.test/fix/x.y"}),
                   ({"gv": "example.com/lib"}, {"gv.test": "example.com/other"})]:
        merged = dict(t1, **t2)
        for rep in range(2 if tier == "quick" else 20):
            cfg, expect = cfg_for(r, merged)
            first = {"meta": {"imports": dict(t1)}, "parameters": cfg.pop("parameters")}
            cfg["meta"]["imports"] = dict(t2)
            order = r.random() < 0.5      # the references may stand in the file that precedes the table they are resolved with
            sp = common.mk_spec(len(specs), [first, cfg] if order else [dict(cfg, meta=dict(cfg["meta"], imports=dict(t1))), {"meta": {"imports": dict(t2)}, "parameters": first["parameters"]}], keep_out=True)
            sp["what"] = ["aliases-two-files:" + ",".join(sorted(merged))]
            specs.append(sp)
            plan.append((merged, expect))
    for sel in ([0, 1], [0, 1, 2, 3, 4, 5], [3, 4], [5, 0], [2]):
        for stub in (False, True):
            cfg = {"services": {"s%d" % i: {"constructor": "NewA", "type": "*\"%s\".T" % pk[i]} for i in sel}}
            cfg["services"]["used"] = {"value": "\"%s\".Value" % pk[(sel[0] + 1) % len(pk)]}
            sp = common.mk_spec(len(specs), [cfg], keep_out=True, flags={"stub": stub})
            sp["what"] = ["unused-type-imports" + ("/stub" if stub else "")]
            specs.append(sp)
            plan.append(({}, [("value", "\"%s\"" % pk[(sel[0] + 1) % len(pk)], "Value")] if not stub else []))
    if replay:
        rp = json.load(open(replay))["replay"]
        specs = [dict(rp, id="0", dump=True, build_info="bi", keep_out=True)]
        plan = [(rp.get("table", {}), rp.get("expect", []))]
    obs = build.gx_run(tooldir, specs)
    common.real_sanity(out, specs, obs, "C14")
    common.correspondence(out, env, specs, obs, "C14 alias table and generated expressions")
    codegen.render_correspondence(out, env, tooldir, specs, obs, "C14")
    acc = [k for k, o in enumerate(obs) if o.get("exit") == 0 and o.get("out_content")]
    api_of = dict(zip(acc, build.gx_api(tooldir, [obs[k]["out_content"] for k in acc])))
    nontrivial = set()
    dist = {"accepted": len(acc), "rejected": len(specs) - len(acc), "references": 0}
    samples = []
    for k, (sp, ob) in enumerate(zip(specs, obs)):
        table, expect = plan[k]
        rep = dict(common.slim(sp, ob), table=table, expect=expect)
        if ob.get("exit") != 0:
            out.violation("rejected:" + sp["what"][0], "a configuration whose references are all well-formed is rejected: %s" % (ob.get("errors") or [])[:2], rep)
            continue
        api = api_of[k]
        imps = {i["name"]: i["path"] for i in api["imports"]}
        names = [i["name"] for i in api["imports"]]
        if len(set(names)) != len(names) or not all(re.fullmatch(r"[A-Za-z_][A-Za-z0-9_]*", n) for n in names):
            out.violation("local-names", "import local names are not distinct legal identifiers: %s" % names, rep)
        paths = [i["path"] for i in api["imports"]]
        if len(set(paths)) != len(paths):
            out.violation("imported-twice", "a package is imported more than once: %s" % paths, rep)
        want_user = set()
        uses = set(api["qualified_uses"])
        for pos, written, sym in expect:
            dist["references"] += 1
            pkg = denote(table, written)
            if pkg is None:
                continue
            want_user.add(pkg)
            if "%s.%s" % (pkg, sym) not in uses:
                out.violation("resolves-elsewhere:%s" % pos, "reference %s.%s (%s position) must denote package %s, the generated code does not use %s.%s" % (written, sym, pos, pkg, pkg, sym), rep)
        got_user = {p for p in paths if p not in STD and not p.startswith(HELP)}
        if got_user != want_user:
            out.violation("import-block", "user packages in the import block %s differ from the packages the configuration denotes %s" % (sorted(got_user), sorted(want_user)), rep)
        for p in paths:
            if p in STD or p.startswith(HELP):
                if not any(u.startswith(p + ".") for u in uses):
                    out.violation("unused-import", "import %s is not used" % p, rep)
        nontrivial.add(json.dumps(sorted(want_user)) + json.dumps(sorted(table)))
        if len(samples) < 3:
            samples.append({"table": table, "references": expect[:5], "import_block": api["imports"][:8]})
    # compile and run: every fixture package exports the same symbols, each identifying its own package
    nonstub = [k for k in acc if not specs[k]["flags"].get("stub")]
    cap = 60 if tier == "quick" else 300
    # (a stride over all families instead of a prefix: the later families - case-only aliases, two files, unused types - are compiled too)
    directed_k = [k for k in nonstub if not specs[k]["what"][0].startswith("aliases:")]
    alias_k = [k for k in nonstub if specs[k]["what"][0].startswith("aliases:")]
    room = max(1, cap - len(directed_k))
    items = [("c%04d" % k, obs[k]["out_content"]) for k in directed_k + alias_k[::max(1, (len(alias_k) + room - 1) // room)]][:cap + len(directed_k)]
    errs, unstable, init_fail = codegen.compile_batch(items)
    for name, txt in init_fail.items():
        if name != "_batch":
            out.violation("init-fails", "the generated package fails when it is initialised: %s" % txt[-300:], common.slim(specs[int(name[1:])], obs[int(name[1:])]))
        else:
            out.broke("harness: C14 init batch", txt[-600:])
    sitems = [("c%04d" % k, obs[k]["out_content"]) for k in acc if specs[k]["flags"].get("stub")]
    if sitems:
        serrs, _, _ = codegen.compile_batch(sitems, tags="gontainerstub")
        errs.update({n: l for n, l in serrs.items() if n != "_batch"})
    for name, lines in errs.items():
        if name != "_batch":
            k = int(name[1:])
            out.violation("does-not-compile", "accepted alias configuration does not compile: %s" % lines[:3], dict(common.slim(specs[k], obs[k]), compiler_output=lines[:10]))
    out.coverage.update({
        "evaluations": len(specs), "distinct_nontrivial": len(nontrivial), "programs": len(items),
        "rule": "alias tables incl. aliases that are string prefixes of other aliases (foo/fo/f), of referenced paths (example.com, gv.test) and of the packages the generated code imports itself (fmt, os, errors, github.com) x references in constructor, value, type, !value, struct-literal, decorator and function positions written as bare alias, quoted alias, alias/sub, unquoted path, quoted path and \".\"; non-trivial = distinct (alias table, denoted package set)",
        "distribution": dist, "samples": samples,
    })
    out.assumptions = ["which package a symbol comes from at run time is observed through the fixture's self-identifying Origin strings in the probe check"]
    return out.finish()
