"""C07 — dependency cycles are detected, exactly.
theorems: Props/C07.v (cycle enumeration sound/complete, nil iff acyclic, reachability); tie: model vs real on exhaustive small
dependency structures; oracle: the documented dependency relation computed independently (vlib/spec.py)."""
import itertools
import json
import random
import re

from vlib import build, cfggen, graphgen, spec
from . import common

PFX = "output.ValidateCircularDeps: "


def families(tier, seed):
    cfgs = []
    # every digraph on 3 services over @-edges (self loops included): 512
    step = 1 if tier == "thorough" else 3
    off = seed % step        # which third of the exhaustive families the quick tier takes depends on the seed
    for k, es in enumerate(graphgen.all_digraphs(3)):
        if (k + off) % step == 0:
            cfgs.append(("svc3", graphgen.graph_cfg(3, es)))
    # every digraph on 3 parameters
    for k, es in enumerate(graphgen.all_digraphs(3)):
        if (k + off) % step == 0:
            cfgs.append(("param3", graphgen.graph_cfg(0, set(), n_params=3, param_edges=es)))
    # the same structures with the references written in descending order and with text between them
    for k, es in enumerate(graphgen.all_digraphs(3)):
        if (k + off + 1) % step == 0:
            cfgs.append(("param3-desc", graphgen.graph_cfg(0, set(), n_params=3, param_edges=es, order="desc", param_sep="://")))
            cfgs.append(("svc3-desc", graphgen.graph_cfg(3, es, order="desc")))
    # the same structures with references written more than once (first twice, each twice, first again at the end): a repeated
    # reference is one dependency
    for k, es in enumerate(graphgen.all_digraphs(3)):
        if (k + off + 3) % (step * 2) == 0:
            for rp_ in ("first", "each", "sandwich"):
                cfgs.append(("param3-repeat", graphgen.graph_cfg(0, set(), n_params=3, param_edges=es, repeat=rp_, param_sep=", " if rp_ == "first" else "")))
                cfgs.append(("svc3-repeat", graphgen.graph_cfg(3, es, repeat=rp_, order="desc" if rp_ == "each" else "asc")))
    # the same edges written in calls (after a call without arguments), fields and withers instead of constructor arguments
    for k, es in enumerate(graphgen.all_digraphs(3)):
        if (k + off + 2) % (step * 2) == 0:
            for st_ in ("calls", "fields", "wither"):
                cfgs.append(("svc3-" + st_, graphgen.graph_cfg(3, es, edge_style=st_)))
    # references to undeclared services before / after the edge that closes a cycle (decided with --ignore-missing-services too)
    rg = random.Random("%s/c07ghost" % seed)
    for k, es in enumerate(graphgen.all_digraphs(3)):
        if (k + off + 5) % (step * 2) == 0:
            gh = {i: rg.choice(["first", "last"]) for i in range(3) if rg.random() < 0.6}
            cfgs.append(("svc3-ghost", graphgen.graph_cfg(3, es, ghosts=gh, order=rg.choice(["asc", "desc"]))))
    # !tagged requested from calls, fields, withers and decorator arguments; duplicate references; todo services on the way
    S = lambda **kw: dict({"constructor": "NewA"}, **kw)
    hand = [
        {"services": {"a": S(tags=["t"], arguments=["@b"]), "b": S(calls=[["Set", ["!tagged t"]]])}},
        {"services": {"a": S(tags=["t"], arguments=["@b"]), "b": S(fields={"F": "!tagged t"})}},
        {"services": {"a": S(tags=["t"], arguments=["@b"]), "b": S(calls=[["With", ["!tagged t"], True]])}},
        {"services": {"a": S(tags=["t"]), "b": S(calls=[["Set", ["!tagged t"]]], fields={"F": "!tagged t"})}},
        {"services": {"a": S(tags=["t"], calls=[["Set", [1, "!tagged t"]]])}},
        {"services": {"a": S(tags=["t"]), "b": S(tags=["u"], arguments=["!tagged t"])}, "decorators": [{"tag": "t", "decorator": "Decorate", "arguments": ["!tagged u"]}]},
        {"services": {"a": S(tags=["t"]), "b": S(tags=["u"], arguments=["!tagged t"])}, "decorators": [{"tag": "u", "decorator": "Decorate", "arguments": ["!tagged t"]}]},
        {"services": {"a": S(tags=["t"]), "b": S(arguments=["@a"])}, "decorators": [{"tag": "*", "decorator": "Decorate", "arguments": ["@b"]}]},
        {"services": {"a": S(tags=["t"]), "b": S()}, "decorators": [{"tag": "*", "decorator": "Decorate", "arguments": ["@b"]}]},
        {"services": {"a": S(arguments=["@b", "@b"]), "b": S(arguments=["@a", "@a"])}},
        {"services": {"a": S(arguments=["@b", "@b", "@c"]), "b": S(), "c": S(fields={"F": "@b", "G": "@b"})}},
        {"services": {"a": S(arguments=["@b"]), "b": {"todo": True, "constructor": "NewA", "arguments": ["@a"]}}},
        {"services": {"a": S(arguments=["@b"]), "b": {"todo": True}, "c": S(arguments=["@a", "@b"])}},
        {"parameters": {"a": "%b% %b%", "b": "%c%%c%", "c": "x%a%"}},
        {"parameters": {"a": "%todo()% %b%", "b": "%a%"}},
        {"parameters": {"a": "%%a%%", "b": "%%%b%"}},
    ]
    for slot in range(6):
        calls_ = [["A", ["x0"]], ["B", ["x1", "x2"]], ["C", []], ["D", ["x3"]]]
        fields_ = {"F": "x4", "G": "x5"}
        ref_ = "@b" if slot % 2 == 0 else "!tagged tb"
        if slot == 0:
            calls_[0][1][0] = ref_
        elif slot == 1:
            calls_[1][1][0] = ref_
        elif slot == 2:
            calls_[1][1][1] = ref_
        elif slot == 3:
            calls_[3][1][0] = ref_
        elif slot == 4:
            fields_["F"] = ref_
        else:
            fields_["G"] = ref_
        hand.append({"services": {"a": S(arguments=["lit"], calls=calls_, fields=fields_), "b": S(arguments=["@a"], tags=["tb"])}})
        hand.append({"services": {"a": S(calls=calls_, fields=fields_), "b": S(tags=["tb"])}})      # the same shape without the cycle
    for n_ in (4, 5, 8, 12):
        ring = {"p%d" % i: "x%%p%d%%" % ((i + 1) % n_) for i in range(n_)}
        hand.append({"parameters": dict(ring)})
        hand.append({"parameters": dict(ring, **{"p%d" % (n_ - 1): "end"})})            # the ring cut open: a chain
        hand.append({"parameters": dict(ring, p0="%p1% %p" + str(n_ // 2) + "%")})     # a chord: two overlapping cycles
        hand.append({"parameters": dict(ring, **{"p%d" % (n_ - 1): "end", "p1": "%p1%"})})   # a chain with one self-loop in the middle
        sring = {"s%d" % i: S(arguments=["@s%d" % ((i + 1) % n_)]) for i in range(n_)}
        hand.append({"services": dict(sring)})
        hand.append({"services": dict(sring, **{"s%d" % (n_ - 1): {"value": "Value"}})})
    for cfg in hand:
        cfgs.append(("hand", cfg))
    # one name used for a service, a parameter and a tag at once, referenced side by side in every order (the three namespaces are separate)
    for refs in [["%b%", "@b"], ["%b%", "!tagged b"], ["@b", "!tagged b"], ["%b%", "@b", "!tagged b"], ["%b%"], ["!tagged b"], ["%b%", "%a%", "@b"]]:
        for perm in itertools.permutations(refs):
            for carrier in ("b", "c", None):
                for where in ("arguments", "decorator"):
                    svcs = {"a": {"constructor": "NewA", "tags": ["deco"]}, "b": {"constructor": "NewA", "arguments": ["@a"]}, "c": {"constructor": "NewA", "arguments": ["@a"]}}
                    if carrier:
                        svcs[carrier]["tags"] = ["b"]
                    cfg = {"parameters": {"a": "x", "b": "%a%"}, "services": svcs}
                    if where == "arguments":
                        svcs["a"]["arguments"] = list(perm)
                    else:
                        cfg["decorators"] = [{"tag": "deco", "decorator": "Decorate", "arguments": list(perm)}]
                    cfgs.append(("namesakes", cfg))
    # tags: 2 services + tags t0,t1 carried / requested in every way (edges through !tagged), + decorators on tags
    r = random.Random("%s/c07tags" % seed)
    combos = []
    for carriers in itertools.product([(), (0,), (1,), (0, 1), (2,), (0, 2)], repeat=2):
        for req in itertools.product([(), ("t0",), ("t1",), ("t0", "t1")], repeat=3):
            combos.append((carriers, req))
    r.shuffle(combos)
    for carriers, req in combos[: (len(combos) if tier == "thorough" else 120)]:
        tc = {"t%d" % i: list(c) for i, c in enumerate(carriers) if c}
        tr = {i: list(q) for i, q in enumerate(req) if q}
        cfgs.append(("tags", graphgen.graph_cfg(3, set(), tag_carriers=tc, tag_requests=tr)))
    decs = []
    for carriers in [{"t0": [0]}, {"t0": [0, 1]}, {"t0": [0], "t1": [1]}, {"t0": [1], "t1": [2]}]:
        for d1 in itertools.product(["t0", "t1"], [(), (0,), (1,), (2,), (0, 2)], [(), ("t0",), ("t1",)]):
            for d2 in [None] + list(itertools.product(["t0", "t1"], [(), (0,), (1,)], [()])):
                for es in [set(), {(0, 1)}, {(1, 2)}, {(2, 0)}, {(1, 0), (2, 1)}]:
                    decs.append((carriers, [d for d in (d1, d2) if d], es))
    r.shuffle(decs)
    for carriers, ds, es in decs[: (len(decs) if tier == "thorough" else 220)]:
        cfgs.append(("decorators", graphgen.graph_cfg(3, es, tag_carriers=carriers, decorators=[(t, list(refs), list(tq)) for (t, refs, tq) in ds])))
    # random larger sparse graphs with overlapping cycles, params referenced from services
    for k in range(60 if tier == "quick" else 2000):
        n = r.randint(4, 7)
        es = {(r.randrange(n), r.randrange(n)) for _ in range(r.randint(2, n + 3))}
        pe = {(r.randrange(3), r.randrange(3)) for _ in range(r.randint(0, 3))}
        tc = {"t0": r.sample(range(n), r.randint(0, 2))}
        ds = [("t0", r.sample(range(n), r.randint(0, 2)), [])] if r.random() < 0.5 else None
        cfgs.append(("random", graphgen.graph_cfg(n, es, tag_carriers=tc, tag_requests={r.randrange(n): ["t0"]} if r.random() < 0.4 else None,
                                                  decorators=ds, n_params=3, param_edges=pe, svc_param_refs={0: [0]})))
    return cfgs


def parse_cycle(line):
    return line[len(PFX):].split(" -> ")


def node_edges(cfg):
    """edges between the pretty node names the tool prints (services @x, params %p%, !tagged t, decorate(!tagged t), decorator(#j))"""
    d = spec.Deps(cfg)
    e = set()
    for n, sv in d.services.items():
        for t in sv.get("tags") or []:
            e.add(("!tagged %s" % spec.tag_name(t), "@" + n))
            e.add(("@" + n, "decorate(!tagged %s)" % spec.tag_name(t)))
        for a in spec.service_args(sv):
            c = spec.classify_arg(a)
            if c[0] == "service":
                e.add(("@" + n, "@" + c[1]))
            elif c[0] == "tagged":
                e.add(("@" + n, "!tagged " + c[1]))
            elif c[0] == "pattern":
                for p in c[1]:
                    e.add(("@" + n, "%" + p + "%"))
    for j, dc in enumerate(d.decorators):
        e.add(("decorate(!tagged %s)" % dc["tag"], "decorator(#%d)" % j))
        for a in dc.get("arguments") or []:
            c = spec.classify_arg(a)
            if c[0] == "service":
                e.add(("decorator(#%d)" % j, "@" + c[1]))
            elif c[0] == "tagged":
                e.add(("decorator(#%d)" % j, "!tagged " + c[1]))
            elif c[0] == "pattern":
                for p in c[1]:
                    e.add(("decorator(#%d)" % j, "%" + p + "%"))
    for n, refs in d.param_edges().items():
        for p in refs:
            e.add(("%" + n + "%", "%" + p + "%"))
    return e


def run(tier, seed, replay):
    out, tooldir, env = common.setup("C07", tier, seed)
    common.proof_part(out, env, "C07")
    fams = families(tier, seed)
    specs = []
    for k, (fam, cfg) in enumerate(fams):
        sp = common.mk_spec(k, [cfg], flags={"ignore_services": True} if fam == "svc3-ghost" else None)
        sp["what"] = [fam]
        sp["cfg"] = cfg
        specs.append(sp)
    if replay:
        rp = json.load(open(replay))["replay"]
        specs = [dict(rp, id="0", dump=True, build_info="bi", cfg=rp.get("cfg"))]
    obs = build.gx_run(tooldir, specs)
    common.real_sanity(out, specs, obs, "C07")
    common.correspondence(out, env, specs, obs, "C07 cycle diagnostics", verdict_claim="a configuration is accepted only if its dependency relation is acyclic, and no acyclic configuration is rejected for cycles")
    dist = {}
    nontrivial = set()
    samples = []
    for sp, ob in zip(specs, obs):
        cfg = sp.get("cfg")
        if cfg is None:
            continue
        fam = sp["what"][0]
        d = spec.Deps(cfg)
        cyc_s = spec.on_cycle(d.svc_edges())
        cyc_p = spec.on_cycle(d.param_edges())
        cyclic = bool(cyc_s or cyc_p)
        errs = ob.get("errors") or []
        cerrs = [e for e in errs if e.startswith(PFX)]
        other = [e for e in errs if not e.startswith(PFX)]
        rep = dict(common.slim(sp, ob), cfg_text=cfggen.to_yaml(cfg), spec_on_cycle_services=sorted(cyc_s), spec_on_cycle_params=sorted(cyc_p))
        key = "%s:%s" % (fam, "cyclic" if cyclic else "acyclic")
        dist[key] = dist.get(key, 0) + 1
        if cyclic and not cerrs:
            out.violation("cycle-accepted:" + fam, "a cyclic configuration is not rejected for its cycle", rep)
        if not cyclic and cerrs:
            out.violation("false-cycle:" + fam, "an acyclic configuration is rejected with a cycle diagnostic", rep)
        if not cyclic and not other and ob.get("exit") != 0:
            out.violation("acyclic-rejected:" + fam, "an acyclic configuration without other defects is rejected", rep)
        if cerrs:
            nontrivial.add(json.dumps(sorted(cerrs)))
            shown = set()
            edges = node_edges(cfg)
            for line in cerrs:
                nodes = parse_cycle(line)
                shown |= set(nodes)
                if len(nodes) < 2 or nodes[0] != nodes[-1]:
                    out.violation("malformed-cycle:" + fam, "a reported cycle does not return to its start: %s" % line, rep)
                for a, b in zip(nodes, nodes[1:]):
                    if (a, b) not in edges:
                        out.violation("bogus-cycle-edge:" + fam, "reported cycle uses %s -> %s which is not a dependency" % (a, b), rep)
                        break
            for s in cyc_s:
                if "@" + s not in shown:
                    out.violation("cycle-element-not-shown:" + fam, "service %s lies on a cycle but no reported cycle passes through it" % s, rep)
            for p in cyc_p:
                if "%" + p + "%" not in shown:
                    out.violation("cycle-element-not-shown:" + fam, "parameter %s lies on a cycle but no reported cycle passes through it" % p, rep)
            if len(samples) < 5 and len(nontrivial) % 40 == 1:
                samples.append({"family": fam, "config": cfggen.to_yaml(cfg), "diagnostics": cerrs})
    # ---- run-time half: an accepted container reports no circular dependencies and every parameter evaluation terminates
    from . import rtcommon
    rs, hs, gs = rtcommon.gen_cases(seed, "c07rt", 16 if tier == "quick" else 300, weights={"todo": 0.1, "decorators": 0.9, "tags": 0.9, "min_tags": 1}, hist_len=0)
    for k, sp in enumerate(rs):
        hs[k] = [{"op": "circular", "name": ""}] + [{"op": "param", "name": p_} for p_ in sp["cfg"]["parameters"]] + [{"op": "get", "name": n_} for n_ in sp["cfg"]["services"]] + [{"op": "circular", "name": ""}]
    robs, rl, ml, racc = rtcommon.run_histories(out, tooldir, env, rs, hs, "C07 run-time half", "C07")
    for k in racc:
        for o, line in zip(hs[k], rl[k]):
            if o["op"] == "circular" and line != "N":
                out.violation("runtime-circular", "an accepted container reports circular dependencies: %s" % line[:200], dict(common.slim(rs[k], robs[k]), history=hs[k]))
            if "circular" in line.lower() and o["op"] != "circular":
                out.violation("runtime-circular", "%s %s of an accepted container fails with a circular-dependency error: %s" % (o["op"], o["name"], line[:200]), dict(common.slim(rs[k], robs[k]), history=hs[k]))
    dist["runtime"] = {"programs": len(racc), "operations": sum(len(hs[k]) for k in racc)}
    out.coverage.update({
        "evaluations": len(specs), "distinct_nontrivial": len(nontrivial), "exhaustive": tier == "thorough",
        "rule": "exhaustive digraphs on 3 services (@ edges, self loops) and on 3 parameters, tag carrier/request constellations, decorators on tags with service/tag dependencies, random larger sparse graphs; non-trivial = at least one cycle diagnostic; distinct by diagnostics set",
        "distribution": dist, "samples": samples or [{"note": "none"}],
    })
    out.assumptions = ["gonum's cycle enumeration is modelled by a plain elementary-cycle enumeration (Model/OutVal.all_cycles) and validated on these families"]
    return out.finish()
