"""C01 — accepted configurations yield Go code that compiles.   (partial: Go's type checker is external)
theorems: Props/C01.v (structure of the rendered file: unique method names, interface = method set, import block = alias table, names legal);
tie: the model's rendering, piped through the repo's real formatter, must equal the written bytes;
oracle (ground truth): go build / gofmt -l / init() of every written file against the fixture universe and the pinned runtime."""
import json
import random

from vlib import build, cfggen, codegen
from . import common


def feature_cfgs(seed, tier):
    r = random.Random("%s/c01f" % seed)
    out = []
    scopes = [None, "shared", "contextual", "non_shared"]
    lits = [0, -3, 1.5, True, None, "", "s", cfggen.Raw("18446744073709551615"), cfggen.Raw("-9223372036854775808"), cfggen.Raw("1e3"), "é\n\"q\"\\", "%%", "100%%"]
    vals = ["Value", "&Value", "example.com/lib.Value", "\"gv.test/fix/alpha\".GlobalVar.Field", "&\"gv.test/fix/alpha\".GlobalVar.Field", "MyStruct{}", "&MyStruct{}",
            "gv.test/fix/beta-pkg.MyStruct{}", "&\"gv.test/fix/x.y\".MyStruct{}", "\".\".Value", "al.Value", "\"al\".GlobalVar.Field", "al/sub.MyStruct{}"]
    k = 0
    for val in vals:
        ptr = "*" if val.startswith("&") else ""
        body = val.lstrip("&")
        if body.startswith('"'):
            imps = [body[:body.index('"', 1) + 1] + "."]
        elif body.startswith(("Value", "MyStruct")):
            imps = ["", '".".']
        else:
            head = body.split("{")[0]
            imps = [head[:head.rindex(".") + 1]]
        for ty in [None] + [ptr + i + t for i in imps for t in ("T", "Srv")]:
            k += 1
            if tier == "quick" and k % 2:
                continue
            sv = {"value": val}
            if ty:
                sv["type"] = ty
            sv["getter"] = "GetV%d" % k
            if r.random() < 0.5:
                sv["must_getter"] = r.choice([True, False])
            sc = r.choice(scopes)
            if sc:
                sv["scope"] = sc
            out.append({"meta": {"imports": {"al": "gv.test/fix/alpha"}}, "services": {"v": sv}})
    types = [None, "T", "*T", "example.com/lib.T", "*\"gv.test/fix/x.y\".Srv", "\".\".Box", "*al.Handler"]
    for ty in types:
        out.append({"meta": {"imports": {"al": "gv.test/fix/alpha"}, "default_must_getter": True}, "services": {"t": {"type": ty or "T", "getter": "GetT"}, "u": {"type": ty or "*T", "getter": "GetU", "must_getter": False}}})
    for sc in scopes:
        sv = {"constructor": "al.NewA", "arguments": lits + ["@dep", "!tagged tg", "!value al.Value", "$gontainer", "%p%", "a %p% %%"],
              "calls": [["SetX", [1, "@dep"]], ["WithY", ["%p%"], True], ["Init"]], "fields": {"Name": "%p%", "Dep": "@dep", "Port": 7}, "tags": [{"name": "t2", "priority": -5}, "t3"],
              "getter": "GetMain", "type": "*al.T"}
        if sc:
            sv["scope"] = sc
        out.append({"meta": {"imports": {"al": "gv.test/fix/alpha", "fmt": "example.com/other", "github.com": "example.com/lib"}, "functions": {"fn": "al.Fn", "up": "\"example.com/lib\".GetEnv"}},
                    "parameters": {"p": "x", "q": "%fn(\"a\", 1)% %env(\"HOME\", \"d\")% %envInt(\"N\", 3)%", "r": "%up()%", "t": "%todo(\"later\")%", "n": None, "f": 2.5},
                    "services": {"main": sv, "dep": {"value": "fmt.Value", "tags": ["tg"]}, "gh": {"constructor": "github.com/sub.NewB", "todo": False}, "td": {"todo": True}},
                    "decorators": [{"tag": "tg", "decorator": "al.Decorate", "arguments": ["%p%", 1]}, {"tag": "t2", "decorator": "Wrap", "arguments": ["@dep", "!tagged tg"]}]})
    for lit in [cfggen.Raw(".inf"), cfggen.Raw("-.inf"), cfggen.Raw(".nan"), cfggen.Raw("1e300"), cfggen.Raw("-1e155"), cfggen.Raw("1e19"), cfggen.Raw("9.9e18"), cfggen.Raw("1.7976931348623157e308"), cfggen.Raw("5e-324"), cfggen.Raw("-0.0"), cfggen.Raw("18446744073709551615"), cfggen.Raw("18446744073709551616")]:
        out.append({"parameters": {"p": lit}})
        out.append({"services": {"s": {"constructor": "NewA", "arguments": [lit]}}})
    for names in [{"pkg": "di", "container_type": "C", "container_constructor": "NewC"}, {"pkg": "main"}, {"container_type": "gontainer", "container_constructor": "NewIt"}]:
        out.append({"meta": dict(names), "services": {"s": {"value": "Value", "getter": "GetS", "type": "T"}}})
    return out


def derived_name_cfgs():
    """configurations the validator may well reject; whatever it accepts has to compile"""
    out = []
    # method names are built by concatenation (Must + G, G + InContext): pairs of getters whose derived names meet, getters that meet the
    # container's own helpers; every ACCEPTED one of them has to compile
    for g1, g2, mg in [("ang", "Mustang", True), ("ard", "Mustard", True), ("x", "Mustx", True), ("x", "xInContext", False), ("a", "MustaInContext", True), ("getDB", "MustgetDB", True),
                       ("Get", "GetInContext", False), ("q", "Mustq", None), ("InContext", "MustInContext", True), ("must", "Mustmust", True), ("A", "MustA", True), ("GetX", "GetXInContext", False)]:
        for dmg in (None, True):
            a = {"value": "Value", "getter": g1, "type": "T"}
            if mg is not None:
                a["must_getter"] = mg
            cfg = {"services": {"a": a, "b": {"value": "Value", "getter": g2, "type": "*T"}}}
            if dmg:
                cfg["meta"] = {"default_must_getter": True}
            out.append(cfg)
    for g in ["Must", "Mus", "M", "InContext", "MustInContext", "_getEnv", "_", "_x", "c", "rootGontainer", "NewGontainer", "Gontainer", "init", "main", "Container", "Root", "Get", "String", "Error"]:
        out.append({"services": {"a": {"value": "Value", "getter": g, "must_getter": True}}})
    return out


def run(tier, seed, replay):
    out, tooldir, env = common.setup("C01", tier, seed)
    common.proof_part(out, env, "C01", ties=["Tie/EnvTie.v"])
    cfgs = [("feature", c, 1) for c in feature_cfgs(seed, tier)] + [("derived-names", c, 1) for c in derived_name_cfgs()]
    # user-chosen identifiers equal to identifiers the generated file declares itself (special function names, locals of the constructor)
    for what, c in [("container_constructor=init", {"meta": {"container_constructor": "init"}, "services": {"s": {"value": "Value"}}}),
                    ("container_constructor=main", {"meta": {"container_constructor": "main"}, "services": {"s": {"value": "Value"}}}),
                    ("container_type=rootGontainer", {"meta": {"container_type": "rootGontainer"}, "services": {"s": {"value": "Value"}}}),
                    ("container_type=c", {"meta": {"container_type": "c"}, "services": {"s": {"value": "Value"}}}),
                    ("constructor=newService", {"services": {"s": {"constructor": "newService"}}}),
                    ("constructor=getParam", {"services": {"s": {"constructor": "getParam", "arguments": [1]}}}),
                    ("constructor=callProvider", {"services": {"s": {"constructor": "callProvider"}}}),
                    ("constructor=dependencyValue", {"services": {"s": {"constructor": "dependencyValue", "arguments": ["x"]}}}),
                    ("function=getEnv", {"meta": {"functions": {"f": "getEnv"}}, "parameters": {"p": "%f(\"a\")%"}}),
                    ("constructor=New(ok)", {"services": {"s": {"constructor": "New"}}})]:
        cfgs.append(("template-ident:" + what, c, 1))
    for sp in common.random_specs(seed, 120 if tier == "quick" else 2500, "c01", inj_rate=0.0, nfiles_choices=(1, 1, 2, 3)):
        cfgs.append(("random", sp, 0))
    specs = []
    for k, (kind, c, is_cfg) in enumerate(cfgs):
        for stub in (False, True):
            if is_cfg:
                sp = common.mk_spec(len(specs), [c], flags={"stub": stub}, keep_out=True)
            else:
                sp = dict(c, id=str(len(specs)), flags={"stub": stub}, keep_out=True)
            sp["what"] = [kind]
            specs.append(sp)
    if replay:
        rp = json.load(open(replay))["replay"]
        specs = [dict(rp, id="0", dump=True, build_info="bi", keep_out=True)]
    obs = build.gx_run(tooldir, specs)
    common.real_sanity(out, specs, obs, "C01")
    common.correspondence(out, env, specs, obs, "C01 front end")
    nrend = codegen.render_correspondence(out, env, tooldir, specs, obs, "C01")
    accepted = [(k, o) for k, o in enumerate(obs) if o.get("exit") == 0 and o.get("out_content")]
    dist = {"accepted_normal": 0, "accepted_stub": 0, "rejected": len(specs) - len(accepted), "compile_failures": 0}
    for k, sp in enumerate(specs):
        if sp.get("what") == ["feature"] and obs[k].get("exit") != 0:
            out.broke("harness: a feature configuration of the C01 matrix is not accepted", {"files": sp["files"], "errors": obs[k].get("errors")})
    # rebuild over an existing, longer generated file: the result is the same complete, compilable file
    resp, reidx = [], []
    for k, o in accepted[:: max(1, len(accepted) // (25 if tier == "quick" else 200))]:
        sp = dict(specs[k], id="re%d" % k)
        sp["files"] = list(sp["files"]) + [{"path": sp["output"], "content": o["out_content"] + "\n// a previous, longer generation\nfunc leftover() {}\n" * 40}]
        resp.append(sp)
        reidx.append(k)
    reobs = build.gx_run(tooldir, resp)
    dist["rebuilt_over_longer_file"] = len(resp)
    for sp, ro, k in zip(resp, reobs, reidx):
        if ro.get("exit") != 0 or ro.get("out_content") != obs[k].get("out_content"):
            out.violation("rebuild-over-existing-file", "building over an existing longer file does not give the file a fresh build gives (exit %s)" % ro.get("exit"),
                          dict(common.slim(sp, ro), fresh_len=len(obs[k].get("out_content") or ""), rebuilt_len=len(ro.get("out_content") or ""), tail=(ro.get("out_content") or "")[-200:]))
    nontrivial = set()
    for stub in (False, True):
        items = [("c%04d" % k, o["out_content"]) for k, o in accepted if bool(specs[k]["flags"].get("stub")) == stub]
        dist["accepted_stub" if stub else "accepted_normal"] = len(items)
        for a in range(0, len(items), 80):
            errs, unstable, init_fail = codegen.compile_batch(items[a:a + 80], tags="gontainerstub" if stub else None)
            for name, lines in errs.items():
                if name == "_batch":
                    out.broke("harness: batch build", lines[:5])
                    continue
                k = int(name[1:])
                dist["compile_failures"] += 1
                txt = "\n".join(lines)
                key = "does-not-compile"
                if specs[k]["what"][0].startswith("template-ident:"):
                    key = "does-not-compile:" + specs[k]["what"][0]
                if "undefined: Inf" in txt or "undefined: NaN" in txt:
                    key = "nonfinite-float-literal"
                out.violation(key, "exit 0 but the written file does not compile (%s mode): %s" % ("stub" if stub else "normal", lines[:3]),
                              dict(common.slim(specs[k], obs[k]), compiler_output=lines[:12]))
            for name in unstable:
                k = int(name[1:])
                out.violation("not-gofmt-stable", "the written file is not gofmt-stable", common.slim(specs[k], obs[k]))
            for name, txt in init_fail.items():
                out.violation("init-panics:" + name, "package initialisation of the generated code fails: %s" % txt[-300:], {"batch": [n for n, _ in items[a:a + 80]][:5], "output": txt})
    for k, o in accepted:
        nontrivial.add(o["out_after"].get("hash"))
    out.coverage.update({
        "evaluations": len(specs), "distinct_nontrivial": len(nontrivial), "programs": len(accepted), "rendered_vs_model": nrend,
        "rule": "feature matrix (every documented value and type form x getters x scopes x literals incl. non-finite floats x import forms incl. aliases named like the template's own imports x meta names) + random configurations, each in normal and --stub mode; every accepted output is compiled (go build, with -tags gontainerstub for stubs), gofmt -l'ed and its init() executed; non-trivial = distinct accepted output",
        "distribution": dist, "samples": [{"files": specs[k]["files"], "flags": specs[k]["flags"]} for k, _ in accepted[:3]],
    })
    out.assumptions = ["partial: 'type-checks' is decided by the real Go toolchain on the explored outputs; the theorems cover the structure of the rendered file",
                       "fixture universe: every symbol a generated configuration may name exists (harness/gotools/fixture)"]
    return out.finish()
