"""C10 — exit status, diagnostics and output-file contract of `build`.
theorems: Props/C10.v (run = pipeline, exit 0 iff the single write happened, count = list length, quiet);
tie: model vs real command (stdout byte for byte, exit, wrote) under an enumeration of environment faults;
oracle: the contract predicates evaluated on the real observations (stat + hash of the -o path before/after)."""
import json
import os
import re
from vlib import build, cfggen
from . import common

VALID = "parameters: {p: 1, q: \"%p% x\"}\nservices:\n  a: {value: \"V\", getter: GetA}\n  b: {constructor: NewB, arguments: [\"@a\", \"%q%\"]}\n"
DEFECTS = {
    "yaml-syntax": "parameters: {p: 1\nservices: [",
    "yaml-type": "services: 5\n",
    "yaml-types-multiline": "meta:\n  pkg: [main]\nservices:\n  s:\n    arguments: notalist\n    tags: 5\nparameters: [1]\n",
    "grammar": "parameters: {\"1bad\": 1}\nservices: {s: {constructor: \"New X\"}}\n",
    "missing-param": "services: {s: {constructor: NewS, arguments: [\"%nope%\"]}}\n",
    "missing-service": "services: {s: {constructor: NewS, arguments: [\"@nope\"]}}\n",
    "cycle": "services: {a: {constructor: NewA, arguments: [\"@b\"]}, b: {constructor: NewB, arguments: [\"@a\"]}}\n",
    "scope": "services: {a: {constructor: NewA, arguments: [\"@b\"], scope: shared}, b: {constructor: NewB, scope: contextual}}\n",
    "pattern": "parameters: {p: \"100%\"}\n",
    "version": "version: \"9.9.9\"\nparameters: {p: 1}\n",
    "format-fails-keyword-pkg": "meta: {pkg: func}\nparameters: {p: 1}\n",
    "format-fails-fn-args": "parameters: {p: '%env(\")%'}\n",
    "multi": "parameters: {\"1bad\": 1, \"2bad\": [1]}\nservices: {s: {constructor: \"New X\", getter: \"Get\", tags: [dup, dup]}}\n",
}


def fault_cases():
    """(name, files, patterns, output, pre-existing output state)"""
    cases = []
    for pre in ("absent", "file", "longfile"):
        # longfile: the pre-existing file is longer than anything generated (an overwrite must not leave its tail behind)
        pref = [{"path": "out/gen.go", "content": "OLD CONTENT\n"}] if pre == "file" else [{"path": "out/gen.go", "content": "// OLD CONTENT, LONG\n" * 6000}] if pre == "longfile" else [{"path": "out", "content": "", "dir": True}]
        base = [{"path": "cfg/a.yaml", "content": VALID}]
        cases.append(("ok/" + pre, base + pref, ["cfg/*.yaml"], "out/gen.go"))
        for dn, txt in DEFECTS.items():
            cases.append(("defect:%s/%s" % (dn, pre), [{"path": "cfg/a.yaml", "content": txt}] + pref, ["cfg/*.yaml"], "out/gen.go"))
        cases.append(("missing-input/" + pre, pref, ["cfg/nothere.yaml"], "out/gen.go"))
        cases.append(("empty-glob/" + pre, pref + [{"path": "cfg", "content": "", "dir": True}], ["cfg/*.yaml"], "out/gen.go"))
        cases.append(("invalid-glob/" + pre, base + pref, ["cfg/[a.yaml"], "out/gen.go"))
        cases.append(("input-is-dir/" + pre, base + pref + [{"path": "cfg/sub.yaml", "content": "", "dir": True}], ["cfg/*.yaml"], "out/gen.go"))
        cases.append(("matched-twice/" + pre, base + pref, ["cfg/*.yaml", "cfg/a.yaml"], "out/gen.go"))
        cases.append(("matched-twice-two-files/" + pre, base + pref + [{"path": "cfg/b.yaml", "content": "parameters: {z: 2}\n"}],
                      ["cfg/*.yaml", "cfg/b.yaml", "cfg/a.*"], "out/gen.go"))
        # the same file reached through differently spelled paths (the duplicate check works on cleaned paths)
        cases.append(("matched-twice-dot/" + pre, base + pref, ["cfg/a.yaml", "./cfg/a.yaml"], "out/gen.go"))
        cases.append(("matched-twice-slashes/" + pre, base + pref, ["cfg//a.yaml", "cfg/a.yaml"], "out/gen.go"))
        cases.append(("matched-twice-dotdot-glob/" + pre, base + pref, ["cfg/../cfg/a.yaml", "cfg/*.yaml"], "out/gen.go"))
        cases.append(("matched-twice-unclean-both/" + pre, base + pref, ["./cfg/a.yaml", "cfg/./a.yaml"], "out/gen.go"))
        cases.append(("same-pattern-twice/" + pre, base + pref, ["cfg/a.yaml", "cfg/a.yaml"], "out/gen.go"))
        cases.append(("same-glob-twice/" + pre, base + pref, ["cfg/*.yaml", "cfg/*.yaml"], "out/gen.go"))
        cases.append(("same-pattern-thrice-interleaved/" + pre, base + pref + [{"path": "cfg/b.yaml", "content": "parameters: {z: 2}\n"}], ["cfg/a.yaml", "cfg/b.yaml", "cfg/a.yaml"], "out/gen.go"))
        cases.append(("matched-twice-nonascii/" + pre, [{"path": "cfg/\u00e9a.yaml", "content": VALID}] + pref, ["cfg/\u00e9*.yaml", "cfg/\u00e9a.yaml", "cfg/\u4e2d*.yaml"], "out/gen.go"))
        cases.append(("matched-twice-punct/" + pre, [{"path": "cfg/a'b c.yaml", "content": VALID}] + pref, ["cfg/a'b c.yaml", "cfg/a'b*.yaml", "cfg/\\a'b c.yaml"], "out/gen.go"))
        cases.append(("one-ok-one-missing-pattern/" + pre, base + pref, ["cfg/*.yaml", "nothing/*.yaml"], "out/gen.go"))
        cases.append(("second-file-broken/" + pre, base + pref + [{"path": "cfg/b.yaml", "content": "a: [\n"}], ["cfg/*.yaml"], "out/gen.go"))
        cases.append(("empty-file/" + pre, pref + [{"path": "cfg/a.yaml", "content": ""}], ["cfg/*.yaml"], "out/gen.go"))
    # -o is a symbolic link: dangling into a missing directory (the write fails: the link stays), dangling but creatable (written through it),
    # to an existing file (overwritten through it), to a directory; with a valid and with an invalid configuration
    for cn, ctext in (("ok", VALID), ("defect:grammar", DEFECTS["grammar"]), ("defect:format-fails-keyword-pkg", DEFECTS["format-fails-keyword-pkg"])):
        base_ = [{"path": "cfg/a.yaml", "content": ctext}]
        cases.append(("output-link-dangling-nodir/" + cn, base_ + [{"path": "out.go", "content": "", "link": "nodir/real.go"}], ["cfg/*.yaml"], "out.go"))
        cases.append(("output-link-dangling-creatable/" + cn, base_ + [{"path": "out.go", "content": "", "link": "real.go"}], ["cfg/*.yaml"], "out.go"))
        cases.append(("output-link-to-file/" + cn, base_ + [{"path": "real.go", "content": "OLD\n"}, {"path": "out.go", "content": "", "link": "real.go"}], ["cfg/*.yaml"], "out.go"))
        cases.append(("output-link-to-dir/" + cn, base_ + [{"path": "d", "content": "", "dir": True}, {"path": "out.go", "content": "", "link": "d"}], ["cfg/*.yaml"], "out.go"))
    cases.append(("missing-output-dir", [{"path": "cfg/a.yaml", "content": VALID}], ["cfg/*.yaml"], "nodir/gen.go"))
    cases.append(("output-is-dir", [{"path": "cfg/a.yaml", "content": VALID}, {"path": "out/gen.go", "content": "", "dir": True}], ["cfg/*.yaml"], "out/gen.go"))
    cases.append(("output-is-dir+defect", [{"path": "cfg/a.yaml", "content": DEFECTS["grammar"]}, {"path": "out/gen.go", "content": "", "dir": True}], ["cfg/*.yaml"], "out/gen.go"))
    cases.append(("output-unclean-path", [{"path": "cfg/a.yaml", "content": VALID}, {"path": "out", "content": "", "dir": True}], ["./cfg/../cfg/*.yaml"], "out/../out/./gen.go"))
    return cases


FLAGSETS = [{}, {"quiet": True}, {"stub": True}, {"ignore_params": True, "ignore_services": True}, {"quiet": True, "stub": True, "ignore_params": True}]


def run(tier, seed, replay):
    out, tooldir, env = common.setup("C10", tier, seed)
    common.proof_part(out, env, "C10", ties=["Tie/EnvTie.v"])
    specs = []
    for name, files, pats, o in fault_cases():
        for fl in (FLAGSETS if tier == "thorough" else FLAGSETS[:4]):
            sp = common.mk_spec(len(specs), files, patterns=pats, flags=dict(fl), output=o, keep_out=True)
            sp["what"] = [name]
            specs.append(sp)
    nr = 60 if tier == "quick" else 900
    for sp in common.random_specs(seed, nr, "c10", inj_rate=0.6):
        sp["id"] = str(len(specs))
        sp["keep_out"] = True
        if len(specs) % 2:
            sp["files"] = sp["files"] + [{"path": "out.go", "content": "OLD\n"}]
        specs.append(sp)
    if replay:
        rp = json.load(open(replay))["replay"]
        specs = [dict(rp, id="0", dump=True, build_info="bi", keep_out=True)]
    obs = build.gx_run(tooldir, specs)
    common.real_sanity(out, specs, obs, "C10")
    common.correspondence(out, env, specs, obs, "C10 run/report/write", verdict_claim="exit 0 iff the complete source was written")
    # reference outputs: the bytes a successful run of the same input produces (for 'complete generated source')
    dist = {}
    nontrivial = set()
    samples = []
    by_key = {}
    for sp, ob in zip(specs, obs):
        what = (sp.get("what") or ["random"])[0]
        cls = what.split("/")[0] if not what.startswith("output-link") else what
        dist[cls] = dist.get(cls, 0) + 1
        rep = common.slim(sp, ob)
        ex = ob.get("exit")
        before, after = ob["out_before"], ob["out_after"]
        if ex not in (0, 1):
            out.violation("exit-range:" + what, "exit status outside {0,1}", rep)
            continue
        so = ob.get("stdout") or ""
        if ex == 0:
            content = ob.get("out_content")
            complete = bool(content) and content.lstrip().startswith(("// Code generated", "//go:build gontainerstub")) and content.rstrip().endswith("}")
            if not after["exists"] or after["is_dir"] or not complete:
                out.violation("exit0-no-output:" + cls, "exit 0 but the -o path does not hold a complete generated source", rep)
            # same inputs (every file except what the -o path held before), patterns and mode
            inputs = [f for f in sp["files"] if f["path"] not in (sp["output"], "out") and not f.get("dir")]
            by_key.setdefault(json.dumps([inputs, sp["patterns"], bool(sp["flags"].get("stub")), sp.get("version")], sort_keys=True), set()).add(after.get("hash"))
        else:
            if (after["exists"], after["is_dir"], after.get("hash"), after["size"], after.get("link")) != (before["exists"], before["is_dir"], before.get("hash"), before["size"], before.get("link")):
                out.violation("failure-touches-output:" + cls, "exit 1 but the -o path changed (%s -> %s)" % (before, after), rep)
            errs = ob.get("errors") or []
            if not sp["flags"].get("quiet"):
                m = None
                for line in so.split("\n"):
                    if " END" in line and "[⨉]" in line and not line.startswith(" "):
                        m = re.search(r"\((\d+) errors?\)", line)
                tail = so.split("Errors:\n", 1)[1] if "Errors:\n" in so else ""
                nums = re.findall(r"^(\d+)\. ", tail, re.M)
                if m is None or int(m.group(1)) != len(errs) or [int(x) for x in nums[:len(errs)]][-1:] != [len(errs)]:
                    out.violation("count-mismatch:" + cls, "the count on the failing step's END line differs from the numbered list", rep)
                # the numbered list itself: entries are numbered 1..n with n = the reported count (a message may span several lines)
                elif [int(x) for x in nums] != list(range(1, int(m.group(1)) + 1)):
                    out.violation("count-mismatch:" + cls, "the step reports %s errors but the list is numbered %s" % (m.group(1), nums[-3:]), rep)
            if not errs:
                out.violation("failure-without-errors:" + cls, "exit 1 with an empty error list", rep)
            nontrivial.add(cls + "|" + json.dumps(errs)[:200])
        if sp["flags"].get("quiet") and so != "":
            out.violation("quiet-prints:" + cls, "--quiet printed something", rep)
        if len(samples) < 5 and ex == 1 and len(nontrivial) % 9 == 1:
            samples.append({"fault": what, "flags": sp["flags"], "exit": ex, "errors": ob.get("errors"), "out_before": before, "out_after": after})
    # the written bytes depend on the input only: absent / short / long pre-existing output files give the same file
    for key, hs in by_key.items():
        if len(hs) > 1:
            out.violation("output-depends-on-old-file", "the same input produces different -o contents depending on what the path held before", {"input": json.loads(key), "hashes": sorted(h or "" for h in hs)})
    # the PROCESS exit status (main.go), for failures with many errors: 0 iff the file was written
    import subprocess as _sp, tempfile as _tf, shutil as _sh
    tmpb = _tf.mkdtemp(prefix="gvc10_", dir="/dev/shm")
    try:
        dist["binary_runs"] = 0
        for nerr in ([0, 1, 2, 256, 257] if tier == "quick" else [0, 1, 2, 3, 255, 256, 257, 511, 512, 513, 1024]):
            cfgp = os.path.join(tmpb, "c.yaml")
            open(cfgp, "w").write("parameters: {ok: 1}\nservices:\n" + "".join("  s%d: {constructor: NewS, arguments: [\"%%nope%d%%\"]}\n" % (i, i) for i in range(nerr)) + ("  fine: {value: V}\n" if nerr == 0 else ""))
            for quiet in (False, True):
                o = os.path.join(tmpb, "o.go")
                open(o, "w").write("OLD\n")
                p = _sp.run([os.path.join(tooldir, "gontainer"), "build", "-i", cfgp, "-o", o] + (["--quiet"] if quiet else []), stdout=_sp.PIPE, stderr=_sp.PIPE, text=True, timeout=120)
                dist["binary_runs"] += 1
                wrote = open(o).read() != "OLD\n"
                rep = {"files": [{"path": "c.yaml", "content": open(cfgp).read()[:2000]}], "patterns": ["c.yaml"], "output": "o.go", "flags": {"quiet": quiet}, "version": "", "errors_expected": nerr,
                       "process_exit": p.returncode, "wrote": wrote}
                if quiet and (p.stdout or p.stderr):
                    out.violation("binary-quiet-prints:many-errors", "--quiet printed to %s" % ("stdout" if p.stdout else "stderr"), dict(rep, stderr=p.stderr[-500:], stdout=p.stdout[-500:]))
                if (p.returncode == 0) != wrote or (nerr > 0 and p.returncode == 0) or (nerr == 0 and p.returncode != 0):
                    out.violation("process-exit-status", "a build with %d errors exits %d and %s the output file" % (nerr, p.returncode, "rewrites" if wrote else "leaves"), rep)
                elif p.returncode not in (0, 1):
                    out.broke("correspondence:C10 process exit status", dict(rep, note="the model (main.go: os.Exit(1)) says exit 1"))
    finally:
        _sh.rmtree(tmpb, ignore_errors=True)
    # the real binary under environment faults and argv shapes: process exit status, both streams, the -o path
    tmpb = _tf.mkdtemp(prefix="gvc10b_", dir="/dev/shm")
    try:
        gb = os.path.join(tooldir, "gontainer")
        def fresh():
            _sh.rmtree(os.path.join(tmpb, "w"), ignore_errors=True)
            os.makedirs(os.path.join(tmpb, "w", "cfg"))
            os.makedirs(os.path.join(tmpb, "w", "out"))
            open(os.path.join(tmpb, "w", "cfg", "a.yaml"), "w").write(VALID)
            open(os.path.join(tmpb, "w", "cfg", "b.yaml"), "w").write("parameters: {z: 2}\n")
            open(os.path.join(tmpb, "w", "cfg", "bad.yml"), "w").write(DEFECTS["grammar"])
            open(os.path.join(tmpb, "w", "out", "gen.go"), "w").write("OLD\n")
            os.makedirs(os.path.join(tmpb, "w", "out", "dir.go"))
        ARGV = [  # (name, argv after "build", expected exit 0?, -o path to watch)
            ("ok", ["-i", "cfg/a.yaml", "-o", "out/gen.go"], True, "out/gen.go"),
            ("ok-long-flags", ["--input", "cfg/a.yaml", "--output", "out/gen.go"], True, "out/gen.go"),
            ("ok-equals", ["--input=cfg/a.yaml", "--output=out/gen.go"], True, "out/gen.go"),
            ("ok-two-inputs", ["-i", "cfg/a.yaml", "-i", "cfg/b.yaml", "-o", "out/gen.go"], True, "out/gen.go"),
            ("ok-flags-first", ["-o", "out/gen.go", "--stub", "-i", "cfg/*.yaml"], True, "out/gen.go"),
            ("ok-new-file", ["-i", "cfg/a.yaml", "-o", "out/new.go"], True, "out/new.go"),
            ("no-input-flag", ["-o", "out/gen.go"], False, "out/gen.go"),
            ("no-output-flag", ["-i", "cfg/a.yaml"], False, "out/gen.go"),
            ("unknown-flag", ["-i", "cfg/a.yaml", "-o", "out/gen.go", "--nope"], False, "out/gen.go"),
            ("missing-input", ["-i", "cfg/none.yaml", "-o", "out/gen.go"], False, "out/gen.go"),
            ("empty-glob", ["-i", "cfg/*.json", "-o", "out/gen.go"], False, "out/gen.go"),
            ("invalid-glob", ["-i", "cfg/[a.yaml", "-o", "out/gen.go"], False, "out/gen.go"),
            ("input-is-dir", ["-i", "cfg", "-o", "out/gen.go"], False, "out/gen.go"),
            ("matched-twice", ["-i", "cfg/*.yaml", "-i", "cfg/a.yaml", "-o", "out/gen.go"], False, "out/gen.go"),
            ("defect", ["-i", "cfg/bad.yml", "-o", "out/gen.go"], False, "out/gen.go"),
            ("defect-after-ok", ["-i", "cfg/a.yaml", "-i", "cfg/bad.yml", "-o", "out/gen.go"], False, "out/gen.go"),
            ("missing-output-dir", ["-i", "cfg/a.yaml", "-o", "nodir/gen.go"], False, "nodir/gen.go"),
            ("output-is-dir", ["-i", "cfg/a.yaml", "-o", "out/dir.go"], False, "out/dir.go"),
            ("output-is-input", ["-i", "cfg/a.yaml", "-o", "cfg/b.yaml"], True, "cfg/b.yaml"),
        ]
        def state(pth):
            if os.path.isdir(pth):
                return "dir"
            return open(pth, "rb").read() if os.path.exists(pth) else None
        for name, argv, want_ok, watch in ARGV:
            res = {}
            for quiet in (False, True):
                fresh()
                wp = os.path.join(tmpb, "w", watch)
                before = state(wp)
                p = _sp.run([gb, "build"] + argv + (["--quiet"] if quiet else []), cwd=os.path.join(tmpb, "w"), stdout=_sp.PIPE, stderr=_sp.PIPE, timeout=120)
                dist["binary_runs"] += 1
                after = state(wp)
                rep = {"argv": argv, "quiet": quiet, "process_exit": p.returncode, "stdout": p.stdout.decode("utf-8", "replace")[-1500:], "stderr": p.stderr.decode("utf-8", "replace")[-800:], "watch": watch}
                res[quiet] = (p.returncode == 0, after)
                if (p.returncode == 0) != want_ok:
                    out.violation("binary-exit:" + name, "gontainer build %s exits %d, expected %s" % (" ".join(argv), p.returncode, "0" if want_ok else "non-zero"), rep)
                if p.returncode == 0 and not (isinstance(after, bytes) and after.lstrip().startswith((b"// Code generated", b"//go:build gontainerstub")) and after.rstrip().endswith(b"}")):
                    out.violation("binary-exit0-no-output:" + name, "exit 0 but the -o path does not hold a complete generated source", rep)
                if p.returncode != 0 and after != before:
                    out.violation("binary-failure-touches-output:" + name, "non-zero exit but the -o path changed", rep)
                if quiet and name not in ("no-input-flag", "no-output-flag", "unknown-flag") and (p.stdout or p.stderr):
                    # (a command line cobra itself refuses is not a build run; its usage error is printed by cobra)
                    out.violation("binary-quiet-prints:" + name, "--quiet printed to %s" % ("stdout" if p.stdout else "stderr"), rep)
            if res[False] != res[True]:
                out.violation("binary-quiet-changes:" + name, "--quiet changes the exit status or the file effect", {"argv": argv})
    finally:
        _sh.rmtree(tmpb, ignore_errors=True)
    # every file written with exit 0 is syntactically valid Go in canonical gofmt form (the complete source, not a prefix of it)
    tmpf = _tf.mkdtemp(prefix="gvc10f_", dir="/dev/shm")
    try:
        seen = {}
        for sp, ob in zip(specs, obs):
            if ob.get("exit") == 0 and ob.get("out_content") and ob["out_after"].get("hash") not in seen:
                seen[ob["out_after"].get("hash")] = (sp, ob)
        names = {}
        for j, (h, (sp, ob)) in enumerate(seen.items()):
            fn = "f%d.go" % j
            names[fn] = (sp, ob)
            open(os.path.join(tmpf, fn), "wb").write(ob["out_content"].encode("utf-8", "surrogateescape"))
        if names:
            p = _sp.run(["gofmt", "-l", "-e"] + sorted(names), cwd=tmpf, stdout=_sp.PIPE, stderr=_sp.PIPE, text=True, timeout=300)
            bad = set(l.strip() for l in p.stdout.split("\n") if l.strip()) | set(l.split(":")[0] for l in p.stderr.split("\n") if ".go:" in l)
            for fn in sorted(bad):
                if fn in names:
                    sp, ob = names[fn]
                    out.violation("exit0-not-go:" + (sp.get("what") or ["random"])[0].split("/")[0], "exit 0 but the written file is not well-formed gofmt-canonical Go: %s" % (p.stderr[:300] or "gofmt would rewrite it"), common.slim(sp, ob))
        dist["gofmt_checked_outputs"] = len(names)
    finally:
        _sh.rmtree(tmpf, ignore_errors=True)
    # quiet / non-quiet pairs of the fault matrix must agree on exit and file effect
    idx = {}
    for k, sp in enumerate(specs):
        if sp.get("what"):
            idx.setdefault(sp["what"][0], {})[json.dumps(sp["flags"], sort_keys=True)] = k
    for what, m in idx.items():
        a, b = m.get("{}"), m.get(json.dumps({"quiet": True}))
        if a is not None and b is not None:
            if obs[a].get("exit") != obs[b].get("exit") or obs[a]["out_after"] != obs[b]["out_after"]:
                out.violation("quiet-changes:" + what, "--quiet changes the exit status or the file effect", common.slim(specs[b], obs[b]))
    out.coverage.update({
        "evaluations": len(specs), "distinct_nontrivial": len(nontrivial),
        "rule": "fault matrix (missing input, directory as input, empty/invalid glob, file matched twice, missing output dir, output is a directory, every defect class incl. formatter failures) x pre-existing/absent output x flag sets, plus random configurations; non-trivial = a failing run; distinct by fault class and error list",
        "distribution": dist, "samples": samples or [{"note": "see distribution"}],
    })
    out.assumptions = ["a write that fails half-way (disk full, RLIMIT_FSIZE) is not in the property's fault list and is not exercised: os.WriteFile is not atomic", "permission faults are not exercised (checks run as root)"]
    return out.finish()
