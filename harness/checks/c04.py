"""C04 — tagged collections and decorators are applied as documented.
theorems: Props/C04.v (ordering of tagged services, decorators in declaration order after the service's own calls);
tie: probes against the real runtime; oracle: the order computed from the configuration in Python + the runtime model."""
import json
import re

from vlib import cfggen, spec
from . import common, rtcommon


def strip_serials(x):
    """a probe description without serial numbers (and without the objects' own logs of later calls)"""
    if isinstance(x, dict):
        return {k_: strip_serials(v) for k_, v in x.items() if k_ != "serial"}
    if isinstance(x, list):
        return [strip_serials(v) for v in x]
    return x


def tweak(r, g, cfg):
    """dense `!tagged` requests: a later service asks for a tag carried only by earlier services (arguments, calls and fields alike)"""
    names = list(cfg["services"])
    for i, n in enumerate(names):
        sv = cfg["services"][n]
        if "constructor" not in sv or r.random() > 0.6:
            continue
        mine = {spec.tag_name(t) for t in sv.get("tags") or []}
        ok = [t for t in g.tags if t not in mine and g.carriers[t] and max(g.carriers[t]) < i]
        if not ok:
            continue
        where = r.choice(["arguments", "arguments", "calls", "fields"])
        ref = "!tagged " + r.choice(ok)
        if where == "arguments":
            sv["arguments"] = list(sv.get("arguments") or []) + [ref]
        elif where == "calls":
            sv["calls"] = list(sv.get("calls") or []) + [["SetX", [ref]]]
        else:
            sv.setdefault("fields", {})["Zeta"] = ref


def lit_desc(a):
    """probe description of a literal decorator argument (None: not a literal this oracle decides)"""
    if isinstance(a, bool):
        return {"k": "bool", "v": a}
    if isinstance(a, int) and -2 ** 63 <= a < 2 ** 63:
        return {"k": "num", "t": "int", "v": str(a)}
    if a is None:
        return {"k": "nil"}
    if isinstance(a, str) and a and a[0] not in "@!$" and "%" not in a:
        try:
            a.encode("utf-8")
            return {"k": "str", "v": a}
        except UnicodeEncodeError:
            return None
    return None


def run(tier, seed, replay):
    out, tooldir, env = common.setup("C04", tier, seed)
    common.proof_part(out, env, "C04")
    n = 40 if tier == "quick" else 600
    specs, hists, gens = rtcommon.gen_cases(seed, "c04", n, weights={"tags": 0.9, "decorators": 0.95, "todo": 0.0, "failing": 0.0, "calls": 0.5, "min_tags": 1}, hist_len=0, tweak=tweak)
    import random
    for k, (sp, g) in enumerate(zip(specs, gens)):
        cfg = sp["cfg"]
        h = [{"op": "tagged", "name": t} for t in g.tags] + [{"op": "get", "name": s} for s in cfg["services"]] + [{"op": "taggedctx", "ctx": 1, "name": t} for t in g.tags]
        hists[k] = h
        # every second case: spread over several files (decorator order = file order)
        r = random.Random("%s/c04split/%d" % (seed, k))
        if k % 2:
            parts = cfggen.split_files(r, cfg, r.randint(2, 3))
            if k % 4 == 1:
                # one pattern with a wildcard directory: Glob walks directory by directory (conf, conf-x, conf.d), the documented order is the
                # byte order of the cleaned paths (conf-x/…, conf.d/…, conf/…)
                dirs = sorted(["conf", "conf.d", "conf-x"][:len(parts)], key=lambda d: ("cfg/%s/d.yaml" % d).encode())
                sp["files"] = [{"path": "cfg/%s/d.yaml" % d, "content": cfggen.to_yaml(p)} for d, p in zip(dirs, parts)]
                sp["patterns"] = ["cfg/*/d.yaml"]
            else:
                sp["files"] = [{"path": "cfg/f%d.yaml" % i, "content": cfggen.to_yaml(p)} for i, p in enumerate(parts)]
    # directed: carriers declared out of name order with equal priorities (ties are broken by name, not by declaration order);
    # one decorator function declared several times with different arguments
    tie = {"services": {n_: {"constructor": "NewA", "arguments": [n_], "tags": [{"name": "tie", "priority": p_}]} for n_, p_ in [("zeta", 1), ("alpha", 1), ("mid", 1), ("beta", 5), ("Alpha", 1), ("a10", 1), ("a9", 1)]},
           "decorators": [{"tag": "tie", "decorator": "Decorate", "arguments": ["first", 1]}, {"tag": "tie", "decorator": "Decorate", "arguments": ["second", 2]}, {"tag": "tie", "decorator": "Wrap", "arguments": []},
                          {"tag": "tie", "decorator": "Decorate", "arguments": ["third"]}]}
    tie["parameters"] = {"p": "pv"}
    tie["services"]["plug1"] = {"constructor": "MakeC", "tags": [{"name": "plugin", "priority": 2}]}
    tie["services"]["plug2"] = {"constructor": "Build", "tags": ["plugin"]}
    tie["services"]["host"] = {"constructor": "Provide", "tags": ["hosted"]}
    tie["decorators"].append({"tag": "hosted", "decorator": "Decorate", "arguments": ["!tagged plugin", "@plug1", "$gontainer", "!value Value", "%p%", "x %p% y", 5, None]})
    sp = common.mk_spec(len(specs), [tie], keep_out=True)
    sp["cfg"] = tie
    sp["what"] = ["tie-break-and-repeated-decorator"]
    specs.append(sp)
    hists.append([{"op": "tagged", "name": "tie"}] + [{"op": "get", "name": n_} for n_ in tie["services"]])
    # directed: tag names are case-sensitive, also when the tags of one service come from two files
    f1 = {"services": {"s": {"constructor": "NewA", "tags": [{"name": "Audit", "priority": 5}]}, "t": {"constructor": "NewB", "tags": [{"name": "Audit", "priority": 7}, "audit"]},
                       "u": {"constructor": "MakeC", "tags": [{"name": "audit", "priority": -1}]}},
          "decorators": [{"tag": "Audit", "decorator": "Decorate", "arguments": ["upper"]}]}
    f2 = {"services": {"s": {"tags": [{"name": "audit", "priority": 9}, "AUDIT"]}}, "decorators": [{"tag": "audit", "decorator": "Wrap", "arguments": ["lower"]}]}
    merged_ct = {"services": {"s": {"constructor": "NewA", "tags": [{"name": "Audit", "priority": 5}, {"name": "audit", "priority": 9}, "AUDIT"]}, "t": f1["services"]["t"], "u": f1["services"]["u"]},
                 "decorators": f1["decorators"] + f2["decorators"]}
    sp = common.mk_spec(len(specs), [f1, f2], keep_out=True)
    sp["cfg"] = merged_ct
    sp["what"] = ["case-twin-tags/two-files"]
    specs.append(sp)
    hists.append([{"op": "tagged", "name": t_} for t_ in ("Audit", "audit", "AUDIT")] + [{"op": "get", "name": n_} for n_ in ("s", "t", "u")])
    # directed: decorators of two tags interleaved in declaration order, on services carrying one, the other or both tags
    import itertools as _it
    for order in (["alpha", "beta", "alpha"], ["beta", "alpha", "beta", "alpha"], ["zeta", "alpha", "zeta"], ["alpha", "alpha", "beta", "alpha"], ["b", "a", "c", "a", "b"]):
        tags_ = sorted(set(order))
        svcs = {"both": {"constructor": "NewA", "tags": list(reversed(tags_)), "calls": [["Init", []]]}, "none": {"constructor": "NewB"}}
        for t_ in tags_:
            svcs["only_" + t_] = {"constructor": "MakeC", "tags": [{"name": t_, "priority": 3}]}
        decs = [{"tag": t_, "decorator": ["Decorate", "Wrap"][i % 2], "arguments": [i]} for i, t_ in enumerate(order)]
        for split in (False, True):
            cfg = {"services": svcs, "decorators": decs}
            sp = common.mk_spec(len(specs), [cfg] if not split else [{"services": svcs, "decorators": decs[:2]}, {"decorators": decs[2:]}], keep_out=True)
            sp["cfg"] = cfg
            sp["what"] = ["interleaved-decorators" + ("/two-files" if split else "")]
            specs.append(sp)
            hists.append([{"op": "get", "name": n_} for n_ in svcs] + [{"op": "tagged", "name": t_} for t_ in tags_])
    if replay:
        rp = json.load(open(replay))["replay"]
        specs = [dict(rp, id="0", dump=True, build_info="bi", keep_out=True)]
        hists = [rp["history"]]
    obs, rl, ml, acc = rtcommon.run_histories(out, tooldir, env, specs, hists, "C04 tagged/decorators", "C04")
    nontrivial = set()
    dist = {"accepted": len(acc), "tagged_lists": 0, "decorated": 0}
    for k in acc:
        cfg = specs[k].get("cfg")
        if cfg is None:
            continue
        d = spec.Deps(cfg)
        for o, line in zip(hists[k], rl[k]):
            if o["op"] == "tagged" and line.startswith("L["):
                dist["tagged_lists"] += 1
                # documented order: priority descending, then name ascending
                want = []
                for n, sv in cfg["services"].items():
                    for t in sv.get("tags") or []:
                        if spec.tag_name(t) == o["name"]:
                            want.append((-(t.get("priority", 0) if isinstance(t, dict) else 0), n))
                want = [n for _, n in sorted(want)]
                # each element of the list is the service as Get returns it: the list, element by element and with serial numbers removed,
                # must be the Get results of the carriers in the documented order (independent of the runtime model)
                nontrivial.add(line)
                raw = obs[k]["rt_raw"]
                getline = {oo["name"]: raw[j] for j, oo in enumerate(hists[k]) if oo["op"] == "get"}
                j0 = hists[k].index(o)
                if raw[j0].get("k") == "list" and all(getline.get(n, {}).get("k") == "obj" for n in want):
                    got_items = [strip_serials(x) for x in raw[j0]["items"]]
                    want_items = [strip_serials(getline[n]) for n in want]
                    dist["order_checked"] = dist.get("order_checked", 0) + 1
                    if len(want) >= 2:
                        dist["order_checked_2plus"] = dist.get("order_checked_2plus", 0) + 1
                    if got_items != want_items:
                        out.violation("tagged-order", "GetTaggedBy(%s) does not return the carriers %s in the documented order (priority descending, then name ascending), each as Get returns it" % (o["name"], want),
                                      dict(common.slim(specs[k], obs[k]), history=hists[k], expected_order=want, got=[x.get("origin") for x in raw[j0]["items"]]))
                items = line.count("O(") + line.count("N")
                if len(want) and line == "L[]":
                    out.violation("tagged-empty", "!tagged %s injects nothing although %s carry the tag" % (o["name"], want), dict(common.slim(specs[k], obs[k]), history=hists[k]))
            if o["op"] == "get" and (".Decorate;" in line or ".Wrap;" in line):
                dist["decorated"] += 1
            if o["op"] == "get" and obs[k]["rt_raw"][hists[k].index(o)].get("k") == "obj":
                # decorators: applied in declaration order to every service carrying their tag, each receiving
                # (tag, service id, current object, declared arguments...): peel the object from the outside in
                cur = obs[k]["rt_raw"][hists[k].index(o)]
                peeled = []
                while cur.get("k") == "obj" and cur["origin"].rsplit(".", 1)[-1] in ("Decorate", "Wrap") and len(cur["args"]) >= 3 and cur["args"][0].get("k") == "str":
                    peeled.append((cur["origin"].rsplit(".", 1)[-1], cur["args"][0].get("v"), cur["args"][1].get("v"), len(cur["args"]) - 3,
                                   tuple(json.dumps(strip_serials(x), sort_keys=True) for x in cur["args"][3:])))
                    cur = cur["args"][2]
                sv = cfg["services"].get(o["name"]) or {}
                mytags = [spec.tag_name(t) for t in sv.get("tags") or []]
                wantd = [(dc["decorator"].rsplit(".", 1)[-1], dc["tag"], o["name"], len(dc.get("arguments") or []),
                          tuple(None if lit_desc(a) is None else json.dumps(lit_desc(a), sort_keys=True) for a in dc.get("arguments") or [])) for dc in cfg.get("decorators") or [] if dc["tag"] in mytags]
                # (argument values are compared where the declared argument is a literal; the other forms are the runtime model's)
                peeled = [p_[:4] + (tuple(g_ if w_ is not None else None for g_, w_ in zip(p_[4], w4)) if len(p_[4]) == len(w4) else p_[4],)
                          for p_, w4 in zip(peeled[::-1], [w_[4] for w_ in wantd] + [()] * len(peeled))][::-1] if len(peeled) == len(wantd) else peeled     # ("*" is accepted by the grammar as a decorator tag but no service can carry it: never applied)
                dist["decorator_chains_checked"] = dist.get("decorator_chains_checked", 0) + 1
                if len(wantd) >= 2:
                    dist["decorator_chains_2plus"] = dist.get("decorator_chains_2plus", 0) + 1
                if peeled[::-1] != wantd:
                    out.violation("decorator-chain", "Get(%s): decorators applied %s, documented %s (declaration order, each with tag, service id, current object, its arguments)" % (o["name"], peeled[::-1], wantd),
                                  dict(common.slim(specs[k], obs[k]), history=hists[k]))
    out.coverage.update({
        "evaluations": sum(len(h) for h in hists), "distinct_nontrivial": len(nontrivial), "programs": len(acc),
        "rule": "accepted configurations with dense tags (several tags per service, priorities negative / equal / large) and several decorators per tag with every argument form, half of them spread over 2-3 files; GetTaggedBy on every tag (plain and in a context) and Get on every service through the real runtime; compared with the runtime model (order, identity, decorator payload); non-trivial = distinct tagged list",
        "distribution": dist, "samples": [{"config": cfggen.to_yaml(specs[k]["cfg"])[:1200], "results": rl[k][:2]} for k in acc[:2] if specs[k].get("cfg")],
    })
    out.assumptions = ["decorators of the fixture record (tag, service id, current object, arguments...) and return a new object"]
    return out.finish()
