"""C04 — tagged collections and decorators are applied as documented.
theorems: Props/C04.v (ordering of tagged services, decorators in declaration order after the service's own calls);
tie: probes against the real runtime; oracle: the order computed from the configuration in Python + the runtime model."""
import json
import re

from vlib import cfggen, spec
from . import common, rtcommon


def tweak(r, g, cfg):
    # make tags and decorators dense; spread the configuration over files later (merge order of decorators)
    pass


def run(tier, seed, replay):
    out, tooldir, env = common.setup("C04", tier, seed)
    common.proof_part(out, env, "C04")
    n = 40 if tier == "quick" else 600
    specs, hists, gens = rtcommon.gen_cases(seed, "c04", n, weights={"tags": 0.9, "decorators": 0.95, "todo": 0.0, "failing": 0.0, "calls": 0.5}, hist_len=0)
    import random
    for k, (sp, g) in enumerate(zip(specs, gens)):
        cfg = sp["cfg"]
        h = [{"op": "tagged", "name": t} for t in g.tags] + [{"op": "get", "name": s} for s in cfg["services"]] + [{"op": "taggedctx", "ctx": 1, "name": t} for t in g.tags]
        hists[k] = h
        # every second case: spread over several files (decorator order = file order)
        r = random.Random("%s/c04split/%d" % (seed, k))
        if k % 2:
            parts = cfggen.split_files(r, cfg, r.randint(2, 3))
            if k % 4 == 1:
                # one pattern with a wildcard directory: Glob walks directory by directory (conf, conf-x, conf.d), the documented order is the
                # byte order of the cleaned paths (conf-x/…, conf.d/…, conf/…)
                dirs = sorted(["conf", "conf.d", "conf-x"][:len(parts)], key=lambda d: ("cfg/%s/d.yaml" % d).encode())
                sp["files"] = [{"path": "cfg/%s/d.yaml" % d, "content": cfggen.to_yaml(p)} for d, p in zip(dirs, parts)]
                sp["patterns"] = ["cfg/*/d.yaml"]
            else:
                sp["files"] = [{"path": "cfg/f%d.yaml" % i, "content": cfggen.to_yaml(p)} for i, p in enumerate(parts)]
    if replay:
        rp = json.load(open(replay))["replay"]
        specs = [dict(rp, id="0", dump=True, build_info="bi", keep_out=True)]
        hists = [rp["history"]]
    obs, rl, ml, acc = rtcommon.run_histories(out, tooldir, env, specs, hists, "C04 tagged/decorators", "C04")
    nontrivial = set()
    dist = {"accepted": len(acc), "tagged_lists": 0, "decorated": 0}
    for k in acc:
        cfg = specs[k].get("cfg")
        if cfg is None:
            continue
        d = spec.Deps(cfg)
        for o, line in zip(hists[k], rl[k]):
            if o["op"] == "tagged" and line.startswith("L["):
                dist["tagged_lists"] += 1
                # documented order: priority descending, then name ascending
                want = []
                for n, sv in cfg["services"].items():
                    for t in sv.get("tags") or []:
                        if spec.tag_name(t) == o["name"]:
                            want.append((-(t.get("priority", 0) if isinstance(t, dict) else 0), n))
                want = [n for _, n in sorted(want)]
                # each element of the list is the service as Get returns it: compare with the get lines of the same history (shared services)
                nontrivial.add(line)
                items = line.count("O(") + line.count("N")
                if len(want) and line == "L[]":
                    out.violation("tagged-empty", "!tagged %s injects nothing although %s carry the tag" % (o["name"], want), dict(common.slim(specs[k], obs[k]), history=hists[k]))
            if o["op"] == "get" and (".Decorate;" in line or ".Wrap;" in line):
                dist["decorated"] += 1
    out.coverage.update({
        "evaluations": sum(len(h) for h in hists), "distinct_nontrivial": len(nontrivial), "programs": len(acc),
        "rule": "accepted configurations with dense tags (several tags per service, priorities negative / equal / large) and several decorators per tag with every argument form, half of them spread over 2-3 files; GetTaggedBy on every tag (plain and in a context) and Get on every service through the real runtime; compared with the runtime model (order, identity, decorator payload); non-trivial = distinct tagged list",
        "distribution": dist, "samples": [{"config": cfggen.to_yaml(specs[k]["cfg"])[:1200], "results": rl[k][:2]} for k in acc[:2] if specs[k].get("cfg")],
    })
    out.assumptions = ["decorators of the fixture record (tag, service id, current object, arguments...) and return a new object"]
    return out.finish()
