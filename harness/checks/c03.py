"""C03 — parameter and %pattern% evaluation semantics.
theorems: Props/C03.v (chunker partition/shape/parity, escaping round trip) + quoting used by every generated literal;
tie: model vs real on exhaustive strings (build-time verdicts and generated provider code), %+q quoting vs strconv;
run-time half (GetParam type/value/error through generated code and the real runtime): probes, see checks/rt.py."""
import itertools
import json
import random

from vlib import build, cfggen, spec
from . import common

SIGMA = ["%", "a", "1", ".", "_", "(", ")", "\"", ",", " ", "é"]


def classify(s):
    """documented build-time verdict of a pattern string: None = accepted, else the diagnostic class"""
    cs = spec.chunks(s)
    if cs is None:
        return "not closed token"
    for c in cs:
        if len(c) >= 2 and c[0] == "%" and c[-1] == "%":
            inner = c[1:-1]
            if c == "%%":
                continue
            if spec.YAML_TOKEN.match(inner):
                continue
            import re
            m = re.fullmatch(r"([A-Za-z][A-Za-z0-9_]*)\((.*)\)", inner, re.S) if "\n" not in inner else None
            if m:
                if m.group(1) in ("env", "envInt", "todo"):
                    continue
                return "unexpected function"
            return "unexpected token"
    return None


def strings(n):
    for k in range(n + 1):
        for t in itertools.product(SIGMA, repeat=k):
            yield "".join(t)


def run(tier, seed, replay):
    out, tooldir, env = common.setup("C03", tier, seed)
    common.proof_part(out, env, "C03", ties=["Tie/EnvTie.v", "Tie/RegexTie.v"])
    r = random.Random("%s/c03" % seed)
    maxlen = 3 if tier == "quick" else 4
    cands = list(strings(maxlen))
    if tier == "quick":
        cands = [c for c in cands if len(c) <= 2 or r.random() < 0.5] + [c for c in strings(4) if r.random() < 0.03]
    # random unicode / awkward strings, chunk sequences
    uni = ["é", "✓", "\U0001f600", "\n", "\t", "\\", "\"", "'", "\x01", "\x7f", " ", "%%", "%a%", "%env(\"H\")%", "%todo()%", "%envInt(\"N\", 5)%", "%a.b-c_d%", "x", "1", "%", "%", "% %", "%(", ")%", "%1%", "%a", "a%", "(", ")", ",", "%env(", "%fnx(\"a\")%", "%Env(\"H\")%", "%env (\"H\")%", "%a b%", "%é%", "\u2028", "\ufeff", "\x00"]
    for _ in range(300 if tier == "quick" else 20000):
        cands.append("".join(r.choice(uni) for _ in range(r.randint(1, 7))))
    # strings that look like the service-argument forms: as PARAMETER values they are plain text (no `%` in them)
    LOOKALIKE = ["@x", "@", "@s", "@a.b", "!value x", "!value 1", "!value al.X", "!value", "!tagged t", "!tagged", "$gontainer", "$gontainer ", "@x%%", "!value %a%", "@%a%"]
    cands += LOOKALIKE
    fn_cands = []
    # function tokens whose argument text itself contains parentheses, quotes, commas, percent-free operators
    for fn in ("env", "envInt", "todo"):
        for args in ["", "()", "(1)", "f()", "\"a\", f(1, 2)", "int(8080)", "(8000)+(81)", "\")\"", "\"(\"", "a, b", " 1 ", "((x))", "x)(y", ")(", "\"é\"", "1,2,3", "f(g(h()))"]:
            fn_cands.append("%%%s(%s)%%" % (fn, args))
            fn_cands.append("pre %%%s(%s)%% post" % (fn, args))
    cands = sorted(set(cands), key=lambda x: (len(x), x))
    specs, plan = [], []
    for a in range(0, len(cands), 250):
        ch = cands[a:a + 250]
        params = {"k%d" % i: c for i, c in enumerate(ch)}
        params.update({"a": 1, "a.b-c_d": "v"})
        svc_args = r.sample(ch, min(12, len(ch)))
        cfg = {"parameters": params,
               "services": {"s": {"constructor": "NewA", "arguments": svc_args[:4], "calls": [["SetX", svc_args[4:8]]], "fields": {"Name": svc_args[8] if len(svc_args) > 8 else "x"}, "tags": ["t"]}},
               "decorators": [{"tag": "t", "decorator": "Decorate", "arguments": svc_args[9:12]}]}
        sp = common.mk_spec(len(specs), [cfg], flags={"ignore_params": True, "ignore_services": True})
        sp["what"] = ["strings"]
        specs.append(sp)
        plan.append({"k%d" % i: c for i, c in enumerate(ch)})
    # the same strings as service arguments, call arguments, field values and decorator arguments. A failing parameter ends the run before
    # the services are compiled (and a failing service before the decorators), so these configurations have valid parameters only and
    # carry their candidates in ONE of the two places
    argplan = []
    pat_cands = [c for c in cands if "%" in c and not c.startswith(("@", "!", "$"))]
    r.shuffle(pat_cands)
    pat_cands = pat_cands[: (160 if tier == "quick" else 4000)] + ["%a%", "x%a%y", "%%", "%a.b-c_d%%a%", "%env(\"H\")%", "%", "%a", "a%", "%a b%", "%nofn()%", "%env(%"]
    for a in range(0, len(pat_cands), 20):
        ch = pat_cands[a:a + 20]
        for where in ("service", "decorator"):
            cfg = {"parameters": {"a": 1, "a.b-c_d": "v"}, "services": {"s": {"constructor": "NewA", "tags": ["t"]}}}
            if where == "service":
                cfg["services"]["s"].update({"arguments": ch[:8], "calls": [["SetX", ch[8:14]]], "fields": {"F%d" % i: c for i, c in enumerate(ch[14:])}})
            else:
                cfg["decorators"] = [{"tag": "t", "decorator": "Decorate", "arguments": ch}]
            sp = common.mk_spec(len(specs), [cfg], flags={"ignore_params": True, "ignore_services": True})
            sp["what"] = ["strings-as-%s-arguments" % where]
            specs.append(sp)
            plan.append({})
            argplan.append((len(specs) - 1, where, ch))
    for c in fn_cands:
        sp = common.mk_spec(len(specs), [{"parameters": {"k0": c}}], flags={"ignore_params": True}, keep_out=True)
        sp["what"] = ["function-token"]
        specs.append(sp)
        plan.append({"k0": c} if classify(c) is None or True else {})
    if replay:
        rp = json.load(open(replay))["replay"]
        specs = [dict(rp, id="0", dump=True, build_info="bi")]
        plan = [{}]
    obs = build.gx_run(tooldir, specs)
    common.real_sanity(out, specs, obs, "C03")
    common.correspondence(out, env, specs, obs, "C03 tokenizer / generated provider code")
    from vlib import codegen
    codegen.format_verdict_correspondence(out, env, tooldir, specs, obs, "C03", "a pattern whose every token is well formed is not rejected at build time")
    dist = {}
    nontrivial = set()
    evals = 0
    for sp, ob, car in zip(specs, obs, plan):
        errs = ob.get("errors") or []
        if any(e.startswith("runner.StepReadConfig") for e in errs):
            out.broke("harness: a C03 configuration does not parse", {"errors": errs[:3]})
            continue
        for key, cand in car.items():
            evals += 1
            want = classify(cand)
            pre = "compiler.StepCompileParams: \"%s\": " % key
            got = [e[len(pre):] for e in errs if e.startswith(pre)]
            cls = None
            if got:
                cls = "not closed token" if got[0].startswith("not closed token") else "unexpected function" if got[0].startswith("unexpected function") else "unexpected token" if got[0].startswith("unexpected token") else got[0][:30]
            dist[str(want)] = dist.get(str(want), 0) + 1
            if cls != want and want is not None and cls is not None:
                dist["class_differs"] = dist.get("class_differs", 0) + 1
                if len(dist.setdefault("class_differs_examples", [])) < 8:
                    dist["class_differs_examples"].append([cand, want, cls])
            if cls != want:
                out.violation("pattern-verdict:%r" % cand[:12], "pattern %r: documented verdict %s, the tool reports %s" % (cand, want or "accepted", got or "nothing"),
                              dict(common.slim(sp), candidate=cand, expected=want, reported=got))
            if want is not None:
                nontrivial.add(cand)
    # verdicts in the argument positions: the configuration is rejected in the step that compiles that position iff one of its candidates is
    # not a well-formed pattern, and every ill-formed candidate is named there
    dist["argument_positions"] = 0
    for k, where, ch in argplan:
        ob, sp = obs[k], specs[k]
        errs = ob.get("errors") or []
        step = "compiler.StepCompileServices" if where == "service" else "compiler.StepCompileDecorators"
        mine = [e for e in errs if e.startswith(step)]
        bad = [c for c in ch if classify(c) is not None]
        dist["argument_positions"] += len(ch)
        evals += len(ch)
        if any(not e.startswith(step) for e in errs):
            out.broke("harness: a C03 argument configuration fails elsewhere", {"errors": errs[:3], "files": sp["files"]})
            continue
        import re as _re3
        if where == "decorator":
            named = {int(m.group(1)) for e in mine for m in [_re3.search(r"args: (\d+): ", e)] if m}
            want_idx = {i for i, c in enumerate(ch) if classify(c) is not None}
        else:
            # arguments by index, call arguments by (call, index), fields by name
            named = {m.group(1) for e in mine for m in [_re3.search(r'"s": (calls: \d+: args: \d+|args: \d+|fields: "F\d+"):', e)] if m}
            want_idx = {"args: %d" % i for i, c in enumerate(ch[:8]) if classify(c) is not None} | {"calls: 0: args: %d" % i for i, c in enumerate(ch[8:14]) if classify(c) is not None} | \
                       {"fields: \"F%d\"" % i for i, c in enumerate(ch[14:]) if classify(c) is not None}
        if named != want_idx:
            out.violation("pattern-verdict-as-%s-argument" % where, "ill-formed patterns stand at %s, %s names %s: %s" % (sorted(map(str, want_idx))[:6], step, sorted(map(str, named))[:6], mine[:3]),
                          dict(common.slim(sp, ob), ill_formed=bad))
    # %+q quoting: Base/Quote.v against Go's fmt / strconv.Unquote on the same strings (literals and names travel through it)
    import subprocess, os
    qpool = [c for c in cands if c]
    qs = qpool[:1500] + random.Random("%s/c03q" % seed).sample(qpool[1500:], min(1500, max(0, len(qpool) - 1500))) + ["\xff\xfe", "a\x00b", "퟿", "\U0010ffff"]
    qb = [c.encode("utf-8", "surrogatepass") if isinstance(c, str) else c for c in qs] + [b"\xff\xfe\xfd", b"\xc3", b"\xe2\x9c", b"\xf0\x9f\x98", b"\xed\xa0\x80", b"\xc0\xaf"]
    p = subprocess.run([os.path.join(tooldir, "gxtool"), "quote"], input="\n".join(b.hex() for b in qb) + "\n", stdout=subprocess.PIPE, text=True, env=build.GOENV)
    real_q = [bytes.fromhex(l.split()[0]) for l in p.stdout.splitlines()]
    round_trip = [l.split()[2] == "true" for l in p.stdout.splitlines()]
    from vlib import coqrun
    body = "Definition qs : list str := [\n" + ";\n".join(coqrun.lit(b) for b in qb) + "].\nEval vm_compute in map (fun x => esc (quote x)) qs.\n"
    rc, txt = coqrun.coq_eval(env, ["Base.Str", "Base.Quote", "Corr.Obs"], body, "quote")
    mq = [coqrun.unesc(x) for x in coqrun.parse_strings(txt)] if rc == 0 else []
    if len(mq) != len(qb):
        out.broke("correspondence:C03 quote (model evaluation failed)", txt[-1500:])
    else:
        for b, m, rq, rt in zip(qb, mq, real_q, round_trip):
            if m != rq:
                out.broke("correspondence:C03 quote", {"bytes": b.hex(), "model": m.decode("latin-1"), "go": rq.decode("latin-1")})
                break
            if not rt:
                out.violation("quote-roundtrip:%s" % b.hex()[:16], "strconv.Unquote(fmt.Sprintf(\"%%+q\", s)) != s for bytes %s" % b.hex(), {"bytes": b.hex()})
    # ---- run-time half: GetParam on the real generated container (type and value, single vs multi chunk, env/envInt/todo, failing function)
    from . import rtcommon
    shapes = ["%%n%%", "%%lit%%", "%%n%% x", "x %%lit%%", "%%n%%%%lit%%", "say \"%lit%\"", "{\"r\": \"%n%%%\"}", "\"%lit%", "%lit%\"", "'%n%", "`%lit%`%%", "(%n%", "a \" b \" c \" %lit% %%",
              "%%", "a%%b", "%lit%", "x%lit%y", "%n%", "%n%%n%", "%b%", " %b%", "%nil%", "%nil%!", "%f%", "%u%", "%s%", "%s%%s%", "%%%s%%%", "%env(\"GV_SET\")%", "%env(\"GV_NOPE\")%",
              "%env(\"GV_NOPE\", \"d\")%", "%envInt(\"GV_INT\")%", "%envInt(\"GV_INT\")%0", "%envInt(\"GV_BAD\")%", "%envInt(\"GV_NOPE\", 7)%", "%env(\"GV_EMPTY\")%", "%env(\"GV_EMPTY\", \"dflt\")%", "%envInt(\"GV_EMPTY\", 7)%", "%envInt(\"GV_EMPTY\")%", "x%env(\"GV_EMPTY\", \"dflt\")%y", "%envInt(\"GV_BAD\", 7)%", "%envInt(\"GV_Z\")%", "v=%envInt(\"GV_Z\")%", "%envInt(\"GV_NEG0\")%", "%envInt(\"GV_PLUS\")%", "%envInt(\"GV_BIG\")%", "%envInt(\"GV_MIN\")%", "%env(\"GV_Z\")%", "%todo()%", "%todo(\"msg\")%",
              "@x", "@", "!value 1", "!value al.X", "!tagged t", "$gontainer", "@x%%", "!value %n%", "@%lit%",
              "%fn(\"x\", 3)%", "%fn(\"x,y\", 3)%", "%fn(\"a ,b\",4)%", "%fn(\"a,,b\")%", "%fn(\"fail\")%", "pre %fn(\"fail\")% post", "é%s%✓", "%lit% %n% %b% %nil% %f% %u%", "100%%", "%%%%", "%env(\"GV_SET\")%/%env(\"GV_SET\")%"]
    base = {"meta": {"imports": {"al": "gv.test/fix/alpha"}, "functions": {"fn": "al.Fn"}},
            "parameters": {"lit": "text", "n": 42, "b": True, "nil": None, "f": 1.5, "u": cfggen.Raw("18446744073709551615"), "s": "é\"q\"\\"}}
    rcfg = json.loads(json.dumps({k: v for k, v in base.items() if k != "parameters"}))
    rcfg["parameters"] = dict(base["parameters"])
    for i, sh in enumerate(shapes):
        rcfg["parameters"]["k%d" % i] = sh
    rcfg["services"] = {"holder": {"constructor": "NewA", "arguments": shapes[:12]}}
    rsp = common.mk_spec(0, [rcfg], keep_out=True)
    rsp["cfg"] = rcfg
    rsp["what"] = ["runtime-params"]
    rh = [{"op": "param", "name": p} for p in rcfg["parameters"]] + [{"op": "param", "name": p} for p in list(rcfg["parameters"])[:6]] + [{"op": "get", "name": "holder"}]
    # byte strings that are not valid UTF-8 (YAML !!binary): the same round trip, byte for byte.  The decoded configuration travels to the
    # model as JSON, which cannot carry such bytes, so this family is checked against the statement directly (no model comparison).
    import base64 as _b64
    BYTES = [b"\xff", b"a\xfe%%b\xff", b"\xc3(", b"%%\xff%%", b"\xe2\x82", b"ok\x80\x81%%%%", b"\xf0\x9f\x98"]
    bcfg = {"parameters": {"y%d" % i: cfggen.Raw("!!binary \"%s\"" % _b64.b64encode(v).decode()) for i, v in enumerate(BYTES)}}
    bsp = common.mk_spec(0, [bcfg], keep_out=True)
    bsp["cfg"] = bcfg
    bsp["what"] = ["runtime-bytes"]
    bh = [{"op": "param", "name": "y%d" % i} for i in range(len(BYTES))]
    bobs, brl, _, bacc = rtcommon.run_histories(out, tooldir, env, [bsp], [bh], "C03 byte strings at run time", "C03", compare=False)
    if 0 in bacc:
        from vlib import coqrun as _cq2
        for i, (v, line) in enumerate(zip(BYTES, brl[0])):
            want = v.replace(b"%%", b"%")
            got = _cq2.unesc(line[2:-1]) if line.startswith("S(") and line.endswith(")") else None
            if got != want:
                out.violation("runtime-roundtrip-bytes:%s" % v.hex()[:12], "GetParam of the byte string %r (every %% doubled) returns %s instead of %r" % (v, line[:120], want),
                              dict(common.slim(bsp, bobs[0]), history=[bh[i]], expected_hex=want.hex()))
    else:
        out.violation("runtime-roundtrip-bytes:rejected", "a configuration whose parameters are byte strings with every %% doubled is rejected: %s" % ((bobs[0].get("errors") or [])[:3],), common.slim(bsp, bobs[0]))
    # registered functions: a user registration of a built-in name replaces the built-in; a later file replaces an earlier registration
    fcfg1 = {"meta": {"imports": {"al": "gv.test/fix/alpha"}, "functions": {"env": "al.Fn", "envInt": "al.GetEnv", "todo": "al.Lookup", "norm": "al.Fn"}},
             "parameters": {"e": "%env(\"abc\")%", "i": "%envInt(\"GV_INT\")%", "t": "%todo(\"m\")%", "n": "%norm(\"x\", 2)%", "mix": "a %env(\"b\")% c"}}
    fsp1 = common.mk_spec(0, [fcfg1], keep_out=True)
    fsp1["cfg"] = fcfg1
    fsp1["what"] = ["runtime-functions"]
    fcfg2a = {"meta": {"imports": {"al": "gv.test/fix/alpha"}, "functions": {"norm": "al.Fn", "other": "al.GetEnv"}}, "parameters": {"n": "%norm(\"x\")%", "o": "%other(\"y\")%"}}
    fcfg2b = {"meta": {"functions": {"norm": "al.Lookup"}}}
    fsp2 = common.mk_spec(0, [fcfg2a, fcfg2b], keep_out=True)
    fsp2["cfg"] = dict(fcfg2a)
    fsp2["what"] = ["runtime-functions-two-files"]
    fh1 = [{"op": "param", "name": p} for p in fcfg1["parameters"]]
    fh2 = [{"op": "param", "name": p} for p in fcfg2a["parameters"]]
    rs2, hs2, _ = rtcommon.gen_cases(seed, "c03rt", 15 if tier == "quick" else 200, weights={"todo": 0.0}, hist_len=0)
    rs2 = [fsp1, fsp2] + rs2
    hs2 = [fh1, fh2] + hs2
    for k, sp in enumerate(rs2):
        if k >= 2:
            hs2[k] = [{"op": "param", "name": p} for p in sp["cfg"]["parameters"]]
    robs, rl, ml, racc = rtcommon.run_histories(out, tooldir, env, [rsp] + rs2, [rh] + hs2, "C03 GetParam at run time", "C03")
    dist["runtime_getparam"] = sum(len(rl[k]) for k in racc)
    # independent oracle for the escaping round trip at run time: a string whose every `%` is doubled evaluates to the string with
    # each `%%` replaced by `%` (whatever else it looks like: `@name`, `!value x`, `$gontainer` are plain text in a parameter)
    if 0 in racc:
        from vlib import coqrun as _cq
        dist["roundtrip_runtime"] = 0
        for o, line in zip(rh, rl[0]):
            if o["op"] != "param" or not o["name"].startswith("k"):
                continue
            sh = rcfg["parameters"][o["name"]]
            if "%" in sh.replace("%%", ""):
                continue
            want = sh.replace("%%", "%").encode()
            dist["roundtrip_runtime"] += 1
            got = _cq.unesc(line[2:-1]) if line.startswith("S(") and line.endswith(")") else None
            if got != want:
                out.violation("runtime-roundtrip:%r" % sh[:12], "GetParam of the parameter %r (every %% doubled) returns %s instead of the string %r" % (sh, line[:200], want.decode()),
                              dict(common.slim(rsp), history=[o], expected="S(%s)" % want.decode()))
        # env / envInt / todo as documented, decided here from the probe's environment (not by the runtime model):
        # env(name) -> the variable's text, error when unset and no default; env(name, dflt) -> dflt when unset (an EMPTY variable is set);
        # envInt -> the integer (decimal, sign allowed, leading zeros ignored), error when unset without default or not an integer
        from vlib import rt as _rt
        E = _rt.ENVV
        ENVT = [("%env(\"GV_SET\")%", ("S", E["GV_SET"])), ("%env(\"GV_NOPE\")%", ("E", None)), ("%env(\"GV_NOPE\", \"d\")%", ("S", "d")), ("%env(\"GV_EMPTY\")%", ("S", "")),
                ("%env(\"GV_EMPTY\", \"dflt\")%", ("S", "")), ("%envInt(\"GV_INT\")%", ("I", "42")), ("%envInt(\"GV_INT\")%0", ("S", "420")), ("%envInt(\"GV_BAD\")%", ("E", None)),
                ("%envInt(\"GV_NOPE\", 7)%", ("I", "7")), ("%envInt(\"GV_NOPE\")%", ("E", None)), ("%envInt(\"GV_Z\")%", ("I", "7")), ("%envInt(\"GV_NEG0\")%", ("I", "0")),
                ("%envInt(\"GV_PLUS\")%", ("I", "5")), ("%envInt(\"GV_BIG\")%", ("E", None)), ("%envInt(\"GV_MIN\")%", ("I", "-9223372036854775808")), ("%envInt(\"GV_EMPTY\")%", ("E", None)),
                ("%envInt(\"GV_EMPTY\", 3)%", ("E", None)),
                # the variable's text is handed to strconv.Atoi as it is: white space around the digits, other bases, separators, exponents are errors
                ("%envInt(\"GV_PADL\")%", ("E", None)), ("%envInt(\"GV_PADNL\")%", ("E", None)), ("%envInt(\"GV_PADT\", 5)%", ("E", None)), ("%envInt(\"GV_HEX\")%", ("E", None)),
                ("%envInt(\"GV_UND\")%", ("E", None)), ("%envInt(\"GV_EXP\")%", ("E", None)), ("host:%envInt(\"GV_PADL\")%", ("E", None)),
                ("%env(\"GV_PADL\")%", ("S", " 8080")), ("%env(\"GV_PADNL\")%", ("S", "8080\n")), ("[%env(\"GV_PADT\")%]", ("S", "[\t7\t]")), ("x%env(\"GV_SET\")%y%envInt(\"GV_INT\")%", ("S", "x" + E["GV_SET"] + "y42")), ("%todo()%", ("E", None)), ("%todo(\"msg\")%", ("E", None)),
                ("%todo(\"50\\x25 of the disk\")%", ("Emsg", "50% of the disk")), ("%todo(\"100\\u0025d done, 5\\x25s left\")%", ("Emsg", "100%d done, 5%s left")),
                ("x %todo(\"\\x25v\\x25!\")% y", ("Emsg", "%v%!")), ("%todo(\"plain message\")%", ("Emsg", "plain message")), ("%todo()%", ("Emsg", "parameter todo")),
                ("pre %env(\"GV_NOPE\")%", ("E", None)), ("%env(\"GV_NOPE\")% post", ("E", None)), ("%env(\"GV_SET\")%%env(\"GV_NOPE\")%", ("E", None))]
        esc_rows = [i for i, (t, _) in enumerate(ENVT) if "\\" in t]
        ecfg = {"parameters": {"e%d" % i: ("%todo(\"placeholder\")%" if i in esc_rows else t) for i, (t, _) in enumerate(ENVT)}}
        esp = common.mk_spec(0, [ecfg], keep_out=True)
        esp["cfg"] = ecfg
        esp["what"] = ["runtime-env-table"]
        eh = [{"op": "param", "name": "e%d" % i} for i in range(len(ENVT))]
        # (Go escape sequences inside the argument text of a token are not interpreted by the run-time model - the text is opaque to it:
        # the rows that use them are decided by this table alone)
        ecfg2 = {"parameters": {"e%d" % i: ENVT[i][0] for i in esc_rows}}
        esp2 = common.mk_spec(0, [ecfg2], keep_out=True)
        esp2["cfg"] = ecfg2
        esp2["what"] = ["runtime-env-table-escapes"]
        eh2 = [{"op": "param", "name": "e%d" % i} for i in esc_rows]
        eobs2, erl2, _, eacc2 = rtcommon.run_histories(out, tooldir, env, [esp2], [eh2], "C03 todo messages with Go escapes", "C03", compare=False)
        eobs, erl, _, eacc = rtcommon.run_histories(out, tooldir, env, [esp], [eh], "C03 env/envInt/todo table", "C03")
        if 0 in eacc and 0 in eacc2:
            for j, i in enumerate(esc_rows):
                erl[0][i] = erl2[0][j]
        elif 0 not in eacc2:
            out.violation("env-table:rejected", "todo messages written with Go escapes are rejected: %s" % ((eobs2[0].get("errors") or [])[:3],), common.slim(esp2, eobs2[0]))
        dist["env_table"] = 0
        if 0 in eacc:
            for (tok, (kind, val)), o, line in zip(ENVT, eh, erl[0]):
                dist["env_table"] += 1
                ok = (kind == "E" and line.startswith("E(")) or (kind == "Emsg" and line.startswith("E(") and line.endswith(_rt.esc(val) + ")")) or (kind == "S" and line == "S(%s)" % _rt.esc(val)) or (kind == "I" and line == "I(int,%s)" % val)
                if kind in ("E", "Emsg") and ok:
                    # a failing function yields an error naming the token: the text of (one of) the pattern's function chunks occurs in it
                    import re as _re2
                    toks = _re2.findall(r"%[A-Za-z]+\([^%]*\)%", tok)
                    if toks and not any(_rt.esc(t_) in line for t_ in toks):
                        ok = False
                if not ok:
                    out.violation("env-table:%s" % tok[:40], "GetParam of %r returns %s, documented: %s" % (tok, line[:200], "an error" if kind == "E" else ("an error ending with the message %r" % val if kind == "Emsg" else "the string %r" % val if kind == "S" else "the int " + val)),
                                  dict(common.slim(esp, eobs[0]), history=[o]))
        else:
            out.violation("env-table:rejected", "the env/envInt/todo table configuration is rejected: %s" % ((eobs[0].get("errors") or [])[:3],), common.slim(esp, eobs[0]))
    elif not replay:
        out.violation("runtime-roundtrip:rejected", "the configuration of plain-text / escaped parameters is rejected: %s" % ((robs[0].get("errors") or [])[:3]), dict(common.slim(rsp, robs[0])))
    out.coverage.update({
        "evaluations": evals + len(qb) + sum(len(rl[k]) for k in racc), "distinct_nontrivial": len(nontrivial), "exhaustive": tier == "thorough", "programs": len(racc),
        "rule": "every string up to length %d over %s (quick: all up to length 2, half of length 3, a sample of length 4) + random sequences over multi-byte runes, quotes, backslashes, newlines, control characters, astral runes and whole tokens, as parameter values and as service / call / field / decorator arguments; %%+q quoting compared with Go on the same strings and on invalid UTF-8; non-trivial = rejected pattern" % (maxlen, SIGMA),
        "distribution": dist, "samples": [{"pattern": c, "documented_verdict": classify(c)} for c in ["%", "%%", "%a%", "%a b%", "%zz()%", "%env(\"X\")%", "100%%", "a%b%c%"]],
    })
    out.assumptions = ["the text between the parentheses of %fn(...)% is pasted into Go source: it is carried opaquely by the model",
                       "run-time evaluation (GetParam values and types, function errors naming the token) is the probe check's part"]
    return out.finish()
