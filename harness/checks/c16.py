"""C16 — ignore flags only narrow the set of diagnostics.
theorems: Props/C16.v; tie: regenerated wiring (Tie/EnvTie.v: which flag switches which rule) + model vs real command on
every case x 4 flag combinations; oracle: the filter relation between the four real diagnostics lists."""
import json
import random
from vlib import build, spec, graphgen
from . import common

PP = "output.ValidateParamsExist: "
PS = "output.ValidateServicesExist: "
COMBOS = [(False, False), (True, False), (False, True), (True, True)]


def failing_stage(ob):
    """name of the top-level step whose END line carries the x mark"""
    for line in (ob.get("stdout") or "").split("\n"):
        if " END" in line and "[⨉]" in line and not line.startswith(" "):
            return line.split(" END")[0]
    return None


def run(tier, seed, replay):
    out, tooldir, env = common.setup("C16", tier, seed)
    common.proof_part(out, env, "C16", ties=["Tie/EnvTie.v"])
    n = 120 if tier == "quick" else 1500
    base = common.random_specs(seed, n, "c16", inj_rate=0.8, flags_fn=lambda r: {})
    # small structures in which exactly one class of violation is present, alone and in pairs: scoped services with references to
    # undeclared services / parameters at either end of the argument list, cycles closed after an undeclared reference
    rg = random.Random("%s/c16g" % seed)
    for k in range(60 if tier == "quick" else 800):
        ns = rg.randint(2, 4)
        es = {(a, b) for a in range(ns) for b in range(ns) if (a < b or rg.random() < 0.08) and rg.random() < 0.45}
        sc = {i: rg.choice(["shared", "contextual", None, None]) for i in range(ns)}
        gh = {i: rg.choice(["first", "last"]) for i in range(ns) if rg.random() < 0.5}
        cfg = graphgen.graph_cfg(ns, es, scopes=sc, ghosts=gh, order=rg.choice(["asc", "desc"]), n_params=2,
                                 param_edges={(0, 1)} if rg.random() < 0.3 else set(), svc_param_refs={0: [rg.choice([0, 1, 7])]} if rg.random() < 0.5 else None)
        sp = common.mk_spec("g%d" % k, [cfg])
        sp["what"] = ["structure"]
        sp["cfg"] = cfg
        base.append(sp)
    # references that are missing inside decorators, calls, fields and parameter values (each class alone and mixed)
    DECO = [("d-param", {"services": {"s": {"value": "V", "tags": ["t"]}}, "decorators": [{"tag": "t", "decorator": "Deco", "arguments": ["%nope%"]}]}),
            ("d-service", {"services": {"s": {"value": "V", "tags": ["t"]}}, "decorators": [{"tag": "t", "decorator": "Deco", "arguments": ["@nope"]}]}),
            ("d-both", {"services": {"s": {"value": "V", "tags": ["t"]}}, "decorators": [{"tag": "*", "decorator": "Deco", "arguments": ["@nope", "%nope%", "%nope2%"]}]}),
            ("call-param", {"services": {"s": {"constructor": "NewS", "calls": [["Set", ["%nope%"]], ["With", ["@nope"], True]]}}}),
            ("field", {"services": {"s": {"type": "T", "fields": {"A": "%nope%", "B": "@nope"}}}}),
            ("param-in-param", {"parameters": {"a": "%nope% x", "b": "%a%"}, "services": {"s": {"constructor": "NewS", "arguments": ["%b%"]}}}),
            ("tagged-nobody", {"services": {"s": {"constructor": "NewS", "arguments": ["!tagged nobody"]}}}),
            ("mixed-with-cycle", {"services": {"a": {"constructor": "NewA", "arguments": ["@b", "%nope%"]}, "b": {"constructor": "NewB", "arguments": ["@a", "@nope"]}}}),
            ("mixed-with-scope", {"services": {"a": {"constructor": "NewA", "arguments": ["@b", "%nope%", "@nope"], "scope": "shared"}, "b": {"constructor": "NewB", "scope": "contextual"}}})]
    for nm, cfg in DECO:
        sp = common.mk_spec("d" + nm, [cfg])
        sp["what"] = ["missing-in:" + nm]
        sp["cfg"] = cfg
        base.append(sp)
    if replay:
        rp = json.load(open(replay))["replay"]
        base = [dict(rp, id="0", dump=True, build_info="bi")]
    specs = []
    for sp in base:
        for j, (fp, fs) in enumerate(COMBOS):
            c = dict(sp)
            c["id"] = "%s.%d" % (sp["id"], j)
            c["flags"] = {"ignore_params": fp, "ignore_services": fs, "quiet": False, "stub": False}
            c["keep_out"] = False
            specs.append(c)
    # the same combinations with --quiet (and with --stub): the decision and the diagnostics do not depend on the printer
    qspecs = []
    for c in specs:
        for extra in ({"quiet": True}, {"quiet": True, "stub": True}):
            q = dict(c, id=c["id"] + "q" + ("s" if extra.get("stub") else ""), flags=dict(c["flags"], **extra))
            qspecs.append(q)
    # spellings: --flag=false is the same as no flag, --flag=true / =1 the same as the bare flag
    sspecs, smap = [], []
    nsp = 30 if tier == "quick" else 300
    sp_idx = list(range(min(nsp // 2, n))) + list(range(n, min(len(base), n + nsp // 2)))   # random configurations and structure cases
    for b in [b for b in sp_idx if b < len(base)]:
        sp = base[b]
        for name, j_equiv, extra in [("=false both", 0, ["--ignore-missing-params=false", "--ignore-missing-services=false"]),
                                     ("params=false services", 2, ["--ignore-missing-params=false", "--ignore-missing-services"]),
                                     ("params=true", 1, ["--ignore-missing-params=true"]), ("services=1 params=0", 2, ["--ignore-missing-services=1", "--ignore-missing-params=0"])]:
            c = dict(sp, id="%s.s%s" % (sp["id"], name), flags={"quiet": False, "stub": False}, extra_args=extra, keep_out=False)
            sspecs.append(c)
            smap.append((4 * b + j_equiv, name))
    sobs = build.gx_run(tooldir, sspecs)
    qobs = build.gx_run(tooldir, qspecs)
    common.real_sanity(out, qspecs, qobs, "C16")
    for k, c in enumerate(specs):
        pass
    obs = build.gx_run(tooldir, specs)
    for k, c in enumerate(specs):
        for d in (0, 1):
            qo = qobs[2 * k + d]
            if qo.get("exit") != obs[k].get("exit") or (qo.get("errors") or []) != (obs[k].get("errors") or []):
                stubmode = bool(qspecs[2 * k + d]["flags"].get("stub"))
                # a stub build may differ only where code generation itself fails (formatter): compare the front-end verdict only
                if stubmode and any(e.startswith("runner.StepCodeGenerator") for e in (qo.get("errors") or []) + (obs[k].get("errors") or [])):
                    continue
                out.violation("quiet-changes-verdict:%s" % (qspecs[2 * k + d]["flags"],), "the same configuration and ignore flags give another exit status / diagnostics with %s" % ("--quiet --stub" if stubmode else "--quiet"),
                              dict(common.slim(qspecs[2 * k + d], qo), without_quiet={"exit": obs[k].get("exit"), "errors": obs[k].get("errors")}))
            # the bytes written do not depend on the printer; stub builds of one configuration agree across the flag combinations
            if not qspecs[2 * k + d]["flags"].get("stub") and qo.get("exit") == 0 and obs[k].get("exit") == 0 and qo["out_after"].get("hash") != obs[k]["out_after"].get("hash"):
                out.violation("quiet-changes-bytes", "the same configuration and ignore flags write other bytes with --quiet", common.slim(qspecs[2 * k + d], qo))
            if d == 1 and k % 4 and qo.get("exit") == 0 and qobs[2 * (k - k % 4) + 1].get("exit") == 0 and qo["out_after"].get("hash") != qobs[2 * (k - k % 4) + 1]["out_after"].get("hash"):
                out.violation("accepted-changes-stub:%s" % (COMBOS[k % 4],), "a stub build accepted without ignore flags is written differently under flags %s" % (COMBOS[k % 4],), common.slim(qspecs[2 * k + d], qo))
            if qo.get("stdout"):
                out.violation("quiet-prints", "--quiet printed something", common.slim(qspecs[2 * k + d], qo))
    for (ref, name), sp_, so in zip(smap, sspecs, sobs):
        if so.get("exit") != obs[ref].get("exit") or (so.get("errors") or []) != (obs[ref].get("errors") or []) or so["out_after"].get("hash") != obs[ref]["out_after"].get("hash"):
            out.violation("flag-spelling:%s" % name, "the command line %s does not behave like its canonical spelling" % sp_["extra_args"],
                          dict(common.slim(sp_, so), canonical={"exit": obs[ref].get("exit"), "errors": obs[ref].get("errors")}))
    common.real_sanity(out, specs, obs, "C16")
    common.correspondence(out, env, specs, obs, "C16 run/report/compile", verdict_claim="with a flag set a configuration is accepted iff all its remaining violations belong to an ignored class")
    nontrivial = set()
    dist = {"front-failure": 0, "validate-failure": 0, "accepted": 0, "with_missing_param": 0, "with_missing_service": 0, "with_other_output_diag": 0}
    samples = []
    for b in range(len(base)):
        group = obs[4 * b:4 * b + 4]
        o0 = group[0]
        rep = lambda j: dict(common.slim(specs[4 * b + j], group[j]), base_errors=o0.get("errors"))
        stage = failing_stage(o0)
        e0 = o0.get("errors") or []
        if o0.get("exit") == 0:
            dist["accepted"] += 1
            for j in range(1, 4):
                if group[j].get("exit") != 0 or group[j]["out_after"].get("hash") != o0["out_after"].get("hash"):
                    out.violation("accepted-changes:%s" % (COMBOS[j],), "accepted without flags, but flags %s change the exit status or the generated bytes" % (COMBOS[j],), rep(j))
        elif stage != "Validate output":
            dist["front-failure"] += 1
            for j in range(1, 4):
                if group[j].get("exit") != 1 or (group[j].get("errors") or []) != e0:
                    out.violation("front-changes:%s" % (COMBOS[j],), "failure before output validation, but flags %s change the diagnostics" % (COMBOS[j],), rep(j))
        else:
            dist["validate-failure"] += 1
            hp = any(e.startswith(PP) for e in e0)
            hs = any(e.startswith(PS) for e in e0)
            ho = any(not e.startswith(PP) and not e.startswith(PS) for e in e0)
            dist["with_missing_param"] += hp
            dist["with_missing_service"] += hs
            dist["with_other_output_diag"] += ho
            nontrivial.add(json.dumps(sorted(e0)))
            for j in range(1, 4):
                fp, fs = COMBOS[j]
                want = [e for e in e0 if not (fp and e.startswith(PP)) and not (fs and e.startswith(PS))]
                got = group[j].get("errors") or []
                if got != want or (group[j].get("exit") == 0) != (want == []):
                    out.violation("narrow:%s" % (COMBOS[j],), "flags %s: diagnostics are not the un-ignored subset of the no-flag diagnostics" % (COMBOS[j],),
                                  dict(rep(j), expected_errors=want))
                if want == [] and group[j].get("exit") == 0 and not group[j]["out_after"].get("exists"):
                    out.violation("no-output:%s" % (COMBOS[j],), "accepted under flags but no file written", rep(j))
            # independent of the tool's own diagnostics: the violation classes computed from the configuration decide acceptance
            cfg = base[b].get("cfg")
            if cfg is not None:
                pairs, cyclic, dparams, dsvcs = spec.output_violations(cfg)
                for j in range(4):
                    fp, fs = COMBOS[j]
                    remaining = bool(pairs) or cyclic or (dparams and not fp) or (dsvcs and not fs)
                    if (group[j].get("exit") == 0) == bool(remaining):
                        out.violation("accept-iff-ignored:%s" % (COMBOS[j],),
                                      "flags %s: the configuration has %s yet the tool %s it" % (
                                          COMBOS[j], "un-ignored violations" if remaining else "only violations of ignored classes",
                                          "accepts" if group[j].get("exit") == 0 else "rejects"),
                                      dict(rep(j), scope_pairs=sorted(pairs), cyclic=cyclic, dangling_params=dparams, dangling_services=dsvcs))
            if len(samples) < 4 and (hp or hs):
                samples.append({"files": [f["content"] for f in specs[4 * b]["files"]], "no_flag_errors": e0,
                                "errors_by_flags": {str(COMBOS[j]): group[j].get("errors") for j in range(4)}})
    out.coverage.update({
        "evaluations": len(specs), "distinct_nontrivial": len(nontrivial),
        "rule": "random configurations with injected defects (missing params/services, cycles, scope, grammar, patterns) x the 4 flag combinations; non-trivial = fails in the output validation step without flags; distinct by the set of no-flag diagnostics",
        "distribution": dist, "samples": samples or [{"note": "no validate-stage failure in this sample"}],
    })
    out.assumptions = ["the four per-rule diagnostics lists are identified by their message prefix (output.ValidateParamsExist / output.ValidateServicesExist)"]
    return out.finish()
