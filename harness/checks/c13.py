"""C13 — getter API contract of the generated container.
theorems: Props/C13.v; tie: rendered file = real bytes (through the real formatter), front-end correspondence;
oracle: the method set read from the real output with go/parser (gxtool api) against the truth table of the statement."""
import itertools
import json

from vlib import build, cfggen, codegen
from . import common

RESERVED = ["AddDecorator", "CircularDeps", "Container", "Get", "GetInContext", "GetParam", "GetTaggedBy", "GetTaggedByInContext", "HotSwap", "IsTaggedBy",
            "OverrideParam", "OverrideService", "Root"]
TYPES = [None, "T", "*T", "example.com/lib.T", "*\"gv.test/fix/alpha\".Srv"]


def table(tier):
    rows = []
    for getter, ty, mg, dmg, names in itertools.product([None, "GetIt"], TYPES, [None, True, False], [None, True, False], [False, True]):
        if tier == "quick" and names and ty not in (None, "*T"):
            continue
        sv = {"constructor": "NewA"}
        if getter:
            sv["getter"] = getter
        if ty:
            sv["type"] = ty
        if mg is not None:
            sv["must_getter"] = mg
        meta = {}
        if dmg is not None:
            meta["default_must_getter"] = dmg
        if names:
            meta.update({"pkg": "di", "container_type": "Crate", "container_constructor": "NewCrate"})
        cfg = {"services": {"svc": sv, "plain": {"value": "Value"}}}
        if meta:
            cfg["meta"] = meta
        rows.append(("table", cfg))
    for g in RESERVED + ["MustGetX", "GetXInContext", "MustGetXInContext", "Must", "InContext", "getX", "Get_X", "X",
                         "_getEnv", "_", "_paramTodo", "_x", "_concatenateChunks", "_getEnvInt", "_callProvider", "Mustang", "Mustx", "MustgetX", "Must_x", "Must1", "MustX", "mustGetX", "MUSTGetX", "xInContext", "InContextX", "GetXIncontext", "GetXInContext2", "_InContext"]:
        rows.append(("collision-reserved", {"services": {"a": {"value": "Value", "getter": g}}}))
    rows.append(("collision-equal", {"services": {"a": {"value": "Value", "getter": "GetSame"}, "b": {"value": "Value", "getter": "GetSame"}}}))
    rows.append(("collision-equal-todo", {"services": {"a": {"value": "Value", "getter": "GetSame"}, "b": {"todo": True, "getter": "GetSame"}}}))
    rows.append(("collision-derived", {"services": {"a": {"value": "Value", "getter": "GetX", "must_getter": True}, "b": {"value": "Value", "getter": "GetXY"}}}))
    rows.append(("collision-derived-lower", {"services": {"a": {"value": "Value", "getter": "getDB", "must_getter": True}, "b": {"value": "Value", "getter": "MustgetDB"}}}))
    rows.append(("collision-derived-ctx", {"services": {"a": {"value": "Value", "getter": "getDB"}, "b": {"value": "Value", "getter": "getDBInContext"}}}))
    rows.append(("collision-derived-default", {"meta": {"default_must_getter": True}, "services": {"a": {"value": "Value", "getter": "x"}, "b": {"value": "Value", "getter": "Mustx"}}}))
    # the same decisions when the attributes arrive in two files (an explicit false in a later file is a value)
    for first, later, merged in [
            ({"must_getter": True}, {"must_getter": False}, False), ({"must_getter": False}, {"must_getter": True}, True),
            ({"must_getter": True}, {"type": "*T"}, True), ({}, {"must_getter": True}, True)]:
        base = {"services": {"svc": dict({"constructor": "NewA", "getter": "GetIt"}, **first), "plain": {"value": "Value"}}}
        over = {"services": {"svc": dict(later)}}
        m = {"services": {"svc": dict(base["services"]["svc"], **later), "plain": {"value": "Value"}}}
        m["__files__"] = [base, over]
        rows.append(("two-files", m))
    for d1, d2, merged in [(True, False, False), (False, True, True), (True, None, True)]:
        base = {"meta": {"default_must_getter": d1}, "services": {"svc": {"constructor": "NewA", "getter": "GetIt"}, "plain": {"value": "Value"}}}
        over = {"meta": ({"default_must_getter": d2} if d2 is not None else {"pkg": "main"})}
        m = {"meta": dict({"default_must_getter": merged}, **({"pkg": "main"} if d2 is None else {})), "services": dict(base["services"])}
        m["__files__"] = [base, over]
        rows.append(("two-files-default", m))
    for dmg, names in itertools.product([True, False, None], [("alpha", "beta", "gamma"), ("zeta", "eta", "beta"), ("b", "a", "c")]):
        for opp_first in (True, False):
            n1, n2, n3 = names
            svcs = {n1: {"constructor": "NewA", "getter": "Get" + n1.capitalize(), "must_getter": (not dmg) if dmg is not None else True},
                    n2: {"constructor": "NewA", "getter": "Get" + n2.capitalize()},
                    n3: {"constructor": "NewA", "getter": "Get" + n3.capitalize(), "must_getter": bool(dmg)}}
            if not opp_first:
                svcs = dict(reversed(list(svcs.items())))
            cfg = {"services": svcs}
            if dmg is not None:
                cfg["meta"] = {"default_must_getter": dmg}
            rows.append(("table-several-services", cfg))
    # getters that differ only in letter case are different Go identifiers: both services get their methods
    for g1, g2 in [("getDB", "GetDB"), ("GetX", "GETX"), ("getx", "getX"), ("Db", "DB")]:
        for mg in (None, True):
            sv = lambda g: dict({"value": "Value", "getter": g, "type": "T"}, **({"must_getter": True} if mg else {}))
            rows.append(("case-twins", {"services": {"a": sv(g1), "b": sv(g2)}}))
    rows.append(("case-twins", {"services": {"svc": {"value": "Value", "getter": "GetIt"}, "SVC": {"value": "Value", "getter": "GetIT"}, "Svc": {"value": "Value"}}}))
    # the truth table for the other creation methods (a value, a bare type)
    for create, ty, mg, dmg in itertools.product(["value", "type"], [None, "T", "*\"gv.test/fix/alpha\".Srv"], [None, True, False], [None, True, False]):
        if create == "type" and ty is None:
            continue
        if tier == "quick" and (mg, dmg) not in ((None, None), (True, None), (None, True), (False, True), (True, False)):
            continue
        for getter in (None, "GetIt"):
            sv = {"value": "Value"} if create == "value" else {}
            if create == "value" and ty and "alpha" in ty:
                sv = {"value": "&\"gv.test/fix/alpha\".Srv{}"}
            if getter:
                sv["getter"] = getter
            if ty:
                sv["type"] = ty
            if mg is not None:
                sv["must_getter"] = mg
            cfg = {"services": {"svc": sv, "plain": {"constructor": "NewA"}}}
            if dmg is not None:
                cfg["meta"] = {"default_must_getter": dmg}
            rows.append(("table-" + create, cfg))
    # every subset of the three configurable names (the others keep their defaults)
    NM = {"pkg": "di", "container_type": "Crate", "container_constructor": "NewCrate"}
    for r_ in (1, 2):
        for sub in itertools.combinations(sorted(NM), r_):
            rows.append(("names-subset", {"meta": {k_: NM[k_] for k_ in sub}, "services": {"svc": {"constructor": "NewA", "getter": "GetIt", "type": "*T", "must_getter": True}}}))
    rows.append(("names-subset", {"meta": {"container_type": "gontainer", "container_constructor": "newGontainer"}, "services": {"svc": {"constructor": "NewA", "getter": "GetIt"}}}))
    rows.append(("names-subset", {"meta": {"container_type": "NewGontainer", "container_constructor": "Gontainer"}, "services": {"svc": {"constructor": "NewA", "getter": "GetIt"}}}))
    rows.append(("collision-derived2", {"meta": {"default_must_getter": True}, "services": {"a": {"value": "Value", "getter": "GetA"}, "b": {"value": "Value", "getter": "GetB"}, "c": {"value": "Value"}}}))
    return rows


def expected(cfg):
    """(accepted?, {method name: (params, results)}) per the statement"""
    meta = cfg.get("meta") or {}
    dmg = meta.get("default_must_getter")
    methods = {}
    ok = True
    seen = {}
    for n, sv in cfg["services"].items():
        if sv.get("todo"):
            continue
        g = sv.get("getter")
        mg = sv.get("must_getter")
        if not g:
            if mg is True:
                ok = False
            continue
        if g in RESERVED or g.startswith("Must") or g.endswith("InContext") or not g[0].isalpha() or not all(c.isalnum() or c == "_" for c in g):
            ok = False
        if g in seen:
            ok = False
        seen[g] = n
        ty = sv.get("type")
        t = "interface{}" if ty is None else ty
        must = mg is True or (mg is None and dmg is True)
        methods[g] = ([], [t, "error"])
        methods[g + "InContext"] = (["<context>.Context"], [t, "error"])
        if must:
            methods["Must" + g] = ([], [t])
            methods["Must" + g + "InContext"] = (["<context>.Context"], [t])
    return ok, methods


def norm_type(t):
    import re
    t = re.sub(r'<([^>]+)>\.', lambda m: "<%s>." % m.group(1), t)
    return t


def spec_type(t):
    """type expression of the configuration -> the rendering of gxtool api (qualifier = import path in <>)"""
    import re
    m = re.match(r'^(\*?)(?:"?([^"]+?)"?\.)?([A-Za-z][A-Za-z0-9_]*)$', t)
    if not m or t == "interface{}":
        return t
    ptr, imp, name = m.groups()
    return "%s%s%s" % (ptr, "<%s>." % imp if imp else "", name)


def run(tier, seed, replay):
    out, tooldir, env = common.setup("C13", tier, seed)
    common.proof_part(out, env, "C13", ties=["Tie/EnvTie.v"])
    rows = table(tier)
    specs = []
    for k, (kind, cfg) in enumerate(rows):
        sp = common.mk_spec(k, cfg.pop("__files__", None) or [cfg], keep_out=True)
        sp["what"] = [kind]
        sp["cfg"] = cfg
        specs.append(sp)
    if replay:
        rp = json.load(open(replay))["replay"]
        specs = [dict(rp, id="0", dump=True, build_info="bi", keep_out=True)]
    obs = build.gx_run(tooldir, specs)
    common.real_sanity(out, specs, obs, "C13")
    common.correspondence(out, env, specs, obs, "C13 front end", verdict_claim="an explicit must_getter without a getter is rejected; colliding getters are rejected")
    codegen.render_correspondence(out, env, tooldir, specs, obs, "C13")
    acc = [k for k, o in enumerate(obs) if o.get("exit") == 0 and o.get("out_content")]
    apis = build.gx_api(tooldir, [obs[k]["out_content"] for k in acc])
    api_of = dict(zip(acc, apis))
    dist = {}
    nontrivial = set()
    samples = []
    for k, (sp, ob) in enumerate(zip(specs, obs)):
        cfg = sp.get("cfg")
        if cfg is None:
            continue
        kind = sp["what"][0]
        ok, methods = expected(cfg)
        rep = dict(common.slim(sp, ob), expected_accept=ok, expected_methods={m: list(v) for m, v in methods.items()})
        dist["%s:%s" % (kind, "accept" if ok else "reject")] = dist.get("%s:%s" % (kind, "accept" if ok else "reject"), 0) + 1
        if ok != (ob.get("exit") == 0):
            out.violation("verdict:%s" % kind, "getter rules: expected %s, the tool %s" % ("accept" if ok else "reject", "accepts" if ob.get("exit") == 0 else "rejects"), rep)
            continue
        if not ok:
            continue
        api = api_of[k]
        meta = cfg.get("meta") or {}
        ct = meta.get("container_type", "Gontainer")
        want_pkg, want_ctor = meta.get("pkg", "main"), meta.get("container_constructor", "NewGontainer")
        mlist = [m["name"] for m in (api["methods"] or []) if not m["name"].startswith("_") and m["recv"] == ["*" + ct]]
        if len(set(mlist)) != len(mlist):
            out.violation("method-declared-twice:%s" % kind, "a method is declared more than once: %s" % sorted(n for n in set(mlist) if mlist.count(n) > 1), rep)
        got = {m["name"]: (m["params"] or [], m["results"] or []) for m in (api["methods"] or []) if not m["name"].startswith("_") and m["recv"] == ["*" + ct]}
        want = {n: (p, [spec_type(x) for x in r]) for n, (p, r) in methods.items()}
        if got != want:
            out.violation("method-set:%s" % kind, "the generated method set differs from the statement's truth table", dict(rep, generated={n: list(v) for n, v in got.items()}))
        if api["package"] != want_pkg or not any(t["name"] == ct for t in api["types"]) or not any(f["name"] == want_ctor and f["results"] == ["*" + ct] for f in api["funcs"]):
            out.violation("names:%s" % kind, "package / type / constructor names are not the configured ones or the defaults", rep)
        nontrivial.add(json.dumps(sorted(want)))
        if len(samples) < 4 and len(want) == 4 and kind == "table":
            samples.append({"config": cfggen.to_yaml(cfg), "methods": sorted(got)})
    # compile a sample (duplicate / colliding declarations are compile errors)
    acc_sorted = sorted(acc, key=lambda k: (specs[k]["what"][0] == "table", k))     # directed rows first
    items = [("c%04d" % k, obs[k]["out_content"]) for k in acc_sorted][: (200 if tier == "quick" else 800)]
    errs, unstable, init_fail = codegen.compile_batch(items)
    for name, txt in init_fail.items():
        if name != "_batch":
            k = int(name[1:])
            out.violation("init-fails:" + specs[k]["what"][0], "the generated package fails when it is initialised: %s" % txt[-300:], common.slim(specs[k], obs[k]))
        else:
            out.broke("harness: C13 init batch", txt[-600:])
    for name in unstable:
        if name.startswith("c") and name[1:].isdigit():
            out.violation("not-gofmt-stable:" + specs[int(name[1:])]["what"][0], "the generated file is not in gofmt form", common.slim(specs[int(name[1:])], obs[int(name[1:])]))
    for name, lines in errs.items():
        if name != "_batch":
            k = int(name[1:])
            out.violation("does-not-compile:" + specs[k]["what"][0], "accepted getter configuration does not compile: %s" % lines[:3], dict(common.slim(specs[k], obs[k]), compiler_output=lines[:10]))
    # ---- run-time: a getter returns the same object as Get(name) converted to T; Must variants panic iff there is an error
    from . import rtcommon
    import re as _re
    rs, hs, gs = rtcommon.gen_cases(seed, "c13rt", 25 if tier == "quick" else 400, weights={"getter": 1.0, "todo": 0.1, "failing": 0.1, "decorators": 0.0}, hist_len=0)
    for k, sp in enumerate(rs):
        h = []
        for n, sv in sp["cfg"]["services"].items():
            g = sv.get("getter")
            if g:
                h += [{"op": "get", "name": n}, {"op": "getter", "name": g}, {"op": "getterctx", "ctx": 1, "name": g + "InContext"}]
                if sv.get("must_getter"):
                    h += [{"op": "getter", "name": "Must" + g}, {"op": "getterctx", "ctx": 1, "name": "Must" + g + "InContext"}]
        hs[k] = h
    # one constructor-built service per scope with every getter variant, in two contexts (instance identity is observable)
    idcfg = {"services": {n: {"constructor": c, "scope": sc, "getter": "Get" + n.capitalize(), "must_getter": True, "type": "*T"}
                          for n, c, sc in (("sh", "NewA", "shared"), ("cx", "NewB", "contextual"), ("ns", "MakeC", "non_shared"))}}
    idsp = common.mk_spec(len(rs), [idcfg], keep_out=True)
    idsp["cfg"] = idcfg
    idsp["what"] = ["c13rt-identity"]
    idh = []
    for n, sv in idcfg["services"].items():
        g = sv["getter"]
        idh += [{"op": "get", "name": n}, {"op": "getter", "name": g}, {"op": "getterctx", "ctx": 1, "name": g + "InContext"}, {"op": "getter", "name": "Must" + g},
                {"op": "getterctx", "ctx": 1, "name": "Must" + g + "InContext"}, {"op": "getterctx", "ctx": 2, "name": g + "InContext"},
                {"op": "getterctx", "ctx": 2, "name": "Must" + g + "InContext"}, {"op": "getterctx", "ctx": 1, "name": "Must" + g + "InContext"}]
    rs.append(idsp)
    hs.append(idh)
    robs, rl, ml, racc = rtcommon.run_histories(out, tooldir, env, rs, hs, "C13 getters at run time", "C13", compare=True)
    # the declared type is a named type the constructor's result CONVERTS to (float64 -> Celsius, string -> Label, int -> Count): every
    # getter variant returns the object Get returns, converted.  (The run-time model knows nothing of these constructors: own oracle.)
    ccfg = {"services": {n_: {"constructor": c_, "type": t_, "getter": "Get" + n_.capitalize(), "must_getter": True, "scope": sc_}
                         for n_, c_, t_, sc_ in (("temp", "NewFloat", "Celsius", "shared"), ("label", "NewText", "Label", "contextual"), ("count", "NewInt", "Count", "non_shared"),
                                                 ("plainf", "NewFloat", "float64", "shared"))}}
    csp = common.mk_spec(0, [ccfg], keep_out=True)
    csp["cfg"] = ccfg
    csp["what"] = ["c13rt-converted-type"]
    ch = []
    for n_, sv_ in ccfg["services"].items():
        g_ = sv_["getter"]
        ch += [{"op": "get", "name": n_}, {"op": "getter", "name": g_}, {"op": "getterctx", "ctx": 1, "name": g_ + "InContext"}, {"op": "getter", "name": "Must" + g_}, {"op": "getterctx", "ctx": 2, "name": "Must" + g_ + "InContext"}]
    cobs, crl, _, cacc = rtcommon.run_histories(out, tooldir, env, [csp], [ch], "C13conv getters with a converted type", "C13", compare=False)
    if 0 in cacc:
        last = None
        for o, line in zip(ch, crl[0]):
            if o["op"] == "get":
                last = line
                continue
            if line != last:
                out.violation("getter-differs-from-get:converted-type", "%s returns %s, Get returns %s (the declared type is a named type the result converts to)" % (o["name"], line[:160], last[:160]),
                              dict(common.slim(csp, cobs[0]), history=ch, results=crl[0]))
    else:
        out.violation("converted-type-rejected", "a configuration whose getters declare named types of the constructors' results is rejected or does not build: %s" % ((cobs[0].get("errors") or [])[:3],), common.slim(csp, cobs[0]))
    strip = lambda s: _re.sub(r";#\d+\)", ";#)", s)
    gstat = {"getter_calls": 0, "must_panics": 0}
    top_serial = lambda line: (_re.findall(r";#(\d+)\)", line) or [None])[-1]
    for k in racc:
        last_get = None
        cur = None
        ident = {}
        for o, line in zip(hs[k], rl[k]):
            if o["op"] == "get":
                last_get = line
                cur = o["name"]
                ident = {}
                continue
            # identity: every getter variant of a shared service returns the one instance; the InContext variants of a contextual
            # service return, within one context, the one instance of that context
            sc = (rs[k]["cfg"]["services"].get(cur) or {}).get("scope")
            if line.startswith("O(") and sc in ("shared", "contextual"):
                key = "shared" if sc == "shared" else ("ctx%s" % o.get("ctx") if o["op"] == "getterctx" else None)
                if key is not None:
                    if key in ident and ident[key] != top_serial(line):
                        out.violation("getter-identity", "%s of the %s service %s returns another instance (#%s) than an earlier getter of the same %s (#%s)" % (
                            o["name"], sc, cur, top_serial(line), "container" if sc == "shared" else "context", ident[key]),
                            dict(common.slim(rs[k], robs[k]), history=hs[k], results=rl[k]))
                    ident.setdefault(key, top_serial(line))
            gstat["getter_calls"] += 1
            rep = dict(common.slim(rs[k], robs[k]), history=hs[k], results=rl[k])
            if line.startswith("?(") and "nomethod" in line:
                out.violation("getter-missing", "method %s does not exist on the generated container" % o["name"], rep)
            elif last_get.startswith("E("):
                if o["name"].startswith("Must"):
                    gstat["must_panics"] += 1
                    if not line.startswith("PANIC("):
                        out.violation("must-does-not-panic", "%s does not panic although Get fails" % o["name"], rep)
                elif not line.startswith("E("):
                    out.violation("getter-hides-error", "%s returns %s although Get fails" % (o["name"], line[:120]), rep)
            else:
                if strip(line) != strip(last_get):
                    out.violation("getter-differs-from-get", "%s returns %s, Get returns %s" % (o["name"], line[:200], last_get[:200]), rep)
    dist["runtime"] = gstat
    out.coverage.update({
        "evaluations": len(specs) + sum(len(h) for h in hs), "distinct_nontrivial": len(nontrivial), "programs": len(items) + len(racc), "exhaustive": tier == "thorough",
        "rule": "truth table getter{unset,G} x type form x must_getter{unset,true,false} x default_must_getter{unset,true,false} x meta names set/unset; getters equal to every method/field of the embedded container, Must-/InContext-shaped getters, equal getters on two services, derived-name near-collisions; non-trivial = distinct generated method-name set",
        "distribution": dist, "samples": samples or [{"note": "none"}],
    })
    out.assumptions = ["that a getter returns the same object as Get(name) converted to T is exercised by the probe check (run-time), not here"]
    return out.finish()
