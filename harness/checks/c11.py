"""C11 — input grammar: accept exactly the documented language, report every violation.
theorems: Props/C11.v (every validator regex = documented language, for strings of any length; all validators run; todo exempt);
tie: regenerated regex sites + verified equivalence checker (Tie/RegexTie.v), model vs real on exhaustive short strings in every grammar
position, wrong node kinds, k simultaneous defects; oracle: independent Python recognisers of the documented grammar."""
import itertools
import json
import random
import re

from vlib import build, cfggen, spec
from . import common

ALPHA = ["a", "Z", "1", ".", "-", "_", "/", "\"", "*", "&", "{", "}", " "]
BASE_IMPORT = r"[A-Za-z](/?[A-Za-z0-9._-])*"
IMPORT = r"((%s)|(\"%s\")|\"\.\")" % (BASE_IMPORT, BASE_IMPORT)
GO = r"[A-Za-z][A-Za-z0-9_]*"
YT = r"[A-Za-z]((\.|-|_)?[A-Za-z0-9])*"
GOFUNC = r"((%s)\.)?%s" % (IMPORT, GO)
LANG = {
    "param-name": YT, "service-name": YT, "todo-service-name": YT, "tag": YT, "alias": YT, "getter": GO, "call": GO, "field": GO, "pkg": GO, "ctype": GO, "cctor": GO,
    "fn-name": GO, "import": IMPORT, "constructor": GOFUNC, "gofn": GOFUNC, "dec-method": GOFUNC, "dec-tag": r"(\*|(%s))" % YT,
    "type": r"\*?((%s)\.)?%s" % (IMPORT, GO),
    "value": r"(&?((%s)\.)?%s(\.%s)*)|(&?((%s)\.)?%s\{\})" % (IMPORT, GO, GO, IMPORT, GO),
}
RESERVED = {"AddDecorator", "CircularDeps", "Container", "Get", "GetInContext", "GetParam", "GetTaggedBy", "GetTaggedByInContext", "HotSwap", "IsTaggedBy",
            "OverrideParam", "OverrideService", "Root"}


V_ = r"^compiler\.StepValidateInput: "
MULTI_DIAG = {  # injected defect -> its diagnostic (quoted strings normalised to "_")
    "grammar:pname": V_ + r'parameters: "_": invalid name$', "grammar:sname": V_ + r'services: "_": invalid name$', "grammar:pkg": V_ + r'meta: pkg: invalid "_"',
    "grammar:alias": V_ + r'meta: imports: invalid alias "_"', "grammar:import": V_ + r'meta: imports: invalid import "_"', "grammar:fn": V_ + r'meta: functions: invalid function "_"',
    "grammar:gofn": V_ + r'meta: functions: invalid go function "_"', "grammar:nonprim-param": V_ + r'parameters: "_": unsupported type ',
    "grammar:dec-tag": V_ + r'decorators: \d+ "_": tag: invalid "_"', "grammar:dec-method": V_ + r'decorators: \d+ "_": method: invalid "_"',
    "grammar:getter": V_ + r'services: "_": getter: invalid "_"', "grammar:ctor": V_ + r'services: "_": constructor: invalid "_"', "grammar:type": V_ + r'services: "_": type: invalid "_"',
    "grammar:value": V_ + r'services: "_": value: invalid "_"', "grammar:tag": V_ + r'services: "_": tags: \d+: invalid "_"', "grammar:field": V_ + r'services: "_": fields: "_": invalid "_"',
    "grammar:call": V_ + r'services: "_": calls: \d+: method: invalid "_"', "grammar:nonprim-arg": V_ + r'services: "_": (fields: "_"|arguments: arg \d+|calls: .*): unsupported type ',
    "grammar:ctor+value": V_ + r'services: "_": cannot define constructor and value together', "grammar:missing-ctor": V_ + r'services: "_": missing constructor or value or type',
    "grammar:args-noctor": V_ + r'services: "_": arguments are not empty, but constructor is missing', "grammar:must-prefix": V_ + r'services: "_": getter: prefix "_" is not allowed',
    "grammar:incontext": V_ + r'services: "_": getter: suffix "_" is not allowed', "grammar:reserved": V_ + r'services: "_": getter: "_" is reserved',
    "grammar:dup-tag": V_ + r'services: "_": tags: duplicate "_"',
}


def lang_ok(pos, x):
    if not re.fullmatch(LANG[pos], x, re.S):
        return False
    if pos == "getter":
        return x not in RESERVED and not x.startswith("Must") and not x.endswith("InContext")
    # names the generated file needs for itself (D16) and the current package as an alias target
    if pos == "ctype":
        return x != "rootGontainer"
    if pos == "cctor":
        return x not in ("init", "main")
    if pos == "import":
        return x.strip('"') != "."
    return True


def pack(pos, cands):
    """one configuration carrying every candidate at the given position; returns (cfg, {carrier key: candidate})"""
    cfg = {"services": {}}
    car = {}
    if pos == "param-name":
        cfg["parameters"] = {c: 1 for c in cands}
        car = {c: c for c in cands}
    elif pos == "service-name":
        for c in cands:
            cfg["services"][c] = {"value": "V"}
            car[c] = c
    elif pos == "todo-service-name":
        # a todo placeholder is exempt from the attribute rules, not from the naming rule; its attributes may be anything
        for i, c in enumerate(cands):
            cfg["services"][c] = {"todo": True} if i % 2 else {"todo": True, "constructor": "not a constructor", "getter": "9", "tags": ["a b", "a b"]}
            car[c] = c
    elif pos in ("alias", "import", "fn-name", "gofn"):
        m = cfg.setdefault("meta", {})
        for i, c in enumerate(cands):
            if pos == "alias":
                m.setdefault("imports", {})[c] = "example.com/p%d" % i
                car[c] = c
            elif pos == "import":
                m.setdefault("imports", {})["k%d" % i] = c
                car["k%d" % i] = c
            elif pos == "fn-name":
                m.setdefault("functions", {})[c] = "os.Getenv"
                car[c] = c
            else:
                m.setdefault("functions", {})["k%d" % i] = c
                car["k%d" % i] = c
    elif pos in ("dec-tag", "dec-method"):
        cfg["decorators"] = []
        for i, c in enumerate(cands):
            cfg["decorators"].append({"tag": c, "decorator": "Dec"} if pos == "dec-tag" else {"tag": "t", "decorator": c})
            car[i] = c
    elif pos in ("pkg", "ctype", "cctor"):
        assert len(cands) == 1
        cfg["meta"] = {{"pkg": "pkg", "ctype": "container_type", "cctor": "container_constructor"}[pos]: cands[0]}
        car[0] = cands[0]
        cfg["parameters"] = {"p": 1}
    else:
        for i, c in enumerate(cands):
            n = "c%d" % i
            sv = {"value": "V"}
            if pos == "getter":
                sv["getter"] = c
            elif pos == "constructor":
                sv = {"constructor": c}
            elif pos == "type":
                sv["type"] = c
            elif pos == "value":
                sv = {"value": c}
            elif pos == "call":
                sv["calls"] = [[c]]
            elif pos == "field":
                sv["fields"] = {c: 1}
            elif pos == "tag":
                sv["tags"] = [c]
            cfg["services"][n] = sv
            car[n] = c
    if not cfg["services"]:
        del cfg["services"]
    return cfg, car


def gq(x):
    return json.dumps(x, ensure_ascii=True)


def expected_diag(pos, key, cand):
    """the diagnostic the tool prints for an invalid candidate (exact text, including the key path)"""
    P = "compiler.StepValidateInput: "
    q = gq(cand)
    if pos == "param-name":
        return [P + "parameters: %s: invalid name" % q]
    if pos in ("service-name", "todo-service-name"):
        return [P + "services: %s: invalid name" % q]
    if pos == "alias":
        return [P + "meta: imports: invalid alias %s" % q]
    if pos == "import":
        return [P + "meta: imports: invalid import %s" % q]
    if pos == "fn-name":
        return [P + "meta: functions: invalid function %s" % q]
    if pos == "gofn":
        return [P + "meta: functions: invalid go function %s" % q]
    if pos == "dec-tag":
        return [P + "decorators: %d \"Dec\": tag: invalid %s" % (key, q)]
    if pos == "dec-method":
        return [P + "decorators: %d %s: method: invalid %s" % (key, q, q)]
    if pos in ("pkg", "ctype", "cctor"):
        return [P + "meta: %s: invalid %s" % ({"pkg": "pkg", "ctype": "container_type", "cctor": "container_constructor"}[pos], q)]
    k = "services: \"%s\": " % key
    if pos == "getter":
        if cand in RESERVED:
            return [P + k + "getter: %s is reserved" % q]
        out = []
        if cand.startswith("Must"):
            out.append(P + k + "getter: prefix \"Must\" is not allowed")
        if cand.endswith("InContext"):
            out.append(P + k + "getter: suffix \"InContext\" is not allowed")
        if not re.fullmatch(GO, cand, re.S):
            out.append(P + k + "getter: invalid %s" % q)
        return out
    if pos == "constructor":
        return [P + k + "constructor: invalid %s" % q]
    if pos == "type":
        return [P + k + "type: invalid %s" % q]
    if pos == "value":
        return [P + k + "value: invalid %s" % q]
    if pos == "call":
        return [P + k + "calls: 0: method: invalid %s" % q]
    if pos == "field":
        return [P + k + "fields: %s: invalid %s" % (q, q)]
    if pos == "tag":
        return [P + k + "tags: 0: invalid %s" % q]
    raise KeyError(pos)


def strings(maxlen):
    for n in range(0, maxlen + 1):
        for t in itertools.product(ALPHA, repeat=n):
            yield "".join(t)


def run(tier, seed, replay):
    out, tooldir, env = common.setup("C11", tier, seed)
    common.proof_part(out, env, "C11", ties=["Tie/RegexTie.v", "Tie/EnvTie.v"])
    maxlen = 3 if tier == "quick" else 4
    r = random.Random("%s/c11" % seed)
    allstr = list(strings(maxlen))
    mutated = ["GetX", "MustGetX", "GetXInContext", "Get", "Container", "Root", "getX", "Get_X", "_Get", "G", "example.com/lib.NewA", "\"example.com/lib\".NewA",
               "\".\".NewA", "\"a b\".New", "a/b/c.New", "a//b.New", "lib.New.More", "&Value", "&\"a/b\".Var.Field.Sub", "a/b.T{}", "&a/b.T{}", "T{}{}", "&&V",
               "AddDecorator", "CircularDeps", "GetInContext", "GetParam", "GetTaggedBy", "GetTaggedByInContext", "HotSwap", "IsTaggedBy", "OverrideParam", "OverrideService",
               "@db", "NewA()", "GetX\n", "a:b", "a,b", "a+b", "a#b", "a$b", "a\\b", "a'b", "a(b)", "\u00e9", "\u4e2d", "x" * 63,
               # letters and digits outside ASCII that case folding, Unicode classes or normalisation could let through
               "\u212a", "\u017f", "Get\u212a", "get\u017f", "\u212aey", "a\u017f", "\u0131", "\u0130", "\uff21", "\uff41b", "a\uff11", "\u0430", "\u0391", "a\u0663", "a\u00b2", "\u00aa", "a\u0301",
               "\u212a/b.New", "a.\u017f", "\u017f-t", "a\u200b", "a\u00a0b", "\ufeffa",
               "*T", "**T", "*a/b.T", "*\"a/b\".T", "[]T", "a.b-c_d", "a--b", "a.", ".a", "é", "a\nb", "a\tb", "tag*", "*", "**", "x" * 64]
    specs = []
    plan = []   # per spec: (pos, carriers)
    for pos in LANG:
        cands = [c for c in allstr if c != ""] if pos in ("param-name", "service-name", "todo-service-name", "alias", "fn-name", "field") else list(allstr)
        if tier == "quick":
            # all strings up to length 2, and a third of length 3
            cands = [c for c in cands if len(c) <= 2 or r.random() < 0.34]
        cands = cands + [m for m in mutated if m not in cands]
        if pos in ("pkg", "ctype", "cctor"):
            must = [c for c in cands if len(c) <= 1] + [m for m in mutated if m in cands][:25] + ["init", "main", "rootGontainer", "c", "func", "type"]
            cands = must + [c for c in r.sample(cands, 40 if tier == "quick" else 300) if c not in must]
            chunks = [[c] for c in cands]
        else:
            # YAML mapping keys must be unique per config
            chunks = [cands[i:i + 250] for i in range(0, len(cands), 250)]
        for ch in chunks:
            cfg, car = pack(pos, ch)
            sp = common.mk_spec(len(specs), [cfg])
            sp["what"] = [pos]
            specs.append(sp)
            plan.append((pos, car))
    # documented values: every YAML scalar is a legal parameter value / argument / field value (typed literal), at the edges of every Go kind
    from vlib import cfggen as _cg
    SCALARS_OK = ["0", "-1", "9223372036854775807", "-9223372036854775808", "9223372036854775808", "18446744073709551615", "0x1F", "0o17", "0b101", "1e3", "1.5", "-0.0",
                  "true", "false", "~", "null", "\"\"", "\"text\"", "1_000", "+7", ".5", "12345678901234567890"]
    for chunk in (SCALARS_OK[:12], SCALARS_OK[12:]):
        cfg = {"parameters": {"v%d" % i: _cg.Raw(x) for i, x in enumerate(chunk)},
               "services": {"s": {"constructor": "NewA", "arguments": [_cg.Raw(x) for x in chunk], "calls": [["SetX", [_cg.Raw(x) for x in chunk]]],
                                  "fields": {"F%d" % i: _cg.Raw(x) for i, x in enumerate(chunk)}, "tags": ["t"]}},
               "decorators": [{"tag": "t", "decorator": "Decorate", "arguments": [_cg.Raw(x) for x in chunk]}]}
        sp = common.mk_spec(len(specs), [cfg])
        sp["what"] = ["scalar-values"]
        specs.append(sp)
        plan.append(("scalar-values", None))
    # every VALID import path form, actually used: a configuration made only of grammatical pieces is accepted end to end
    vimps = [c for c in allstr + mutated if c and lang_ok("import", c) and c.strip('"') != "."]
    vimps = vimps[:110] + [c for c in vimps[110:] if c in mutated][:40] + ["\"example.com/lib\"", "\"gv.test/fix/x.y\"", "example.com/a-b_c.d/e"]
    vcfg = {"meta": {"imports": {"k%d" % i: c for i, c in enumerate(vimps)}},
            "services": {"s%d" % i: {"constructor": "k%d.New" % i, "type": "*k%d.T" % i, "getter": "GetS%d" % i} for i in range(len(vimps))}}
    sp = common.mk_spec(len(specs), [vcfg])
    sp["what"] = ["valid-imports-used"]
    specs.append(sp)
    plan.append(("all-valid", None))
    # shapes of tags, scope keywords and booleans (decided by the YAML decoding methods, which also feed the model: own tables here)
    SHAPES = [("tags", "[t]", True), ("tags", "[{name: t}]", True), ("tags", "[{name: t, priority: 3}]", True), ("tags", "[{name: t, priority: -3}]", True),
              ("tags", "[{name: t, priority: \"3\"}]", False), ("tags", "[{priority: 1}]", False), ("tags", "[{name: 7}]", False), ("tags", "[[t]]", False), ("tags", "[{name: t, priority: 1.5}]", False),
              ("tags", "[{name: t, prio: 1}]", None), ("tags", "t", False), ("tags", "[t, t]", False), ("tags", "[a, b, a]", False), ("tags", "[a, {name: a, priority: 2}]", False), ("tags", "[a, a, b, b]", False),
              ("tags", "[~]", None), ("tags", "[7]", False), ("tags", "{name: t}", False),
              ("scope", "shared", True), ("scope", "contextual", True), ("scope", "non_shared", True), ("scope", "Shared", False), ("scope", "\"non-shared\"", False), ("scope", "nonshared", False),
              ("scope", "\"\"", False), ("scope", "1", False), ("scope", "[shared]", False), ("scope", "default", None), ("scope", "~", True),
              ("todo", "true", True), ("todo", "false", True), ("todo", "\"yes\"", None), ("todo", "1", False), ("todo", "~", True),
              ("must_getter", "true", True), ("must_getter", "false", True), ("must_getter", "1", False), ("must_getter", "\"true\"", None), ("must_getter", "maybe", False)]
    for attr, txt, want in SHAPES:
        body = "    value: Value\n    getter: GetS\n" if attr != "todo" else "    value: Value\n"
        sp = common.mk_spec(len(specs), ["services:\n  s:\n%s    %s: %s\n" % (body, attr, txt)])
        sp["what"] = ["attr-shape:%s" % attr]
        specs.append(sp)
        plan.append(("attr-shape", (attr, txt, want)))
    # duplicate getters (two / three owners, one of them a todo placeholder), duplicates that only arise after merging two files
    DUPS = [({"a": {"value": "Value", "getter": "GetX"}, "b": {"value": "Value", "getter": "GetX"}}, False),
            ({"a": {"value": "Value", "getter": "GetX"}, "b": {"value": "Value", "getter": "GetX"}, "c": {"value": "Value", "getter": "GetX"}}, False),
            ({"a": {"value": "Value", "getter": "GetX"}, "b": {"todo": True, "getter": "GetX"}}, True),
            ({"a": {"value": "Value", "getter": "GetX"}, "b": {"value": "Value", "getter": "GetY"}}, True)]
    for svcs, want in DUPS:
        sp = common.mk_spec(len(specs), [{"services": svcs}])
        sp["what"] = ["duplicate-getter"]
        specs.append(sp)
        plan.append(("verdict", ("duplicate getters %s" % sorted(svcs), want)))
    for f0, f1, want in [({"tags": ["a"]}, {"tags": ["a"]}, False), ({"tags": ["a"]}, {"tags": ["b"]}, True), ({"getter": "GetX"}, {"getter": "GetX"}, True)]:
        sp = common.mk_spec(len(specs), [{"services": {"s": dict({"value": "Value"}, **f0)}}, {"services": {"s": f1}}])
        sp["what"] = ["duplicate-after-merge"]
        specs.append(sp)
        plan.append(("verdict", ("%s then %s" % (f0, f1), want)))
    # creation-method rules: constructor x value x type x arguments
    for has_c, has_v, has_t, has_a in itertools.product([False, True], repeat=4):
        sv = {}
        if has_c:
            sv["constructor"] = "NewA"
        if has_v:
            sv["value"] = "Value"
        if has_t:
            sv["type"] = "*T"
        if has_a:
            sv["arguments"] = [1]
        # documented: a constructor or a value or (at least) a type; not constructor and value together; arguments only with a constructor
        want = (has_c or has_v or has_t) and not (has_c and has_v) and not (has_a and not has_c)
        sp = common.mk_spec(len(specs), [{"services": {"s": sv}}])
        sp["what"] = ["creation-method"]
        specs.append(sp)
        plan.append(("verdict", ("creation %s" % sorted(sv), want)))
    # todo: false is an ordinary service (its attributes are checked), todo: true with garbage is exempt
    for sv, want in [({"todo": False, "constructor": "bad ctor"}, False), ({"todo": False, "value": "Value"}, True), ({"todo": True, "constructor": "bad ctor", "arguments": [[1]], "getter": "Get"}, True)]:
        sp = common.mk_spec(len(specs), [{"services": {"s": sv}}])
        sp["what"] = ["todo-exemption"]
        specs.append(sp)
        plan.append(("verdict", ("todo %s" % sv, want)))
    # ... and across files the LAST declaration of `todo` decides whether the attributes are checked
    BAD = {"getter": "MustGetLogger", "tags": ["dup", "dup"], "calls": [["Set Level"]]}
    for f0, f1, want in [({"todo": True}, dict({"todo": False, "constructor": "NewA"}, **BAD), False), (dict({"todo": False, "constructor": "NewA"}, **BAD), {"todo": True}, True),
                         ({"todo": True}, dict({"constructor": "NewA"}, **BAD), True), (dict({"constructor": "NewA"}, **BAD), {"todo": True}, True),
                         (dict({"todo": True}, **BAD), {"todo": False, "constructor": "NewA"}, False), ({"todo": False, "constructor": "NewA"}, {"todo": True, "getter": "Must Bad"}, True),
                         ({"todo": True}, {"todo": False, "constructor": "NewA"}, True), ({"todo": False}, {"todo": True}, True)]:
        sp = common.mk_spec(len(specs), [{"services": {"logger": f0}}, {"services": {"logger": f1}}])
        sp["what"] = ["todo-exemption-two-files"]
        specs.append(sp)
        plan.append(("verdict", ("todo across files %s then %s" % (f0, f1), want)))
    # each diagnostic names the offending key: non-primitive values at positions that differ from the index of their call / decorator
    sp = common.mk_spec(len(specs), ["services:\n  s:\n    constructor: NewA\n    arguments: [1, [2], 3, {a: 4}]\n    calls:\n      - [M0, [1]]\n      - [M1, [[1], 2, {a: 1}]]\n      - [M2, []]\n      - [M3, [1, 2, 3, [4]]]\n    fields: {A: 1, B: [1], C: {x: 1}}\ndecorators:\n  - {tag: t, decorator: D0, arguments: [1]}\n  - {tag: t, decorator: D1, arguments: [1, 2, [3]]}\n"])
    sp["what"] = ["offending-key"]
    specs.append(sp)
    plan.append(("errors-exactly", ['services: "s": arguments: arg 1: unsupported type', 'services: "s": arguments: arg 3: unsupported type', 'services: "s": calls: 1: arguments: 0: unsupported type',
                                    'services: "s": calls: 1: arguments: 2: unsupported type', 'services: "s": calls: 3: arguments: 3: unsupported type', 'services: "s": fields: "B": unsupported type',
                                    'services: "s": fields: "C": unsupported type', 'decorators: 1 "D1": arguments: 2: unsupported type']))
    # a version error and grammar errors are all reported in one run
    sp = common.mk_spec(len(specs), [{"version": "9.9.9", "parameters": {"1bad": 1}, "services": {"s": {"constructor": "New X"}}}])
    sp["what"] = ["version-and-grammar"]
    specs.append(sp)
    plan.append(("errors-contain", ["incompatible versions", "\"1bad\": invalid name", "constructor: invalid"]))
    # the shape of a call: [method], [method, args], [method, args, wither] and nothing else
    CALLS = [("[]", False), ("[M]", True), ("[M, []]", True), ("[M, [1], true]", True), ("[M, [1], false]", True), ("[M, [], false, extra]", False), ("[M, [], true, 1, 2]", False),
             ("[M, x]", False), ("[M, [], 1]", False), ("[[M]]", False), ("M", False), ("{method: M}", False), ("[M, ~]", None), ("[M, [], ~]", None), ("[1]", None), ("[~]", None)]
    for txt, want in CALLS:
        cfg = _cg.Raw("{services: {s: {constructor: NewA, calls: [%s]}}}" % txt)
        sp = common.mk_spec(len(specs), ["services:\n  s:\n    constructor: NewA\n    calls:\n      - %s\n" % txt])
        sp["what"] = ["call-shape"]
        specs.append(sp)
        plan.append(("call-shape", (txt, want)))
    # k simultaneous defects, wrong node kinds
    multi = common.random_specs(seed, 150 if tier == "quick" else 2500, "c11multi", inj_rate=1.0, injectors=["grammar", "grammar", "pattern"], nfiles_choices=(1,))
    for sp in multi:
        sp["id"] = str(len(specs))
        specs.append(sp)
        plan.append((None, None))
    if replay:
        rp = json.load(open(replay))["replay"]
        specs = [dict(rp, id="0", dump=True, build_info="bi")]
        plan = [(None, None)]
    obs = build.gx_run(tooldir, specs)
    common.real_sanity(out, specs, obs, "C11")
    common.correspondence(out, env, specs, obs, "C11 validators", verdict_claim="a configuration free of reference, cycle, scope and version errors is accepted iff every name and expression matches the documented grammar")
    dist = {}
    nontrivial = set()
    evals = 0
    samples = []
    for sp, ob, (pos, car) in zip(specs, obs, plan):
        if pos == "attr-shape":
            evals += 1
            attr, txt, want = car
            if want is not None and want != (ob.get("exit") == 0):
                out.violation("attr-shape:%s:%s" % (attr, txt), "%s: %s is %s" % (attr, txt, "accepted" if ob.get("exit") == 0 else "rejected: %s" % (ob.get("errors") or [])[:2]), common.slim(sp, ob))
            continue
        if pos == "verdict":
            evals += 1
            desc, want = car
            if want != (ob.get("exit") == 0):
                out.violation("grammar-verdict:" + sp["what"][0], "%s: expected %s, the tool %s: %s" % (desc, "accept" if want else "reject", "accepts" if ob.get("exit") == 0 else "rejects", (ob.get("errors") or [])[:2]), common.slim(sp, ob))
            continue
        if pos == "errors-exactly":
            evals += 1
            errs_ = ob.get("errors") or []
            miss = [w for w in car if not any(w in e for e in errs_)]
            if miss or len(errs_) != len(car):
                out.violation("offending-key:" + sp["what"][0], "the diagnostics do not name exactly the offending keys: missing %s; reported: %s" % (miss, [e.replace("compiler.StepValidateInput: ", "")[:70] for e in errs_]), common.slim(sp, ob))
            continue
        if pos == "errors-contain":
            evals += 1
            txt = "\n".join(ob.get("errors") or [])
            miss = [w for w in car if w not in txt]
            if miss:
                out.violation("not-all-reported:" + sp["what"][0], "independent violations are not all reported in one run, missing: %s" % miss, common.slim(sp, ob))
            continue
        if pos == "all-valid":
            evals += 1
            if ob.get("exit") != 0:
                out.violation("grammatical-config-rejected:" + sp["what"][0], "a configuration whose every name and expression matches the documented grammar is rejected: %s" % ((ob.get("errors") or [])[:3],), common.slim(sp, ob))
            continue
        if pos == "call-shape":
            evals += 1
            txt, want = car
            if want is not None and want != (ob.get("exit") == 0):
                out.violation("call-shape:%s" % txt, "the call %s is %s; a call is a list of 1 to 3 elements (method, arguments, wither flag)" % (txt, "accepted" if ob.get("exit") == 0 else "rejected: %s" % (ob.get("errors") or [])[:2]), common.slim(sp, ob))
            continue
        if pos == "scalar-values":
            evals += 1
            if ob.get("exit") != 0:
                out.violation("scalar-value-rejected", "a configuration whose values are plain YAML scalars is rejected: %s" % ((ob.get("errors") or [])[:3],), common.slim(sp, ob))
            continue
        if pos is None:
            errs = ob.get("errors") or []
            nontrivial.add(json.dumps(errs)[:300])
            # several simultaneous defects: every injected grammar defect has its own diagnostic in this one run (none masks another)
            norm = [re.sub(r'"[^"]*"', '"_"', e) for e in errs]
            labels = [w for w in sp.get("what") or [] if w.startswith("grammar:") and w != "grammar:must-no-getter"]
            # two injectors that edit attributes of a service may hit the same service and undo one another (a bad constructor removed by
            # "missing constructor"): such labels are decided only when they stand alone in their configuration
            SVC = {"grammar:" + x for x in ("getter", "ctor", "type", "value", "ctor+value", "missing-ctor", "args-noctor", "must-prefix", "incontext", "reserved", "nonprim-arg", "tag", "dup-tag", "field", "call")}
            if sum(1 for w in sp.get("what") or [] if w in SVC or w == "grammar:must-no-getter") >= 2:
                dist["multi_labels_skipped"] = dist.get("multi_labels_skipped", 0) + len([l_ for l_ in labels if l_ in SVC])
                labels = [l_ for l_ in labels if l_ not in SVC]
            if "pattern:param:np" in (sp.get("what") or []):
                labels = [l_ for l_ in labels if l_ != "grammar:nonprim-param"]      # (the pattern injector replaced that very parameter's value)
            for lab in labels:
                evals += 1
                rx = MULTI_DIAG.get(lab)
                dist["multi_labels_checked"] = dist.get("multi_labels_checked", 0) + 1
                if rx is None:
                    out.broke("harness: C11 multi family has a label without an expected diagnostic", lab)
                elif not any(re.search(rx, e) for e in norm):
                    out.violation("not-all-reported:" + lab, "the injected defect %s has no diagnostic of its own among %d reported (labels of this configuration: %s)" % (lab, len(errs), sp.get("what")),
                                  common.slim(sp, ob))
            if labels and not any(w.startswith("grammar:") and w not in labels and w != "grammar:must-no-getter" for w in sp.get("what") or []) and \
                    (ob.get("exit") == 0 or any(not e.startswith("compiler.StepValidateInput: ") for e in errs)):
                out.violation("multi-defect-verdict", "a configuration with grammar defects %s: exit %s, diagnostics from %s" % (labels, ob.get("exit"), sorted({e.split(":")[0] for e in errs})), common.slim(sp, ob))
            continue
        errs = ob.get("errors") or []
        errset = set(errs)
        for key, cand in car.items():
            evals += 1
            ok = lang_ok(pos, cand)
            want = [] if ok else expected_diag(pos, key, cand)
            missing = [w for w in want if w not in errset]
            k = "%s:%s" % (pos, "valid" if ok else "invalid")
            dist[k] = dist.get(k, 0) + 1
            if missing:
                out.violation("not-rejected:%s:%r" % (pos, cand), "position %s: %r is outside the documented language but no diagnostic names it" % (pos, cand),
                              dict(common.slim(sp), candidate=cand, expected=want, observed_errors_sample=errs[:5]))
            if ok:
                # no diagnostic may name this candidate's key
                if pos in ("getter", "constructor", "type", "value", "call", "field", "tag"):
                    pre = "compiler.StepValidateInput: services: \"%s\": " % key
                    bad = [e for e in errs if e.startswith(pre)]
                else:
                    # the diagnostic an INVALID candidate would get, and anything filed under the candidate's own key
                    bad = [e for e in errs if e in set(expected_diag(pos, key, cand))]
                    if pos in ("service-name", "todo-service-name"):
                        bad += [e for e in errs if e.startswith("compiler.StepValidateInput: services: %s: " % gq(cand))]
                    if pos == "param-name":
                        bad += [e for e in errs if e.startswith("compiler.StepValidateInput: parameters: %s: " % gq(cand))]
                    if pos in ("pkg", "ctype", "cctor") and ob.get("exit") != 0 and any(e.startswith("compiler.StepValidateInput") for e in errs):
                        bad += [e for e in errs if e.startswith("compiler.StepValidateInput")]
                if bad:
                    out.violation("spurious:%s:%r" % (pos, cand), "position %s: %r is in the documented language but is reported: %s" % (pos, cand, bad[:2]),
                                  dict(common.slim(sp), candidate=cand))
                dist["valid_checked"] = dist.get("valid_checked", 0) + 1
            else:
                nontrivial.add("%s|%s" % (pos, cand))
        if len(samples) < 6 and pos in ("value", "type", "import", "dec-tag", "getter", "constructor"):
            some = [(k, c) for k, c in list(car.items())[:400:57]]
            samples.append({"position": pos, "candidates": [c for _, c in some], "in_language": [lang_ok(pos, c) for _, c in some]})
    out.coverage.update({
        "evaluations": evals + len(multi), "distinct_nontrivial": len(nontrivial), "exhaustive": tier == "thorough",
        "rule": "every string up to length %d over %s in each of %d grammar positions (quick: all of length <= 2, a third of length 3) + mutated valid forms; random configurations with 1-3 simultaneous defects incl. wrong node kinds; non-trivial = a candidate outside the documented language / a distinct multi-defect diagnostics list" % (maxlen, ALPHA, len(LANG)),
        "distribution": dist, "samples": samples,
    })
    out.assumptions = ["the documented grammar is Regex/Langs.v (proved equal to independent recognisers) and, for the oracle, the Python regexes of this check"]
    return out.finish()
