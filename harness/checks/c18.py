"""C18 — version compatibility gate.
theorems: Props/C18.v (gate for all strings).  tie: hand-written model Model/Semver.v run against the real build command
(in-process cmd.NewBuildCmd(B, ...)) and real binaries linked with -X main.version=B on a grid of (B, V)."""
import json
import os
import subprocess
import tempfile
import shutil

from vlib import build, coqrun
from vlib.coqrun import lit, opt
from . import common

PFX = "compiler.StepValidateInput: "


def versions(tier):
    majors = [0, 1, 2, 3]
    minors = [0, 1, 2, 3] if tier == "thorough" else [0, 1, 3]
    out = []
    for M in majors:
        for m in minors:
            for suffix in (["", "-rc.1", "+b5", "-alpha.0+x.y"] if tier == "thorough" else ["", "-rc.1+b5"]):
                for p in ([0, 7] if tier == "thorough" else [4]):
                    out.append("%d.%d.%d%s" % (M, m, p, suffix))
    out += ["1.10.0", "1.9.0", "10.0.0", "0.10.1", "0.9.9"]
    # same major.minor with other patches, prerelease-only and build-only suffixes (patch numbers and suffixes never matter)
    out += ["0.1.9", "0.3.0+b5", "1.1.0", "1.1.11-rc.1", "2.3.11-rc.1", "3.0.7", "1.0.0-alpha", "2.1.1+exp.sha.5114f85",
            "1.1.0-dev", "1.1.0-preview.2", "1.0.3+rev42", "0.3.0+nov", "0.1.4-v", "2.0.0-v1", "3.1.0+v"]
    return out


def grid(tier):
    vs = versions(tier)
    builds = vs + ["devel", "dev-main", "", "v1.2.3", "v0.1.0", "1", "1.2", "01.2.3", "vv1.2.3"]
    cfg = [("str", v) for v in vs]
    malformed = [("str", x) for x in ["v1.2.3", "1.2", "1", "01.2.3", "1.2.3.4", "1.2.x", "", "latest", "1.2.3-", "1.2.3+", "1.2.3-01",
                                      " 1.2.3", "1.2.3 ", "1.02.3", "1.2.03", "V1.2.3", "1.2.3-a..b", "1.2.3+a..b", "1.2.3-\u00e9", "1.-2.3", "+1.2.3", "1.2.3\n", "1,2,3", "1.2.3-rc_1"]]
    malformed += [("raw", x) for x in ["1.2", "1", "true", "null", "[1,2,3]", "{a: 1}", "~", "1.2.3", "'1.2.3'", "!!str 1.2.3", "0x1.2.3", "[\"1.2.3\"]", "{v: \"1.2.3\"}", "1e2", ".5"]]
    cases = []
    for B in builds:
        for kind, V in cfg + malformed:
            cases.append((B, kind, V))
        cases.append((B, "absent", None))
    return cases


def yaml_of(kind, V):
    if kind == "absent":
        return "parameters: {p: 1}\n"
    if kind == "str":
        return "version: %s\nparameters: {p: 1}\n" % json.dumps(V)
    return "version: %s\nparameters: {p: 1}\n" % V


def run(tier, seed, replay):
    out, tooldir, env = common.setup("C18", tier, seed)
    common.proof_part(out, env, "C18")
    cases = grid(tier)
    if replay:
        r = json.load(open(replay))["replay"]
        cases = [(r["B"], r["kind"], r["V"])]
    specs = []
    for k, (B, kind, V) in enumerate(cases):
        specs.append({"id": str(k), "files": [{"path": "c.yaml", "content": yaml_of(kind, V)}], "patterns": ["c.yaml"],
                      "output": "out.go", "flags": {}, "version": B, "build_info": "x", "dump": False})
    obs = build.gx_run(tooldir, specs)
    # model + spec, evaluated inside Coq on what the YAML layer really decoded
    decoded = []   # (B, V or None) for cases that got through the parser
    idx = []
    for k, o in enumerate(obs):
        fi = (o.get("files") or {}).get("c.yaml", {})
        if "input" in fi:
            decoded.append((cases[k][0], fi["input"]["version"]))
            idx.append(k)
    body = "Definition cases : list (str * option str) := [\n" + ";\n".join(
        "(%s, %s)" % (lit(B), opt(V)) for B, V in decoded) + "].\n"
    body += ("Definition show (c : str * option str) : string :=\n"
             "  let '(B, V) := c in\n"
             "  (esc_opt (validate_version B V) ++ \"\\|\" ++\n"
             "   match gate B V with Skip => \"skip\" | Accept => \"accept\" | Reject => \"reject\" end ++ \"\\|\" ++\n"
             "   match V with Some v => if unmarshal_version_ok v then \"semver\" else \"notsemver\" | None => \"none\" end)%string.\n"
             "Eval vm_compute in map show cases.\n")
    rc, txt = coqrun.coq_eval(env, ["Base.Str", "Model.Semver", "Spec.Version", "Corr.Obs"], body, "c18")
    lines = coqrun.parse_strings(txt) if rc == 0 else []
    model_ok = rc == 0 and len(lines) == len(decoded)
    if not model_ok:
        out.broke("correspondence:C18 (model evaluation failed)", txt[-2000:])
    mism = 0
    nontrivial = set()
    dist = {"accepted": 0, "rejected_gate": 0, "parse_error": 0, "skipped_build": 0, "no_version": 0}
    samples = []
    for j, k in enumerate(idx):
        B, kind, V = cases[k]
        o = obs[k]
        real_errs = o.get("errors") or []
        real_exit = o.get("exit")
        rep = {"B": B, "kind": kind, "V": V, "real_exit": real_exit, "real_errors": real_errs}
        if o.get("panic") or o.get("crashed"):
            out.violation("panic", "build command panicked", rep)
            continue
        if not model_ok:
            continue
        m_err, g, sv = lines[j].split("\\|")
        m_err = None if m_err == "-" else coqrun.unesc(m_err[1:]).decode()
        # (1) correspondence: model verdict and message = real
        expect = [] if m_err is None else [PFX + m_err]
        if expect != real_errs or (real_exit == 0) != (m_err is None):
            mism += 1
            rep["model_errors"] = expect
            # (2) search: does the IMPLEMENTATION contradict the property (the spec gate)?
            spec_accepts = g in ("skip", "accept")
            if spec_accepts != (real_exit == 0):
                out.violation("gate:%s" % ("identical-versions-rejected" if (V is not None and B.lstrip("v") == V) else "B=%s,V=%s" % (B, V)),
                              "version gate: build %r, configuration version %r: implementation %s, documented rule says %s" % (
                                  B, V, "accepts" if real_exit == 0 else "rejects", g), rep)
            else:
                out.broke("correspondence:C18 validate_version", rep)
        else:
            spec_accepts = g in ("skip", "accept")
            if spec_accepts != (real_exit == 0):
                out.violation("gate:B=%s,V=%s" % (B, V), "implementation and model agree but contradict the spec gate", rep)
        if decoded[j][1] is not None and sv != "semver":
            out.violation("parse:%s" % V, "YAML layer accepted a version that is not semver-without-v", rep)
        if g == "accept":
            dist["accepted"] += 1
        elif g == "reject":
            dist["rejected_gate"] += 1
        elif decoded[j][1] is None:
            dist["no_version"] += 1
        else:
            dist["skipped_build"] += 1
        if g != "skip":
            nontrivial.add((B, V))
        if len(samples) < 6 and g != "skip" and j % 97 == 0:
            samples.append({"B": B, "V": V, "real_exit": real_exit, "real_errors": real_errs, "spec": g})
    # cases rejected by the YAML layer: the property says exactly the non-semver / non-string / v-prefixed ones
    for k, o in enumerate(obs):
        if k in set(idx):
            continue
        B, kind, V = cases[k]
        fi = (o.get("files") or {}).get("c.yaml", {})
        rep = {"B": B, "kind": kind, "V": V, "real_exit": o.get("exit"), "real_errors": o.get("errors")}
        if "yaml_err" in fi:
            dist["parse_error"] += 1
            nontrivial.add((B, kind, V))
            if o.get("exit") != 1:
                out.violation("parse-accepted:%s" % V, "unparsable version but exit 0", rep)
        else:
            out.broke("harness: case not decoded", rep)
    # which malformed versions must be parse errors: every "raw" non-string and every str that is not semver
    bad_expected = {("str", x) for x in ["v1.2.3", "1.2.3.4", "1.2.x", "", "latest", "1.2.3-", "1.2.3+", "1.2.3-01", "01.2.3",   # "1.2" and "1" are x/mod/semver shorthands (= 1.2.0, 1.0.0): not demanded either way
                                         " 1.2.3", "1.2.3 ", "1.02.3", "1.2.03", "V1.2.3", "1.2.3-a..b", "1.2.3+a..b", "1.2.3-\u00e9", "1.-2.3", "+1.2.3", "1.2.3\n", "1,2,3", "1.2.3-rc_1"]}
    bad_expected |= {("raw", x) for x in ["1.2", "1", "true", "[1,2,3]", "{a: 1}", "[\"1.2.3\"]", "{v: \"1.2.3\"}", "1e2", ".5"]}
    # ... and which must NOT be: every well-formed semantic version (with any suffix), however it is quoted
    good_expected = {("str", v) for v in versions(tier)} | {("raw", x) for x in ["1.2.3", "'1.2.3'", "!!str 1.2.3"]}
    for k, o in enumerate(obs):
        B, kind, V = cases[k]
        if (kind, V) in good_expected and "yaml_err" in (o.get("files") or {}).get("c.yaml", {}):
            out.violation("parse-rejected:%s" % V, "well-formed semantic version %r is a parse error" % (V,),
                          {"B": B, "kind": kind, "V": V, "real_exit": o.get("exit"), "yaml_err": o["files"]["c.yaml"]["yaml_err"]})
    for k, o in enumerate(obs):
        B, kind, V = cases[k]
        if (kind, V) in bad_expected and "yaml_err" not in (o.get("files") or {}).get("c.yaml", {}):
            out.violation("parse-accepted:%s" % V, "malformed version %r accepted by the YAML layer" % (V,),
                          {"B": B, "kind": kind, "V": V, "real_exit": o.get("exit")})
    # the gate does not depend on the other flags
    if not replay:
        fl_cases = [(B, V) for B in ["1.2.3", "v1.2.3", "0.4.1", "devel"] for V in ["1.2.0", "1.3.0", "0.4.9", "0.5.0", "2.0.0", "1.2.3-rc.1+b"]]
        FL = [{"quiet": True}, {"stub": True}, {"ignore_params": True, "ignore_services": True}, {"quiet": True, "stub": True, "ignore_params": True, "ignore_services": True}]
        fspecs = []
        for B, V in fl_cases:
            for fl in [{}] + FL:
                fspecs.append({"id": "f%d" % len(fspecs), "files": [{"path": "c.yaml", "content": yaml_of("str", V)}], "patterns": ["c.yaml"],
                               "output": "out.go", "flags": fl, "version": B, "build_info": "x", "dump": False})
        fobs = build.gx_run(tooldir, fspecs)
        common.real_sanity(out, fspecs, fobs, "C18")
        # (the ignore flags are really passed: a configuration with dangling references is accepted exactly under them)
        probe = [{"id": "fp%d" % i, "files": [{"path": "c.yaml", "content": "services: {s: {constructor: N, arguments: [\"@ghost\", \"%gone%\"]}}\n"}], "patterns": ["c.yaml"], "output": "out.go",
                  "flags": fl, "version": "1.2.3", "build_info": "x", "dump": False} for i, fl in enumerate([{}] + FL)]
        pobs = build.gx_run(tooldir, probe)
        if [o.get("exit") for o in pobs] != [1, 1, 1, 0, 0]:
            out.broke("harness: the flag sets of the C18 flag-independence family do not reach the tool", [o.get("exit") for o in pobs])
        for j in range(0, len(fspecs), 1 + len(FL)):
            base = fobs[j].get("exit")
            for t in range(1, 1 + len(FL)):
                if fobs[j + t].get("exit") != base:
                    B, V = fl_cases[j // (1 + len(FL))]
                    out.violation("gate:flags", "build %s, version %s: exit %s without flags, %s with %s" % (B, V, base, fobs[j + t].get("exit"), FL[t - 1]),
                                  dict(fspecs[j + t], observed={"exit": fobs[j + t].get("exit"), "errors": fobs[j + t].get("errors")}))
    n_bin = 0
    if not replay:
        n_bin = linked_binaries(out, tooldir, env, tier)
    out.coverage.update({
        "evaluations": len(cases) + n_bin, "distinct_nontrivial": len(nontrivial),
        "rule": "full grid builds x configured versions (majors 0..3 x minors x patches x {release, prerelease, +build}) + non-semver / v-prefixed builds + malformed V; non-trivial = the gate is not skipped (both versions present) or V is a parse error; distinct by (B,V)",
        "exhaustive": True, "distribution": dist, "model_mismatches": mism, "linked_binaries": n_bin,
        "samples": samples or [{"B": cases[0][0], "V": cases[0][2]}],
    })
    out.assumptions = ["x/mod/semver is modelled (Model/Semver.v) and validated on this grid", "yaml.v3 decoding is real (the model receives what it decoded)"]
    return out.finish()


def linked_binaries(out, tooldir, env, tier):
    """main.go's buildVersion (ldflags -X main.version=...) through real binaries."""
    pairs = [("v1.2.3", "1.2.3", 0), ("v1.2.3", "1.3.0", 1), ("1.2.3", "1.2.0", 0), ("v0.4.1", "0.4.9", 0),
             ("v0.4.1", "0.5.0", 1), ("dev-main", "9.9.9", 0), ("vv1.2.3", "9.9.9", 0), ("v2.0.0", "1.0.0", 1),
             ("v1.2.3+build.7", "1.3.0", 1), ("v1.2.3+build.7", "1.2.9", 0), ("v1.2.3-rc.1+b.5", "2.0.0", 1), ("v0.4.1+dirty", "0.5.0", 1), ("1.2.3+build.7", "1.3.0", 1), ("v1.2.3-rc.1", "1.3.0", 1)]
    if tier == "quick":
        pairs = [pairs[i] for i in (0, 1, 4, 5, 6, 8, 9, 11)]      # one of each class: v-prefixed accept / reject, major 0 reject, non-semver build, vv-prefixed
    n = 0
    tmp = tempfile.mkdtemp(prefix="gvc18_", dir="/dev/shm")
    try:
        for linked in sorted(set(p[0] for p in pairs)):
            binp = os.path.join(tmp, "g_" + linked.replace(".", "_"))
            build.run(["go", "build", "-ldflags", "-X main.version=" + linked, "-o", binp, "."], cwd=build.REPO, timeout=600)
            for L, V, want in pairs:
                if L != linked:
                    continue
                cfg = os.path.join(tmp, "c.yaml")
                open(cfg, "w").write("version: \"%s\"\nparameters: {p: 1}\n" % V)
                p = subprocess.run([binp, "build", "-i", cfg, "-o", os.path.join(tmp, "o.go")], stdout=subprocess.PIPE,
                                   stderr=subprocess.PIPE, text=True, timeout=60)
                n += 1
                if p.returncode != want:
                    out.violation("gate:linked", "binary linked with version %s, configuration %s: exit %d, documented rule says %d" % (
                        L, V, p.returncode, want), {"linked": L, "V": V, "stdout": p.stdout[-1500:]})
            # no version declared: the gate is skipped, whatever the build is
            open(cfg, "w").write("parameters: {p: 1}\n")
            p = subprocess.run([binp, "build", "-i", cfg, "-o", os.path.join(tmp, "o.go")], stdout=subprocess.PIPE, stderr=subprocess.PIPE, text=True, timeout=60)
            n += 1
            if p.returncode != 0:
                out.violation("gate:linked-no-version", "binary linked with version %s rejects a configuration that declares no version" % linked, {"linked": linked, "V": None, "stdout": p.stdout[-1500:]})
            # several files declaring a version: the last declaration is the configured one
            if linked in ("v1.2.3", "1.2.3"):
                for V1, V2, want in [("1.2.0", "1.3.0", 1), ("1.3.0", "1.2.0", 0), ("2.0.0", "1.2.9", 0), ("1.1.0", "2.0.0", 1),
                                     ("1.3.0", None, 1), ("1.2.0", None, 0), (None, "1.3.0", 1), (None, "1.1.0", 0), (None, None, 0)]:
                    d2 = os.path.join(tmp, "two")
                    shutil.rmtree(d2, ignore_errors=True)
                    os.makedirs(d2)
                    open(os.path.join(d2, "10.yaml"), "w").write(("version: \"%s\"\n" % V1 if V1 else "") + "parameters: {p: 1}\n")
                    open(os.path.join(d2, "20.yaml"), "w").write(("version: \"%s\"\n" % V2 if V2 else "") + "parameters: {q: 2}\n")
                    p = subprocess.run([binp, "build", "-i", os.path.join(d2, "*.yaml"), "-o", os.path.join(tmp, "o.go")], stdout=subprocess.PIPE, stderr=subprocess.PIPE, text=True, timeout=60)
                    n += 1
                    if p.returncode != want:
                        out.violation("gate:linked-two-files", "binary %s, files declaring %s then %s: exit %d, the last declared version decides (%d)" % (linked, V1, V2, p.returncode, want),
                                      {"linked": linked, "V": [V1, V2], "stdout": p.stdout[-1500:]})
            os.remove(binp)
    finally:
        shutil.rmtree(tmp, ignore_errors=True)
    return n
