"""C06 — dangling parameter/service references are detected, exactly.
theorems: Props/C06.v; tie: model vs real on position-enumerated reference cases; oracle: the set of dangling references
computed from the configuration text by vlib/spec.py, compared with the (referrer, kind, name) triples of the real diagnostics."""
import itertools
import json
import random
import re

from vlib import build, cfggen, spec
from . import common

PP = re.compile(r'^output\.ValidateParamsExist: (.*): param "([^"]*)" does not exist$')
PS = re.compile(r'^output\.ValidateServicesExist: (.*): service "([^"]*)" does not exist$')

PARAM_SHAPES = ["%{n}%", "pre %{n}% post", "%{n}%%{n}%", "%%%{n}%", "%{n}%%%", "a%%b%{n}%c", "%p_ok%-%{n}%", "%env(\"HOME\")%/%{n}%",
                "%{n}%://%host%:%p_ok%", "%host%/%{n}%/%p_ok%", "%{n}%%host%%{n}%%p_ok%", "%zz_{n}%-%{n}%-%aa_{n}%",
                "%host%%host%%{n}%", "%host%, %host%! %p_ok% %{n}%", "%p_ok%%p_ok%%p_ok%%{n}%%host%"]
POSITIONS = ["param", "sarg", "carg", "field", "darg", "warg", "stararg", "deadarg", "sarg0", "carg0", "darg0"]


def base_cfg():
    return {
        "parameters": {"p_ok": 1, "p_todo": "%todo()%", "host": "x", "p_empty": "", "p_null": None, "p_zero": 0, "p_false": False},
        "services": {
            "dep": {"value": "Value"},
            "dep_todo": {"todo": True},
            "host_svc": {"value": "Value"},
            "tgt": {"constructor": "NewA", "arguments": ["@dep"], "tags": ["tg"]},
        },
        "decorators": [{"tag": "tg", "decorator": "Decorate", "arguments": ["%p_ok%"]}],
    }


def put(cfg, pos, val):
    if pos == "param":
        cfg["parameters"]["subject"] = val
    elif pos == "sarg":
        cfg["services"]["tgt"]["arguments"].append(val)
    elif pos == "carg":
        cfg["services"]["tgt"].setdefault("calls", []).append(["SetX", [1, val]])
    elif pos == "field":
        cfg["services"]["tgt"].setdefault("fields", {})["Dep"] = val
    elif pos == "darg":
        cfg["decorators"][0]["arguments"].append(val)
    elif pos == "sarg0":     # first of several constructor arguments
        cfg["services"]["tgt"]["arguments"] = [val] + cfg["services"]["tgt"]["arguments"] + ["%p_ok%"]
    elif pos == "carg0":     # first argument of a call with more arguments behind it
        cfg["services"]["tgt"].setdefault("calls", []).append(["SetX", [val, "@dep", "%p_ok%"]])
    elif pos == "darg0":     # first argument of a decorator with more arguments behind it
        cfg["decorators"][0]["arguments"] = [val] + cfg["decorators"][0]["arguments"] + ["@dep"]
    elif pos == "warg":      # argument of a wither call (third element true)
        cfg["services"]["tgt"].setdefault("calls", []).append(["WithX", [val], True])
    elif pos == "stararg":   # decorator on the tag "*" (which no service can carry)
        cfg["decorators"].append({"tag": "*", "decorator": "Wrap", "arguments": [val]})
    elif pos == "deadarg":   # decorator on a tag nobody carries: its references are checked all the same
        cfg["decorators"].append({"tag": "nobody", "decorator": "Wrap", "arguments": [1, val]})


def families(tier, seed):
    out = []
    names = ["p_ok", "p_todo", "missing1", "host_svc", "dep", "p.ok", "p_ok2", "P_OK", "p_o", "p_ok_z", "p_empty", "p_null", "p_zero", "p_false", "Host"]
    for pos, shape, n in itertools.product(POSITIONS, PARAM_SHAPES, names):
        cfg = base_cfg()
        put(cfg, pos, shape.replace("{n}", n))
        out.append(("param-ref:%s" % pos, cfg))
    for pos in POSITIONS[1:]:
        for n in ["dep", "dep_todo", "ghost", "host", "p_ok", "tgt2", "de-p", "Dep", "DEP", "de", "dep_z", "dep_tod", "tgt"]:
            cfg = base_cfg()
            put(cfg, pos, "@" + n)
            out.append(("service-ref:%s" % pos, cfg))
    # strings that only look like references: "@x" as a parameter VALUE is a plain string; a todo service's own attributes are exempt
    for val in ["@ghost", "@dep", "!tagged nobody", "!value Ghost", "@", "@@ghost"]:
        cfg = base_cfg()
        cfg["parameters"]["subject"] = val
        cfg["services"]["tgt"]["arguments"].append("%subject%")
        out.append(("lookalike:param-value", cfg))
    for args in (["@ghost"], ["%missing1%"], ["@dep", "%p_ok%"]):
        cfg = base_cfg()
        cfg["services"]["dep_todo"] = {"todo": True, "constructor": "NewA", "arguments": args, "fields": {"F": args[0]}, "calls": [["C", list(args)]]}
        cfg["services"]["tgt"]["arguments"].append("@dep_todo")
        out.append(("todo-carrier", cfg))
    # combinations: several dangling references at once, renamed declarations
    r = random.Random("%s/c06" % seed)
    for k in range(80 if tier == "quick" else 1500):
        cfg = base_cfg()
        for _ in range(r.randint(1, 4)):
            pos = r.choice(POSITIONS)
            if pos != "param" and r.random() < 0.5:
                put(cfg, pos, "@" + r.choice(["dep", "ghost", "dep_todo", "host", "nope", "tgt"]))
            else:
                put(cfg, pos, r.choice(PARAM_SHAPES).replace("{n}", r.choice(names)))
        if r.random() < 0.3:
            cfg["parameters"].pop(r.choice(["p_ok", "host"]), None)
        if r.random() < 0.3:
            cfg["services"].pop("dep", None)
        out.append(("combined", cfg))
    for sp in common.random_specs(seed, 60 if tier == "quick" else 800, "c06r", inj_rate=0.9, injectors=["missing-param", "missing-service"], nfiles_choices=(1,)):
        out.append(("random", sp["cfg"]))
    return out


dangling = spec.dangling


def run(tier, seed, replay):
    out, tooldir, env = common.setup("C06", tier, seed)
    common.proof_part(out, env, "C06")
    fams = families(tier, seed)
    specs = []
    for k, (fam, cfg) in enumerate(fams):
        sp = common.mk_spec(k, [cfg])
        sp["what"] = [fam]
        sp["cfg"] = cfg
        specs.append(sp)
    if replay:
        rp = json.load(open(replay))["replay"]
        specs = [dict(rp, id="0", dump=True, build_info="bi")]
    obs = build.gx_run(tooldir, specs)
    common.real_sanity(out, specs, obs, "C06")
    common.correspondence(out, env, specs, obs, "C06 existence diagnostics", verdict_claim="without the ignore flags a configuration is accepted only if every reference names something declared, and nothing declared is reported missing")
    dist = {}
    nontrivial = set()
    samples = []
    for sp, ob in zip(specs, obs):
        cfg = sp.get("cfg")
        if cfg is None:
            continue
        fam = sp["what"][0]
        errs = ob.get("errors") or []
        stage_ok = all(e.startswith("output.") for e in errs)   # reached output validation
        if errs and not stage_ok:
            dist["earlier-stage"] = dist.get("earlier-stage", 0) + 1
            continue
        want = sorted(dangling(cfg))
        got = []
        for e in errs:
            m = PP.match(e)
            if m:
                got.append((m.group(1), "param", m.group(2)))
            m = PS.match(e)
            if m:
                got.append((m.group(1), "service", m.group(2)))
        got = sorted(got)
        rep = dict(common.slim(sp, ob), cfg_text=cfggen.to_yaml(cfg), expected=want, reported=got)
        key = "%s:%s" % (fam.split(":")[0], "dangling" if want else "clean")
        dist[key] = dist.get(key, 0) + 1
        if got != want:
            miss = [x for x in want if x not in got]
            extra = [x for x in got if x not in want]
            if miss:
                out.violation("dangling-not-reported:%s" % fam, "dangling reference(s) not reported: %s" % miss, rep)
            else:
                out.violation("declared-reported-missing:%s" % fam, "reported as missing although declared (or reported twice): %s" % extra, rep)
        if not want and not [e for e in errs if not (PP.match(e) or PS.match(e))] and ob.get("exit") != 0:
            out.violation("clean-rejected:%s" % fam, "no dangling reference and no other diagnostic, yet rejected", rep)
        if want:
            nontrivial.add(json.dumps(want))
            if len(samples) < 4 and len(nontrivial) % 60 == 1:
                samples.append({"family": fam, "config": cfggen.to_yaml(cfg), "dangling": want})
    # ---- run-time corollary: an accepted container never fails with 'does not exist' for a reference written in the configuration
    from . import rtcommon
    rs, hs, gs = rtcommon.gen_cases(seed, "c06rt", 20 if tier == "quick" else 300, weights={"todo": 0.15, "decorators": 0.9, "tags": 0.9, "min_tags": 1}, hist_len=0)
    for k, sp in enumerate(rs):
        hs[k] = [{"op": "get", "name": n} for n in sp["cfg"]["services"]] + [{"op": "param", "name": p} for p in sp["cfg"]["parameters"]] + [{"op": "circular", "name": ""}]
    robs, rl, ml, racc = rtcommon.run_histories(out, tooldir, env, rs, hs, "C06 run-time corollary", "C06")
    rstat = {"programs": len(racc), "operations": 0}
    for k in racc:
        for o, line in zip(hs[k], rl[k]):
            rstat["operations"] += 1
            # (the library's wording for an unknown service / parameter; an unset ENVIRONMENT VARIABLE "does not exist" too and is not a reference)
            if re.search(r"(service|param(eter)?)( \\x22[^\\]*\\x22)? does not exist", line):
                out.violation("runtime-does-not-exist", "an accepted container fails at run time with 'does not exist': %s %s -> %s" % (o["op"], o["name"], line[:200]), dict(common.slim(rs[k], robs[k]), history=hs[k], results=rl[k]))
            if o["op"] == "circular" and line != "N":
                out.violation("runtime-circular", "an accepted container reports circular dependencies: %s" % line[:200], dict(common.slim(rs[k], robs[k]), history=hs[k]))
    dist["runtime"] = rstat
    out.coverage.update({
        "evaluations": len(specs) + sum(len(h) for h in hs), "distinct_nontrivial": len(nontrivial), "programs": len(racc),
        "rule": "every reference position (parameter pattern; constructor argument; call argument; field; decorator argument) x pattern shapes (single, embedded, repeated, after %%, before %%, next to a function call) x names (declared, todo-declared, undeclared, declared only in the other namespace, look-alikes); @service references in every position; random combinations with declarations removed; non-trivial = at least one dangling reference; distinct by the dangling set",
        "distribution": dist, "samples": samples or [{"note": "none"}],
    })
    out.assumptions = ["the run-time corollary ('does not exist' never surfaces for an accepted container) is exercised by the probe check"]
    return out.finish()
