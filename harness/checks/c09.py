"""C09 — multi-file merge semantics and split invariance.
theorems: Props/C09.v (merge algebra, fold characterisation); tie: model vs real (merged input, compiled output, report);
oracle: bytes(multi-file run) == bytes(single-file run of the reference merge computed by the documented rules in Python)."""
import copy
import json
import os
import random

from vlib import build, cfggen
from . import common

SCALARS = ("getter", "must_getter", "type", "value", "constructor", "scope", "todo")


def ref_merge(files):
    """the documented rules: later scalars override, maps are united key-wise (later wins), non-empty arguments replace,
    calls / tags / decorators are appended in file order"""
    out = {}
    for f in files:
        f = f or {}
        if "version" in f and f["version"] is not None:
            out["version"] = f["version"]
        m = f.get("meta") or {}
        for k, v in m.items():
            if v is None:
                continue
            if isinstance(v, dict):
                out.setdefault("meta", {}).setdefault(k, {}).update(v)
            else:
                out.setdefault("meta", {})[k] = v
        for k, v in (f.get("parameters") or {}).items():
            out.setdefault("parameters", {})[k] = v
        for name, sv in (f.get("services") or {}).items():
            sv = sv or {}
            cur = out.setdefault("services", {}).setdefault(name, {})
            for a in SCALARS:
                if a in sv and sv[a] is not None:
                    cur[a] = sv[a]
            if sv.get("arguments"):
                cur["arguments"] = list(sv["arguments"])
            for a in ("calls", "tags"):
                if sv.get(a):
                    cur[a] = cur.get(a, []) + list(sv[a])
            if sv.get("fields"):
                cur.setdefault("fields", {}).update(sv["fields"])
        if f.get("decorators"):
            out["decorators"] = out.get("decorators", []) + list(f["decorators"])
    return out


def overriding_pairs(r):
    """two or three files touching the same keys, including explicit empty overrides"""
    a = {"meta": {"pkg": "one", "container_type": "A", "imports": {"al": "example.com/lib", "x": "example.com/other"}, "functions": {"fn": "os.Getenv"}},
         "parameters": {"p": 1, "q": "%p%"},
         "services": {"s": {"constructor": "NewA", "arguments": [1, "@t"], "calls": [["SetX", [1]]], "tags": ["a"], "fields": {"F": 1, "G": 2},
                            "getter": "GetS", "type": "*T", "scope": "shared"},
                      "t": {"value": "Value"}, "viaalias": {"constructor": "al.NewA", "arguments": ["!value x.Value"], "type": "*al.T", "getter": "GetVia"}},
         "decorators": [{"tag": "a", "decorator": "Decorate"}]}
    a["parameters"]["viafn"] = "%fn(\"HOME\")%"
    b_variants = [
        {"services": {"s": {"arguments": []}}},
        {"services": {"s": {"arguments": [2]}}},
        {"services": {"s": {"calls": []}}},
        {"services": {"s": {"tags": []}}},
        {"services": {"s": {"fields": {}}}},
        {"services": {"s": {"fields": {"F": 9, "H": 3}}}},
        {"services": {"s": {"calls": [["Init"]], "tags": [{"name": "b", "priority": 2}]}}},
        {"services": {"s": {"getter": "GetOther", "must_getter": True}}},
        {"services": {"s": {"type": "T", "scope": "contextual"}}},
        {"services": {"s": {"constructor": "NewB"}}},
        {"services": {"s": {"todo": True}}},
        {"services": {"s": {"todo": False}}},
        {"services": {"t": {"value": "&Value", "tags": ["a"]}}},
        {"services": {"s": None}},
        {"services": {}},
        {"meta": {"pkg": "two"}},
        {"meta": {"imports": {"al": "example.com/other", "z": "example.com/lib/sub"}}},
        {"meta": {"imports": {}}},
        {"meta": {"functions": {"fn": "strings.ToUpper", "g": "os.Getenv"}}},
        {"meta": {"default_must_getter": True}},
        {"parameters": {"p": 2, "r": "x"}},
        {"parameters": {}},
        {"decorators": [{"tag": "a", "decorator": "Wrap", "arguments": [1]}]},
        {"decorators": []},
        {"version": "1.2.0"},
        {"meta": {"functions": {"fn": "strings.ToUpper"}}},
        {"meta": {"imports": {"x": "example.com/lib/sub"}}},
        {},
    ]
    out = []
    for b in b_variants:
        out.append([a, b])
        out.append([b, a])
        out.append([a, b, {"services": {"s": {"tags": ["c"], "calls": [["WithY", [], True]]}}}])
    for b in [{"meta": {"container_type": "B"}}, {"meta": {"container_constructor": "NewB"}}, {"meta": {"container_type": "B", "container_constructor": "NewB"}},
              {"services": {"s": {"tags": ["a"]}}}, {"services": {"s": {"tags": [{"name": "a", "priority": 5}]}}}, {"services": {"s": {"calls": [["SetX", [1]]]}}},
              {"decorators": [{"tag": "a", "decorator": "Decorate"}]},
              {"parameters": {"p": 0}}, {"parameters": {"p": ""}}, {"parameters": {"p": False}}, {"parameters": {"p": None}}, {"parameters": {"p": 0.0}},
              {"services": {"s": {"getter": ""}}}, {"services": {"s": {"type": ""}}}, {"services": {"s": {"scope": None}}}, {"services": {"s": {"fields": {"F": None, "G": 0}}}},
              {"meta": {"pkg": ""}}, {"meta": {"imports": {"al": ""}}}, {"version": None}]:
        out.append([a, b])
        out.append([b, a])
        out.append([a, {}, b, {"parameters": {"last": 1}}])
    # chains of argument lists: the last NON-EMPTY list is the service's argument list
    for chain in ([[2], [], [3, 4]], [[], [2], []], [[2], [3], [4]], [[], [], []], [[2, "@t"], [], []]):
        out.append([a] + [{"services": {"s": {"arguments": c}}} for c in chain])
        out.append([{"services": {"s": {"arguments": chain[0]}}}, a] + [{"services": {"s": {"arguments": c}}} for c in chain[1:]])
    # booleans spelled out on both sides (an explicit false is a value, not an absence), and attributes set only in the FIRST of
    # several files (they must survive later files that do not mention them)
    import copy
    a2 = copy.deepcopy(a)
    a2["services"]["s"].update({"todo": False, "must_getter": True})
    a2["meta"]["default_must_getter"] = True
    a2["services"]["t"] = {"value": "Value", "getter": "GetT"}
    a3 = copy.deepcopy(a2)
    a3["services"]["s"]["todo"] = True
    a3["services"]["s"]["must_getter"] = False
    a3["meta"]["default_must_getter"] = False
    # the version gate uses the LAST declared version (the build is 1.2.3: 1.2.x passes, 1.3.x does not)
    for v1, v2 in [("1.2.0", "1.3.0"), ("1.3.0", "1.2.0"), ("1.1.0", "1.2.9"), ("2.0.0", "1.2.1")]:
        out.append([dict(a2, version=v1), {"version": v2}])
        out.append([{"version": v1}, dict(a2, version=v2)])
        out.append([{"version": v1}, a2, {"version": v2}])
    for b in [{"services": {"s": {"todo": True}}}, {"services": {"s": {"todo": False}}}, {"services": {"s": {"must_getter": False}}}, {"services": {"s": {"must_getter": True}}},
              {"meta": {"default_must_getter": False}}, {"meta": {"default_must_getter": True}}, {"meta": {"pkg": "three"}}, {"meta": {}}, {"parameters": {"zz": 1}}, {}]:
        for base in (a2, a3):
            out.append([base, b])
            out.append([b, base])
            out.append([base, b, {"parameters": {"last": 1}}])
            out.append([base, {"services": {"u": {"value": "Value"}}}, b, {}])
    return out


def run(tier, seed, replay):
    out, tooldir, env = common.setup("C09", tier, seed)
    common.proof_part(out, env, "C09")
    r = random.Random("%s/c09" % seed)
    groups = []   # (kind, ordered list of (path, cfg), patterns)
    for files in overriding_pairs(r):
        groups.append(("override", [("cfg/f%d.yaml" % i, f) for i, f in enumerate(files)], ["cfg/*.yaml"]))
    # overriding payloads under file names whose lexical order differs from numeric / case-insensitive order: the file that comes
    # LAST in byte order of the cleaned paths wins, pattern order comes first
    for names in (["cfg/9.yaml", "cfg/10.yaml", "cfg/1.yaml"], ["cfg/a.yaml", "cfg/B.yaml", "cfg/_.yaml"], ["cfg/x/a.yaml", "cfg/x.d/a.yaml", "cfg/x-y/a.yaml"],
                  ["cfg/a.yaml", "cfg/a.b.yaml", "cfg/a-b.yaml", "cfg/a b.yaml"], ["cfg/\u00e9.yaml", "cfg/z.yaml", "cfg/Z.yaml"]):
        order = sorted(names, key=lambda q: q.encode())
        payload = lambda i: {"meta": {"pkg": "p%d" % i, "imports": {"al": "example.com/v%d" % i}}, "parameters": {"p": i, "only%d" % i: i},
                             "services": {"s": {"constructor": "New%d" % i, "arguments": [i], "calls": [["C%d" % i]], "tags": ["t%d" % i], "fields": {"F": i, "G%d" % i: i}}},
                             "decorators": [{"tag": "t%d" % i, "decorator": "D%d" % i}]}
        depth = len(names[0].split("/"))
        pat = "cfg/*.yaml" if depth == 2 else "cfg/*/a.yaml"
        groups.append(("override-lexical", [(nm, payload(names.index(nm))) for nm in order], [pat]))
        # the same files named by one pattern each, in the reverse of their lexical order: pattern order decides
        groups.append(("override-pattern-order", [(nm, payload(names.index(nm))) for nm in order[::-1]], [nm.replace("[", "\\[") for nm in order[::-1]]))
    n = 80 if tier == "quick" else 1500
    for k in range(n):
        rr = random.Random("%s/c09/%d" % (seed, k))
        cfg = cfggen.Gen(rr).config()
        nf = rr.randint(2, 5)
        parts = cfggen.split_files(rr, cfg, nf)
        # make the ORDER of the files matter (an attribute-level split alone is almost order-independent): the file before each file
        # holds another value for whatever that file defines - it is overridden if and only if the files are merged in the documented order
        for j in range(len(parts) - 1, 0, -1):
            later, earlier = parts[j] or {}, parts[j - 1]
            pk = list((later.get("parameters") or {}))
            earlier.setdefault("parameters", {})
            for key in pk or ["zz_order"]:
                if key not in earlier["parameters"]:
                    earlier["parameters"][key] = "decoy-from-file-%d" % (j - 1)
            if not pk:
                later.setdefault("parameters", {})["zz_order"] = "file-%d" % j
        if rr.random() < 0.3:
            parts.insert(rr.randrange(len(parts) + 1), {})           # the empty file is the identity
        # file names / patterns chosen so that glob order, pattern order and lexical order of cleaned paths all differ
        style = rr.choice(["one-glob", "dirs", "multi-pattern", "unclean", "commas", "dotfiles"])
        if style == "one-glob":
            names = ["cfg/%02d.yaml" % i for i in range(len(parts))]
            pats = ["cfg/*.yaml"]
        elif style == "dotfiles":
            # Go's Glob lets `*` match a leading dot, and "." sorts before digits and letters
            names = ["cfg/.%02d.yaml" % i if i % 2 == 0 else "cfg/%02d.yaml" % i for i in range(len(parts))]
            order_ = sorted(range(len(parts)), key=lambda i: names[i].encode())
            names = [names[i] for i in order_]
            names = sorted(names, key=lambda q: q.encode())
            pats = ["cfg/*.yaml"]
        elif style == "commas":
            # a pattern is one pattern, whatever punctuation it contains (commas, spaces, equal signs)
            cut = rr.randint(1, len(parts) - 1)
            names = ["env,prod/%02d.yaml" % i for i in range(cut)] + ["k=v, w/%d,%d.yaml" % (i, i) for i in range(len(parts) - cut)]
            pats = ["env,prod/*.yaml"] + ["k=v, w/%d,%d.yaml" % (i, i) for i in range(len(parts) - cut)]
        elif style == "dirs":
            dirs = ["a.d", "a", "a-b", "a0", "B", "_z"]
            order = sorted(dirs[:len(parts)] if len(parts) <= len(dirs) else dirs, key=lambda d: ("cfg/%s/x.yaml" % d).encode())
            names = ["cfg/%s/x.yaml" % d for d in order][:len(parts)]
            parts = parts[:len(names)]
            pats = ["cfg/*/x.yaml"]
        elif style == "multi-pattern":
            cut = rr.randint(1, len(parts) - 1)
            names = ["z_first/%02d.yaml" % i for i in range(cut)] + ["a_second/%02d.yaml" % i for i in range(len(parts) - cut)]
            pats = ["z_first/*.yaml", "a_second/*.yaml"]
        else:
            names = ["cfg/%02d.yaml" % i for i in range(len(parts))]
            pats = ["./cfg/../cfg//*.yaml"]
        groups.append(("split:" + style, list(zip(names, parts)), pats))
    if replay:
        rp = json.load(open(replay))["replay"]
        groups = [("replay", [(f["path"], None) for f in rp["files"]], rp["patterns"])]
    specs = []
    for g, (kind, files, pats) in enumerate(groups):
        if kind == "replay":
            multi = dict(rp, id="m0", dump=True, build_info="bi", keep_out=True)
            specs.append(multi)
            continue
        multi = common.mk_spec("m%d" % g, [{"path": p, "content": cfggen.to_yaml(c)} for p, c in files], patterns=pats, keep_out=True)
        multi["what"] = [kind]
        single = common.mk_spec("s%d" % g, [{"path": "one/merged.yaml", "content": cfggen.to_yaml(ref_merge([c for _, c in files]))}], patterns=["one/merged.yaml"], keep_out=True)
        single["what"] = [kind + "/reference"]
        specs += [multi, single]
    obs = build.gx_run(tooldir, specs)
    common.real_sanity(out, specs, obs, "C09")
    common.correspondence(out, env, specs, obs, "C09 merge / compile")
    dist = {}
    nontrivial = set()
    samples = []
    for g in range(0, len(specs) - 1, 2):
        m, s_ = specs[g], specs[g + 1]
        om, os_ = obs[g], obs[g + 1]
        kind = m["what"][0]
        dist[kind] = dist.get(kind, 0) + 1
        rep = dict(common.slim(m, om), reference_single_file=s_["files"][0]["content"], reference_exit=os_.get("exit"), reference_errors=os_.get("errors"))
        if om.get("exit") != os_.get("exit"):
            out.violation("split-verdict:" + kind, "the multi-file form and the single-file form of the same configuration get different verdicts", rep)
            continue
        if om.get("exit") == 0:
            if om.get("out_content") != os_.get("out_content"):
                out.violation("split-bytes:" + kind, "the multi-file form and the single-file form generate different bytes", rep)
            nontrivial.add(om["out_after"].get("hash"))
            if len(samples) < 3 and len(nontrivial) % 25 == 1:
                samples.append({"kind": kind, "patterns": m["patterns"], "files": m["files"][:4]})
        else:
            em = [e for e in (om.get("errors") or [])]
            es = [e for e in (os_.get("errors") or [])]
            if em != es:
                out.violation("split-diagnostics:" + kind, "the multi-file and the single-file form report different diagnostics", rep)
    out.coverage.update({
        "evaluations": len(specs), "distinct_nontrivial": len(nontrivial),
        "rule": "overriding pairs/triples on every attribute (both orders, explicit empty lists/maps, null service, empty file) + random configurations split into 2..5 files at attribute level, spread over one glob, sibling directories (glob order != byte order of cleaned paths), several patterns (pattern order != lexical order) and unclean patterns; each compared byte for byte with the single-file run of the reference merge; non-trivial = accepted pair; distinct by output hash",
        "distribution": dist, "samples": samples or [{"note": "none"}],
    })
    out.assumptions = ["the reference merge of vlib/checks/c09.ref_merge is the documented rule set of the property statement"]
    return out.finish()
