"""Shared driver of the run-time checks (C02, C04, C05 histories, C13 getters, C15, C03/C06 run-time halves)."""
import json
import random

from vlib import build, cfggen, rt, rtgen
from . import common

SKIP = ("getter", "getterctx", "circular", "invocations")


def gen_cases(seed, salt, n, weights=None, hist_len=8, kinds=None, flags=None, tweak=None):
    specs, hists, gens = [], [], []
    for k in range(n):
        r = random.Random("%s/%s/%d" % (seed, salt, k))
        g = rtgen.RtGen(r, weights=weights)
        cfg = g.config()
        if tweak:
            tweak(r, g, cfg)
        sp = common.mk_spec(k, [cfg], flags=dict(flags or {}), keep_out=True)
        sp["cfg"] = cfg
        sp["what"] = [salt]
        specs.append(sp)
        hists.append(g.history(cfg, hist_len, kinds))
        gens.append(g)
    return specs, hists, gens


def run_histories(out, tooldir, env, specs, hists, name, pid, compare=True):
    """returns (obs, real lines per case, model lines per case, accepted indices)"""
    obs = build.gx_run(tooldir, specs)
    common.real_sanity(out, specs, obs, pid)
    common.correspondence(out, env, specs, obs, name + " (build)")
    real, notes = rt.real_histories(tooldir, specs, obs, hists)
    for k, note in notes.items():
        if note.startswith("build failed"):
            out.violation("does-not-compile", "an accepted configuration over the fixture universe does not compile: %s" % note[:300], dict(common.slim(specs[k], obs[k]), note=note))
        else:
            # an accepted configuration that the probe cannot be attached to (package / constructor not recognised): not shown to hold
            out.broke("probe:%s (%s)" % (name, note), common.slim(specs[k], obs[k]))
    mod, err = rt.model_histories(env, specs, obs, hists)
    if mod is None:
        out.broke("correspondence:%s (runtime model evaluation failed)" % name, err)
    acc = [k for k in range(len(specs)) if real[k] is not None]
    n_acc_build = sum(1 for o in obs if o.get("exit") == 0)
    if specs and (not acc or len(acc) < n_acc_build):
        out.broke("probe:%s" % name, "%d configurations accepted by the build, %d executed by the probe" % (n_acc_build, len(acc)))
    if len(specs) >= 10 and len(acc) * 2 < len(specs):
        out.broke("probe:%s (generator)" % name, "only %d of %d generated configurations are accepted: the family does not exercise what it claims" % (len(acc), len(specs)))
    rl, ml = {}, {}
    for k in acc:
        rl[k] = rt.renumber([rt.canon(x) for x in real[k]["lines"]])
        obs[k]["rt_raw"] = real[k]["lines"]          # the probe's structured descriptions (for oracles that do not want to parse text)
        if real[k]["rc"] != 0:
            out.violation("probe-crash", "the generated container crashed the probe: %s" % real[k]["stderr"][-400:], dict(common.slim(specs[k], obs[k]), history=hists[k], stderr=real[k]["stderr"]))
        if mod is not None:
            ops = [o for o in hists[k] if o["op"] not in SKIP]
            ml[k] = rt.renumber(mod[k])
            if compare:
                rsel = rt.renumber([rt.canon(x) for o, x in zip(hists[k], real[k]["lines"]) if o["op"] not in SKIP])
                for j, (o, a, b) in enumerate(zip(ops, rsel, ml[k])):
                    if a != b and not rt.err_matches(b, a):
                        out.violation("runtime:%s:%s" % (name.split()[0], o["op"]),
                                      "operation %d (%s %s): the generated container returns %s, the specified semantics (Runtime/RT.v) gives %s" % (j, o["op"], o.get("name"), a[:300], b[:300]),
                                      dict(common.slim(specs[k], obs[k]), history=hists[k], op_index=j, real=rsel, model=ml[k]))
                        break
    return obs, rl, ml, acc
