#!/usr/bin/env python3
"""seedtool verify <name> <property> <srcdir>   confirm a seeded change (applies, builds, suite passes, demo 0 on clean / !=0 on changed)
                                              in a scratch worktree and store it under /verif/seeded/<name>/
   seedtool try <name> <check ids...>         apply seeded/<name>/patch.diff to /repo, run the quick checks, undo"""
import json, os, shutil, subprocess, sys, time

ENV = dict(os.environ, GOFLAGS="-mod=mod", GOPROXY="off", GOSUMDB="off", GOTOOLCHAIN="local")
VERIF = os.path.dirname(os.path.dirname(os.path.abspath(__file__)))


def sh(cmd, cwd=None, check=False, timeout=1800):
    p = subprocess.run(cmd, cwd=cwd, env=ENV, shell=isinstance(cmd, str), stdout=subprocess.PIPE, stderr=subprocess.STDOUT, text=True, timeout=timeout)
    if check and p.returncode != 0:
        raise SystemExit("FAILED: %s\n%s" % (cmd, p.stdout[-3000:]))
    return p


def verify(name, prop, src):
    wt = "/tmp/wtv_" + name
    sh("git -C /repo worktree remove --force %s" % wt)
    sh("git -C /repo worktree add -q --detach %s HEAD" % wt, check=True)
    try:
        patch = os.path.join(src, "patch.diff")
        sh(["git", "-C", wt, "apply", patch], check=True)
        sh("go build ./...", cwd=wt, check=True)
        t = sh("go test -count=1 ./... 2>&1 | grep -v 'no test files' | grep -v '^ok' ; true", cwd=wt)
        suite_ok = t.stdout.strip() == ""
        d0 = sh(["bash", os.path.join(src, "demo.sh"), "/repo"], cwd=src)
        d1 = sh(["bash", os.path.join(src, "demo.sh"), wt], cwd=src)
        print("suite_ok", suite_ok, "demo clean rc", d0.returncode, "demo changed rc", d1.returncode)
        ok = suite_ok and d0.returncode == 0 and d1.returncode != 0
        if not ok:
            print(t.stdout[-2000:], d0.stdout[-1500:], d1.stdout[-1500:])
            return 1
        dst = os.path.join(VERIF, "seeded", name)
        if os.path.exists(dst):
            shutil.rmtree(dst)
        shutil.copytree(src, dst, ignore=shutil.ignore_patterns("PROMPT.txt"))
        notes = open(os.path.join(src, "notes.md")).read() if os.path.exists(os.path.join(src, "notes.md")) else ""
        meta = {"property": prop, "needs_to_manifest": notes[:1500],
                "confirmed": {"applies_to": sh("git -C /repo rev-parse HEAD").stdout.strip(), "go_build": "ok", "go_test_suite": "all packages ok (unchanged tests)",
                              "demo_on_clean_tree_rc": d0.returncode, "demo_on_changed_tree_rc": d1.returncode,
                              "commands": ["git apply patch.diff (scratch worktree)", "go build ./...", "go test -count=1 ./...", "bash demo.sh /repo", "bash demo.sh <worktree>"]},
                "caught_by": {}}
        json.dump(meta, open(os.path.join(dst, "meta.json"), "w"), indent=1)
        return 0
    finally:
        sh("git -C /repo worktree remove --force %s" % wt)


def try_(name, ids):
    """run the quick checks against the seeded change.  While helper agents read /repo as their clean baseline the change is
    applied in a scratch worktree and the checks are pointed at it (VERIF_REPO); `try-inplace` applies it to /repo itself."""
    dst = os.path.join(VERIF, "seeded", name)
    patch = os.path.join(dst, "patch.diff")
    wt = "/tmp/wtm_" + name
    sh("git -C /repo worktree remove --force %s" % wt)
    sh("git -C /repo worktree add -q --detach %s HEAD" % wt, check=True)
    res = {}
    evbak = "/tmp/evbak_" + name
    shutil.rmtree(evbak, ignore_errors=True)
    if os.path.isdir(os.path.join(VERIF, "evidence")):
        shutil.copytree(os.path.join(VERIF, "evidence"), evbak)
    try:
        sh(["git", "-C", wt, "apply", patch], check=True)
        env = dict(ENV, VERIF_REPO=wt)
        for pid in ids:
            t0 = time.time()
            p = subprocess.run([os.path.join(VERIF, "harness", "vcheck"), pid, "--tier", "quick"], cwd=VERIF, env=env,
                               stdout=subprocess.PIPE, stderr=subprocess.STDOUT, text=True, timeout=3600)
            lines = [l for l in p.stdout.splitlines() if l.startswith(("VIOLATION", "KNOWN-FINDING", "OK "))]
            keys = []
            for l in lines:
                if l.startswith("VIOLATION") and "replay=" in l:
                    rp = os.path.join(VERIF, l.split("replay=")[1].split()[0])
                    try:
                        d = json.load(open(rp))
                        keys.append(d.get("key") or "; ".join(x["name"] for x in d.get("no_longer_checks", []))[:200])
                    except Exception:
                        pass
            res[pid] = {"rc": p.returncode, "lines": lines, "keys": keys, "wall_s": round(time.time() - t0, 1)}
            print(pid, p.returncode, lines[:3], "%.0fs" % (time.time() - t0))
            if p.returncode not in (0, 1):
                print(p.stdout[-2000:])
    finally:
        sh("git -C /repo worktree remove --force %s" % wt)
        # evidence written while a seeded change was applied is not evidence of /repo: restore
        if os.path.isdir(evbak):
            shutil.rmtree(os.path.join(VERIF, "evidence"), ignore_errors=True)
            shutil.copytree(evbak, os.path.join(VERIF, "evidence"))
            shutil.rmtree(evbak, ignore_errors=True)
        shutil.rmtree(os.path.join(VERIF, "replays"), ignore_errors=True)
    mp = os.path.join(dst, "meta.json")
    meta = json.load(open(mp))
    meta.setdefault("caught_by", {}).update({k: v for k, v in res.items()})
    json.dump(meta, open(mp, "w"), indent=1)
    return 0


if __name__ == "__main__":
    if sys.argv[1] == "verify":
        sys.exit(verify(sys.argv[2], sys.argv[3], sys.argv[4]))
    elif sys.argv[1] == "try":
        sys.exit(try_(sys.argv[2], sys.argv[3:]))
