"""Bridge between harness cases / real observations and the Coq model (Corr/Run.v)."""
from . import coqrun
from .coqrun import lit, opt, lst, boolit

SEP = "\\|"


def prim_term(v):
    t = v["t"]
    if t == "nil":
        return "PNil"
    if t == "bool":
        return "(PBool %s)" % boolit(v["b"])
    if t == "string":
        return "(PStr %s)" % lit(v["s"])
    if t in ("float64", "float32"):
        return "(PFloat %s %s)" % (lit(t), lit(v["v"]))
    if t == "other":
        return "(POther %s)" % lit(v["gotype"])
    return "(PInt %s %s)" % (lit(t), lit(v["v"]))


def assoc(m, f):
    if not m:
        return "[]"
    return "[" + "; ".join("(%s, %s)" % (lit(k), f(m[k])) for k in m) + "]"


def optb(b):
    return "None" if b is None else "(Some %s)" % boolit(b)


SCOPES = {"shared": "ScShared", "contextual": "ScContextual", "non_shared": "ScNonShared"}


def service_term(sv):
    calls = "[" + "; ".join("{| c_method := %s; c_args := %s; c_immutable := %s |}" % (
        lit(c["method"]), lst(c["args"] or [], prim_term), boolit(c["immutable"])) for c in (sv["calls"] or [])) + "]"
    tags = "[" + "; ".join("{| t_name := %s; t_prio := (%s)%%Z |}" % (lit(t["name"]), t["priority"]) for t in (sv["tags"] or [])) + "]"
    sc = "None" if sv["scope"] is None else "(Some %s)" % SCOPES[sv["scope"]]
    return ("{| sv_getter := %s; sv_must_getter := %s; sv_type := %s; sv_value := %s; sv_constructor := %s; sv_args := %s; "
            "sv_calls := %s; sv_fields := %s; sv_tags := %s; sv_scope := %s; sv_todo := %s |}") % (
        opt(sv["getter"]), optb(sv["must_getter"]), opt(sv["type"]), opt(sv["value"]), opt(sv["constructor"]),
        lst(sv["args"] or [], prim_term), calls, assoc(sv["fields"], prim_term), tags, sc, optb(sv["todo"]))


def input_term(i):
    m = i["meta"]
    meta = ("{| m_pkg := %s; m_container_type := %s; m_container_constructor := %s; m_default_must_getter := %s; "
            "m_imports := %s; m_functions := %s |}") % (
        opt(m["pkg"]), opt(m["container_type"]), opt(m["container_constructor"]), optb(m["default_must_getter"]),
        assoc(m["imports"], lit), assoc(m["functions"], lit))
    decs = "[" + "; ".join("{| d_tag := %s; d_decorator := %s; d_args := %s |}" % (
        lit(d["tag"]), lit(d["decorator"]), lst(d["args"] or [], prim_term)) for d in (i["decorators"] or [])) + "]"
    return "{| i_version := %s; i_meta := %s; i_params := %s; i_services := %s; i_decorators := %s |}" % (
        opt(i["version"]), meta, assoc(i["params"], prim_term), assoc(i["services"], service_term), decs)


def flags_term(f):
    return "{| f_ignore_params := %s; f_ignore_services := %s; f_quiet := %s; f_stub := %s |}" % (
        boolit(f.get("ignore_params", False)), boolit(f.get("ignore_services", False)), boolit(f.get("quiet", False)),
        boolit(f.get("stub", False)))


def last_step_error(obs):
    """the oracle facts about the external world that the model cannot compute: did template/format/goimports fail,
    did os.WriteFile fail.  Both are the single, unprefixed error of the code generation step (every earlier step
    prefixes its errors with `runner.`, `compiler.` or `output.`)."""
    errs = obs.get("errors") or []
    if obs.get("exit") == 1 and len(errs) == 1 and not errs[0].startswith(("runner.", "compiler.", "output.")):
        if errs[0].startswith(("open ", "write ", "close ")):
            return None, errs[0]
        return errs[0], None
    return None, None


def case_term(spec, obs):
    globs = []
    for g in obs["globs"]:
        globs.append("{| gl_pattern := %s; gl_goquoted := %s; gl_err := %s; gl_matches := %s |}" % (
            lit(g["pattern"]), lit(g.get("goquoted") or json.dumps(g["pattern"], ensure_ascii=False)), opt(g.get("err")), lst([m["clean"] for m in (g.get("matches") or [])])))
    files = []
    for path, fi in (obs.get("files") or {}).items():
        if "read_err" in fi:
            r = "(FReadErr %s)" % lit(fi["read_err"])
        elif "yaml_err" in fi:
            r = "(FYamlErr %s)" % lit(fi["yaml_err"])
        else:
            r = "(FInput %s)" % input_term(fi["input"])
        files.append("(%s, %s)" % (lit(path), r))
    berr, werr = last_step_error(obs)
    world = "{| wd_globs := [%s]; wd_files := [%s]; wd_build_err := %s; wd_write_err := %s |}" % (
        "; ".join(globs), "; ".join(files), opt(berr), opt(werr))
    return "{| c_B := %s; c_flags := %s; c_world := %s; c_outfile := %s; c_build_info := %s |}" % (
        lit(spec.get("version", "")), flags_term(spec.get("flags", {})), world, lit(spec["output"]), lit(spec.get("build_info", "")))


def _eval(env, specs, obss, fn, chunk, ints=False):
    """evaluate [fn cases] in Coq, chunk by chunk, up to 12 coqc processes in parallel"""
    import re as _re
    from concurrent.futures import ThreadPoolExecutor
    chunk = max(20, min(chunk, (len(specs) + 11) // 12))
    starts = list(range(0, len(specs), chunk))

    def work(a):
        body = "Definition cases : list case := [\n" + ";\n".join(
            case_term(sp, ob) for sp, ob in zip(specs[a:a + chunk], obss[a:a + chunk])) + "].\n"
        body += "Eval vm_compute in %s cases.\n" % fn
        return coqrun.coq_eval(env, ["Base.Str", "Model.Input", "Model.Runner", "Corr.Run"], body, "run%d" % a)

    with ThreadPoolExecutor(max_workers=12) as ex:
        results = list(ex.map(work, starts))
    out = []
    for rc, txt in results:
        if rc != 0:
            return None, txt[-3000:]
        if ints:
            out += [int(x, 0) for x in _re.findall(r"(0x[0-9a-fA-F]+|\d+)%uint63", txt)]
        else:
            out += coqrun.parse_strings(txt)
    return out, ""


def eval_hashes(env, specs, obss, chunk=400):
    """one hash per case over all model observation lines"""
    hs, err = _eval(env, specs, obss, "map observe_hash", chunk, ints=True)
    if hs is None or len(hs) != len(specs):
        return None, err or ("model evaluation failed without output (killed / timed out)" if hs is None else "model produced %d hashes for %d cases" % (len(hs), len(specs)))
    return hs, ""


def eval_cases(env, specs, obss, chunk=60):
    """returns per case the list of model lines (each a tuple of unescaped byte fields), or None if evaluation failed"""
    lines, err = _eval(env, specs, obss, "flat_map observe_text", chunk)
    if lines is None:
        return None, err
    res, cur = [], []
    for line in lines:
        if line == "=====":
            res.append(cur)
            cur = []
        else:
            cur.append(tuple(coqrun.unesc(f) for f in line.split(SEP)))
    if len(res) != len(specs):
        return None, "model produced %d results for %d cases" % (len(res), len(specs))
    return res, ""


HMASK = (1 << 63) - 1


def esc_bytes(x):
    out = bytearray()
    for c in x:
        if 32 <= c <= 126 and c not in (34, 92):
            out.append(c)
        else:
            out += b"\\x%02x" % c
    return bytes(out)


def hash_lines(lines):
    """same function as Corr.Run.hash_lines; lines = list of tuples of raw byte fields"""
    h = 7
    for l in lines:
        h = (h * 31 + 400) & HMASK
        for f in l:
            h = (h * 31 + 300) & HMASK
            for c in f:
                h = (h * 31 + c + 1) & HMASK
    return h


def text_of(lines):
    return [SEP.encode().join(esc_bytes(f) for f in l) for l in lines] + [b"====="]


def expected_lines(spec, obs):
    """the canonical lines (tuples of raw byte fields) the model must produce for this real observation"""
    lines = list(real_run_lines(obs))
    fr = obs.get("front")
    lines.append((b"front",))
    if fr and "output" in fr and not fr.get("read_errors"):
        lines += real_front_lines(fr)
    else:
        lines.append((b"meta", b"", b"", b""))
    return lines


def diff_lines(exp, got):
    for i in range(max(len(exp), len(got))):
        x = exp[i] if i < len(exp) else None
        y = got[i] if i < len(got) else None
        if x != y:
            return "line %d: real=%r model=%r" % (i, x, y)
    return None


def correspond(env, specs, obss):
    """hash pass over all cases, full text only for the differing ones.
    returns (list of (index, diff text), error text or '')"""
    hs, err = eval_hashes(env, specs, obss)
    if hs is None:
        return None, err
    exp = [expected_lines(sp, ob) for sp, ob in zip(specs, obss)]
    bad = [k for k in range(len(specs)) if hash_lines(exp[k]) != hs[k]]
    out = []
    if bad:
        full, err = _eval(env, [specs[k] for k in bad], [obss[k] for k in bad], "flat_map observe_text", 40)
        if full is None:
            return None, err
        per, cur = [], []
        for line in full:
            cur.append(line.encode())
            if line == "=====":
                per.append(cur)
                cur = []
        for k, got in zip(bad, per):
            out.append((k, diff_lines(text_of(exp[k]), got) or "hash differs but lines are equal (hash bug)"))
    return out, ""



def _unflatten(rr):
    return rr


# ---- the same canonical lines from the real observation ----

def b(x):
    return x.encode("utf-8", "surrogateescape") if isinstance(x, str) else x


def show_prim(v):
    t = v["t"]
    if t == "nil":
        return b"nil"
    if t == "bool":
        return b"bool:true" if v["b"] else b"bool:false"
    if t == "string":
        return b"str:" + b(v["s"])
    if t == "other":
        return b"other:" + b(v["gotype"])
    return b(t) + b":" + b(v["v"])


def jl(l):
    return b",".join(b(x) for x in (l or []))


def show_arg(tag, a):
    return (b(tag), b(a["code"]), show_prim(a["raw"]), jl(a["params"]), jl(a["services"]), jl(a["tags"]))


def bl(x):
    return b"true" if x else b"false"


def real_front_lines(front):
    o = front["output"]
    out = [(b"meta", b(o["meta"]["pkg"]), b(o["meta"]["container_type"]), b(o["meta"]["container_constructor"]))]
    for p in o["params"] or []:
        out.append((b"param", b(p["name"]), b(p["code"]), show_prim(p["raw"]), jl(p["depends"])))
    for sv in o["services"] or []:
        out.append((b"service", b(sv["name"]), b(sv["getter"]), bl(sv["must_getter"]), b(sv["type"]), b(sv["value"]),
                    b(sv["constructor"]), b(str(sv["scope"])), bl(sv["todo"])))
        for a in sv["args"] or []:
            out.append(show_arg("sarg", a))
        for c in sv["calls"] or []:
            out.append((b"call", b(c["method"]), bl(c["immutable"])))
            for a in c["args"] or []:
                out.append(show_arg("carg", a))
        for f in sv["fields"] or []:
            out.append((b"field", b(f["name"])) + show_arg("farg", f["value"]))
        for t in sv["tags"] or []:
            out.append((b"tag", b(t["name"]), b(t["priority"])))
    for d in o["decorators"] or []:
        out.append((b"decorator", b(d["tag"]), b(d["decorator"]), b(d["raw"])))
        for a in d["args"] or []:
            out.append(show_arg("darg", a))
    for i in front.get("imports") or []:
        out.append((b"import", b(i["alias"]), b(i["path"])))
    return out


def wrote(obs):
    a, bf = obs["out_after"], obs["out_before"]
    if "out_touched" in obs:
        return bool(a["exists"] and not a["is_dir"] and obs["out_touched"])
    return a["exists"] and not a["is_dir"] and (not bf["exists"] or a.get("hash") != bf.get("hash"))


def real_run_lines(obs):
    out = [(b"exit", b(str(obs.get("exit")))), (b"wrote", bl(wrote(obs)))]
    so = obs.get("stdout", "")
    lines = so.split("\n")
    if lines and lines[-1] == "":
        lines = lines[:-1]
    # error messages may contain newlines: the model prints them as one "out" item, so re-join by structure:
    out += [(b"out", b(l)) for l in lines]
    out += [(b"err", b(e)) for e in (obs.get("errors") or [])]
    return out


def model_split(lines):
    """split model lines into (run lines, front lines)"""
    if ("front",) in [tuple(x.decode() for x in l) for l in lines if len(l) == 1]:
        k = [i for i, l in enumerate(lines) if l == (b"front",)][0]
        return lines[:k], lines[k + 1:]
    return lines, None


def flatten_out(lines):
    """model 'out' items may hold embedded newlines (multi-line error messages); normalise both sides to physical lines"""
    res = []
    for l in lines:
        if l[0] == b"out":
            for part in l[1].split(b"\n"):
                res.append((b"out", part))
        else:
            res.append(l)
    return res


def compare(spec, obs, mlines):
    """returns list of human-readable differences between the model and the real observation"""
    diffs = []
    if obs.get("panic") or obs.get("crashed"):
        if not (mlines and mlines[0][0] == b"panic"):
            diffs.append("real command panicked/crashed, model did not: %r" % (obs.get("panic") or obs.get("stderr"),))
        return diffs
    run_m, front_m = model_split(mlines)
    rm = flatten_out(run_m)
    rr = real_run_lines(obs)
    if rm != rr:
        for i in range(max(len(rm), len(rr))):
            x = rm[i] if i < len(rm) else None
            y = rr[i] if i < len(rr) else None
            if x != y:
                diffs.append("run line %d: model=%r real=%r" % (i, x, y))
                break
    fr = obs.get("front")
    if fr and "output" in fr and not fr.get("read_errors") and front_m is not None:
        rf = real_front_lines(fr)
        if front_m != rf:
            for i in range(max(len(front_m), len(rf))):
                x = front_m[i] if i < len(front_m) else None
                y = rf[i] if i < len(rf) else None
                if x != y:
                    diffs.append("front line %d: model=%r real=%r" % (i, x, y))
                    break
    return diffs


def render_texts(env, specs, obss):
    """pre-format text of the generated file according to the model, one str per case ('' when nothing is written)"""
    lines, err = _eval(env, specs, obss, "flat_map render_text", 60)
    if lines is None:
        return None, err
    res, cur = [], []
    for line in lines:
        if line == "=====":
            res.append(b"\n".join(cur).decode("utf-8", "replace") + ("\n" if cur else ""))
            cur = []
        else:
            cur.append(coqrun.unesc(line))
    if len(res) != len(specs):
        return None, "model produced %d texts for %d cases" % (len(res), len(specs))
    return res, ""
