"""Coq side of a check: per-tree build of the development and evaluation of the model on harness cases."""
import hashlib
import os
import re
import shutil
import subprocess
import time

from . import build
from .build import VERIF, CACHE, Lock, log

COQSRC = os.path.join(VERIF, "coq")

FORBIDDEN = re.compile(r"\b(Admitted|admit|Axiom|Axioms|Parameter|Parameters|Conjecture|Conjectures|Hypothesis|Hypotheses|Variable|Variables)\b|Unset\s+Guard|bypass_check|type-in-type|impredicative-set|Admit\s+Obligations|Unset\s+Universe\s+Checking|Unset\s+Positivity")


def coq_sources():
    out = []
    for d, _, fs in os.walk(COQSRC):
        for f in fs:
            if f.endswith(".v") or f == "_CoqProject":
                out.append(os.path.relpath(os.path.join(d, f), COQSRC))
    return sorted(out)


def coq_hash():
    h = hashlib.sha256()
    for rel in coq_sources():
        h.update(rel.encode() + b"\0")
        with open(os.path.join(COQSRC, rel), "rb") as f:
            h.update(hashlib.sha256(f.read()).digest())
    gen = os.path.join(VERIF, "harness", "vlib", "gen.py")
    if os.path.exists(gen):
        h.update(open(gen, "rb").read())
    return h.hexdigest()[:12]


def forbidden_scan(root=COQSRC):
    """grep gate: no Admitted/Axiom/... anywhere in the development (Section-local Variable/Hypothesis are allowed
    only inside a Section, which we check textually)."""
    bad = []
    for rel in coq_sources():
        if not rel.endswith(".v"):
            continue
        depth = 0
        for n, line in enumerate(open(os.path.join(root, rel), encoding="utf-8", errors="replace"), 1):
            code = re.sub(r"\(\*.*?\*\)", "", line)
            if re.match(r"\s*Section\b", code):
                depth += 1
            if re.match(r"\s*End\b", code) and depth > 0:
                depth -= 1
            m = FORBIDDEN.search(code)
            if m:
                w = m.group(0)
                if depth > 0 and re.match(r"(Variable|Variables|Hypothesis|Hypotheses)$", w):
                    continue
                bad.append("%s:%d: %s" % (rel, n, w))
    return bad


class CoqEnv:
    def __init__(self, d):
        self.dir = d
        self.failed = []      # .v files (relative) whose .vo could not be built
        self.log = ""

    def ok(self, rel):
        return os.path.exists(os.path.join(self.dir, rel[:-2] + ".vo"))


def ensure_coq(tooldir, gen_writer=None):
    """Copy /verif/coq (with whatever .vo setup_cmd built) into the per-tree cache, regenerate Gen/*.v there from the
    current /repo, and run a full `make -k`.  Only files depending on changed Gen files are recompiled."""
    key = coq_hash()
    dst = os.path.join(tooldir, "coq_" + key)
    env = CoqEnv(dst)
    with Lock(os.path.join(CACHE, "_lock_coq_" + os.path.basename(tooldir) + key)):
        stamp = os.path.join(dst, "build.ok")
        if not os.path.exists(stamp):
            t0 = time.time()
            if os.path.exists(dst):
                shutil.rmtree(dst)
            for e in os.listdir(tooldir):
                # older instantiations of the development: only those nobody can still be using (a check started before the
                # sources changed may still be evaluating in its own copy)
                if e.startswith("coq_") and e != os.path.basename(dst) and time.time() - os.path.getmtime(os.path.join(tooldir, e)) > 3 * 3600:
                    shutil.rmtree(os.path.join(tooldir, e), ignore_errors=True)
            subprocess.run(["cp", "-a", COQSRC, dst], check=True)
            if gen_writer is not None:
                gen_writer(tooldir, os.path.join(dst, "Gen"))
            if not os.path.exists(os.path.join(dst, "Makefile")):
                subprocess.run(["coq_makefile", "-f", "_CoqProject", "-o", "Makefile"], cwd=dst, check=True,
                               stdout=subprocess.DEVNULL, stderr=subprocess.DEVNULL)
            p = subprocess.run(["timeout", "3000", "make", "-k", "-j16"], cwd=dst, stdout=subprocess.PIPE,
                               stderr=subprocess.STDOUT, text=True)
            open(os.path.join(dst, "build.log"), "w").write(p.stdout)
            open(stamp, "w").write("%d %.1f\n" % (p.returncode, time.time() - t0))
            log("coq build rc=%d in %.1fs (%s)" % (p.returncode, time.time() - t0, dst))
        env.log = open(os.path.join(dst, "build.log")).read()
        for rel in coq_sources():
            if rel.endswith(".v") and not env.ok(rel):
                env.failed.append(rel)
    return env


def lit(b):
    """Coq term of type str for Python bytes/str."""
    if isinstance(b, str):
        b = b.encode("utf-8", "surrogateescape")
    if all(32 <= c <= 126 and c != 34 for c in b):
        return '(s "%s")' % b.decode("ascii")
    return "(bs [%s]%%N)" % ";".join(str(c) for c in b)


def opt(x, f=lit):
    return "None" if x is None else "(Some %s)" % f(x)


def lst(xs, f=lit):
    return "[" + "; ".join(f(x) for x in xs) + "]"


def zlit(n):
    n = int(n)
    return "(%d)%%Z" % n


def boolit(b):
    return "true" if b else "false"


_unesc = re.compile(r"\\x([0-9a-f]{2})")


def unesc(sx):
    out = bytearray()
    i = 0
    while i < len(sx):
        if sx[i] == "\\" and sx[i + 1] == "x":
            out.append(int(sx[i + 2:i + 4], 16))
            i += 4
        else:
            out.append(ord(sx[i]))
            i += 1
    return bytes(out)


def coq_eval(env, imports, body, name="cases", timeout=900):
    """Compile a scratch file (imports + body) against the per-tree build; returns (rc, stdout).  The body is expected to
    end with `Eval vm_compute in <list string>.`; use parse_strings on the output."""
    tmpd = os.path.join(env.dir, "Scratch")
    os.makedirs(tmpd, exist_ok=True)
    fn = os.path.join(tmpd, "%s_%d.v" % (name, os.getpid()))
    with open(fn, "w") as f:
        f.write("From GV Require Import %s.\n" % " ".join(imports))
        f.write("Set Printing Width 1000000.\nSet Printing Depth 100000000.\n")
        f.write(body)
    # vm_compute recurses on the C stack: deep object graphs of the run-time model overflow the default 8 MB.  The limit is raised by
    # a shell wrapper (not by a preexec_fn: this function is called from worker threads)
    p = subprocess.run(["sh", "-c", 'ulimit -s unlimited 2>/dev/null || ulimit -s "$(ulimit -H -s)" 2>/dev/null; exec "$@"', "sh",
                        "timeout", str(timeout), "coqc", "-Q", env.dir, "GV", fn], stdout=subprocess.PIPE, stderr=subprocess.STDOUT, text=True)
    for ext in (".v", ".vo", ".vok", ".vos", ".glob"):
        try:
            os.remove(fn[:-2] + ext)
        except OSError:
            pass
    try:
        os.remove(os.path.join(tmpd, "." + os.path.basename(fn)[:-2] + ".aux"))
    except OSError:
        pass
    return p.returncode, p.stdout


def parse_strings(out):
    """All string literals printed by Coq, in order (our strings never contain a double quote)."""
    return re.findall(r'"([^"]*)"', out)


def props_check(env, pid):
    """Re-compile Props/<pid>.v against the per-tree build: returns (ok, theorem names, assumptions text)."""
    rel = "Props/%s.v" % pid
    src = os.path.join(env.dir, rel)
    if not os.path.exists(src):
        return False, [], "missing " + rel
    names = re.findall(r"^(?:Theorem|Lemma|Example|Corollary)\s+(\w+)", open(src).read(), re.M)
    p = subprocess.run(["timeout", "900", "coqc", "-Q", env.dir, "GV", src], stdout=subprocess.PIPE,
                       stderr=subprocess.STDOUT, text=True)
    return p.returncode == 0, names, p.stdout
