"""Shared machinery of the code-generation checks (C01, C13, C14, C17): run the real tool, compare the written bytes with the
model's rendering (through the repo's real formatter), compile batches against the fixture universe."""
import re

from . import build, gobuild, model


def pkg_of(src):
    m = re.search(r"^package (\w+)", src, re.M)
    return m.group(1) if m else "main"


def render_correspondence(out, env, tooldir, specs, obs, name):
    """model render -> real formatter -> must equal the bytes the tool wrote (accepted cases only)"""
    ok = [k for k, o in enumerate(obs) if o.get("exit") == 0 and o.get("out_content") is not None]
    if not ok:
        return 0
    texts, err = model.render_texts(env, [specs[k] for k in ok], [obs[k] for k in ok])
    if texts is None:
        out.broke("correspondence:%s render (model evaluation failed)" % name, err)
        return 0
    fm = build.gx_format(tooldir, texts)
    bad = 0
    for k, t, f in zip(ok, texts, fm):
        if f.get("out") != obs[k]["out_content"]:
            bad += 1
            if bad <= 3:
                import difflib
                d = list(difflib.unified_diff(obs[k]["out_content"].split("\n"), (f.get("out") or f.get("err") or "").split("\n"), lineterm="", n=0))[:30]
                out.broke("correspondence:%s rendered file" % name, {"files": specs[k]["files"], "flags": specs[k]["flags"], "diff_real_vs_model": d})
    return len(ok)


def compile_batch(items, tags=None, run_init=True):
    """items: list of (name, source).  Returns (errors {name: [lines]}, unstable [names], init_failures {name: text})"""
    b = gobuild.Batch()
    try:
        nonmain = []
        for name, src in items:
            pkg = pkg_of(src)
            b.add(name, src, pkg)
            if pkg != "main":
                nonmain.append(name)
        rc, errs = b.build(tags=tags)
        unstable = b.gofmt_unstable()
        init_fail = {}
        if run_init:
            good = [n for n in nonmain if n not in errs]
            if good:
                main = "package main\n\nimport (\n" + "".join("\t_ \"gvbatch/gen/%s\"\n" % n for n in good) + ")\n\nfunc main() { println(\"init-ok\") }\n"
                import os
                os.makedirs(os.path.join(b.dir, "gen", "zzprobe"), exist_ok=True)
                open(os.path.join(b.dir, "gen", "zzprobe", "main.go"), "w").write(main)
                import subprocess
                env = dict(gobuild.GOENV)
                cmd = ["go", "run"] + (["-tags", tags] if tags else []) + ["./gen/zzprobe"]
                p = subprocess.run(cmd, cwd=b.dir, env=env, stdout=subprocess.PIPE, stderr=subprocess.PIPE, text=True, timeout=900)
                if p.returncode != 0 or "init-ok" not in p.stderr + p.stdout:
                    init_fail["_batch"] = (p.stdout + p.stderr)[-2000:]
            # package main outputs: build + run each (init executes, main is empty)
            from concurrent.futures import ThreadPoolExecutor
            mains = [name for name, src in items if pkg_of(src) == "main" and name not in errs]
            with ThreadPoolExecutor(6) as ex:       # linking dominates: several at a time
                for name, (q, berr) in zip(mains, ex.map(lambda n: b.run_main(n, tags=tags), mains)):
                    if q is not None and q.returncode != 0:
                        init_fail[name] = (q.stdout + q.stderr)[-1500:]
        return errs, unstable, init_fail
    finally:
        b.close()


def format_verdict_correspondence(out, env, tooldir, specs, obs, name, claim):
    """cases the real tool rejects in its formatter: the model's own rendering (which does not see the formatter's verdict) is
    piped through the same formatter; if it formats, the implementation rejected a configuration the specified rendering accepts"""
    idx = [k for k, o in enumerate(obs) if o.get("exit") == 1 and len(o.get("errors") or []) == 1 and (o["errors"][0].startswith("CodeFormatter.Format"))]
    if not idx:
        return 0
    fake = []
    for k in idx:
        o = dict(obs[k])
        o["exit"], o["errors"] = 0, []
        fake.append(o)
    texts, err = model.render_texts(env, [specs[k] for k in idx], fake)
    if texts is None:
        out.broke("correspondence:%s format verdict (model evaluation failed)" % name, err)
        return 0
    fm = build.gx_format(tooldir, texts)
    for k, t, f in zip(idx, texts, fm):
        if "out" in f and t:
            out.violation("rejected-by-formatter:%s" % (specs[k].get("what") or [""])[0], "%s: the tool fails in go/format (%s) although the specified rendering of this configuration is valid Go" % (claim, obs[k]["errors"][0][:120]),
                          {"files": specs[k]["files"], "patterns": specs[k]["patterns"], "output": specs[k]["output"], "flags": specs[k]["flags"], "version": specs[k].get("version", ""),
                           "observed": {"exit": 1, "errors": obs[k]["errors"]}})
    return len(idx)
