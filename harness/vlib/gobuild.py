"""Compile (and optionally run) generated containers against the fixture universe and the pinned runtime library."""
import json
import os
import re
import shutil
import subprocess
import tempfile

from .build import GOENV, GOTOOLS, REPO, run, BuildError

FIX_TPL = os.path.join(GOTOOLS, "fixture", "fixture.go.tpl")

# import path -> (directory below the fixture root, package name)
FIXTURES = {
    "example.com/lib": ("example.com/lib", "lib"),
    "example.com/lib/sub": ("example.com/lib/sub", "sub"),
    "example.com/other": ("example.com/other", "other"),
    "gv.test/fix/alpha": ("gv.test/fix/alpha", "alpha"),
    "gv.test/fix/beta-pkg": ("gv.test/fix/beta-pkg", "beta"),
    "gv.test/fix/x.y": ("gv.test/fix/x.y", "xy"),
    "gv.test/fix/alpha/sub": ("gv.test/fix/alpha/sub", "sub"),
    "gv.test/fix/beta-pkg/sub": ("gv.test/fix/beta-pkg/sub", "sub"),
    "gv.test/fix/x.y/sub": ("gv.test/fix/x.y/sub", "sub"),
    "example.com/lib/sub/sub": ("example.com/lib/sub/sub", "sub"),
    "example.com/other/sub": ("example.com/other/sub", "sub"),
}


def helpers_require():
    gm = open(os.path.join(REPO, "go.mod")).read()
    m = re.search(r"(github.com/gontainer/gontainer-helpers/v3) (\S+)", gm)
    return m.group(1), m.group(2)


def fixture_text(pkg, path):
    return open(FIX_TPL).read().replace("@PKG@", pkg).replace("@PATH@", path)


class Batch:
    """one Go module: module gvbatch; fixture packages under vendored-like replace modules; generated packages under gen/<name>/"""

    def __init__(self, extra_fixtures=None):
        self.dir = tempfile.mkdtemp(prefix="gvbatch_", dir="/dev/shm")
        hp, hv = helpers_require()
        mods = {"example.com/lib": "fx/example.com/lib", "example.com/other": "fx/example.com/other", "gv.test/fix": "fx/gv.test/fix"}
        lines = ["module gvbatch", "", "go 1.21", "", "require (", "\t%s %s" % (hp, hv)]
        for m in mods:
            lines.append("\t%s v0.0.0" % m)
        lines.append(")")
        for m, d in mods.items():
            lines.append("replace %s => ./%s" % (m, d))
            os.makedirs(os.path.join(self.dir, d), exist_ok=True)
            open(os.path.join(self.dir, d, "go.mod"), "w").write("module %s\n\ngo 1.21\n\nrequire %s %s\n" % (m, hp, hv))
            shutil.copy(os.path.join(REPO, "go.sum"), os.path.join(self.dir, d, "go.sum"))
        open(os.path.join(self.dir, "go.mod"), "w").write("\n".join(lines) + "\n")
        shutil.copy(os.path.join(REPO, "go.sum"), os.path.join(self.dir, "go.sum"))
        fx = dict(FIXTURES)
        fx.update(extra_fixtures or {})
        for path, (d, pkg) in fx.items():
            p = os.path.join(self.dir, "fx", d)
            os.makedirs(p, exist_ok=True)
            open(os.path.join(p, "fixture.go"), "w").write(fixture_text(pkg, path))
        sp = os.path.join(self.dir, "fx", "gv.test/fix/serial")
        os.makedirs(sp, exist_ok=True)
        open(os.path.join(sp, "serial.go"), "w").write("// Package serial hands out allocation serial numbers shared by every fixture package.\npackage serial\n\nimport \"sync/atomic\"\n\nvar n int64\n\nfunc Next() int64 { return atomic.AddInt64(&n, 1) }\n")
        self.items = {}

    def add(self, name, source, pkg, extra_files=None):
        d = os.path.join(self.dir, "gen", name)
        os.makedirs(d, exist_ok=True)
        open(os.path.join(d, "container.go"), "w").write(source)
        open(os.path.join(d, "zz_fixture.go"), "w").write(fixture_text(pkg, "."))
        if pkg == "main" and not (extra_files and any("func main()" in t for t in extra_files.values())):
            open(os.path.join(d, "zz_main.go"), "w").write("package main\n\nfunc main() {}\n")
        for fn, txt in (extra_files or {}).items():
            open(os.path.join(d, fn), "w").write(txt)
        self.items[name] = d

    def build(self, tags=None, race=False, timeout=1800):
        """go build ./gen/... ; returns {name: [error lines]} for the packages that do not compile"""
        cmd = ["go", "build"]
        if tags:
            cmd += ["-tags", tags]
        if race:
            cmd += ["-race"]
        cmd += ["-o", os.devnull, "./gen/..."] if False else ["./gen/..."]
        env = dict(GOENV)
        if race:
            env["CGO_ENABLED"] = "1"
        p = subprocess.run(cmd, cwd=self.dir, env=env, stdout=subprocess.PIPE, stderr=subprocess.STDOUT, text=True, timeout=timeout)
        errs = {}
        cur = None
        for line in p.stdout.splitlines():
            m = re.match(r"# gvbatch/gen/(\S+)", line)
            if m:
                cur = m.group(1)
                errs.setdefault(cur, [])
                continue
            m2 = re.match(r"gen/([^/]+)/", line)
            if m2:
                errs.setdefault(m2.group(1), []).append(line)
            elif cur is not None:
                errs[cur].append(line)
            elif line.strip():
                errs.setdefault("_batch", []).append(line)
        return p.returncode, errs

    def gofmt_unstable(self):
        p = subprocess.run(["gofmt", "-l", "gen"], cwd=self.dir, stdout=subprocess.PIPE, stderr=subprocess.STDOUT, text=True)
        return [l.split("/")[1] for l in p.stdout.splitlines() if l.endswith("container.go")]

    def run_main(self, name, args=(), race=False, timeout=600, env_extra=None, tags=None):
        """go run of one generated package main (the package must have a main func)"""
        binp = os.path.join(self.dir, "bin_" + name)
        cmd = ["go", "build"] + (["-race"] if race else []) + (["-tags", tags] if tags else []) + ["-o", binp, "./gen/" + name]
        env = dict(GOENV)
        if race:
            env["CGO_ENABLED"] = "1"
        p = subprocess.run(cmd, cwd=self.dir, env=env, stdout=subprocess.PIPE, stderr=subprocess.STDOUT, text=True, timeout=timeout)
        if p.returncode != 0:
            return None, p.stdout
        env2 = dict(env)
        env2.update(env_extra or {})
        q = subprocess.run([binp] + list(args), cwd=self.dir, env=env2, stdout=subprocess.PIPE, stderr=subprocess.PIPE, text=True, timeout=timeout)
        return q, ""

    def close(self):
        shutil.rmtree(self.dir, ignore_errors=True)
