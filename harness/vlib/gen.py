"""Translator, second half: JSON dumped by gxtool from the *live* /repo objects  ->  Gen/*.v.

Gen/RegexSrc.v   one [site] per compiled regexp of the repo (syntax tree as parsed by Go's own regexp/syntax)
Gen/EnvGen.v     the [env] record the model is instantiated with: regex sites, constants, wiring
"""
import json
import os

from .coqrun import lit

SITES = {
    "re_in_ServiceName": "input_ServiceName", "re_in_ServiceGetter": "input_ServiceGetter",
    "re_in_ServiceType": "input_ServiceType", "re_in_ServiceValue": "input_ServiceValue",
    "re_in_ServiceConstructor": "input_ServiceConstructor", "re_in_ServiceCallName": "input_ServiceCallName",
    "re_in_ServiceFieldName": "input_ServiceFieldName", "re_in_ServiceTag": "input_ServiceTag",
    "re_in_ParamName": "input_ParamName", "re_in_DecoratorsTag": "input_DecoratorsTag",
    "re_in_DecoratorMethod": "input_DecoratorMethod", "re_in_MetaPkg": "input_MetaPkg",
    "re_in_MetaContainerType": "input_MetaContainerType",
    "re_in_MetaContainerConstructor": "input_MetaContainerConstructor", "re_in_MetaImport": "input_MetaImport",
    "re_in_MetaImportAlias": "input_MetaImportAlias", "re_in_MetaFn": "input_MetaFn", "re_in_MetaGoFn": "input_MetaGoFn",
    "re_co_DecoratorMethod": "compiler_DecoratorMethod", "re_co_MetaGoFn": "compiler_MetaGoFn",
    "re_co_ServiceType": "compiler_ServiceType", "re_co_ServiceConstructor": "compiler_ServiceConstructor",
    "re_sy_ServiceValue": "syntax_ServiceValue",
    "re_rs_servicePrefix": "resolver_servicePrefix", "re_rs_service": "resolver_service",
    "re_rs_taggedPrefix": "resolver_taggedPrefix", "re_rs_tagged": "resolver_tagged",
    "re_rs_valuePrefix": "resolver_valuePrefix", "re_rs_value": "resolver_value",
    "re_tk_TokenRef": "token_TokenRef", "re_tk_SimpleFn": "token_SimpleFn",
}


class GenError(Exception):
    pass


def utf8(r):
    return list(chr(r).encode("utf-8"))


def re_term(n):
    op = n["op"]
    sub = n.get("sub") or []
    if op == "Literal":
        if n.get("fold"):
            raise GenError("case-folded literal is outside the modelled fragment")
        bs = []
        for r in n["runes"]:
            bs += utf8(r)
        return "(Lit (bs [%s]))" % ";".join(map(str, bs))
    if op == "CharClass":
        rs = n.get("runes") or []
        pairs = ["(%d,%d)" % (rs[i], rs[i + 1]) for i in range(0, len(rs), 2)]
        return "(Cls [%s])" % ";".join(pairs)
    if op == "AnyCharNotNL":
        return "(Cls [(0,9);(11,255)])"
    if op == "AnyChar":
        return "(Cls [(0,255)])"
    if op == "Capture":
        return "(Cap %d%%nat %s)" % (n["cap"], re_term(sub[0]))
    if op in ("Star", "Plus", "Quest"):
        if n.get("nongreedy"):
            raise GenError("non-greedy operator is outside the modelled fragment")
        return "(%s %s)" % (op, re_term(sub[0]))
    if op == "Concat":
        t = re_term(sub[-1])
        for x in reversed(sub[:-1]):
            t = "(Cat %s %s)" % (re_term(x), t)
        return t
    if op == "Alternate":
        t = re_term(sub[-1])
        for x in reversed(sub[:-1]):
            t = "(Alt %s %s)" % (re_term(x), t)
        return t
    if op == "EmptyMatch":
        return "Eps"
    if op == "NoMatch":
        return "Empty"
    raise GenError("regexp operator %s is outside the modelled fragment" % op)


def site_term(site):
    t = site["tree"]
    if site["site"] == "imports_NoAlphaNum":
        return "{| site_re := %s; site_end := false; site_names := [] |}" % re_term(t)
    if t["op"] != "Concat" or not t.get("sub") or t["sub"][0]["op"] != "BeginText":
        raise GenError("site %s is not anchored with \\A" % site["site"])
    rest = t["sub"][1:]
    end = False
    if rest and rest[-1]["op"] == "EndText":
        end = True
        rest = rest[:-1]
    if len(rest) != 1:
        raise GenError("site %s: unexpected top-level shape" % site["site"])
    names = ["(%s, %d%%nat)" % (lit(nm), i) for i, nm in enumerate(site["names"]) if nm]
    return "{| site_re := %s; site_end := %s; site_names := [%s] |}" % (re_term(rest[0]), "true" if end else "false", "; ".join(names))


RES = {"*resolver.NonStringPrimitiveResolver": "RNonString", "*resolver.ValueResolver": "RValue",
       "*resolver.ServiceResolver": "RService", "*resolver.TaggedResolver": "RTagged",
       "*resolver.PatternResolver": "RPattern"}
FAC = {"token.FactoryPercentMark": "FPercent", "token.FactoryReference": "FReference",
       "token.FactoryUnexpectedFunction": "FUnexpectedFunction", "token.FactoryUnexpectedToken": "FUnexpectedToken",
       "token.FactoryString": "FString"}
CST = {"*compiler.StepValidateInput": "CValidate", "*compiler.StepCompileMeta": "CMeta",
       "*compiler.StepCompileParams": "CParams", "*compiler.StepCompileServices": "CServices",
       "*compiler.StepCompileDecorators": "CDecorators"}
RULES = {"github.com/gontainer/gontainer/internal/pkg/output.ValidateServicesScopes": "VScopes",
         "github.com/gontainer/gontainer/internal/pkg/output.ValidateCircularDeps": "VCircular",
         "github.com/gontainer/gontainer/internal/pkg/output.ValidateParamsExist": "VParamsExist",
         "github.com/gontainer/gontainer/internal/pkg/output.ValidateServicesExist": "VServicesExist"}
STEPS = {"runner.StepDefaultInput": "RDefaultInput", "*runner.StepReadConfig": "RReadConfig",
         "*runner.StepCompile": "RCompile", "*runner.StepCodeGenerator": "RCodeGen"}


def chain_term(l):
    out = []
    for x in l:
        if x["type"] == "*resolver.FixedValueResolver":
            out.append("RFixed %s %s" % (lit(x["id"]), lit(x["value"])))
        elif x["type"] in RES:
            out.append(RES[x["type"]])
        elif x["type"].startswith("!"):
            continue   # the wiring lost this object: the shortened chain fails Tie/EnvTie.v and the correspondence
        else:
            raise GenError("unknown resolver " + x["type"])
    return "[" + "; ".join(out) + "]"


def switch_of(acts):
    """acts: activity of a step under (params,services) = TT, FT, TF, FF  (True = the rule is active = not ignored)"""
    table = {(True, True, True, True): "SwAlways", (True, False, True, False): "SwIgnoreParams",
             (True, True, False, False): "SwIgnoreServices", (True, False, False, False): "SwBoth",
             (False, False, False, False): "SwNever"}
    if tuple(acts) not in table:
        raise GenError("step activity %r does not correspond to a flag switch" % (acts,))
    return table[tuple(acts)]


def runner_term(w):
    combos = ["params=true,services=true", "params=false,services=true", "params=true,services=false", "params=false,services=false"]
    base = w[combos[0]]
    out = []
    for k, st in enumerate(base):
        if st["type"] != "*runner.StepVerboseSwitchable":
            raise GenError("runner step %d is not decorated by StepVerboseSwitchable" % k)
        acts = [w[c][k]["active"] for c in combos]
        par = st["parent"]
        if par["type"] == "*runner.StepAmalgamated":
            rules = []
            for j, sub in enumerate(par["steps"]):
                if sub["type"] != "*runner.StepVerboseSwitchable":
                    raise GenError("sub-step is not decorated by StepVerboseSwitchable")
                sacts = [w[c][k]["parent"]["steps"][j]["active"] for c in combos]
                sp = sub["parent"]
                if sp.get("validator") not in RULES:
                    raise GenError("unknown validator %r" % sp.get("validator"))
                rules.append("(%s, %s, %s)" % (lit(sp["name"]), RULES[sp["validator"]], switch_of(sacts)))
            kind = "RAmalgamated [%s]" % "; ".join(rules)
        elif par["type"] in STEPS:
            kind = STEPS[par["type"]]
        else:
            raise GenError("unknown runner step " + par["type"])
        out.append("{| rs_name := %s; rs_kind := %s; rs_switch := %s |}" % (lit(par.get("name", "")), kind, switch_of(acts)))
    return "[" + ";\n    ".join(out) + "]"


def gen_files(tooldir):
    sites = json.load(open(os.path.join(tooldir, "regex.json")))
    consts = json.load(open(os.path.join(tooldir, "consts.json")))
    by = {x["site"]: x for x in sites}
    rs = ["(* GENERATED from the live compiled regexps of /repo by gxtool regex + harness/vlib/gen.py. DO NOT EDIT. *)",
          "From GV Require Import Base.Str Regex.Re.", "Local Open Scope N_scope.", ""]
    for name in sorted(by):
        x = by[name]
        rs.append("(* %s : %s *)" % (name, x["pattern"].replace("*)", "* )").replace("(*", "( *")))
        try:
            rs.append("Definition site_%s : site :=\n  %s.\n" % (name, site_term(x)))
        except GenError as e:
            rs.append("(* NOT TRANSLATABLE: %s *)\n" % e)
    ev = ["(* GENERATED from /repo by gxtool consts + harness/vlib/gen.py. DO NOT EDIT. *)",
          "From GV Require Import Base.Str Regex.Re Model.Env Gen.RegexSrc.", "",
          "Definition the_env : env := {|"]
    for f, sname in SITES.items():
        ev.append("  %s := site_%s;" % (f, sname))
    d = consts["defaults"]
    fields = [
        ("k_helper_path", lit(consts["GontainerHelperPath"])),
        ("k_tpl_dep_service", lit(consts["TplDependencyService"])), ("k_tpl_dep_tag", lit(consts["TplDependencyTag"])),
        ("k_tpl_dep_value", lit(consts["TplDependencyValue"])), ("k_tpl_dep_provider", lit(consts["TplDependencyProvider"])),
        ("k_tpl_dep_concat", lit(consts["TplDependencyConcatenateChunks"])),
        ("k_tpl_tok_getparam", lit(consts["TplTokenGetParam"])), ("k_tpl_tok_provider", lit(consts["TplTokenProvider"])),
        ("k_delim", '"%s"%%char' % consts["TokenDelimiter"]),
        ("k_default_pkg", lit(d["MetaPkg"])), ("k_default_type", lit(d["MetaContainerType"])),
        ("k_default_ctor", lit(d["MetaContainerConstructor"])), ("k_default_must", "true" if d["MetaMustGetter"] else "false"),
        ("k_builtin_funcs", "[(%s, %s); (%s, %s); (%s, %s)]" % (
            lit(consts["FuncEnv"]), lit(consts["BuiltInGetEnv"]), lit(consts["FuncEnvInt"]), lit(consts["BuiltinGetEnvInt"]),
            lit(consts["FuncTodo"]), lit(consts["BuiltInParamTodo"]))),
        ("k_reserved_getters", "[" + "; ".join(lit(x) for x in consts["reservedGetters"]) + "]"),
        ("k_row_width", "%d%%nat" % consts["rowWidth"]), ("k_check", lit(consts["checkMark"])), ("k_xmark", lit(consts["xMark"])),
        ("w_arg_chain", chain_term(consts["argResolver"])), ("w_param_chain", chain_term(consts["primitiveArgResolver"])),
        ("w_factories", "[" + "; ".join(FAC[x["type"]] for x in consts["tokenStrategyFactory"]) + "]"),
        ("w_compiler_steps", "[" + "; ".join(CST[x] for x in consts["compilerSteps"]) + "]"),
        ("w_runner", runner_term(consts["wiring"])),
    ]
    for k, v in fields:
        ev.append("  %s := %s;" % (k, v))
    ev[-1] = ev[-1].rstrip(";")
    ev.append("|}.")
    ev.append("(* the resolver chain StepCompileDecorators is wired with (the model uses one chain for service and decorator arguments) *)")
    ev.append("Definition deco_arg_chain : list resolver_kind := %s." % chain_term(consts.get("decoratorArgResolver", consts["argResolver"])))
    return {"RegexSrc.v": "\n".join(rs) + "\n", "EnvGen.v": "\n".join(ev) + "\n"}


def self_config_file(tooldir):
    """Gen/SelfConfig.v: the repository's own configuration (internal/gontainer/gontainer.yaml + gontainer_*.yaml) as decoded by
    yaml.v3 through the real input structs, merged by the model at proof time"""
    import glob as _glob
    from . import build, model
    d = os.path.join(build.REPO, "internal", "gontainer")
    first = [os.path.join(d, "gontainer.yaml")]
    rest = sorted(_glob.glob(os.path.join(d, "gontainer_*.yaml")))
    files = [{"path": "internal/gontainer/" + os.path.basename(p), "content": open(p).read()} for p in first + rest]
    spec = {"id": "self", "files": files, "patterns": ["internal/gontainer/gontainer.yaml", "internal/gontainer/gontainer_*.yaml"], "output": "out.go",
            "flags": {}, "version": "", "build_info": "", "dump": False}
    ob = build.gx_run(tooldir, [spec])[0]
    order = []
    for g in ob["globs"]:
        order += sorted(m["clean"] for m in g.get("matches") or [])
    terms = []
    for pth in order:
        fi = ob["files"][pth]
        if "input" not in fi:
            raise GenError("self configuration file %s does not decode" % pth)
        terms.append("  (%s, %s)" % (lit(pth), model.input_term(fi["input"])))
    return ("(* GENERATED from /repo/internal/gontainer/*.yaml (decoded by yaml.v3 through gxtool). DO NOT EDIT. *)\n"
            "From GV Require Import Base.Str Model.Input.\n\n"
            "Definition self_files : list (str * input) := [\n" + ";\n".join(terms) + "].\n")


def write_gen(tooldir, gendir):
    os.makedirs(gendir, exist_ok=True)
    try:
        files = gen_files(tooldir)
        files["SelfConfig.v"] = self_config_file(tooldir)
        files["Sites.v"] = sites_file(tooldir)
    except (GenError, KeyError) as e:
        files = {"EnvGen.v": "(* translation failed: %s *)\nFrom GV Require Import Base.Str.\nDefinition translation_failed : True := I I.\n" % e}
    for name, text in files.items():
        p = os.path.join(gendir, name)
        old = open(p).read() if os.path.exists(p) else None
        if old != text:
            with open(p, "w") as f:
                f.write(text)


def site_id(x):
    return "%s|%s|%s" % (x["pkg"], x["func"], x["hash"])


def sites_file(tooldir):
    """Gen/Sites.v: the inventory dumped by sitestool from the current tree, one list per kind"""
    sites = json.load(open(os.path.join(tooldir, "sites.json")))
    out = ["(* GENERATED on every run by harness/vlib/gen.py from sitestool's inventory of /repo. *)",
           "From GV Require Import Base.Str.", "From Coq Require Import List.", "Import ListNotations.", ""]
    for kind, name in (("map-range", "map_range_sites"), ("ambient", "ambient_sites"), ("panic-site", "panic_sites")):
        ids = sorted(site_id(x) for x in sites if x["kind"] == kind)
        out.append("Definition %s : list str := [%s]." % (name, ";\n  ".join(lit(i) for i in ids)))
    return "\n".join(out) + "\n"
