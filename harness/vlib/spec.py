"""Executable reading of the property texts, written independently of the Coq model and of the implementation
(used as the oracle that decides whether the IMPLEMENTATION violates a property on a concrete input)."""
import re

YAML_TOKEN = re.compile(r"\A[A-Za-z]((\.|-|_)?[A-Za-z0-9])*\Z")
GO_TOKEN = re.compile(r"\A[A-Za-z][A-Za-z0-9_]*\Z")
WS = "\t\n\f\r "


def chunks(s):
    """split on % pairs; returns list of chunks or None when a % is unbalanced"""
    if s == "":
        return [""]
    out, buf, opened = [], "", False
    for ch in s:
        if ch == "%":
            if opened:
                out.append(buf + "%")
                buf, opened = "", False
            else:
                if buf:
                    out.append(buf)
                buf, opened = "%", True
        else:
            buf += ch
    if opened:
        return None
    if buf:
        out.append(buf)
    return out


def param_refs(s):
    """names referenced as %name% by a pattern string (in order); [] for an unbalanced pattern"""
    cs = chunks(s)
    if cs is None:
        return []
    return [c[1:-1] for c in cs if len(c) >= 3 and c[0] == "%" and c[-1] == "%" and YAML_TOKEN.match(c[1:-1])]


def classify_arg(v):
    """documented argument forms: ('literal',), ('value', expr), ('service', name), ('tagged', tag), ('gontainer',), ('pattern', refs)"""
    if not isinstance(v, str):
        return ("literal",)
    m = re.match(r"\A!value[\t\n\f\r ]+", v)
    if m:
        return ("value", v[m.end():])
    if v.startswith("@"):
        return ("service", v[1:])
    m = re.match(r"\A!tagged[\t\n\f\r ]+", v)
    if m:
        return ("tagged", v[m.end():])
    if v == "$gontainer":
        return ("gontainer",)
    return ("pattern", param_refs(v))


def service_args(sv):
    """every argument of a service in the order constructor args, call args, fields (sorted by name)"""
    out = list(sv.get("arguments") or [])
    for c in sv.get("calls") or []:
        if isinstance(c, (list, tuple)) and len(c) >= 2 and isinstance(c[1], list):
            out += c[1]
    for k in sorted((sv.get("fields") or {})):
        out.append(sv["fields"][k])
    return out


def tag_name(t):
    return t if isinstance(t, str) else t.get("name")


class Deps:
    """the dependency relation of the statement of C05/C07 on a configuration dict"""

    def __init__(self, cfg):
        self.cfg = cfg
        self.services = cfg.get("services") or {}
        self.params = cfg.get("parameters") or {}
        self.decorators = cfg.get("decorators") or []
        self.carriers = {}
        for n, sv in self.services.items():
            if sv.get("todo"):
                continue
            for t in sv.get("tags") or []:
                self.carriers.setdefault(tag_name(t), []).append(n)

    def arg_targets(self, args):
        """services an argument list depends on directly: @x, and every carrier of a requested tag"""
        out = []
        for a in args:
            c = classify_arg(a)
            if c[0] == "service":
                out.append(c[1])
            elif c[0] == "tagged":
                out += self.carriers.get(c[1], [])
        return out

    def svc_edges(self):
        e = {}
        for n, sv in self.services.items():
            if sv.get("todo"):
                e[n] = set()
                continue
            tg = set(self.arg_targets(service_args(sv)))
            for t in sv.get("tags") or []:
                for d in self.decorators:
                    if d.get("tag") == tag_name(t):
                        tg |= set(self.arg_targets(d.get("arguments") or []))
            e[n] = tg
        return e

    def param_edges(self):
        e = {}
        for n, v in self.params.items():
            e[n] = set(param_refs(v)) if isinstance(v, str) else set()
        return e


def reach(edges, a):
    seen, todo = set(), list(edges.get(a, ()))
    while todo:
        x = todo.pop()
        if x in seen:
            continue
        seen.add(x)
        todo += list(edges.get(x, ()))
    return seen


def on_cycle(edges):
    return {n for n in edges if n in reach(edges, n)}


def dangling(cfg):
    """(referrer, kind, name) for every reference to an undeclared parameter / service"""
    params = set((cfg.get("parameters") or {}))
    services = set((cfg.get("services") or {}))
    out = []
    for n, v in (cfg.get("parameters") or {}).items():
        if isinstance(v, str):
            for r in param_refs(v):
                if r not in params:
                    out.append(('"%' + n + '%"', "param", r))
    for n, sv in (cfg.get("services") or {}).items():
        if sv.get("todo"):
            continue
        for a in service_args(sv):
            c = classify_arg(a)
            if c[0] == "pattern":
                for r in c[1]:
                    if r not in params:
                        out.append(('"@' + n + '"', "param", r))
            elif c[0] == "service" and c[1] not in services:
                out.append(('"' + n + '"', "service", c[1]))
    for j, d in enumerate(cfg.get("decorators") or []):
        for a in d.get("arguments") or []:
            c = classify_arg(a)
            if c[0] == "pattern":
                for r in c[1]:
                    if r not in params:
                        out.append(('decorator(#%d, "%s")' % (j, d["tag"]), "param", r))
            elif c[0] == "service" and c[1] not in services:
                out.append(('decorator(#%d, "%s")' % (j, d["tag"]), "service", c[1]))
    return out


def output_violations(cfg):
    """the violation classes of the output-validation stage as the statements of C05/C06/C07 define them, computed from the
    configuration alone: (scope pairs, cyclic?, dangling parameter refs, dangling service refs)"""
    d = Deps(cfg)
    edges = d.svc_edges()
    pairs = set()
    for a, sv in d.services.items():
        if (sv or {}).get("scope") == "shared":
            for b in reach(edges, a):
                if b != a and (d.services.get(b) or {}).get("scope") == "contextual":
                    pairs.add((a, b))
    cyclic = bool(on_cycle(edges) or on_cycle(d.param_edges()))
    dg = dangling(cfg)
    return pairs, cyclic, [x for x in dg if x[1] == "param"], [x for x in dg if x[1] == "service"]
