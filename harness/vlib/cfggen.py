"""Structured configuration generator (one PRNG state per case), YAML emitter and defect injectors."""
import json
import re


class Raw:
    """a scalar emitted verbatim (non-finite floats, big ints, null, dates, ...)"""

    def __init__(self, text):
        self.text = text

    def __repr__(self):
        return "Raw(%r)" % self.text


def jstr(x):
    """JSON string literal that is also a valid YAML double-quoted scalar (DEL and C1 controls escaped)"""
    out = json.dumps(x, ensure_ascii=False)
    return "".join("\\u%04x" % ord(c) if (0x7f <= ord(c) <= 0x9f or ord(c) in (0x2028, 0x2029, 0xfeff)) else c for c in out)


def emit(v, indent=0):
    """YAML flow-style (JSON superset) emitter; dict key order is preserved"""
    if isinstance(v, Raw):
        return v.text
    if isinstance(v, dict):
        return "{" + ", ".join("%s: %s" % (jstr(k), emit(x)) for k, x in v.items()) + "}"
    if isinstance(v, (list, tuple)):
        return "[" + ", ".join(emit(x) for x in v) + "]"
    if isinstance(v, bool):
        return "true" if v else "false"
    if v is None:
        return "null"
    if isinstance(v, (int, float)):
        return repr(v)
    return jstr(v)


def to_yaml(cfg):
    if isinstance(cfg, Raw):
        return cfg.text + "\n"
    lines = []
    for k, v in cfg.items():
        if isinstance(v, dict) and v and k in ("parameters", "services", "meta"):
            lines.append("%s:" % k)
            for k2, v2 in v.items():
                lines.append("  %s: %s" % (jstr(k2), emit(v2)))
        else:
            lines.append("%s: %s" % (k, emit(v)))
    return "\n".join(lines) + "\n"


GO_IDENTS = ["NewA", "NewB", "MakeC", "Build", "Provide", "New"]
TYPES = ["T", "Srv", "Handler", "Box"]
PKGS = ["example.com/lib", "example.com/lib/sub", "example.com/other", "gv.test/fix/alpha", "gv.test/fix/beta-pkg", "gv.test/fix/x.y"]
ALIASES = ["lib", "other", "al", "al.pha", "be-ta", "f", "fo", "foo", "fmt", "os", "github.com", "errors", "context", "strconv", "reflect"]

LITERALS = [0, 1, -7, 42, True, False, None, 1.5, -0.25, "", "plain", "two words", "x.y", "100%%", "1", "42", "true", "1.5", "<nil>", "nil", "-7", Raw("18446744073709551615"),
            Raw("9223372036854775807"), Raw("-9223372036854775808"), Raw("1e3"), Raw("0x1F"), Raw("~")]
NONFINITE = [Raw(".inf"), Raw("-.inf"), Raw(".nan")]
NONPRIM = [[1, 2], {"a": 1}, Raw("2001-12-14t21:59:43.10-05:00"), [[]], {}]


class Gen:
    def __init__(self, rnd, n_params=None, n_services=None, features=None):
        self.r = rnd
        self.np = n_params if n_params is not None else rnd.randint(0, 5)
        self.ns = n_services if n_services is not None else rnd.randint(0, 5)
        self.pn = ["p%d" % i for i in range(self.np)]
        self.sn = ["s%d" % i for i in range(self.ns)]
        self.tags = ["t%d" % i for i in range(rnd.randint(0, 3))]
        self.f = features or {}
        self.aliases = {}

    def pick(self, l):
        return l[self.r.randrange(len(l))]

    def chance(self, p):
        return self.r.random() < p

    # ---- strings / patterns
    def pattern(self, params, depth=0):
        """a %-pattern over the given parameter names"""
        r = self.r
        n = r.choice([1, 1, 1, 2, 3, 4])
        chunks = []
        for _ in range(n):
            k = r.random()
            if k < 0.35 and params:
                chunks.append("%" + r.choice(params) + "%")
            elif k < 0.45:
                chunks.append("%%")
            elif k < 0.55:
                chunks.append(r.choice(['%env("HOME")%', '%env("GV_NOPE", "dflt")%', '%envInt("GV_INT", 7)%', '%todo()%', '%todo("later")%']))
            else:
                chunks.append(r.choice(["a", " ", "x-y", "é", "/", "0", "lorem ipsum", "\"q\"", "\\", "\n"]))
        return "".join(chunks)

    def value_expr(self):
        r = self.r
        imp = self.import_ref()
        # a dotted selector after an import needs the quoted form (otherwise the last dot-separated word before the
        # final one is read as part of the package path)
        qimp = self.import_ref(quoted_only=True) or '".".'
        forms = ["Value", "&Value", "%sValue" % imp, "%sGlobalVar.Field" % qimp, "&%sGlobalVar.Field" % qimp,
                 "MyStruct{}", "&MyStruct{}", "%sMyStruct{}" % imp, "&%sMyStruct{}" % imp]
        return r.choice(forms)

    def import_ref(self, quoted_only=False):
        """'' or an import followed by '.' in one of the documented spellings"""
        r = self.r
        k = r.random()
        if k < 0.3:
            return ""
        pkg = r.choice(PKGS)
        if k < 0.45:
            return '"%s".' % pkg
        if k < 0.6 and "." not in pkg.split("/")[-1] and not quoted_only:
            return pkg + "."
        if k < 0.7:
            return '".".'
        if self.aliases:
            a = r.choice(sorted(self.aliases))
            sub = "/sub" if r.random() < 0.3 else ""
            if quoted_only or "." in a or r.random() < 0.3:
                return '"%s%s".' % (a, sub)
            return a + sub + "."
        return '"%s".' % pkg

    def arg(self, params=None, services=None, allow_service=True):
        r = self.r
        params = self.pn if params is None else params
        services = self.sn if services is None else services
        k = r.random()
        if k < 0.2 and allow_service and services:
            return "@" + r.choice(services)
        if k < 0.3 and allow_service and self.tags:
            return "!tagged " + r.choice(self.tags)
        if k < 0.4 and allow_service:
            return "!value " + self.value_expr()
        if k < 0.45 and allow_service:
            return "$gontainer"
        if k < 0.7:
            return self.pattern(params)
        return r.choice(LITERALS)

    def service(self, name, idx):
        r = self.r
        sv = {}
        kind = r.choice(["ctor", "ctor", "value", "type", "ctor+type", "value+type"])
        lower = self.sn[:idx] if self.f.get("acyclic", True) else self.sn
        if "ctor" in kind:
            sv["constructor"] = self.import_ref() + r.choice(GO_IDENTS)
            if r.random() < 0.7:
                sv["arguments"] = [self.arg(services=lower) for _ in range(r.randint(0, 3))]
        if "value" in kind:
            sv["value"] = self.value_expr()
        if "type" in kind:
            if "value" in sv:
                # the declared type must be the type of the value: same package, pointer iff the value is an address
                v = sv["value"]
                m = re.match(r'^(&?)((?:"[^"]*"|[^".{}&]+(?:\.[^".{}&/]+)*?(?:/[^".{}&]+)*)\.)?[A-Za-z]', v)
                ptr = "*" if v.startswith("&") else ""
                imp = ""
                body = v.lstrip("&")
                if body.startswith('"'):
                    imp = body[:body.index('"', 1) + 1] + "."
                elif "/" in body or (body.count(".") >= 1 and not body.startswith(("Value", "GlobalVar", "MyStruct"))):
                    head = body.split("{")[0]
                    imp = head[:head.rindex(".") + 1] if "." in head else ""
                sv["type"] = ptr + imp + r.choice(TYPES)
            else:
                sv["type"] = r.choice(["", "*"]) + self.import_ref() + r.choice(TYPES)
        if r.random() < 0.4:
            sv["getter"] = "Get" + name.capitalize().replace(".", "").replace("-", "").replace("_", "")
            if r.random() < 0.5:
                sv["must_getter"] = r.choice([True, False])
        if r.random() < 0.3:
            sv["calls"] = []
            for _ in range(r.randint(1, 3)):
                c = [r.choice(["SetX", "WithY", "Init"])]
                if r.random() < 0.8:
                    c.append([self.arg(services=lower) for _ in range(r.randint(0, 2))])
                    if r.random() < 0.4:
                        c.append(r.choice([True, False]))
                sv["calls"].append(c)
        if r.random() < 0.3:
            sv["fields"] = {fn: self.arg(services=lower) for fn in r.sample(["Name", "Port", "Dep", "Zeta"], r.randint(1, 3))}
        if self.tags and r.random() < 0.5:
            ts = r.sample(self.tags, r.randint(1, len(self.tags)))
            sv["tags"] = [t if r.random() < 0.5 else {"name": t, "priority": r.choice([0, 1, -5, 100, 7])} for t in ts]
        if r.random() < 0.35:
            sv["scope"] = r.choice(["shared", "contextual", "non_shared"])
        if r.random() < 0.08:
            sv["todo"] = True
        return sv

    def config(self):
        r = self.r
        cfg = {}
        meta = {}
        if r.random() < 0.3:
            meta["pkg"] = r.choice(["main", "di", "container"])
        if r.random() < 0.3:
            meta["container_type"] = r.choice(["Gontainer", "MyContainer", "c"])
        if r.random() < 0.3:
            meta["container_constructor"] = r.choice(["NewGontainer", "BuildIt", "newC"])
        if r.random() < 0.3:
            meta["default_must_getter"] = r.choice([True, False])
        if r.random() < 0.6:
            for a in r.sample(ALIASES, r.randint(1, 3)):
                self.aliases[a] = r.choice(PKGS)
            meta["imports"] = dict(self.aliases)
        if r.random() < 0.3:
            meta["functions"] = {fn: self.import_ref() + r.choice(["GetEnv", "Lookup", "Fn"]) for fn in r.sample(["cfg", "lookup", "env"], r.randint(1, 2))}
        if meta:
            cfg["meta"] = meta
        if self.pn:
            ps = {}
            for i, n in enumerate(self.pn):
                lower = self.pn[:i] if self.f.get("acyclic", True) else self.pn
                ps[n] = self.arg(params=lower, allow_service=False)
            cfg["parameters"] = ps
        if self.sn:
            cfg["services"] = {n: self.service(n, i) for i, n in enumerate(self.sn)}
        if self.tags and r.random() < 0.4:
            cfg["decorators"] = []
            for _ in range(r.randint(1, 2)):
                d = {"tag": r.choice(self.tags), "decorator": self.import_ref() + r.choice(["Decorate", "Wrap"])}
                if r.random() < 0.6:
                    d["arguments"] = [self.arg(services=[]) for _ in range(r.randint(0, 2))]
                cfg["decorators"].append(d)
        return cfg


# ---- defect injectors: each returns a description or None if not applicable

def inj_missing_param(r, cfg):
    tgt = "%nope" + str(r.randint(0, 9)) + "%"
    return _inject_arg(r, cfg, tgt, "missing-param")


def inj_missing_service(r, cfg):
    return _inject_arg(r, cfg, "@ghost" + str(r.randint(0, 9)), "missing-service", services_only=True)


def _inject_arg(r, cfg, val, what, services_only=False):
    spots = []
    for n, sv in (cfg.get("services") or {}).items():
        if sv.get("todo"):
            continue
        if "constructor" in sv:
            spots.append(("sarg", n))
        spots.append(("field", n))
        spots.append(("call", n))
    for j, _ in enumerate(cfg.get("decorators") or []):
        spots.append(("darg", j))
    if not services_only:
        for n in (cfg.get("parameters") or {}):
            spots.append(("param", n))
    if not spots:
        return None
    kind, key = r.choice(spots)
    if kind == "sarg":
        cfg["services"][key].setdefault("arguments", []).append(val)
    elif kind == "field":
        cfg["services"][key].setdefault("fields", {})["Injected"] = val
    elif kind == "call":
        cfg["services"][key].setdefault("calls", []).append(["Inject", [val]])
    elif kind == "darg":
        cfg["decorators"][key].setdefault("arguments", []).append(val)
    else:
        cfg["parameters"][key] = "pre " + val
    return "%s:%s:%s" % (what, kind, key)


def inj_cycle(r, cfg):
    svs = [n for n, sv in (cfg.get("services") or {}).items() if not sv.get("todo") and "constructor" in sv]
    if len(svs) >= 1 and r.random() < 0.7:
        a = r.choice(svs)
        b = r.choice(svs)
        cfg["services"][a].setdefault("arguments", []).append("@" + b)
        cfg["services"][b].setdefault("arguments", []).append("@" + a)
        return "cycle:service:%s-%s" % (a, b)
    ps = list((cfg.get("parameters") or {}))
    if ps:
        a = r.choice(ps)
        b = r.choice(ps)
        cfg["parameters"][a] = "%" + b + "%"
        cfg["parameters"][b] = "x%" + a + "%"
        return "cycle:param:%s-%s" % (a, b)
    return None


def inj_scope(r, cfg):
    svs = [n for n, sv in (cfg.get("services") or {}).items() if not sv.get("todo") and "constructor" in sv]
    if len(svs) < 2:
        return None
    a, b = r.sample(svs, 2)
    cfg["services"][a]["scope"] = "shared"
    cfg["services"][b]["scope"] = "contextual"
    cfg["services"][a].setdefault("arguments", []).append("@" + b)
    return "scope:%s->%s" % (a, b)


BAD_NAMES = ["1abc", "a b", "a..b", "-x", "a/b", "", "é", "a_", "x*"]


def inj_grammar(r, cfg):
    k = r.choice(["pname", "sname", "getter", "ctor", "type", "value", "tag", "field", "call", "pkg", "alias", "import",
                  "nonprim-param", "nonprim-arg", "ctor+value", "missing-ctor", "args-noctor", "must-prefix", "incontext",
                  "reserved", "dup-tag", "dec-tag", "dec-method", "fn", "gofn", "must-no-getter"])
    svs = [n for n, sv in (cfg.get("services") or {}).items() if not sv.get("todo")]
    bad = r.choice(BAD_NAMES)
    if k in ("getter", "pkg", "fn") and bad == "a_":
        bad = "9a"              # ("a_" is outside the name grammar of parameters / services / tags, but it is a Go identifier)
    if k == "pname":
        cfg.setdefault("parameters", {})[bad] = 1
    elif k == "sname":
        cfg.setdefault("services", {})[bad] = {"value": "V"}
    elif k == "pkg":
        cfg.setdefault("meta", {})["pkg"] = bad
    elif k == "alias":
        cfg.setdefault("meta", {}).setdefault("imports", {})[bad] = "example.com/lib"
    elif k == "import":
        cfg.setdefault("meta", {}).setdefault("imports", {})["okalias"] = r.choice(["1x/y", "a b", "", "\"unterminated", "a//b/", "/abs"])
    elif k == "fn":
        cfg.setdefault("meta", {}).setdefault("functions", {})[bad] = "os.Getenv"
    elif k == "gofn":
        cfg.setdefault("meta", {}).setdefault("functions", {})["okfn"] = r.choice(["os.", ".X", "a b.C", "1x", "x.y.z()"])
    elif k == "nonprim-param":
        cfg.setdefault("parameters", {})["np"] = r.choice(NONPRIM)
    elif k == "dec-tag":
        cfg.setdefault("decorators", []).append({"tag": bad, "decorator": "Decorate"})
    elif k == "dec-method":
        cfg.setdefault("decorators", []).append({"tag": "t0", "decorator": r.choice(["a b", "x.", "1F", ""])})
    elif not svs:
        return None
    else:
        n = r.choice(svs)
        sv = cfg["services"][n]
        if k == "getter":
            sv["getter"] = bad
        elif k == "ctor":
            sv["constructor"] = r.choice(["New X", "pkg.", "1New", "a.b.c()", "&New"])
            sv.pop("value", None)
        elif k == "type":
            sv["type"] = r.choice(["**T", "T*", "[]T", "a b.T", "*", "map[string]T"])
        elif k == "value":
            sv["value"] = r.choice(["&&V", "V{", "V{}{}", "a b", "1V", "V()", ""])
            sv.pop("constructor", None)
            sv.pop("arguments", None)
        elif k == "tag":
            sv.setdefault("tags", []).append(bad)
        elif k == "field":
            sv.setdefault("fields", {})[r.choice(["1F", "a b", "F-x", "é"])] = 1
        elif k == "call":
            sv.setdefault("calls", []).append([r.choice(["1m", "a b", "m()", ""])])
        elif k == "nonprim-arg":
            if "constructor" in sv:
                sv.setdefault("arguments", []).append(r.choice(NONPRIM))
            else:
                sv.setdefault("fields", {})["Np"] = r.choice(NONPRIM)
        elif k == "ctor+value":
            sv["constructor"] = "NewA"
            sv["value"] = "V"
        elif k == "missing-ctor":
            for x in ("constructor", "value", "type", "arguments"):
                sv.pop(x, None)
        elif k == "args-noctor":
            sv.pop("constructor", None)
            sv["value"] = "V"
            sv["arguments"] = [1]
        elif k == "must-prefix":
            sv["getter"] = "MustGetIt"
        elif k == "incontext":
            sv["getter"] = "GetItInContext"
        elif k == "reserved":
            sv["getter"] = r.choice(["Get", "GetParam", "Root", "HotSwap", "OverrideService"])
        elif k == "dup-tag":
            sv["tags"] = ["dup", {"name": "dup", "priority": 2}, "other"]
        elif k == "must-no-getter":
            sv.pop("getter", None)
            sv["must_getter"] = True
    return "grammar:" + k


def inj_pattern(r, cfg):
    bad = r.choice(["%", "a%b", "%unknownFn()%", "%a b%", "%%%", "%x(%", "100%", "%nope()% %", "%1x%"])
    return _inject_arg(r, cfg, bad, "pattern")


INJECTORS = {"missing-param": inj_missing_param, "missing-service": inj_missing_service, "cycle": inj_cycle,
             "scope": inj_scope, "grammar": inj_grammar, "pattern": inj_pattern}


def split_files(r, cfg, n):
    """distribute a configuration over n files respecting the merge rules (later files override / append)"""
    files = [dict() for _ in range(n)]
    for sec, v in cfg.items():
        if sec == "version":
            files[r.randrange(n)]["version"] = v
        elif sec == "meta":
            for k, x in v.items():
                if isinstance(x, dict):
                    for k2, x2 in x.items():
                        files[r.randrange(n)].setdefault("meta", {}).setdefault(k, {})[k2] = x2
                else:
                    files[r.randrange(n)].setdefault("meta", {})[k] = x
        elif sec == "parameters":
            for k, x in v.items():
                files[r.randrange(n)].setdefault("parameters", {})[k] = x
        elif sec == "services":
            for name, sv in v.items():
                if r.random() < 0.5:
                    files[r.randrange(n)].setdefault("services", {})[name] = sv
                    continue
                # attribute-level split
                for k, x in sv.items():
                    if k in ("calls", "tags") and len(x) > 1:
                        cut = r.randint(1, len(x) - 1)
                        i1, i2 = sorted(r.sample(range(n), 2)) if n > 1 else (0, 0)
                        if i1 == i2:
                            files[i1].setdefault("services", {}).setdefault(name, {})[k] = x
                        else:
                            files[i1].setdefault("services", {}).setdefault(name, {})[k] = x[:cut]
                            files[i2].setdefault("services", {}).setdefault(name, {})[k] = x[cut:]
                    elif k == "fields":
                        for fk, fv in x.items():
                            files[r.randrange(n)].setdefault("services", {}).setdefault(name, {}).setdefault("fields", {})[fk] = fv
                    else:
                        files[r.randrange(n)].setdefault("services", {}).setdefault(name, {})[k] = x
        elif sec == "decorators":
            # order must be kept: assign non-decreasing file indices
            idx = sorted(r.randrange(n) for _ in v)
            for i, d in zip(idx, v):
                files[i].setdefault("decorators", []).append(d)
    return files
