"""Verdict protocol: evidence files, replays, VIOLATION / KNOWN-FINDING lines."""
import hashlib
import json
import os
import sys
import time

from .build import VERIF

TRUSTED_BASE = [
    "Coq 8.16.1 kernel + VM (vm_compute); no native_compute; full .vo build with coq_makefile (no -vos)",
    "axioms: none declared; Print Assumptions of every Props theorem is recorded in coverage.assumptions_report",
    "translator harness/gotools/gxtool (regexp/syntax dump, reflection/const dump) built into /repo's module with go build -overlay; harness/vlib/gen.py (JSON -> Gen/*.v)",
    "correspondence harness (Python) + Go toolchain 1.23.5; the real CLI code paths are executed in-process through cmd.NewBuildCmd",
    "modelled, not verified: yaml.v3, x/mod/semver, gontainer-helpers (grouperror, exporter, container, graph/gonum), text/template, go/format, x/tools/imports, cobra, filepath.Glob/Clean, os file I/O",
]


def known_findings():
    p = os.path.join(VERIF, "known_findings.json")
    if not os.path.exists(p):
        return {"findings": [], "fixed": []}
    return json.load(open(p))


class Outcome:
    def __init__(self, pid, tier, seed):
        self.pid, self.tier, self.seed = pid, tier, seed
        self.t0 = time.time()
        self.violations = []     # dicts: key, what, replay(dict), found(bool)
        self.broken = []         # names of theorems / correspondences that no longer check
        self.coverage = {}
        self.assumptions = []

    def violation(self, key, what, replay):
        """an input on which the IMPLEMENTATION contradicts the property"""
        self.violations.append({"key": key, "what": what, "replay": replay})

    def broke(self, name, detail=None):
        """a theorem / tie lemma / correspondence that no longer checks (not by itself a failing input)"""
        self.broken.append({"name": name, "detail": detail})

    def finish(self):
        kf = known_findings()
        known = {(f["property"], f["key"]): f for f in kf.get("findings", [])}
        rc = 0
        lines = []
        unknown = []
        seen_known = set()
        for v in self.violations:
            k = (self.pid, v["key"])
            if k in known:
                if k not in seen_known:
                    seen_known.add(k)
                    lines.append("KNOWN-FINDING: property=%s %s" % (self.pid, known[k]["what"]))
            else:
                unknown.append(v)
        rdir = os.path.join(VERIF, "replays", self.pid)
        if unknown:
            rc = 1
            os.makedirs(rdir, exist_ok=True)
            seen = set()
            for v in unknown:
                if v["key"] in seen:
                    continue
                seen.add(v["key"])
                if len(seen) > 5:
                    break
                h = hashlib.sha256(json.dumps(v["replay"], sort_keys=True, default=str).encode()).hexdigest()[:12]
                path = os.path.join(rdir, h + ".json")
                json.dump({"property": self.pid, "key": v["key"], "what": v["what"], "replay": v["replay"],
                           "broken": self.broken}, open(path, "w"), indent=1, default=str)
                lines.append("VIOLATION property=%s replay=%s" % (self.pid, os.path.relpath(path, VERIF)))
        elif self.broken:
            # something no longer checks and no failing input was found (known findings do not explain a broken proof)
            rc = 1
            os.makedirs(rdir, exist_ok=True)
            h = hashlib.sha256(json.dumps(self.broken, sort_keys=True, default=str).encode()).hexdigest()[:12]
            path = os.path.join(rdir, "broken_" + h + ".json")
            json.dump({"property": self.pid, "no_longer_checks": self.broken,
                       "note": "the property is no longer shown to hold; the search over the spec oracle found no input on which the implementation fails"},
                      open(path, "w"), indent=1, default=str)
            lines.append("VIOLATION property=%s replay=%s no-failing-input-found" % (self.pid, os.path.relpath(path, VERIF)))
        cov = dict(self.coverage)
        cov.setdefault("trusted_base", TRUSTED_BASE)
        ev = {
            "property_id": self.pid, "tier": self.tier, "seed": self.seed, "level": "proof",
            "coverage": cov, "assumptions": self.assumptions, "wall_s": round(time.time() - self.t0, 2),
            "violations": len(unknown) + (1 if (self.broken and not unknown) else 0),
        }
        os.makedirs(os.path.join(VERIF, "evidence"), exist_ok=True)
        json.dump(ev, open(os.path.join(VERIF, "evidence", self.pid + ".json"), "w"), indent=1, default=str)
        for l in lines:
            print(l)
        if rc == 0:
            print("OK property=%s tier=%s obligations=%s/%s evaluations=%s wall=%.1fs" % (
                self.pid, self.tier, cov.get("discharged"), cov.get("obligations"), cov.get("evaluations"), time.time() - self.t0))
        sys.stdout.flush()
        return rc
