"""Run-time correspondence: real generated container + real runtime library (probe binaries) vs the Coq runtime model."""
import json
import os
import re
import subprocess

from . import build, coqrun, gobuild, model
from .coqrun import lit
from .model import esc_bytes

PROBE_TPL = os.path.join(build.GOTOOLS, "fixture", "probe.go.tpl")
ENVV = {"GV_SET": "from-env", "GV_INT": "42", "GV_BAD": "4x2", "GV_EMPTY": "", "GV_Z": "007", "GV_NEG0": "-0", "GV_PLUS": "+5", "GV_BIG": "9223372036854775808", "GV_MIN": "-9223372036854775808",
        "GV_PADL": " 8080", "GV_PADNL": "8080\n", "GV_PADT": "\t7\t", "GV_HEX": "0x10", "GV_UND": "1_000", "GV_EXP": "1e3"}


def esc(x):
    return esc_bytes(x.encode("utf-8", "surrogateescape") if isinstance(x, str) else x).decode("ascii")


def canon(d):
    """the probe's JSON description -> the text format of Runtime/Show.v"""
    k = d.get("k")
    if k == "nil":
        return "N"
    if k == "bool":
        return "B1" if d["v"] else "B0"
    if k == "num":
        return "I(%s,%s)" % (d["t"], d["v"])
    if k == "str":
        return "S(%s)" % (esc(bytes.fromhex(d["hex"])) if "hex" in d else esc(d["v"]))
    if k == "obj":
        fields = ",".join("%s=%s" % (n, canon(v)) for n, v in sorted(d["fields"].items()) if canon(v) != "N")
        return "O(%s;[%s];{%s};[%s];#%d)" % (esc(d["origin"]), ",".join(canon(a) for a in d["args"]), fields, ",".join(d["log"]), d["serial"])
    if k == "list":
        return "L[%s]" % ",".join(canon(x) for x in d["items"])
    if k == "container":
        return "C"
    if k == "err":
        return "E(%s)" % esc(d["msg"])
    if k == "panic":
        return "PANIC(%s)" % esc(d["msg"])
    return "?(%s)" % json.dumps(d, sort_keys=True)


SER = re.compile(r";#(\d+)\)")


def renumber(lines):
    """serial numbers -> order of first appearance over the whole history (0 stays 0: not allocated by a constructor)"""
    m = {}

    def f(mo):
        n = int(mo.group(1))
        if n == 0:
            return ";#0)"
        if n not in m:
            m[n] = len(m) + 1
        return ";#%d)" % m[n]
    return [SER.sub(f, l) for l in lines]


def op_term(o):
    k = o["op"]
    if k == "get":
        return "(OGet %s)" % lit(o["name"])
    if k == "getctx":
        return "(OGetCtx %d%%N %s)" % (o["ctx"], lit(o["name"]))
    if k == "tagged":
        return "(OTagged %s)" % lit(o["name"])
    if k == "taggedctx":
        return "(OTaggedCtx %d%%N %s)" % (o["ctx"], lit(o["name"]))
    if k == "param":
        return "(OGetParam %s)" % lit(o["name"])
    if k == "newctx":
        return "(ONewCtx %d%%N)" % o["ctx"]
    if k == "override_param":
        return "(OOverrideParam %s %s)" % (lit(o["name"]), prim_of(o["kind"], o["value"]))
    if k == "override_service":
        return "(OOverrideService %s %s [%s])" % (lit(o["name"]), lit("." + "." + o["origin"]), "; ".join(prim_of(a["kind"], a["value"]) for a in o["args"]))
    raise KeyError(k)


def prim_of(kind, v):
    if kind == "int":
        return "(PInt (s \"int\") %s)" % lit(str(int(v)))
    if kind == "nil":
        return "PNil"
    if kind == "bool":
        return "(PBool %s)" % ("true" if v else "false")
    return "(PStr %s)" % lit(v)


def model_histories(env, specs, obss, histories):
    """per case: list of result strings (or ['rejected'])"""
    envt = "[" + "; ".join("(%s, %s)" % (lit(k), lit(v)) for k, v in sorted(ENVV.items())) + "]"
    from concurrent.futures import ThreadPoolExecutor
    chunk = max(5, (len(specs) + 11) // 12)
    starts = list(range(0, len(specs), chunk))

    def work(a):
        body = "Definition envv : list (str * str) := %s.\n" % envt
        body += "Definition cases : list (case * list op) := [\n" + ";\n".join(
            "(%s, [%s])" % (model.case_term(sp, ob), "; ".join(op_term(o) for o in h if o["op"] not in ("getter", "getterctx", "circular", "invocations")))
            for sp, ob, h in zip(specs[a:a + chunk], obss[a:a + chunk], histories[a:a + chunk])) + "].\n"
        body += "Eval vm_compute in flat_map (fun ch => observe_rt (fst ch) envv (snd ch)) cases.\n"
        return coqrun.coq_eval(env, ["Base.Str", "Model.Input", "Model.Runner", "Runtime.RT", "Runtime.Load", "Corr.Run", "Corr.RunRT"], body, "rt%d" % a)

    with ThreadPoolExecutor(max_workers=12) as ex:
        results = list(ex.map(work, starts))
    out, cur = [], []
    for rc, txt in results:
        if rc != 0:
            return None, txt[-3000:]
        for line in coqrun.parse_strings(txt):
            if line == "=====":
                out.append(cur)
                cur = []
            else:
                cur.append(coqrun.unesc(line).decode("utf-8", "replace") if False else line)
    if len(out) != len(specs):
        return None, "model produced %d histories for %d cases" % (len(out), len(specs))
    return out, ""


def real_histories(tooldir, specs, obss, histories, race=False, repeat=1, timeout=900):
    """build one probe binary per accepted case (all in one `go build -o dir ./gen/...`), run the histories.
    returns per case: list of result dicts (probe JSON) or None when the case was rejected / did not build"""
    b = gobuild.Batch()
    res = [None] * len(specs)
    notes = {}
    try:
        names = {}
        for k, (sp, ob) in enumerate(zip(specs, obss)):
            if ob.get("exit") != 0 or not ob.get("out_content"):
                continue
            src = ob["out_content"]
            pkg = re.search(r"^package (\w+)", src, re.M).group(1)
            ctor = re.search(r"^func (\w+)\(\) \(rootGontainer \*", src, re.M)
            if pkg != "main" or not ctor:
                notes[k] = "not package main"
                continue
            name = "p%04d" % k
            probe = open(PROBE_TPL).read().replace("@CTOR@", ctor.group(1))
            b.add(name, src, "main", extra_files={"zz_probe.go": probe})
            names[k] = name
        bindir = os.path.join(b.dir, "bin")
        os.makedirs(bindir, exist_ok=True)
        env = dict(gobuild.GOENV)
        if race:
            env["CGO_ENABLED"] = "1"
        cmd = ["go", "build"] + (["-race"] if race else []) + ["-o", bindir + "/", "./gen/..."]
        p = subprocess.run(cmd, cwd=b.dir, env=env, stdout=subprocess.PIPE, stderr=subprocess.STDOUT, text=True, timeout=timeout)
        build_out = p.stdout
        penv = {"PATH": os.environ.get("PATH", "")}
        penv.update(ENVV)
        for k, name in names.items():
            binp = os.path.join(bindir, name)
            if not os.path.exists(binp):
                notes[k] = "build failed: " + "\n".join(l for l in build_out.splitlines() if name in l)[:1500]
                continue
            opsf = os.path.join(b.dir, name + ".ops.json")
            json.dump(histories[k], open(opsf, "w"))
            runs = []
            for _ in range(repeat):
                q = subprocess.run([binp, opsf], env=penv, stdout=subprocess.PIPE, stderr=subprocess.PIPE, text=True, timeout=120)
                lines = []
                for l in q.stdout.split("\n"):
                    try:
                        lines.append(json.loads(l))
                    except ValueError:
                        pass
                runs.append({"rc": q.returncode, "lines": lines, "stderr": q.stderr[-3000:]})
            res[k] = runs if repeat > 1 else runs[0]
    finally:
        b.close()
    return res, notes


def err_matches(model_line, real_line):
    """both are errors and the model's root cause occurs in the real message"""
    if not (model_line.startswith("E(") and real_line.startswith("E(")):
        return False
    cause = model_line[2:-1]
    return cause in real_line
