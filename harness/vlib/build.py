"""Build / cache layer: everything a check needs is rebuilt from /repo's *current working tree*.

cache layout:  /verif/.cache/<tree-hash>/{gontainer, gxtool, overlay.json, regex.json, consts.json, coq/...}
The tree hash covers every tracked or untracked (non-ignored) file of /repo plus the harness sources that
take part in the build, so an edit of either invalidates the cache.
"""
import fcntl
import hashlib
import json
import os
import shutil
import subprocess
import sys
import time

VERIF = os.path.dirname(os.path.dirname(os.path.dirname(os.path.abspath(__file__))))
REPO = os.environ.get("VERIF_REPO", "/repo")
CACHE = os.path.join(VERIF, ".cache")
GOTOOLS = os.path.join(VERIF, "harness", "gotools")

GOENV = dict(os.environ)
GOENV.update({
    "GOFLAGS": "-mod=mod", "GOPROXY": "off", "GOSUMDB": "off", "GOTOOLCHAIN": "local",
    "CGO_ENABLED": os.environ.get("CGO_ENABLED", "0"),
})
GOENV.pop("GONOSUMDB", None)


def log(*a):
    print("[vcheck]", *a, file=sys.stderr, flush=True)


def run(cmd, cwd=None, env=None, timeout=None, check=True, input=None):
    p = subprocess.run(cmd, cwd=cwd, env=env or GOENV, timeout=timeout, input=input,
                       stdout=subprocess.PIPE, stderr=subprocess.PIPE, text=True)
    if check and p.returncode != 0:
        raise BuildError("command failed: %s\n%s\n%s" % (" ".join(cmd), p.stdout[-4000:], p.stderr[-4000:]))
    return p


class BuildError(Exception):
    pass


def _files_of(root, with_git=True):
    if with_git and os.path.isdir(os.path.join(root, ".git")):
        p = subprocess.run(["git", "-C", root, "ls-files", "-co", "--exclude-standard", "-z"],
                           stdout=subprocess.PIPE, check=True)
        return sorted(x for x in p.stdout.decode().split("\0") if x)
    out = []
    for d, _, fs in os.walk(root):
        for f in fs:
            out.append(os.path.relpath(os.path.join(d, f), root))
    return sorted(out)


def tree_hash():
    h = hashlib.sha256()
    for rel in _files_of(REPO):
        p = os.path.join(REPO, rel)
        if not os.path.isfile(p):
            continue
        h.update(rel.encode() + b"\0")
        with open(p, "rb") as f:
            h.update(hashlib.sha256(f.read()).digest())
    for rel in _files_of(GOTOOLS, with_git=False):
        p = os.path.join(GOTOOLS, rel)
        h.update(b"T" + rel.encode() + b"\0")
        with open(p, "rb") as f:
            h.update(hashlib.sha256(f.read()).digest())
    return h.hexdigest()[:20]


class Lock:
    def __init__(self, path):
        self.path = path

    def __enter__(self):
        os.makedirs(os.path.dirname(self.path), exist_ok=True)
        self.f = open(self.path, "w")
        fcntl.flock(self.f, fcntl.LOCK_EX)
        return self

    def __exit__(self, *a):
        fcntl.flock(self.f, fcntl.LOCK_UN)
        self.f.close()


ACCESS = {
    "input_access.go": "internal/pkg/input/zz_verif_access.go",
    "compiler_access.go": "internal/pkg/compiler/zz_verif_access.go",
    "syntax_access.go": "internal/pkg/syntax/zz_verif_access.go",
    "resolver_access.go": "internal/pkg/resolver/zz_verif_access.go",
    "token_access.go": "internal/pkg/token/zz_verif_access.go",
    "imports_access.go": "internal/pkg/imports/zz_verif_access.go",
    "runner_access.go": "internal/cmd/runner/zz_verif_access.go",
    "cmd_access.go": "internal/cmd/zz_verif_access.go",
}


def prune_cache(keep):
    try:
        ents = [e for e in os.listdir(CACHE) if os.path.isdir(os.path.join(CACHE, e)) and e != keep and not e.startswith("_")]
    except FileNotFoundError:
        return
    ents.sort(key=lambda e: os.path.getmtime(os.path.join(CACHE, e)), reverse=True)
    for e in ents[4:]:
        shutil.rmtree(os.path.join(CACHE, e), ignore_errors=True)


def ensure_tools():
    """Build (or reuse) the CLI binary and gxtool for the current tree. Returns the cache dir."""
    th = tree_hash()
    d = os.path.join(CACHE, th)
    with Lock(os.path.join(CACHE, "_lock_" + th)):
        stamp = os.path.join(d, "tools.ok")
        if os.path.exists(stamp):
            os.utime(d)
            return d
        t0 = time.time()
        os.makedirs(d, exist_ok=True)
        # 1. the real CLI
        run(["go", "build", "-o", os.path.join(d, "gontainer"), "."], cwd=REPO, timeout=600)
        # 2. gxtool inside /repo's module through an overlay (nothing is written under /repo)
        repl = {os.path.join(REPO, "internal/zzverif/main.go"): os.path.join(GOTOOLS, "gxtool", "main.go")}
        for src, dst in ACCESS.items():
            repl[os.path.join(REPO, dst)] = os.path.join(GOTOOLS, "access", src)
        ov = os.path.join(d, "overlay.json")
        with open(ov, "w") as f:
            json.dump({"Replace": repl}, f)
        run(["go", "build", "-overlay", ov, "-o", os.path.join(d, "gxtool"), "./internal/zzverif"], cwd=REPO, timeout=600)
        # 3. dumps
        p = run([os.path.join(d, "gxtool"), "regex"], timeout=120)
        with open(os.path.join(d, "regex.json"), "w") as f:
            f.write(p.stdout)
        p = run([os.path.join(d, "gxtool"), "consts"], timeout=120)
        with open(os.path.join(d, "consts.json"), "w") as f:
            f.write(p.stdout)
        # 4. inventory of order-sensitive / ambient / panic-prone constructs (separate module, type-checked with go/packages)
        st = os.path.join(CACHE, "_sitestool")
        with Lock(os.path.join(CACHE, "_lock_sitestool")):
            srcs = [os.path.join(GOTOOLS, "sitestool", f) for f in ("main.go", "go.mod", "go.sum")]
            if not os.path.exists(st) or any(os.path.getmtime(x) > os.path.getmtime(st) for x in srcs):
                run(["go", "build", "-o", st, "."], cwd=os.path.join(GOTOOLS, "sitestool"), timeout=600)
        p = run([st, REPO], timeout=600)
        with open(os.path.join(d, "sites.json"), "w") as f:
            f.write(p.stdout)
        open(stamp, "w").write("%.1f\n" % (time.time() - t0))
        log("tools built for tree %s in %.1fs" % (th, time.time() - t0))
        prune_cache(th)
    return d


def unmark(v):
    """strings that are not valid UTF-8 arrive as a hex marker (gxtool hexInvalid): back to str with surrogateescape (exact bytes)"""
    if isinstance(v, str):
        return bytes.fromhex(v[5:]).decode("utf-8", "surrogateescape") if v.startswith("\ue000HEX:") else v
    if isinstance(v, list):
        return [unmark(x) for x in v]
    if isinstance(v, dict):
        return {unmark(k): unmark(x) for k, x in v.items()}
    return v


GXKEYS = ("id", "files", "patterns", "output", "flags", "version", "build_info", "dump", "keep_out", "no_output_flag",
          "no_input_flag", "extra_args")


def _mark(s):
    """a str that is not encodable as UTF-8 (lone surrogates from surrogateescape) travels as the hex marker gxtool understands"""
    if isinstance(s, str):
        try:
            s.encode("utf-8")
        except UnicodeEncodeError:
            return "\ue000HEX:" + s.encode("utf-8", "surrogateescape").hex()
    return s


def _wire(c):
    d = {k: c[k] for k in GXKEYS if k in c}
    d["files"] = [dict({k_: v_ for k_, v_ in f.items() if k_ in ("path", "content", "dir", "mode", "link")}, content=_mark(f.get("content", "")), path=_mark(f["path"])) for f in d.get("files", [])]
    d["patterns"] = [_mark(p) for p in d.get("patterns", [])]
    if "output" in d:
        d["output"] = _mark(d["output"])
    return d


def gx_run(d, cases, timeout=600, jobs=None):
    """Run gxtool on a list of case dicts (parallel shards); returns list of observation dicts in order."""
    if not cases:
        return []
    jobs = jobs or min(16, max(1, len(cases) // 20))
    shards = [cases[i::jobs] for i in range(jobs)]
    procs = []
    tmpbase = os.path.join("/dev/shm", "gvtmp_%d" % os.getpid())
    for k, sh in enumerate(shards):
        data = "\n".join(json.dumps(_wire(c)) for c in sh) + "\n"
        p = subprocess.Popen([os.path.join(d, "gxtool"), "run", tmpbase + "_%d" % k], stdin=subprocess.PIPE,
                             stdout=subprocess.PIPE, stderr=subprocess.PIPE, text=True, env=GOENV)
        procs.append((p, data))
    outs = []
    # feed in threads to avoid deadlocks
    import threading
    results = [None] * len(procs)

    def work(i):
        p, data = procs[i]
        try:
            o, e = p.communicate(data, timeout=timeout)
        except subprocess.TimeoutExpired:
            p.kill()
            o, e = p.communicate()
            results[i] = ("timeout", o, e)
            return
        results[i] = (p.returncode, o, e)

    ths = [threading.Thread(target=work, args=(i,)) for i in range(len(procs))]
    for t in ths:
        t.start()
    for t in ths:
        t.join()
    per = []
    for k, (rc, o, e) in enumerate(results):
        shutil.rmtree(tmpbase + "_%d" % k, ignore_errors=True)
        lines = [unmark(json.loads(x)) for x in o.split("\n") if x.strip()]
        if len(lines) != len(shards[k]):
            # the process died (panic outside recover / os.Exit): mark the case after the last answer
            # (a reported hang ends the process by itself: nothing crashed)
            if not (lines and lines[-1].get("hang")):
                lines.append({"id": shards[k][len(lines)]["id"], "crashed": True, "rc": rc, "stderr": e[-4000:]})
            while len(lines) < len(shards[k]):
                lines.append({"id": shards[k][len(lines)]["id"], "skipped": True})
        per.append(lines)
    res = [None] * len(cases)
    for k in range(jobs):
        for j, o in enumerate(per[k]):
            res[k + j * jobs] = o
    bad = [o for o in res if o is not None and o.get("harness_error")]
    if bad:
        raise RuntimeError("gxtool could not take a case (harness fault): %s" % bad[0]["harness_error"])
    # cases that were not reached because their process died or was stopped by the watchdog run again in fresh processes
    left = [i for i, o in enumerate(res) if o.get("skipped")]
    if left and len(left) < len(cases):
        again = gx_run(d, [cases[i] for i in left], timeout=timeout, jobs=min(jobs, max(1, len(left) // 5)))
        for i, o in zip(left, again):
            res[i] = o
    return res


def gx_format(d, texts, timeout=600):
    """pipe texts through the repo's real CodeFormatter; returns list of {'out':..} / {'err':..}"""
    if not texts:
        return []
    p = subprocess.run([os.path.join(d, "gxtool"), "format"], input="\n".join(json.dumps(t) for t in texts) + "\n",
                       stdout=subprocess.PIPE, stderr=subprocess.PIPE, text=True, env=GOENV, timeout=timeout)
    return [json.loads(l) for l in p.stdout.split("\n") if l.strip()]


def gx_api(d, sources, timeout=600):
    """AST view of Go sources (package, constraints, imports, types, funcs, methods with import-path-qualified signatures)"""
    if not sources:
        return []
    p = subprocess.run([os.path.join(d, "gxtool"), "api"], input="\n".join(json.dumps(t) for t in sources) + "\n",
                       stdout=subprocess.PIPE, stderr=subprocess.PIPE, text=True, env=GOENV, timeout=timeout)
    return [json.loads(l) for l in p.stdout.split("\n") if l.strip()]
