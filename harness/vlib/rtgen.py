"""Generator of accepted configurations over the fixture universe together with probe histories (run-time properties)."""
from . import cfggen

PKG_ALIASES = {"al": "gv.test/fix/alpha", "ot": "example.com/other"}
CTORS = ["NewA", "NewB", "MakeC", "al.NewA", "al.Build", "ot.Provide", "\"example.com/lib\".New"]
LITS = [0, 1, -7, 42, True, False, None, 1.5, "", "plain", "two words", "1", "true", "é\"q\"\\", cfggen.Raw("18446744073709551615"), cfggen.Raw("-9223372036854775808"),
        cfggen.Raw("3.141592653589793"), cfggen.Raw("16777217.0"), cfggen.Raw("1e300"), cfggen.Raw("0.1"), cfggen.Raw("1e-7"), cfggen.Raw("-2.2250738585072014e-308"), cfggen.Raw("-0.0"), cfggen.Raw(".inf"), cfggen.Raw("-.inf"), cfggen.Raw(".nan"),
        # huge magnitudes that need all their digits (written in the exponent form by the tool), integers beyond uint64 (decoded as floats)
        cfggen.Raw("1.7976931348623157e308"), cfggen.Raw("-9.87654321e+25"), cfggen.Raw("1.2345678901234567e19"), cfggen.Raw("18446744073709551616"), cfggen.Raw("123456789012345678901234567890"),
        "$gontainer ", " $gontainer", "$gontainerX", " @s0", "!valueX", "nil", "1.5", "false", "42", "!tagged", "!value"]
# plain text as a PARAMETER value only (as an argument the tool rejects it as an invalid service reference)
PARAM_ONLY_LITS = ["@", "@s0", "!value X", "$gontainer"]


class RtGen:
    def __init__(self, r, n_services=None, n_params=None, weights=None):
        self.r = r
        self.w = dict({"todo": 0.08, "failing": 0.05, "scope": 0.4, "tags": 0.5, "decorators": 0.5, "calls": 0.4, "fields": 0.4, "getter": 0.4, "value_services": 0.25}, **(weights or {}))
        self.ns = n_services if n_services is not None else r.randint(2, 6)
        self.np = n_params if n_params is not None else r.randint(1, 5)
        self.tags = ["t%d" % i for i in range(r.randint(int(self.w.get("min_tags", 0)), 3))]
        self.carriers = {t: [] for t in self.tags}

    def pattern(self, lower_params):
        r = self.r
        n = r.choice([1, 1, 2, 3])
        out = []
        for _ in range(n):
            k = r.random()
            if k < 0.4 and lower_params:
                out.append("%" + r.choice(lower_params) + "%")
            elif k < 0.5:
                out.append("%%")
            elif k < 0.5 + self.w["failing"]:
                # chunks that fail at run time (first, middle or last chunk of the pattern alike)
                out.append(r.choice(['%env("GV_NOPE")%', '%fn("fail")%', '%envInt("GV_SET")%', '%todo("inline")%', '%envInt("GV_NOPE")%']))
            elif k < 0.7:
                out.append(r.choice(['%env("GV_SET")%', '%env("GV_NOPE", "dflt")%', '%envInt("GV_INT")%', '%envInt("GV_NOPE", 7)%', '%fn("x", 3)%', '%lk("k")%']))
            else:
                out.append(r.choice(["a", " ", "x-y", "é", "/", "0", "lorem ipsum", "\"q\"", "\\", "\"", "say \"", "'", "`", "(", ")", ", "]))
        return "".join(out)

    def arg(self, i, params):
        r = self.r
        k = r.random()
        lower = ["s%d" % j for j in range(i)]
        if k < 0.25 and lower:
            return "@" + r.choice(lower)
        if k < 0.35:
            ok = [t for t in self.tags if self.carriers[t] and max(self.carriers[t]) < i and t not in getattr(self, "own_tags", ())]
            if ok:
                return "!tagged " + r.choice(ok)
        if k < 0.42:
            return "$gontainer"
        if k < 0.5:
            return "!value " + r.choice(["Value", "al.Value", "\"example.com/lib\".GlobalVar.Field", "&MyStruct{}", "ot.MyStruct{}"])
        if k < 0.7:
            return self.pattern(params)
        return r.choice(LITS)

    def config(self):
        r = self.r
        cfg = {"meta": {"imports": dict(PKG_ALIASES), "functions": {"fn": "al.Fn", "lk": "\"example.com/lib\".Lookup"}}}
        params = {}
        names = []
        for i in range(self.np):
            n = "p%d" % i
            k = r.random()
            if k < 0.12:
                params[n] = r.choice(['%todo()%', '%todo("fill me")%'])
            elif k < 0.55:
                params[n] = self.pattern(names)
            else:
                params[n] = r.choice(LITS + PARAM_ONLY_LITS)
            names.append(n)
        cfg["parameters"] = params
        svcs = {}
        for i in range(self.ns):
            n = "s%d" % i
            if r.random() < self.w["todo"]:
                svcs[n] = {"todo": True}
                continue
            sv = {}
            # the tags of this service are decided first: it never requests a tag it carries itself (that would be a cycle)
            self.own_tags = set(r.sample(self.tags, r.randint(1, len(self.tags)))) if self.tags and r.random() < self.w["tags"] else set()
            if r.random() < self.w["value_services"]:
                sv["value"] = r.choice(["&MyStruct{}", "&al.MyStruct{}", "MyStruct{}"])
                ptr = sv["value"].startswith("&")
                qual = "al." if "al." in sv["value"] else ""
            else:
                ctor = "NewFailing" if r.random() < self.w["failing"] else r.choice(CTORS)
                sv["constructor"] = ctor
                sv["arguments"] = [self.arg(i, names) for _ in range(r.randint(0, 4))]
                ptr = True
                qual = ctor[:ctor.rindex(".") + 1] if "." in ctor else ""
            if r.random() < self.w["fields"]:
                sv["fields"] = {f: self.arg(i, names) for f in r.sample(["Name", "Port", "Dep", "Zeta"], r.randint(1, 3))}
            if r.random() < self.w["calls"]:
                sv["calls"] = []
                for _ in range(r.randint(1, 3)):
                    m = r.choice(["SetX", "Init", "WithY"])
                    c = [m, [self.arg(i, names) for _ in range(r.randint(0, 2))]]
                    if m == "WithY":
                        c.append(True)
                    sv["calls"].append(c)
            if self.own_tags:
                ts = sorted(self.own_tags)
                r.shuffle(ts)
                sv["tags"] = [t if r.random() < 0.4 else {"name": t, "priority": r.choice([0, 1, -5, 100, 7, 7, 128, -129, 70000, 2147483648, 9223372036854775807, -9223372036854775808, 65536 + 7])} for t in ts]
                for t in ts:
                    self.carriers[t].append(i)
            if r.random() < self.w["scope"]:
                sv["scope"] = r.choice(["shared", "contextual", "non_shared"])
            if r.random() < self.w["getter"]:
                sv["getter"] = "GetS%d" % i
                withers = any(c[0] == "WithY" for c in sv.get("calls", []))
                if r.random() < 0.7 and not withers and (ptr or "calls" not in sv):
                    sv["type"] = ("*" if ptr else "") + qual + "T"
                if r.random() < 0.4:
                    sv["must_getter"] = True
            svcs[n] = sv
        cfg["services"] = svcs
        decs = []
        if r.random() < self.w["decorators"]:
            for t in self.tags:
                if self.carriers[t] and r.random() < 0.7:
                    lo = min(self.carriers[t])
                    for _ in range(r.randint(1, 2)):
                        args = []
                        self.own_tags = {t}
                        for _ in range(r.randint(0, 2)):
                            k = r.random()
                            if k < 0.3 and lo > 0:
                                args.append("@s%d" % r.randrange(lo))
                            elif k < 0.5:
                                args.append(self.pattern(names))
                            elif k < 0.7:
                                args.append(r.choice(LITS))
                            else:
                                args.append(self.arg(lo, names))     # $gontainer, !value, !tagged of a tag carried only by earlier services
                        decs.append({"tag": t, "decorator": r.choice(["Decorate", "al.Wrap", "Wrap"]), "arguments": args})
        if r.random() < self.w["decorators"] * 0.3:
            # decorators on the tag "*" (legal for a decorator, no service can carry it: they must never be applied)
            for _ in range(r.randint(1, 2)):
                decs.append({"tag": "*", "decorator": r.choice(["Decorate", "Wrap"]), "arguments": [r.choice(LITS) for _ in range(r.randint(0, 2))]})
        if decs:
            # declaration order interleaves the tags (decorators of a service carrying several tags apply in declaration order)
            r.shuffle(decs)
            cfg["decorators"] = decs
        return cfg

    def history(self, cfg, length, kinds=None):
        r = self.r
        kinds = kinds or ["get", "get", "getctx", "tagged", "taggedctx", "param", "override_param", "override_service"]
        svcs = list(cfg.get("services", {}))
        params = list(cfg.get("parameters", {}))
        h = []
        for _ in range(length):
            k = r.choice(kinds)
            if k in ("get", "getctx") and svcs:
                o = {"op": k, "name": r.choice(svcs + ["ghost"] if r.random() < 0.05 else svcs)}
            elif k in ("tagged", "taggedctx") and self.tags:
                o = {"op": k, "name": r.choice(self.tags + ["notag"])}
            elif k == "param" and params:
                o = {"op": "param", "name": r.choice(params)}
            elif k == "override_param" and params:
                v = r.choice([("int", 9), ("str", "ovr"), ("bool", True), ("nil", None), ("str", "")])
                o = {"op": "override_param", "name": r.choice(params), "kind": v[0], "value": v[1]}
            elif k == "override_service" and svcs:
                o = {"op": "override_service", "name": r.choice(svcs), "origin": r.choice(["NewA", "NewB"]), "args": [{"kind": "int", "value": r.randint(0, 9)}, {"kind": "str", "value": "o"}][: r.randint(0, 2)]}
            elif k == "newctx":
                o = {"op": "newctx", "ctx": r.randint(1, 3)}
            else:
                continue
            if k in ("getctx", "taggedctx"):
                o["ctx"] = r.randint(1, 3)
            h.append(o)
        return h
