"""Configurations encoding small dependency structures (services, tags, decorators, parameters)."""
import itertools


def graph_cfg(n_services, svc_edges, tag_carriers=None, tag_requests=None, decorators=None, scopes=None, n_params=0, param_edges=None,
              svc_param_refs=None, order="asc", ghosts=None, param_sep="", todos=(), edge_style="args", repeat=None):
    """svc_edges: set of (i,j) meaning s_i has argument @s_j; tag_carriers: {tag: [i...]}; tag_requests: {i: [tags]};
    decorators: list of (tag, [service indices referenced], [tags requested]); scopes: {i: scope};
    order: "asc" / "desc" order in which references are written; ghosts: {i: "first"|"last"} adds a reference to an undeclared
    service before / after the other arguments of s_i; param_sep: literal text between the references of a parameter"""
    rev = order == "desc"
    cfg = {}

    def rep(refs):
        """repeat: None; "first" - the first reference is written twice before the others; "each" - every reference twice in a row;
        "sandwich" - the first reference again after all the others"""
        if not repeat or not refs:
            return refs
        if repeat == "first":
            return [refs[0]] + refs
        if repeat == "each":
            return [x for r_ in refs for x in (r_, r_)]
        return refs + [refs[0]]
    if n_params:
        ps = {}
        for i in range(n_params):
            refs = sorted((j for (a, j) in (param_edges or ()) if a == i), reverse=rev)
            ps["p%d" % i] = param_sep.join("%%p%d%%" % j for j in rep(refs)) if refs else "v%d" % i
        cfg["parameters"] = ps
    svcs = {}
    for i in range(n_services):
        sv = {"constructor": "NewA"}
        args = ["@s%d" % j for j in rep(sorted((j for (a, j) in svc_edges if a == i), reverse=rev))]
        args += ["!tagged %s" % t for t in (tag_requests or {}).get(i, [])]
        args += ["%%p%d%%" % j for j in (svc_param_refs or {}).get(i, [])]
        if (ghosts or {}).get(i) == "first":
            args = ["@ghost"] + args
        elif (ghosts or {}).get(i) == "last":
            args = args + ["@ghost"]
        if args and edge_style == "calls":
            # the references sit in a later call, after a call without arguments
            sv["calls"] = [["Init"], ["SetX", args]]
        elif args and edge_style == "fields":
            sv["fields"] = {"F%d" % i: a for i, a in enumerate(args)}
        elif args and edge_style == "wither":
            sv["calls"] = [["Init", []], ["WithY", args, True]]
        elif args:
            sv["arguments"] = args
        tags = [t for t, cs in (tag_carriers or {}).items() if i in cs]
        if tags:
            sv["tags"] = tags
        if i in todos:
            sv = {"todo": True}
        if scopes and scopes.get(i):
            sv["scope"] = scopes[i]
        svcs["s%d" % i] = sv
    if svcs:
        cfg["services"] = svcs
    if decorators:
        cfg["decorators"] = [{"tag": t, "decorator": "Decorate", "arguments": ["@s%d" % j for j in refs] + ["!tagged %s" % q for q in treq]}
                             for (t, refs, treq) in decorators]
    return cfg


def all_digraphs(n, self_loops=True):
    pairs = [(i, j) for i in range(n) for j in range(n) if self_loops or i != j]
    for k in range(len(pairs) + 1):
        for es in itertools.combinations(pairs, k):
            yield set(es)
