(** A failing run always reports at least one error.

    [wf_gerr]: every [Group] of an error tree has a non-empty list of well-formed children.  Such a tree has a
    non-empty [collection].  Every error-producing function of the model returns a well-formed error ([wf_err]),
    for every environment [E] and every input; hence a pipeline / run that exits 1 has a non-empty error list. *)
From Coq Require Import Lia.
From GV Require Import Base.Str Base.Quote Base.Gerr Base.Sort Regex.Re Model.Env Model.Input Model.Semver Model.Merge Model.Imports
  Model.Token Model.Compile Model.Validate Model.OutVal Model.Runner Spec.Pipeline Proofs.PipelineProofs Proofs.RunnerProofs.

(** * 0. well-formed error trees *)

Fixpoint wf_gerr (g : gerr) : Prop :=
  match g with
  | Leaf _ => True
  | Group _ l =>
      l <> [] /\
      (fix all (l : list gerr) : Prop := match l with [] => True | x :: l' => wf_gerr x /\ all l' end) l
  end.

Definition wf_err (e : err) : Prop := match e with Some g => wf_gerr g | None => True end.

Lemma wf_gerr_leaf m : wf_gerr (Leaf m).
Proof. exact I. Qed.

Lemma wf_gerr_group p l : wf_gerr (Group p l) <-> l <> [] /\ Forall wf_gerr l.
Proof.
  cbn [wf_gerr]. split; intros [H1 H2]; (split; [exact H1|]); clear H1.
  - induction l as [|x l IH]; [constructor|]. destruct H2 as [Hx Hl]. constructor; [exact Hx|apply IH; exact Hl].
  - induction l as [|x l IH]; [exact I|]. inversion H2 as [|x' l' Hx Hl]; subst. split; [exact Hx|apply IH; exact Hl].
Qed.

(** induction principle going through the children of a [Group] *)
Lemma gerr_ind2 (P : gerr -> Prop) :
  (forall m, P (Leaf m)) -> (forall p l, Forall P l -> P (Group p l)) -> forall g, P g.
Proof.
  intros HL HG. fix IH 1. intros [m|p l]; [apply HL|]. apply HG.
  induction l as [|x l IHl]; constructor; [apply IH|exact IHl].
Qed.

(** * 1. a well-formed error has at least one message *)
Theorem collection_nonempty g : wf_gerr g -> collection g <> [].
Proof.
  induction g as [m|p l IH] using gerr_ind2; intros W; cbn [collection]; [discriminate|].
  apply wf_gerr_group in W. destruct W as [Hne Hall].
  destruct l as [|x l]; [congruence|].
  inversion IH as [|x' l' IHx _]; subst. inversion Hall as [|x' l' Wx _]; subst.
  cbn [flat_map]. specialize (IHx Wx).
  destruct (collection x) as [|m ms]; [congruence|]. cbn [app map]. discriminate.
Qed.

Corollary collect_nonempty g : wf_err (Some g) -> collect (Some g) <> [].
Proof. intros W. cbn [collect]. apply collection_nonempty. exact W. Qed.

Corollary wf_err_length g : wf_gerr g -> (1 <= length (collection g))%nat.
Proof.
  intros W. pose proof (collection_nonempty g W) as H. destruct (collection g); [congruence|]. cbn [length]. lia.
Qed.

(** * 2. the constructors of errors preserve well-formedness *)
Lemma keep_some_wf l : Forall wf_err l -> Forall wf_gerr (keep_some l).
Proof.
  induction 1 as [|[g|] l Hx Hl IH]; cbn [keep_some]; [constructor| |exact IH].
  constructor; [exact Hx|exact IH].
Qed.

Lemma wf_gprefix p l : Forall wf_err l -> wf_err (gprefix p l).
Proof.
  intros H. apply keep_some_wf in H. unfold gprefix.
  destruct (keep_some l) as [|g gs]; [exact I|].
  change (wf_gerr (Group p (g :: gs))). apply wf_gerr_group. split; [discriminate|exact H].
Qed.

Lemma wf_gjoin l : Forall wf_err l -> wf_err (gjoin l).
Proof. apply wf_gprefix. Qed.

Lemma wf_leaf m : wf_err (leaf m).
Proof. exact I. Qed.

Lemma wf_none : wf_err None.
Proof. exact I. Qed.

(** list plumbing *)
Lemma Forall_app_intro {A} (P : A -> Prop) a b : Forall P a -> Forall P b -> Forall P (a ++ b).
Proof. intros Ha Hb. apply Forall_app. split; assumption. Qed.

Lemma Forall_flat_map_intro {A B} (P : B -> Prop) (f : A -> list B) l :
  (forall x, Forall P (f x)) -> Forall P (flat_map f l).
Proof. intros H. induction l as [|x l IH]; cbn [flat_map]; [constructor|]. apply Forall_app_intro; [apply H|exact IH]. Qed.

Lemma Forall_map_intro {A B} (P : B -> Prop) (f : A -> B) l : (forall x, P (f x)) -> Forall P (map f l).
Proof. intros H. induction l as [|x l IH]; cbn [map]; constructor; [apply H|exact IH]. Qed.

Lemma Forall_concat_map_intro {A B} (P : B -> Prop) (f : A -> list B) l :
  (forall x, Forall P (f x)) -> Forall P (concat (map f l)).
Proof. intros H. induction l as [|x l IH]; cbn [map concat]; [constructor|]. apply Forall_app_intro; [apply H|exact IH]. Qed.

Lemma fold_left_inv {A B} (P : A -> Prop) (f : A -> B -> A) l a :
  (forall a b, P a -> P (f a b)) -> P a -> P (fold_left f l a).
Proof. intros Hf. revert a. induction l as [|x l IH]; intros a Ha; cbn [fold_left]; [exact Ha|]. apply IH, Hf, Ha. Qed.

Create HintDb wfdb.

(** one step of the structural proof; proved facts come from the hint database (and the context) *)
Ltac wf1 :=
  match goal with
  | |- True => exact I
  | |- wf_err None => exact I
  | |- wf_err (Some (Leaf _)) => exact I
  | |- wf_err (leaf _) => exact I
  | |- wf_err (gprefix _ _) => apply wf_gprefix
  | |- wf_err (gjoin _) => apply wf_gjoin
  | |- Forall _ [] => apply Forall_nil
  | |- Forall _ (_ :: _) => apply Forall_cons
  | |- Forall _ (_ ++ _) => apply Forall_app_intro
  | |- Forall _ (flat_map _ _) => apply Forall_flat_map_intro; intros
  | |- Forall _ (concat (map _ _)) => apply Forall_concat_map_intro; intros
  | |- Forall _ (map _ _) => apply Forall_map_intro; intros
  | |- _ => solve [auto 2 with wfdb nocore]
  | |- wf_err (if ?b then _ else _) => destruct b
  | |- wf_err (match ?x with _ => _ end) => destruct x
  | |- Forall _ (if ?b then _ else _) => destruct b
  | |- Forall _ (match ?x with _ => _ end) => destruct x
  end.
Ltac wf := repeat wf1.

(** bring a proved fact [L : ... (snd (fst t)) ...] about a state-passing call [t] into the context and
    name the components of [t] *)
Ltac dest_wf L :=
  let H := fresh "Hwf" in
  pose proof L as H;
  match type of H with
  | context [snd (fst ?t)] => revert H; destruct t as [[? ?] ?]
  | context [snd ?t] => revert H; destruct t as [? ?]
  | context [fst ?t] => revert H; destruct t as [? ?]
  end; cbn [fst snd]; intros H.

(** destruct every remaining [match] / [let '(_, _)] scrutinee *)
Ltac dm := repeat match goal with |- context [match ?x with _ => _ end] => destruct x end.

Section WithEnv.
Variable E : env.

(** * 3a. Model/Imports.v *)
Lemma register_prefix_wf a p st : wf_err (snd (register_prefix a p st)).
Proof. unfold register_prefix. destruct (lookup a (is_prefixes st)); exact I. Qed.

(** * 3b. Model/Token.v *)
Lemma create_wf fns x st : wf_err (snd (fst (create E fns x st))).
Proof.
  unfold create. destruct (create_fn E fns x st) as [[t st']|]; [exact I|].
  destruct (create_static E (w_factories E) x); exact I.
Qed.

Lemma create_all_wf fns cs : forall st, Forall wf_err (snd (fst (create_all E fns cs st))).
Proof.
  induction cs as [|c cs IH]; intros st; cbn [create_all]; [constructor|].
  dest_wf (create_wf fns c st).
  match goal with |- context [create_all E fns cs ?s] => dest_wf (IH s) end.
  constructor; assumption.
Qed.

Lemma tokenize_wf fns x st : wf_err (snd (fst (tokenize E fns x st))).
Proof.
  unfold tokenize. destruct (chunks E x) as [cs|buff]; [|exact I].
  dest_wf (create_all_wf fns cs st). apply wf_gjoin. assumption.
Qed.

(** * 3c. Model/Compile.v *)
Lemma rk_resolve_wf k p c : wf_err (snd (fst (rk_resolve E k p c))).
Proof.
  unfold rk_resolve. destruct k; destruct p; try exact I;
    try (match goal with |- context [tokenize E ?a ?b ?d] => dest_wf (tokenize_wf a b d) end;
         match goal with |- context [match ?e with Some _ => _ | None => _ end] => destruct e end;
         [assumption|]);
    dm; exact I.
Qed.

Lemma resolve_chain_wf ch p c : wf_err (snd (fst (resolve_chain E ch p c))).
Proof.
  induction ch as [|k ch IH]; cbn [resolve_chain]; [exact I|].
  destruct (rk_supports E k p); [apply rk_resolve_wf|exact IH].
Qed.

Lemma resolve_arg_wf p c : wf_err (snd (fst (resolve_arg E p c))).
Proof. apply resolve_chain_wf. Qed.

Lemma resolve_args_aux_wf l : forall i c, Forall wf_err (snd (fst (resolve_args_aux E i l c))).
Proof.
  induction l as [|p l IH]; intros i c; cbn [resolve_args_aux]; [constructor|].
  dest_wf (resolve_arg_wf p c).
  match goal with |- context [resolve_args_aux E ?j l ?d] => dest_wf (IH j d) end.
  wf.
Qed.

Lemma resolve_args_wf l c : wf_err (snd (fst (resolve_args E l c))).
Proof. unfold resolve_args. dest_wf (resolve_args_aux_wf l O c). wf. Qed.

Lemma resolve_param_wf p c : wf_err (snd (fst (resolve_param E p c))).
Proof.
  unfold resolve_param. dest_wf (resolve_chain_wf (w_param_chain E) p c).
  match goal with |- context [a_services ?a] => destruct (a_services a), (a_tags a) end;
    cbn [app fst snd]; wf.
Qed.

Lemma register_imports_wf l : forall st, Forall wf_err (fst (register_imports l st)).
Proof.
  induction l as [|[a p] l IH]; intros st; cbn [register_imports]; [constructor|].
  dest_wf (register_prefix_wf a (sanitize_path p) st).
  match goal with |- context [register_imports l ?d] => dest_wf (IH d) end.
  wf.
Qed.

Lemma step_meta_wf i o c : wf_err (snd (fst (step_meta E i o c))).
Proof.
  cbv beta zeta delta [step_meta].
  match goal with |- context [register_imports ?l ?d] => dest_wf (register_imports_wf l d) end.
  wf.
Qed.

Lemma compile_params_wf l : forall c, Forall wf_err (snd (fst (compile_params E l c))).
Proof.
  induction l as [|[k v] l IH]; intros c; cbn [compile_params]; [constructor|].
  dest_wf (resolve_param_wf v c).
  match goal with |- context [compile_params E l ?d] => dest_wf (IH d) end.
  match goal with |- context [match ?e with Some _ => _ | None => _ end] => destruct e end; cbn [fst snd]; wf.
Qed.

Lemma step_params_wf i o c : wf_err (snd (fst (step_params E i o c))).
Proof. unfold step_params. dest_wf (compile_params_wf (sorted_entries (i_params i)) c). wf. Qed.

Lemma compile_fields_wf l : forall c, Forall wf_err (snd (fst (compile_fields E l c))).
Proof.
  induction l as [|[n v] l IH]; intros c; cbn [compile_fields]; [constructor|].
  dest_wf (resolve_arg_wf v c).
  match goal with |- context [compile_fields E l ?d] => dest_wf (IH d) end.
  match goal with |- context [match ?e with Some _ => _ | None => _ end] => destruct e end; wf.
Qed.

Lemma compile_calls_wf l : forall i c, Forall wf_err (snd (fst (compile_calls E i l c))).
Proof.
  induction l as [|cl l IH]; intros i c; cbn [compile_calls]; [constructor|].
  dest_wf (resolve_args_wf (c_args cl) c).
  match goal with |- context [compile_calls E ?j l ?d] => dest_wf (IH j d) end.
  wf.
Qed.

Lemma getter_of_wf sv m : wf_err (snd (getter_of E sv m)).
Proof. unfold getter_of. dm; exact I. Qed.

Lemma process_service_wf name sv m c : wf_err (snd (fst (process_service E name sv m c))).
Proof.
  unfold process_service. destruct (opt_or (sv_todo sv) false); [exact I|].
  dest_wf (compile_fields_wf (sorted_entries (sv_fields sv)) c).
  match goal with |- context [resolve_args E ?l ?d] => dest_wf (resolve_args_wf l d) end.
  match goal with |- context [compile_calls E ?j ?l ?d] => dest_wf (compile_calls_wf l j d) end.
  dest_wf (getter_of_wf sv m).
  dm; cbn [fst snd]; wf.
Qed.

Lemma compile_services_wf l m : forall c, Forall wf_err (snd (fst (compile_services E l m c))).
Proof.
  induction l as [|[k v] l IH]; intros c; cbn [compile_services]; [constructor|].
  dest_wf (process_service_wf k v m c).
  match goal with |- context [compile_services E l m ?d] => dest_wf (IH d) end.
  wf.
Qed.

Lemma step_services_wf i o c : wf_err (snd (fst (step_services E i o c))).
Proof. unfold step_services. dest_wf (compile_services_wf (sorted_entries (i_services i)) (i_meta i) c). wf. Qed.

Lemma compile_decorators_wf l : forall j c, Forall wf_err (snd (fst (compile_decorators E j l c))).
Proof.
  induction l as [|d l IH]; intros j c; cbn [compile_decorators]; [constructor|].
  match goal with |- context [qualify ?a ?b ?x] => destruct (qualify a b x) as [method i1] end.
  match goal with |- context [resolve_args E ?a ?b] => dest_wf (resolve_args_wf a b) end.
  match goal with |- context [compile_decorators E ?k l ?x] => dest_wf (IH k x) end.
  wf.
Qed.

Lemma step_decorators_wf i o c : wf_err (snd (fst (step_decorators E i o c))).
Proof. unfold step_decorators. dest_wf (compile_decorators_wf (i_decorators i) O c). wf. Qed.

(** * 3d. Model/Validate.v *)
Lemma regex_field_wf f v st : wf_err (regex_field f v st).
Proof. unfold regex_field. wf. Qed.
Lemma opt_regex_field_wf f v st : wf_err (opt_regex_field f v st).
Proof. unfold opt_regex_field. destruct v; [apply regex_field_wf|exact I]. Qed.
Lemma unsupported_wf n p : wf_err (unsupported n p).
Proof. exact I. Qed.
Lemma reserved_field_wf f v names : wf_err (reserved_field f v names).
Proof. unfold reserved_field. destruct v as [x|]; [destruct (mem x names); [apply wf_leaf|exact I]|exact I]. Qed.
#[local] Hint Resolve regex_field_wf opt_regex_field_wf unsupported_wf reserved_field_wf : wfdb.

(** the explicit construction [Some (Group [] [Leaf m])] *)
Lemma v_version_wf B i : wf_err (v_version B i).
Proof.
  unfold v_version. destruct (validate_version B (i_version i)) as [m|]; [|exact I].
  change (wf_gerr (Group [] [Leaf m])). apply wf_gerr_group. split; [discriminate|]. repeat constructor.
Qed.

Lemma v_meta_imports_wf m : wf_err (v_meta_imports E m).
Proof. unfold v_meta_imports. wf. Qed.
Lemma v_meta_functions_wf m : wf_err (v_meta_functions E m).
Proof. unfold v_meta_functions. wf. Qed.
#[local] Hint Resolve v_version_wf v_meta_imports_wf v_meta_functions_wf : wfdb.

Lemma v_meta_wf i : wf_err (v_meta E i).
Proof. unfold v_meta. cbv zeta. wf. Qed.

Lemma v_params_wf i : wf_err (v_params E i).
Proof. unfold v_params. wf. Qed.

Lemma v_constructor_type_wf sv : wf_err (v_constructor_type sv).
Proof. unfold v_constructor_type. wf. Qed.

Lemma v_getter_wf sv : wf_err (v_getter E sv).
Proof. unfold v_getter. wf. Qed.

Lemma v_args_aux_wf pfx l : forall i, Forall wf_err (v_args_aux pfx i l).
Proof. induction l as [|p l IH]; intros i; cbn [v_args_aux]; wf. Qed.
#[local] Hint Resolve v_args_aux_wf : wfdb.

Lemma v_service_args_wf sv : wf_err (v_service_args sv).
Proof. unfold v_service_args. wf. Qed.

Lemma v_call_args_wf l : forall i, Forall wf_err (v_call_args i l).
Proof. induction l as [|p l IH]; intros i; cbn [v_call_args]; wf. Qed.
#[local] Hint Resolve v_call_args_wf : wfdb.

Lemma v_calls_aux_wf l : forall j, Forall wf_err (v_calls_aux E j l).
Proof. induction l as [|c l IH]; intros j; cbn [v_calls_aux]; wf. Qed.
#[local] Hint Resolve v_calls_aux_wf : wfdb.

Lemma v_calls_wf sv : wf_err (v_calls E sv).
Proof. unfold v_calls. wf. Qed.

Lemma v_fields_wf sv : wf_err (v_fields E sv).
Proof. unfold v_fields. wf. Qed.

Lemma v_tags_aux_wf l : forall i, Forall wf_err (v_tags_aux E i l).
Proof. induction l as [|t l IH]; intros i; cbn [v_tags_aux]; wf. Qed.
#[local] Hint Resolve v_tags_aux_wf : wfdb.

Lemma v_tags_wf sv : wf_err (v_tags E sv).
Proof. unfold v_tags. cbv zeta. wf. Qed.
#[local] Hint Resolve v_meta_wf v_params_wf v_constructor_type_wf v_getter_wf v_service_args_wf v_calls_wf v_fields_wf v_tags_wf : wfdb.

Lemma v_service_wf n sv : wf_err (v_service E n sv).
Proof. unfold v_service. wf. Qed.
#[local] Hint Resolve v_service_wf : wfdb.

Lemma v_unique_getters_wf i : Forall wf_err (v_unique_getters i).
Proof. unfold v_unique_getters. cbv zeta. wf. Qed.
#[local] Hint Resolve v_unique_getters_wf : wfdb.

Lemma v_services_wf i : wf_err (v_services E i).
Proof. unfold v_services. wf. Qed.

Lemma v_decorators_aux_wf l : forall j, Forall wf_err (v_decorators_aux E j l).
Proof. induction l as [|d l IH]; intros j; cbn [v_decorators_aux]; wf. Qed.
#[local] Hint Resolve v_decorators_aux_wf : wfdb.

Lemma v_decorators_wf i : wf_err (v_decorators E i).
Proof. unfold v_decorators. wf. Qed.
#[local] Hint Resolve v_services_wf v_decorators_wf : wfdb.

Lemma validate_wf B i : wf_err (validate E B i).
Proof. unfold validate. wf. Qed.
#[local] Hint Resolve validate_wf : wfdb.

Lemma step_validate_wf B i : wf_err (step_validate E B i).
Proof. unfold step_validate. wf. Qed.

(** * 3e. Model/OutVal.v *)
Lemma validate_circular_wf o : wf_err (validate_circular o).
Proof. unfold validate_circular. wf. Qed.

Lemma scope_errors_of_wf o g sv : Forall wf_err (scope_errors_of o g sv).
Proof. unfold scope_errors_of. wf. Qed.
#[local] Hint Resolve scope_errors_of_wf : wfdb.

Lemma validate_scopes_wf o : wf_err (validate_scopes o).
Proof. unfold validate_scopes. cbv zeta. wf. Qed.

Lemma validate_params_exist_wf o : wf_err (validate_params_exist o).
Proof. unfold validate_params_exist. wf. Qed.

Lemma validate_services_exist_wf o : wf_err (validate_services_exist o).
Proof. unfold validate_services_exist. wf. Qed.
#[local] Hint Resolve validate_circular_wf validate_scopes_wf validate_params_exist_wf validate_services_exist_wf : wfdb.

(** * 3f. Model/Runner.v *)
Lemma read_file_wf w pat st f : Forall wf_err (r_errs st) -> Forall wf_err (r_errs (read_file E w pat st f)).
Proof. intros H. unfold read_file. destruct (file_lookup w f); cbn [r_errs]; wf. Qed.

Lemma read_pattern_wf w st jg : Forall wf_err (r_errs st) -> Forall wf_err (r_errs (read_pattern E w st jg)).
Proof.
  intros H. unfold read_pattern. destruct jg as [j g]. cbv zeta.
  apply (fold_left_inv (fun st => Forall wf_err (r_errs st))).
  - intros a b Ha. apply read_file_wf. exact Ha.
  - cbn [r_errs]. wf.
Qed.

Lemma read_config_wf w i : wf_err (snd (fst (read_config E w i))).
Proof.
  unfold read_config. destruct (wd_globs w) as [|g0 gs]; cbv zeta; cbn [fst snd]; [wf|].
  match goal with |- context [fold_left ?f ?l ?a] =>
    assert (Forall wf_err (r_errs (fold_left f l a))) as Hfold
      by (apply (fold_left_inv (fun st => Forall wf_err (r_errs st)));
          [intros a' b' Ha'; apply read_pattern_wf; exact Ha'|constructor])
  end.
  wf.
Qed.

Lemma cstep_wf B k i o c : wf_err (snd (fst (cstep E B k i o c))).
Proof.
  destruct k; cbn [cstep fst snd];
    [apply step_validate_wf|apply step_meta_wf|apply step_params_wf|apply step_services_wf|apply step_decorators_wf].
Qed.

(** for an arbitrary list of compiler steps *)
Lemma compile_steps_wf B ks i : forall o c, wf_err (snd (fst (compile_steps E B ks i o c))).
Proof.
  induction ks as [|k ks IH]; intros o c; cbn [compile_steps]; [exact I|].
  dest_wf (cstep_wf B k i o c).
  match goal with |- context [match ?e with Some _ => _ | None => _ end] => destruct e end; [assumption|apply IH].
Qed.

Lemma compile_wf B i : wf_err (snd (fst (compile E B i))).
Proof. apply compile_steps_wf. Qed.

Lemma rule_run_wf k o : wf_err (rule_run k o).
Proof. destruct k; cbn [rule_run]; wf. Qed.

Lemma verbose_wf {S} name active (inner : S -> (S * err) * list event) st :
  (forall st', wf_err (snd (fst (inner st')))) -> wf_err (snd (fst (verbose E name active inner st))).
Proof.
  intros H. unfold verbose. destruct active; cbn [negb]; [|exact I].
  specialize (H st). destruct (inner st) as [[st1 e] evs]. exact H.
Qed.

Lemma amalgamated_wf fl rules : forall st acc evs,
  Forall wf_err acc -> wf_err (snd (fst (amalgamated E fl rules st acc evs))).
Proof.
  induction rules as [|[[n k] sw] rules IH]; intros st acc evs Hacc; cbn [amalgamated].
  - cbn [fst snd]. wf.
  - match goal with |- context [verbose E ?a ?b ?f ?x] =>
      dest_wf (verbose_wf a b f x (fun st' => rule_run_wf k (x_output st'))) end.
    apply IH. wf.
Qed.

Lemma step_inner_wf B fl w outfile k st : wf_err (snd (fst (step_inner E B fl w outfile k st))).
Proof.
  destruct k; cbn [step_inner].
  - exact I.
  - dest_wf (read_config_wf w (x_input st)). assumption.
  - dest_wf (compile_wf B (x_input st)). assumption.
  - apply amalgamated_wf. constructor.
  - dm; exact I.
Qed.

(** for an arbitrary wiring of the runner *)
Lemma run_steps_wf B fl w outfile steps : forall st evs,
  wf_err (snd (fst (run_steps E B fl w outfile steps st evs))).
Proof.
  induction steps as [|sp steps IH]; intros st evs; cbn [run_steps]; [exact I|].
  match goal with |- context [verbose E ?a ?b ?f ?x] =>
    dest_wf (verbose_wf a b f x (fun st' => step_inner_wf B fl w outfile (rs_kind sp) st')) end.
  match goal with |- context [match ?e with Some _ => _ | None => _ end] => destruct e end; [assumption|apply IH].
Qed.

Lemma run_core_wf B fl w outfile : wf_err (snd (fst (run_core E B fl w outfile))).
Proof. apply run_steps_wf. Qed.

(** * 3g. Spec/Pipeline.v *)
Lemma vo_error_wf fl o : wf_err (vo_error fl o).
Proof. unfold vo_error. wf. Qed.

(** * 4. a failing pipeline reports at least one error (any environment, any compiler steps) *)
Theorem pipeline_failure_has_errors B fl w :
  vd_exit (pipeline E B fl w) = 1 -> vd_errors (pipeline E B fl w) <> [].
Proof.
  unfold pipeline.
  dest_wf (read_config_wf w (builtin_input E empty_input)).
  match goal with |- context [match ?e with Some _ => _ | None => _ end] => destruct e as [g|] end.
  { intros _. cbn [vd_errors]. apply collection_nonempty. assumption. }
  match goal with |- context [compile E B ?i] => dest_wf (compile_wf B i) end.
  match goal with |- context [match ?e with Some _ => _ | None => _ end] => destruct e as [g|] end.
  { intros _. cbn [vd_errors]. apply collection_nonempty. assumption. }
  match goal with |- context [vo_error fl ?o] => pose proof (vo_error_wf fl o) as Hvo; destruct (vo_error fl o) as [g|] end.
  { intros _. cbn [vd_errors]. apply collection_nonempty. exact Hvo. }
  destruct (wd_build_err w) as [m|]; [intros _; cbn [vd_errors]; discriminate|].
  destruct (wd_write_err w) as [m|]; [intros _; cbn [vd_errors]; discriminate|].
  cbn [vd_exit]. discriminate.
Qed.

(** exit status 0/1 and the error list: exactly the failing runs report errors *)
Corollary pipeline_errors_iff B fl w :
  vd_exit (pipeline E B fl w) = 1 <-> vd_errors (pipeline E B fl w) <> [].
Proof.
  split; [apply pipeline_failure_has_errors|].
  intros H. destruct (pipeline_contract E B fl w) as [(_ & _ & He & _)|(Hx & _)]; [congruence|exact Hx].
Qed.

(** * 5. the command *)

Lemma numbered_nonempty l : l <> [] -> numbered l <> [].
Proof.
  intros H Hn. apply (f_equal (@length _)) in Hn. rewrite numbered_length in Hn.
  destruct l; [congruence|discriminate].
Qed.

(** under the shipped wiring, through [run_refines] *)
Theorem run_failure_has_errors (HE : std_env E) B fl w out oc :
  run E B fl w out = Ok oc -> oc_exit oc = 1 ->
  oc_errors oc <> [] /\ numbered (oc_errors oc) <> [] /\
  (f_quiet fl = false -> exists report, oc_stdout oc = report ++ [s "Errors:"] ++ numbered (oc_errors oc)) /\
  exists st g evs pre name,
    run_core E B fl w out = ((st, Some g), evs) /\ oc_errors oc = collection g /\
    evs = pre ++ [EvAligned (name ++ s " END") (k_xmark E) (count_suffix g)] /\
    (1 <= length (collection g))%nat /\
    count_suffix g = s " (" ++ dec_of_N (N.of_nat (length (oc_errors oc)))
                       ++ (if Nat.ltb 1 (length (oc_errors oc)) then s " errors)" else s " error)").
Proof.
  intros Hrun Hexit.
  destruct (run_refines E HE B fl w out) as (oc' & Hrun' & Hx & Herr & _).
  rewrite Hrun in Hrun'. injection Hrun' as <-.
  assert (oc_errors oc <> []) as Hne.
  { rewrite Herr. apply pipeline_failure_has_errors. rewrite <- Hx. exact Hexit. }
  split; [exact Hne|]. split; [apply numbered_nonempty; exact Hne|].
  unfold run in Hrun. unfold run_core in *.
  destruct (run_steps E B fl w out (w_runner E) (st0) []) as [[st e] evs] eqn:Hcore.
  destruct (render E evs p0) as [p|msg]; [|discriminate].
  destruct e as [g|]; injection Hrun as <-; cbn [oc_exit] in Hexit; [|discriminate].
  cbn [oc_errors oc_stdout]. split.
  - intros ->. eexists. reflexivity.
  - destruct (failing_step_count E B fl w out _ _ _ _ _ _ Hcore) as (pre & name & Hevs).
    exists st, g, evs, pre, name. repeat split; try assumption.
    cbn [oc_errors] in Hne. destruct (collection g); [congruence|cbn [length]; lia].
Qed.

(** for every environment (any wiring of the runner), whenever the printer does not panic *)
Theorem run_failure_has_errors_any_wiring B fl w out oc :
  run E B fl w out = Ok oc -> oc_exit oc = 1 ->
  oc_errors oc <> [] /\ numbered (oc_errors oc) <> [] /\
  exists st g evs, run_core E B fl w out = ((st, Some g), evs) /\ oc_errors oc = collection g /\ wf_gerr g.
Proof.
  intros Hrun Hexit. unfold run in Hrun.
  pose proof (run_core_wf B fl w out) as Hwf.
  destruct (run_core E B fl w out) as [[st e] evs]. cbn [fst snd] in Hwf.
  destruct (render E evs p0) as [p|msg]; [|discriminate].
  destruct e as [g|]; injection Hrun as <-; cbn [oc_exit] in Hexit; [|discriminate].
  cbn [oc_errors]. pose proof (collection_nonempty g Hwf) as Hne.
  split; [exact Hne|]. split; [apply numbered_nonempty; exact Hne|].
  exists st, g, evs. repeat split. exact Hwf.
Qed.

End WithEnv.

Print Assumptions collection_nonempty.
Print Assumptions pipeline_failure_has_errors.
Print Assumptions run_failure_has_errors.
Print Assumptions run_failure_has_errors_any_wiring.
