(** Algebra of the configuration merge (Model/Merge.v): extensional lookup characterisation, identity,
    associativity up to extensional equality, and the "fold over files" semantics. *)
From Coq Require Import Lia.
From GV Require Import Base.Str Base.Sort Model.Input Model.Merge.

(** * 1. Association lists *)
Section Maps.
Context {A : Type}.
Implicit Types (m a b c : list (str * A)).

Lemma lookup_map_set k k' (v : A) m :
  lookup k (map_set k' v m) = if str_eqb k k' then Some v else lookup k m.
Proof.
  induction m as [|[k1 v1] m IH]; cbn [map_set lookup].
  - reflexivity.
  - destruct (str_eqb_spec k' k1) as [->|Hn]; cbn [lookup].
    + destruct (str_eqb_spec k k1); reflexivity.
    + rewrite IH. destruct (str_eqb_spec k k1) as [->|Hk]; [|reflexivity].
      destruct (str_eqb_spec k1 k'); congruence.
Qed.

Lemma keys_map_set k (v : A) m :
  keys (map_set k v m) = if mem k (keys m) then keys m else keys m ++ [k].
Proof.
  induction m as [|[k1 v1] m IH]; cbn [map_set keys map fst mem app]; [reflexivity|].
  destruct (str_eqb_spec k k1) as [->|Hn]; cbn [orb map fst].
  - reflexivity.
  - fold (keys m). fold (keys (map_set k v m)). rewrite IH.
    destruct (mem k (keys m)); reflexivity.
Qed.

Lemma In_keys_map_set k k' (v : A) m :
  In k (keys (map_set k' v m)) <-> k = k' \/ In k (keys m).
Proof.
  rewrite keys_map_set. destruct (mem k' (keys m)) eqn:Hm.
  - apply mem_In in Hm. split; [auto|]. intros [->|H]; assumption.
  - rewrite in_app_iff. cbn [In]. intuition.
Qed.

Lemma nodup_keys_map_set k (v : A) m : NoDup (keys m) -> NoDup (keys (map_set k v m)).
Proof.
  induction m as [|[k1 v1] m IH]; cbn [map_set keys map fst]; intros Hnd.
  - constructor; [intros []|constructor].
  - destruct (str_eqb_spec k k1) as [->|Hn]; cbn [map fst]; [exact Hnd|].
    inversion Hnd as [|x l Hnin Hnd']; subst. constructor.
    + fold (keys (map_set k v m)). rewrite In_keys_map_set. intros [Heq|Hin]; [congruence|].
      apply Hnin; exact Hin.
    + apply IH; exact Hnd'.
Qed.

Lemma lookup_None k m : lookup k m = None <-> ~ In k (keys m).
Proof.
  induction m as [|[k1 v1] m IH]; cbn [lookup keys map fst In].
  - tauto.
  - fold (keys m). destruct (str_eqb_spec k k1) as [->|Hn].
    + split; [discriminate|]. intros H; exfalso; apply H; left; reflexivity.
    + rewrite IH. split; [intros H [Heq|Hin]; [congruence|tauto]|tauto].
Qed.

Lemma lookup_Some_In_keys k m v : lookup k m = Some v -> In k (keys m).
Proof.
  intros H. destruct (in_dec str_eq_dec k (keys m)) as [Hin|Hnin]; [exact Hin|].
  apply lookup_None in Hnin. congruence.
Qed.

Lemma lookup_Some_In k m v : lookup k m = Some v -> In (k, v) m.
Proof.
  induction m as [|[k1 v1] m IH]; cbn [lookup In]; [discriminate|].
  destruct (str_eqb_spec k k1) as [->|Hn]; intros H.
  - left; congruence.
  - right; apply IH; exact H.
Qed.

Lemma In_lookup_Some k m v : NoDup (keys m) -> In (k, v) m -> lookup k m = Some v.
Proof.
  induction m as [|[k1 v1] m IH]; cbn [lookup In keys map fst]; intros Hnd Hin; [contradiction|].
  inversion Hnd as [|x l Hnin Hnd']; subst.
  destruct Hin as [Heq|Hin].
  - inversion Heq; subst. rewrite str_eqb_refl. reflexivity.
  - destruct (str_eqb_spec k k1) as [->|Hn]; [|apply IH; assumption].
    exfalso; apply Hnin. change (In k1 (keys m)). apply in_map_iff. exists (k1, v); split; [reflexivity|exact Hin].
Qed.

Lemma lookup_app k m m' :
  lookup k (m ++ m') = match lookup k m with Some v => Some v | None => lookup k m' end.
Proof.
  induction m as [|[k1 v1] m IH]; cbn [app lookup]; [reflexivity|].
  destruct (str_eqb k k1); [reflexivity|exact IH].
Qed.

Lemma merge_map_cons a kv b : merge_map a (kv :: b) = merge_map (map_set (fst kv) (snd kv) a) b.
Proof. reflexivity. Qed.

Lemma merge_map_snoc a b kv : merge_map a (b ++ [kv]) = map_set (fst kv) (snd kv) (merge_map a b).
Proof. unfold merge_map. rewrite fold_left_app. reflexivity. Qed.

(** the general statement: the LAST binding of [b] wins, i.e. the first of [rev b] *)
Lemma lookup_merge_map_gen k a b :
  lookup k (merge_map a b) = match lookup k (rev b) with Some v => Some v | None => lookup k a end.
Proof.
  induction b as [|[k1 v1] b IH] using rev_ind; [reflexivity|].
  rewrite merge_map_snoc, rev_app_distr, lookup_map_set. cbn [rev app fst snd lookup].
  destruct (str_eqb k k1); [reflexivity|exact IH].
Qed.

Lemma lookup_merge_map k a b :
  NoDup (keys b) ->
  lookup k (merge_map a b) = match lookup k b with Some v => Some v | None => lookup k a end.
Proof.
  revert a; induction b as [|[k1 v1] b IH]; intros a Hnd; [reflexivity|].
  cbn [keys map fst] in Hnd. inversion Hnd as [|x l Hnin Hnd']; subst.
  rewrite merge_map_cons, (IH _ Hnd'), lookup_map_set. cbn [fst snd lookup].
  destruct (str_eqb_spec k k1) as [->|Hn]; [|reflexivity].
  apply lookup_None in Hnin. rewrite Hnin. reflexivity.
Qed.

Lemma In_keys_merge_map k a b :
  In k (keys (merge_map a b)) <-> In k (keys a) \/ In k (keys b).
Proof.
  revert a; induction b as [|[k1 v1] b IH]; intros a.
  - cbn. tauto.
  - rewrite merge_map_cons, IH, In_keys_map_set. cbn [fst snd keys map In]. intuition.
Qed.

Lemma keys_merge_map_nodup a b : NoDup (keys a) -> NoDup (keys (merge_map a b)).
Proof.
  revert a; induction b as [|[k1 v1] b IH]; intros a Hnd; [exact Hnd|].
  rewrite merge_map_cons. apply IH, nodup_keys_map_set, Hnd.
Qed.

(** with globally distinct keys the merge is plain concatenation *)
Lemma map_set_notin k (v : A) m : ~ In k (keys m) -> map_set k v m = m ++ [(k, v)].
Proof.
  induction m as [|[k1 v1] m IH]; cbn [map_set keys map fst In app]; intros Hnin; [reflexivity|].
  destruct (str_eqb_spec k k1) as [->|Hn]; [exfalso; apply Hnin; left; reflexivity|].
  rewrite IH; [reflexivity|]. intros Hin; apply Hnin; right; exact Hin.
Qed.

Lemma keys_app m m' : keys (m ++ m') = keys m ++ keys m'.
Proof. apply map_app. Qed.

Lemma merge_map_disjoint a b : NoDup (keys a ++ keys b) -> merge_map a b = a ++ b.
Proof.
  revert a; induction b as [|[k1 v1] b IH]; intros a Hnd.
  - cbn. rewrite app_nil_r. reflexivity.
  - cbn [keys map fst] in Hnd. fold (keys b) in Hnd.
    pose proof (NoDup_remove_2 _ _ _ Hnd) as Hnin.
    rewrite merge_map_cons. cbn [fst snd].
    rewrite map_set_notin by (intros Hin; apply Hnin, in_or_app; left; exact Hin).
    rewrite IH.
    + rewrite <- app_assoc. reflexivity.
    + rewrite keys_app. cbn [keys map fst app]. rewrite <- app_assoc. exact Hnd.
Qed.

Lemma merge_map_nil_l b : NoDup (keys b) -> merge_map [] b = b.
Proof. intros Hnd. apply (merge_map_disjoint [] b). exact Hnd. Qed.

End Maps.

(** [merge_services] is a [merge_map] with values computed from the left operand *)
Definition ms_val (a : list (str * service)) (kv : str * service) : service :=
  match lookup (fst kv) a with Some v1 => merge_service v1 (snd kv) | None => snd kv end.
Definition ms_img (a b : list (str * service)) : list (str * service) :=
  map (fun kv => (fst kv, ms_val a kv)) b.

Lemma merge_services_as_map a b : merge_services a b = merge_map a (ms_img a b).
Proof.
  assert (G : forall a0 r,
    fold_left (fun r kv => match lookup (fst kv) a0 with
                           | Some v1 => map_set (fst kv) (merge_service v1 (snd kv)) r
                           | None => map_set (fst kv) (snd kv) r
                           end) b r = merge_map r (ms_img a0 b)).
  { intros a0. induction b as [|kv b IH]; intros r; [reflexivity|].
    unfold ms_img. cbn [map fold_left]. rewrite merge_map_cons. cbn [fst snd].
    rewrite IH. f_equal. unfold ms_val. destruct (lookup (fst kv) a0); reflexivity. }
  apply G.
Qed.

Lemma keys_ms_img a b : keys (ms_img a b) = keys b.
Proof. unfold ms_img, keys. rewrite map_map. reflexivity. Qed.

Lemma lookup_ms_img k a b :
  lookup k (ms_img a b) =
  match lookup k b with
  | Some y => Some (match lookup k a with Some x => merge_service x y | None => y end)
  | None => None
  end.
Proof.
  induction b as [|[k1 v1] b IH]; cbn [ms_img map lookup fst]; [reflexivity|].
  destruct (str_eqb_spec k k1) as [->|Hn]; [reflexivity|exact IH].
Qed.

Lemma lookup_merge_services k a b :
  NoDup (keys b) ->
  lookup k (merge_services a b) =
  match lookup k b with
  | Some y => Some (match lookup k a with Some x => merge_service x y | None => y end)
  | None => lookup k a
  end.
Proof.
  intros Hnd. rewrite merge_services_as_map, lookup_merge_map by (rewrite keys_ms_img; exact Hnd).
  rewrite lookup_ms_img. destruct (lookup k b); reflexivity.
Qed.

Lemma In_keys_merge_services k a b :
  In k (keys (merge_services a b)) <-> In k (keys a) \/ In k (keys b).
Proof. rewrite merge_services_as_map, In_keys_merge_map, keys_ms_img. tauto. Qed.

Lemma keys_merge_services_nodup a b : NoDup (keys a) -> NoDup (keys (merge_services a b)).
Proof. rewrite merge_services_as_map. apply keys_merge_map_nodup. Qed.

Lemma merge_services_nil_l b : NoDup (keys b) -> merge_services [] b = b.
Proof.
  intros Hnd. rewrite merge_services_as_map.
  assert (Himg : ms_img [] b = b).
  { unfold ms_img. rewrite <- (map_id b) at 2. apply map_ext. intros [k v]. reflexivity. }
  rewrite Himg. apply merge_map_nil_l; exact Hnd.
Qed.

(** * 2. Extensional equalities *)
Definition map_eq {A} (m m' : list (str * A)) : Prop := forall k, lookup k m = lookup k m'.

Definition service_eq (x y : service) : Prop :=
  sv_getter x = sv_getter y /\ sv_must_getter x = sv_must_getter y /\ sv_type x = sv_type y /\
  sv_value x = sv_value y /\ sv_constructor x = sv_constructor y /\ sv_args x = sv_args y /\
  sv_calls x = sv_calls y /\ map_eq (sv_fields x) (sv_fields y) /\ sv_tags x = sv_tags y /\
  sv_scope x = sv_scope y /\ sv_todo x = sv_todo y.

Definition services_eq (a b : list (str * service)) : Prop :=
  forall k, match lookup k a, lookup k b with
            | Some x, Some y => service_eq x y
            | None, None => True
            | _, _ => False
            end.

Definition meta_eq (x y : meta) : Prop :=
  m_pkg x = m_pkg y /\ m_container_type x = m_container_type y /\
  m_container_constructor x = m_container_constructor y /\
  m_default_must_getter x = m_default_must_getter y /\
  map_eq (m_imports x) (m_imports y) /\ map_eq (m_functions x) (m_functions y).

Definition input_eq (a b : input) : Prop :=
  i_version a = i_version b /\ meta_eq (i_meta a) (i_meta b) /\ map_eq (i_params a) (i_params b) /\
  services_eq (i_services a) (i_services b) /\ i_decorators a = i_decorators b.

Lemma map_eq_refl {A} (m : list (str * A)) : map_eq m m.
Proof. intros k; reflexivity. Qed.
Lemma map_eq_sym {A} (m m' : list (str * A)) : map_eq m m' -> map_eq m' m.
Proof. intros H k; symmetry; apply H. Qed.
Lemma map_eq_trans {A} (m1 m2 m3 : list (str * A)) : map_eq m1 m2 -> map_eq m2 m3 -> map_eq m1 m3.
Proof. intros H1 H2 k; rewrite H1; apply H2. Qed.

Lemma service_eq_refl x : service_eq x x.
Proof. unfold service_eq. repeat split; apply map_eq_refl. Qed.
Lemma service_eq_sym x y : service_eq x y -> service_eq y x.
Proof.
  unfold service_eq. intros (H1&H2&H3&H4&H5&H6&H7&H8&H9&H10&H11).
  repeat split; try (symmetry; assumption). apply map_eq_sym; exact H8.
Qed.
Lemma service_eq_trans x y z : service_eq x y -> service_eq y z -> service_eq x z.
Proof.
  unfold service_eq. intros (H1&H2&H3&H4&H5&H6&H7&H8&H9&H10&H11) (G1&G2&G3&G4&G5&G6&G7&G8&G9&G10&G11).
  repeat split; try (etransitivity; eassumption). eapply map_eq_trans; eassumption.
Qed.

Lemma services_eq_refl a : services_eq a a.
Proof. intros k. destruct (lookup k a); [apply service_eq_refl|exact I]. Qed.
Lemma services_eq_sym a b : services_eq a b -> services_eq b a.
Proof.
  intros H k. specialize (H k). destruct (lookup k a), (lookup k b); try assumption.
  apply service_eq_sym; exact H.
Qed.
Lemma services_eq_trans a b c : services_eq a b -> services_eq b c -> services_eq a c.
Proof.
  intros H1 H2 k. specialize (H1 k). specialize (H2 k).
  destruct (lookup k a), (lookup k b), (lookup k c); try assumption; try contradiction.
  eapply service_eq_trans; eassumption.
Qed.

Lemma meta_eq_refl x : meta_eq x x.
Proof. unfold meta_eq. repeat split; apply map_eq_refl. Qed.
Lemma meta_eq_sym x y : meta_eq x y -> meta_eq y x.
Proof.
  unfold meta_eq. intros (H1&H2&H3&H4&H5&H6).
  repeat split; try (symmetry; assumption); apply map_eq_sym; assumption.
Qed.
Lemma meta_eq_trans x y z : meta_eq x y -> meta_eq y z -> meta_eq x z.
Proof.
  unfold meta_eq. intros (H1&H2&H3&H4&H5&H6) (G1&G2&G3&G4&G5&G6).
  repeat split; try (etransitivity; eassumption); eapply map_eq_trans; eassumption.
Qed.

Lemma input_eq_refl a : input_eq a a.
Proof.
  unfold input_eq. split; [reflexivity|]. split; [apply meta_eq_refl|]. split; [apply map_eq_refl|].
  split; [apply services_eq_refl|reflexivity].
Qed.
Lemma input_eq_sym a b : input_eq a b -> input_eq b a.
Proof.
  unfold input_eq. intros (H1&H2&H3&H4&H5).
  split; [symmetry; exact H1|]. split; [apply meta_eq_sym; exact H2|]. split; [apply map_eq_sym; exact H3|].
  split; [apply services_eq_sym; exact H4|symmetry; exact H5].
Qed.
Lemma input_eq_trans a b c : input_eq a b -> input_eq b c -> input_eq a c.
Proof.
  unfold input_eq. intros (H1&H2&H3&H4&H5) (G1&G2&G3&G4&G5).
  split; [congruence|]. split; [eapply meta_eq_trans; eassumption|]. split; [eapply map_eq_trans; eassumption|].
  split; [eapply services_eq_trans; eassumption|congruence].
Qed.

From Coq Require Import RelationClasses.
#[global] Instance map_eq_Equivalence {A} : Equivalence (@map_eq A).
Proof. split; [exact map_eq_refl|exact map_eq_sym|exact map_eq_trans]. Qed.
#[global] Instance service_eq_Equivalence : Equivalence service_eq.
Proof. split; [exact service_eq_refl|exact service_eq_sym|exact service_eq_trans]. Qed.
#[global] Instance services_eq_Equivalence : Equivalence services_eq.
Proof. split; [exact services_eq_refl|exact services_eq_sym|exact services_eq_trans]. Qed.
#[global] Instance meta_eq_Equivalence : Equivalence meta_eq.
Proof. split; [exact meta_eq_refl|exact meta_eq_sym|exact meta_eq_trans]. Qed.
#[global] Instance input_eq_Equivalence : Equivalence input_eq.
Proof. split; [exact input_eq_refl|exact input_eq_sym|exact input_eq_trans]. Qed.

(** * Well-formedness: every Go map has unique keys *)
Definition wf_service (sv : service) : Prop := NoDup (keys (sv_fields sv)).
Definition wf_services (m : list (str * service)) : Prop :=
  NoDup (keys m) /\ Forall (fun kv => wf_service (snd kv)) m.
Definition wf_meta (x : meta) : Prop := NoDup (keys (m_imports x)) /\ NoDup (keys (m_functions x)).
Definition wf_input (a : input) : Prop :=
  wf_meta (i_meta a) /\ NoDup (keys (i_params a)) /\ wf_services (i_services a).

Lemma wf_services_lookup m k sv : wf_services m -> lookup k m = Some sv -> wf_service sv.
Proof.
  intros [_ Hall] Hl. apply lookup_Some_In in Hl. rewrite Forall_forall in Hall. exact (Hall _ Hl).
Qed.

Lemma wf_services_intro m :
  NoDup (keys m) -> (forall k sv, lookup k m = Some sv -> wf_service sv) -> wf_services m.
Proof.
  intros Hnd H. split; [exact Hnd|]. apply Forall_forall. intros [k sv] Hin. cbn [snd].
  apply (H k). apply In_lookup_Some; assumption.
Qed.

Lemma wf_empty_input : wf_input empty_input.
Proof. repeat split; cbn; constructor. Qed.

Lemma wf_merge_service x y : wf_service x -> wf_service (merge_service x y).
Proof. unfold wf_service. cbn [merge_service sv_fields]. apply keys_merge_map_nodup. Qed.

Lemma wf_merge_services a b : wf_services a -> wf_services b -> wf_services (merge_services a b).
Proof.
  intros Ha Hb. apply wf_services_intro.
  - apply keys_merge_services_nodup, Ha.
  - intros k sv. rewrite lookup_merge_services by apply Hb.
    destruct (lookup k b) as [y|] eqn:Eb.
    + destruct (lookup k a) as [x|] eqn:Ea; intros Heq; inversion Heq; subst.
      * apply wf_merge_service. exact (wf_services_lookup a k x Ha Ea).
      * exact (wf_services_lookup b k sv Hb Eb).
    + intros Ea. exact (wf_services_lookup a k sv Ha Ea).
Qed.

Lemma wf_merge_meta x y : wf_meta x -> wf_meta (merge_meta x y).
Proof.
  intros [H1 H2]. split; cbn [merge_meta m_imports m_functions]; apply keys_merge_map_nodup; assumption.
Qed.

Theorem wf_merge a b : wf_input a -> wf_input b -> wf_input (merge a b).
Proof.
  intros (Hm & Hp & Hs) (Hm' & Hp' & Hs'). unfold wf_input, merge.
  cbn [i_meta i_params i_services]. repeat split.
  - apply wf_merge_meta; exact Hm.
  - apply wf_merge_meta; exact Hm.
  - apply keys_merge_map_nodup; exact Hp.
  - apply wf_merge_services; assumption.
  - apply wf_merge_services; assumption.
Qed.

(** * 3. Identity *)
Lemma merge_ptr_None_r {A} (a : option A) : merge_ptr a None = a.
Proof. reflexivity. Qed.
Lemma merge_ptr_None_l {A} (a : option A) : merge_ptr None a = a.
Proof. destruct a; reflexivity. Qed.
Lemma merge_ptr_assoc {A} (a b c : option A) :
  merge_ptr (merge_ptr a b) c = merge_ptr a (merge_ptr b c).
Proof. destruct c; reflexivity. Qed.
Lemma merge_args_nil_r a : merge_args a [] = a.
Proof. reflexivity. Qed.
Lemma merge_args_nil_l a : merge_args [] a = a.
Proof. destruct a; reflexivity. Qed.
Lemma merge_args_assoc a b c : merge_args (merge_args a b) c = merge_args a (merge_args b c).
Proof. destruct c; reflexivity. Qed.

Theorem merge_empty_r a : merge a empty_input = a.
Proof.
  destruct a as [v [p ct cc dm im fn] ps ss ds]. unfold merge, merge_meta.
  cbn [i_version i_meta i_params i_services i_decorators empty_input empty_meta
       m_pkg m_container_type m_container_constructor m_default_must_getter m_imports m_functions
       merge_ptr merge_map merge_services fold_left].
  rewrite app_nil_r. reflexivity.
Qed.

(** for well-formed inputs the left identity is even a plain equality *)
Theorem merge_empty_l_eq a : wf_input a -> merge empty_input a = a.
Proof.
  intros ([Hi Hf] & Hp & [Hs _]).
  destruct a as [v [p ct cc dm im fn] ps ss ds]. unfold merge, merge_meta.
  cbn [i_version i_meta i_params i_services i_decorators empty_input empty_meta
       m_pkg m_container_type m_container_constructor m_default_must_getter m_imports m_functions] in *.
  rewrite !merge_ptr_None_l, !merge_map_nil_l, merge_services_nil_l by assumption.
  reflexivity.
Qed.

Theorem merge_empty_l a : wf_input a -> input_eq (merge empty_input a) a.
Proof. intros H. rewrite merge_empty_l_eq by exact H. apply input_eq_refl. Qed.

(** * 4. Associativity *)
Lemma merge_map_assoc {A} (a b c : list (str * A)) :
  NoDup (keys b) -> NoDup (keys c) ->
  map_eq (merge_map (merge_map a b) c) (merge_map a (merge_map b c)).
Proof.
  intros Hb Hc k.
  rewrite (lookup_merge_map k (merge_map a b) c Hc), (lookup_merge_map k a b Hb).
  rewrite (lookup_merge_map k a (merge_map b c)) by (apply keys_merge_map_nodup; exact Hb).
  rewrite (lookup_merge_map k b c Hc).
  destruct (lookup k c); [reflexivity|]. destruct (lookup k b); reflexivity.
Qed.

Lemma merge_service_assoc x y z :
  wf_service y -> wf_service z ->
  service_eq (merge_service (merge_service x y) z) (merge_service x (merge_service y z)).
Proof.
  intros Hy Hz. unfold service_eq, merge_service.
  cbn [sv_getter sv_must_getter sv_type sv_value sv_constructor sv_args sv_calls sv_fields sv_tags sv_scope sv_todo].
  repeat split; try apply merge_ptr_assoc.
  - apply merge_args_assoc.
  - symmetry; apply app_assoc.
  - apply merge_map_assoc; assumption.
  - symmetry; apply app_assoc.
Qed.

Lemma merge_services_assoc a b c :
  wf_services b -> wf_services c ->
  services_eq (merge_services (merge_services a b) c) (merge_services a (merge_services b c)).
Proof.
  intros Hb Hc k.
  rewrite (lookup_merge_services k (merge_services a b) c) by apply Hc.
  rewrite (lookup_merge_services k a b) by apply Hb.
  rewrite (lookup_merge_services k a (merge_services b c)) by (apply keys_merge_services_nodup, Hb).
  rewrite (lookup_merge_services k b c) by apply Hc.
  destruct (lookup k c) as [z|] eqn:Ec; destruct (lookup k b) as [y|] eqn:Eb; destruct (lookup k a) as [x|] eqn:Ea;
    try apply service_eq_refl; try exact I.
  apply merge_service_assoc; [exact (wf_services_lookup b k y Hb Eb)|exact (wf_services_lookup c k z Hc Ec)].
Qed.

Lemma merge_meta_assoc x y z :
  wf_meta y -> wf_meta z ->
  meta_eq (merge_meta (merge_meta x y) z) (merge_meta x (merge_meta y z)).
Proof.
  intros [Hy1 Hy2] [Hz1 Hz2]. unfold meta_eq, merge_meta.
  cbn [m_pkg m_container_type m_container_constructor m_default_must_getter m_imports m_functions].
  repeat split; try apply merge_ptr_assoc; apply merge_map_assoc; assumption.
Qed.

Theorem merge_assoc a b c :
  wf_input a -> wf_input b -> wf_input c ->
  input_eq (merge (merge a b) c) (merge a (merge b c)).
Proof.
  intros _ (Hbm & Hbp & Hbs) (Hcm & Hcp & Hcs). unfold input_eq, merge.
  cbn [i_version i_meta i_params i_services i_decorators].
  split; [apply merge_ptr_assoc|].
  split; [apply merge_meta_assoc; assumption|].
  split; [apply merge_map_assoc; assumption|].
  split; [apply merge_services_assoc; assumption|].
  symmetry; apply app_assoc.
Qed.

(** * 5. Fold characterisation *)
Fixpoint last_some {A} (l : list (option A)) : option A :=
  match l with
  | [] => None
  | x :: r => match last_some r with Some v => Some v | None => x end
  end.

Fixpoint last_nonempty {A} (l : list (list A)) : list A :=
  match l with
  | [] => []
  | x :: r => match last_nonempty r with [] => x | y => y end
  end.

Lemma last_some_snoc {A} (l : list (option A)) x : last_some (l ++ [x]) = merge_ptr (last_some l) x.
Proof.
  induction l as [|y l IH]; cbn [app last_some].
  - destruct x; reflexivity.
  - rewrite IH. destruct x; [reflexivity|]. reflexivity.
Qed.

Lemma last_nonempty_snoc (l : list (list prim)) x :
  last_nonempty (l ++ [x]) = merge_args (last_nonempty l) x.
Proof.
  induction l as [|y l IH]; cbn [app last_nonempty].
  - destruct x; reflexivity.
  - rewrite IH. destruct x; reflexivity.
Qed.

(** [last_some] really is "the last [Some]" *)
Lemma last_some_spec {A} (l : list (option A)) :
  match last_some l with
  | Some v => exists l1 l2, l = l1 ++ Some v :: l2 /\ Forall (fun x => x = None) l2
  | None => Forall (fun x => x = None) l
  end.
Proof.
  induction l as [|x l IH]; cbn [last_some]; [constructor|].
  destruct (last_some l) as [v|].
  - destruct IH as (l1 & l2 & -> & Hall). exists (x :: l1), l2. split; [reflexivity|exact Hall].
  - destruct x as [v|].
    + exists [], l. split; [reflexivity|exact IH].
    + constructor; [reflexivity|exact IH].
Qed.

Lemma last_nonempty_spec {A} (l : list (list A)) :
  match last_nonempty l with
  | [] => Forall (fun x => x = []) l
  | v => exists l1 l2, l = l1 ++ v :: l2 /\ Forall (fun x => x = []) l2
  end.
Proof.
  induction l as [|x l IH]; cbn [last_nonempty]; [constructor|].
  destruct (last_nonempty l) as [|a v].
  - destruct x as [|a v].
    + constructor; [reflexivity|exact IH].
    + exists [], l. split; [reflexivity|exact IH].
  - destruct IH as (l1 & l2 & -> & Hall). exists (x :: l1), l2. split; [reflexivity|exact Hall].
Qed.

Definition merge_all (files : list input) : input := fold_left merge files empty_input.

Lemma merge_all_snoc files f : merge_all (files ++ [f]) = merge (merge_all files) f.
Proof. unfold merge_all. rewrite fold_left_app. reflexivity. Qed.

Lemma wf_merge_all files : Forall wf_input files -> wf_input (merge_all files).
Proof.
  induction files as [|f files IH] using rev_ind; intros Hall; [exact wf_empty_input|].
  apply Forall_app in Hall. destruct Hall as [Hfs Hf]. inversion Hf; subst.
  rewrite merge_all_snoc. apply wf_merge; [apply IH; exact Hfs|assumption].
Qed.

(** generic scheme for option-valued observations *)
Lemma fold_last_some {B} (obs : input -> option B) files :
  obs empty_input = None ->
  (forall a f, In f files -> obs (merge a f) = merge_ptr (obs a) (obs f)) ->
  obs (merge_all files) = last_some (map obs files).
Proof.
  intros He. induction files as [|f files IH] using rev_ind; intros Hstep; [exact He|].
  rewrite merge_all_snoc, map_app, Hstep by (apply in_or_app; right; left; reflexivity).
  cbn [map]. rewrite last_some_snoc, IH; [reflexivity|].
  intros a g Hin. apply Hstep, in_or_app; left; exact Hin.
Qed.

Theorem fold_decorators files :
  i_decorators (merge_all files) = concat (map i_decorators files).
Proof.
  induction files as [|f files IH] using rev_ind; [reflexivity|].
  rewrite merge_all_snoc, map_app, concat_app. cbn [merge i_decorators map concat].
  rewrite IH, app_nil_r. reflexivity.
Qed.

Theorem fold_version files : i_version (merge_all files) = last_some (map i_version files).
Proof. apply (fold_last_some i_version); reflexivity. Qed.

Theorem fold_pkg files :
  m_pkg (i_meta (merge_all files)) = last_some (map (fun f => m_pkg (i_meta f)) files).
Proof. apply (fold_last_some (fun f => m_pkg (i_meta f))); reflexivity. Qed.

Theorem fold_container_type files :
  m_container_type (i_meta (merge_all files)) = last_some (map (fun f => m_container_type (i_meta f)) files).
Proof. apply (fold_last_some (fun f => m_container_type (i_meta f))); reflexivity. Qed.

Theorem fold_container_constructor files :
  m_container_constructor (i_meta (merge_all files)) =
  last_some (map (fun f => m_container_constructor (i_meta f)) files).
Proof. apply (fold_last_some (fun f => m_container_constructor (i_meta f))); reflexivity. Qed.

Theorem fold_default_must_getter files :
  m_default_must_getter (i_meta (merge_all files)) =
  last_some (map (fun f => m_default_must_getter (i_meta f)) files).
Proof. apply (fold_last_some (fun f => m_default_must_getter (i_meta f))); reflexivity. Qed.

Theorem fold_params k files :
  Forall wf_input files ->
  lookup k (i_params (merge_all files)) = last_some (map (fun f => lookup k (i_params f)) files).
Proof.
  intros Hall. apply (fold_last_some (fun f => lookup k (i_params f))); [reflexivity|].
  intros a f Hin. rewrite Forall_forall in Hall. destruct (Hall f Hin) as (_ & Hp & _).
  cbn [merge i_params]. rewrite lookup_merge_map by exact Hp. destruct (lookup k (i_params f)); reflexivity.
Qed.

Theorem fold_imports k files :
  Forall wf_input files ->
  lookup k (m_imports (i_meta (merge_all files))) =
  last_some (map (fun f => lookup k (m_imports (i_meta f))) files).
Proof.
  intros Hall. apply (fold_last_some (fun f => lookup k (m_imports (i_meta f)))); [reflexivity|].
  intros a f Hin. rewrite Forall_forall in Hall. destruct (Hall f Hin) as ([Hi _] & _).
  cbn [merge merge_meta i_meta m_imports]. rewrite lookup_merge_map by exact Hi. destruct (lookup k (m_imports (i_meta f))); reflexivity.
Qed.

Theorem fold_functions k files :
  Forall wf_input files ->
  lookup k (m_functions (i_meta (merge_all files))) =
  last_some (map (fun f => lookup k (m_functions (i_meta f))) files).
Proof.
  intros Hall. apply (fold_last_some (fun f => lookup k (m_functions (i_meta f)))); [reflexivity|].
  intros a f Hin. rewrite Forall_forall in Hall. destruct (Hall f Hin) as ([_ Hf] & _).
  cbn [merge merge_meta i_meta m_functions]. rewrite lookup_merge_map by exact Hf. destruct (lookup k (m_functions (i_meta f))); reflexivity.
Qed.

(** ** services *)
Definition defs (k : str) (files : list input) : list service :=
  flat_map (fun f => match lookup k (i_services f) with Some d => [d] | None => [] end) files.

Definition md_step (acc : option service) (d : service) : option service :=
  Some (match acc with Some x => merge_service x d | None => d end).
Definition merge_defs (ds : list service) : option service := fold_left md_step ds None.

Lemma merge_defs_snoc ds d : merge_defs (ds ++ [d]) = md_step (merge_defs ds) d.
Proof. unfold merge_defs. rewrite fold_left_app. reflexivity. Qed.

Lemma merge_defs_cons d ds : merge_defs (d :: ds) = Some (fold_left merge_service ds d).
Proof.
  unfold merge_defs. cbn [fold_left md_step]. revert d.
  induction ds as [|e ds IH]; intros d; [reflexivity|]. cbn [fold_left md_step]. apply IH.
Qed.

Lemma defs_app k l l' : defs k (l ++ l') = defs k l ++ defs k l'.
Proof. apply flat_map_app. Qed.

Lemma defs_nil_iff k files :
  defs k files = [] <-> forall f, In f files -> lookup k (i_services f) = None.
Proof.
  induction files as [|f files IH]; cbn [defs flat_map In].
  - split; [intros _ f []|reflexivity].
  - fold (defs k files). destruct (lookup k (i_services f)) as [d|] eqn:E; cbn [app].
    + split; [discriminate|]. intros H. specialize (H f (or_introl eq_refl)). congruence.
    + rewrite IH. split.
      * intros H g [<-|Hin]; [exact E|apply H; exact Hin].
      * intros H g Hin. apply H; right; exact Hin.
Qed.

Lemma defs_wf k files : Forall wf_input files -> Forall wf_service (defs k files).
Proof.
  induction files as [|f files IH]; intros Hall; cbn [defs flat_map]; [constructor|].
  inversion Hall as [|x l Hf Hfs]; subst. apply Forall_app. split; [|apply IH; exact Hfs].
  destruct (lookup k (i_services f)) as [d|] eqn:E; [|constructor].
  constructor; [|constructor]. destruct Hf as (_ & _ & Hs). exact (wf_services_lookup _ k d Hs E).
Qed.

(** the merged container's definition of [k] is the left-to-right merge of all definitions of [k] *)
Theorem fold_services k files :
  Forall wf_input files ->
  lookup k (i_services (merge_all files)) = merge_defs (defs k files).
Proof.
  induction files as [|f files IH] using rev_ind; intros Hall; [reflexivity|].
  apply Forall_app in Hall. destruct Hall as [Hfs Hf]. inversion Hf as [|x l Hwf _]; subst.
  destruct Hwf as (_ & _ & [Hnd _]).
  rewrite merge_all_snoc, defs_app. cbn [merge i_services].
  rewrite lookup_merge_services by exact Hnd. rewrite (IH Hfs).
  cbn [defs flat_map]. destruct (lookup k (i_services f)) as [d|]; cbn [app].
  - rewrite merge_defs_snoc. reflexivity.
  - rewrite app_nil_r. reflexivity.
Qed.

Definition defs_spec (ds : list service) (sv : service) : Prop :=
  sv_getter sv = last_some (map sv_getter ds) /\
  sv_must_getter sv = last_some (map sv_must_getter ds) /\
  sv_type sv = last_some (map sv_type ds) /\
  sv_value sv = last_some (map sv_value ds) /\
  sv_constructor sv = last_some (map sv_constructor ds) /\
  sv_scope sv = last_some (map sv_scope ds) /\
  sv_todo sv = last_some (map sv_todo ds) /\
  sv_args sv = last_nonempty (map sv_args ds) /\
  sv_calls sv = concat (map sv_calls ds) /\
  sv_tags sv = concat (map sv_tags ds) /\
  (forall f, lookup f (sv_fields sv) = last_some (map (fun d => lookup f (sv_fields d)) ds)).

Lemma defs_spec_single d : defs_spec [d] d.
Proof.
  unfold defs_spec. cbn [map last_some last_nonempty concat]. rewrite !app_nil_r.
  repeat split.
Qed.

Lemma defs_spec_snoc ds x d :
  wf_service d -> defs_spec ds x -> defs_spec (ds ++ [d]) (merge_service x d).
Proof.
  intros Hd (H1&H2&H3&H4&H5&H6&H7&H8&H9&H10&H11). unfold defs_spec.
  rewrite !map_app. cbn [map]. rewrite !last_some_snoc, last_nonempty_snoc, !concat_app.
  cbn [concat]. rewrite !app_nil_r.
  cbn [merge_service sv_getter sv_must_getter sv_type sv_value sv_constructor sv_args sv_calls sv_fields sv_tags sv_scope sv_todo].
  rewrite <- H1, <- H2, <- H3, <- H4, <- H5, <- H6, <- H7, <- H8, <- H9, <- H10.
  repeat split.
  intros f. rewrite map_app. cbn [map]. rewrite last_some_snoc, <- H11.
  rewrite lookup_merge_map by exact Hd. destruct (lookup f (sv_fields d)); reflexivity.
Qed.

Lemma merge_defs_spec ds :
  Forall wf_service ds ->
  match merge_defs ds with
  | None => ds = []
  | Some sv => ds <> [] /\ defs_spec ds sv
  end.
Proof.
  induction ds as [|d ds IH] using rev_ind; intros Hall; [reflexivity|].
  apply Forall_app in Hall. destruct Hall as [Hds Hd]. inversion Hd as [|y l Hwf _]; subst.
  specialize (IH Hds). rewrite merge_defs_snoc. unfold md_step.
  split; [intros H; apply app_eq_nil in H; destruct H; discriminate|].
  destruct (merge_defs ds) as [x|].
  - destruct IH as [_ IH]. apply defs_spec_snoc; assumption.
  - subst ds. apply defs_spec_single.
Qed.

(** the documented semantics for services *)
Theorem fold_services_char k files :
  Forall wf_input files ->
  match lookup k (i_services (merge_all files)) with
  | None => defs k files = []
  | Some sv => defs k files <> [] /\ defs_spec (defs k files) sv
  end.
Proof.
  intros Hall. rewrite fold_services by exact Hall. apply merge_defs_spec, defs_wf, Hall.
Qed.

Corollary fold_services_none k files :
  Forall wf_input files ->
  (lookup k (i_services (merge_all files)) = None <->
   forall f, In f files -> lookup k (i_services f) = None).
Proof.
  intros Hall. rewrite <- defs_nil_iff. pose proof (fold_services_char k files Hall) as H.
  destruct (lookup k (i_services (merge_all files))) as [sv|].
  - destruct H as [Hne _]. split; [discriminate|]. intros E; contradiction.
  - split; [intros _; exact H|reflexivity].
Qed.

Print Assumptions merge_empty_r.
Print Assumptions merge_empty_l.
Print Assumptions merge_empty_l_eq.
Print Assumptions wf_merge.
Print Assumptions merge_assoc.
Print Assumptions fold_decorators.
Print Assumptions fold_version.
Print Assumptions fold_pkg.
Print Assumptions fold_container_type.
Print Assumptions fold_container_constructor.
Print Assumptions fold_default_must_getter.
Print Assumptions fold_params.
Print Assumptions fold_imports.
Print Assumptions fold_functions.
Print Assumptions fold_services.
Print Assumptions fold_services_char.
Print Assumptions fold_services_none.
