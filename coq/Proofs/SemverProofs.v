From GV Require Import Base.Str Model.Semver Spec.Version.
From Coq Require Import Lia.

(** * digit strings *)

Definition canonical (d : str) : Prop :=
  d <> [] /\ all_digits d = true /\ (forall c r, d = c :: r -> c = "0"%char -> r = []).

Lemma is_digit_code c : is_digit c = true <-> (48 <= code c <= 57)%N.
Proof. unfold is_digit. rewrite andb_true_iff, !N.leb_le. tauto. Qed.

Lemma code_inj a b : code a = code b -> a = b.
Proof. unfold code. intros H. rewrite <- (ascii_N_embedding a), <- (ascii_N_embedding b), H. reflexivity. Qed.

Lemma num_lt_pow d : all_digits d = true -> (num d < 10 ^ N.of_nat (length d))%N.
Proof.
  induction d as [|c d IH]; cbn [num length all_digits forallb]; intros H; [simpl; lia|].
  apply andb_true_iff in H as [Hc Hd]. apply is_digit_code in Hc. specialize (IH Hd).
  rewrite Nat2N.inj_succ, N.pow_succ_r by lia.
  assert (code c - 48 <= 9)%N by lia.
  nia.
Qed.

Lemma num_ge_pow c d : all_digits (c :: d) = true -> c <> "0"%char -> (10 ^ N.of_nat (length d) <= num (c :: d))%N.
Proof.
  simpl. intros H Hc. apply andb_true_iff in H as [Hd _]. apply is_digit_code in Hd.
  assert (code c <> 48%N).
  { intros E. apply Hc. apply code_inj. rewrite E. reflexivity. }
  assert (1 <= code c - 48)%N by lia. nia.
Qed.

(** equal length: lexicographic = numeric *)
Lemma same_len_lt x y : length x = length y -> all_digits x = true -> all_digits y = true ->
  (str_ltb x y = true <-> (num x < num y)%N).
Proof.
  revert y; induction x as [|c x IH]; intros [|e y]; simpl; try discriminate.
  - intros _ _ _. split; [discriminate|lia].
  - intros Hl Hx Hy. injection Hl as Hl.
    apply andb_true_iff in Hx as [Hc Hx]. apply andb_true_iff in Hy as [He Hy].
    pose proof (num_lt_pow x Hx) as Bx. pose proof (num_lt_pow y Hy) as By.
    rewrite Hl in Bx |- *. apply is_digit_code in Hc, He.
    set (P := (10 ^ N.of_nat (length y))%N) in *.
    destruct (N.ltb_spec (code c) (code e)) as [L|L].
    + split; [intros _|reflexivity]. nia.
    + destruct (N.ltb_spec (code e) (code c)) as [L2|L2].
      * split; [discriminate|]. intros Hn. exfalso. nia.
      * assert (code c = code e) as E by lia. rewrite E.
        rewrite (IH y Hl Hx Hy). lia.
Qed.

Lemma same_len_eq x y : length x = length y -> all_digits x = true -> all_digits y = true ->
  (x = y <-> num x = num y).
Proof.
  revert y; induction x as [|c x IH]; intros [|e y]; simpl; try discriminate.
  - tauto.
  - intros Hl Hx Hy. injection Hl as Hl.
    apply andb_true_iff in Hx as [Hc Hx]. apply andb_true_iff in Hy as [He Hy].
    pose proof (num_lt_pow x Hx) as Bx. pose proof (num_lt_pow y Hy) as By.
    rewrite Hl in Bx |- *. apply is_digit_code in Hc, He.
    set (P := (10 ^ N.of_nat (length y))%N) in *.
    split.
    + intros E. injection E as -> ->. reflexivity.
    + intros E. assert (code c = code e) as Ec by nia.
      assert (num x = num y) as En by (rewrite Ec in E; lia).
      f_equal; [apply code_inj; exact Ec | apply (IH y Hl Hx Hy); exact En].
Qed.

Lemma canonical_len_lt x y : canonical x -> canonical y -> (length x < length y)%nat -> (num x < num y)%N.
Proof.
  intros (Hx0 & Hx & _) (Hy0 & Hy & Hyc) L.
  pose proof (num_lt_pow x Hx) as Bx.
  destruct y as [|e y]; [congruence|].
  assert (e <> "0"%char) as He.
  { intros ->. specialize (Hyc _ _ eq_refl eq_refl). subst y. destruct x; simpl in *; [congruence|lia]. }
  pose proof (num_ge_pow e y Hy He) as By.
  simpl in L.
  assert (10 ^ N.of_nat (length x) <= 10 ^ N.of_nat (length y))%N by (apply N.pow_le_mono_r; lia).
  lia.
Qed.

(** compare_int is the numeric comparison on canonical decimals *)
Lemma compare_int_num x y : canonical x -> canonical y ->
  (compare_int x y = 0%Z <-> num x = num y) /\
  ((compare_int x y < 0)%Z <-> (num x < num y)%N).
Proof.
  intros Cx Cy. unfold compare_int.
  destruct (str_eqb_spec x y) as [->|Hne]; [split; split; lia|].
  destruct (Nat.ltb_spec (length x) (length y)) as [L|L].
  { pose proof (canonical_len_lt x y Cx Cy L). split; split; lia. }
  destruct (Nat.ltb_spec (length y) (length x)) as [L2|L2].
  { pose proof (canonical_len_lt y x Cy Cx L2). split; split; lia. }
  assert (length x = length y) as El by lia.
  destruct Cx as (_ & Dx & _), Cy as (_ & Dy & _).
  pose proof (same_len_eq x y El Dx Dy) as He.
  pose proof (same_len_lt x y El Dx Dy) as Hl.
  destruct (str_ltb x y).
  - assert (num x < num y)%N by (apply Hl; reflexivity).
    split; split; intros; try lia.
  - assert (~ (num x < num y)%N) by (intros Hn; apply Hl in Hn; discriminate).
    assert (num x <> num y) by (intros E; apply He in E; contradiction).
    split; split; intros; try lia.
Qed.

Lemma canonical_eq_num x y : canonical x -> canonical y -> (x = y <-> num x = num y).
Proof.
  intros Cx Cy. destruct (compare_int_num x y Cx Cy) as [[A B] _].
  unfold compare_int in *. destruct (str_eqb_spec x y) as [->|Hne]; [tauto|].
  split; [intros; contradiction|]. intros E. apply B in E.
  destruct (Nat.ltb (length x) (length y)); [discriminate|].
  destruct (Nat.ltb (length y) (length x)); [discriminate|].
  destruct (str_ltb x y); discriminate.
Qed.

Lemma canonical_zero x : canonical x -> (x = s "0" <-> num x = 0%N).
Proof.
  intros Cx. assert (canonical (s "0")) as C0.
  { split; [discriminate|]. split; [reflexivity|]. intros c r H _. injection H as _ <-. reflexivity. }
  rewrite (canonical_eq_num x (s "0") Cx C0). simpl. reflexivity.
Qed.

(** * parse_int *)

Lemma take_digits_spec v d r : take_digits v = (d, r) ->
  v = d ++ r /\ all_digits d = true /\ match r with c :: _ => is_digit c = false | [] => True end.
Proof.
  revert d r; induction v as [|c v IH]; simpl; intros d r H.
  - injection H as <- <-. auto.
  - destruct (is_digit c) eqn:Hc.
    + destruct (take_digits v) as [d' r'] eqn:Ht. injection H as <- <-.
      destruct (IH _ _ eq_refl) as (-> & Hd & Hr). simpl. rewrite Hc. auto.
    + injection H as <- <-. simpl. rewrite Hc. auto.
Qed.

Lemma take_digits_app d r : all_digits d = true -> match r with c :: _ => is_digit c = false | [] => True end ->
  take_digits (d ++ r) = (d, r).
Proof.
  induction d as [|c d IH]; simpl; intros Hd Hr.
  - destruct r as [|c r]; [reflexivity|]. simpl. rewrite Hr. reflexivity.
  - apply andb_true_iff in Hd as [Hc Hd]. rewrite Hc, (IH Hd Hr). reflexivity.
Qed.

Lemma parse_int_spec v d r : parse_int v = Some (d, r) ->
  v = d ++ r /\ canonical d /\ match r with c :: _ => is_digit c = false | [] => True end.
Proof.
  unfold parse_int. destruct v as [|c v]; [discriminate|].
  destruct (is_digit c) eqn:Hc; simpl negb; cbv iota; [|discriminate].
  destruct (take_digits (c :: v)) as [d' r'] eqn:Ht.
  destruct (take_digits_spec _ _ _ Ht) as (Hv & Hd & Hr).
  destruct (Ascii.eqb c "0" && negb (Nat.eqb (length d') 1)) eqn:Hz; [discriminate|].
  intros H; injection H as <- <-.
  split; [exact Hv|]. split; [|exact Hr].
  simpl in Ht. rewrite Hc in Ht. destruct (take_digits v) as [d2 r2]. injection Ht as <- <-.
  split; [discriminate|]. split; [exact Hd|].
  intros c0 r0 E Ez. injection E as <- <-. subst c.
  simpl in Hz. destruct d2; [reflexivity|discriminate].
Qed.

Lemma parse_int_app d r : canonical d -> match r with c :: _ => is_digit c = false | [] => True end ->
  parse_int (d ++ r) = Some (d, r).
Proof.
  intros (Hne & Hd & Hc) Hr. unfold parse_int.
  destruct d as [|c d]; [congruence|]. simpl app.
  pose proof Hd as Hd'. simpl in Hd'. apply andb_true_iff in Hd' as [Hcd _]. rewrite Hcd. simpl negb. cbv iota.
  change (c :: d ++ r) with ((c :: d) ++ r). rewrite (take_digits_app _ _ Hd Hr).
  destruct (Ascii.eqb_spec c "0") as [->|Hn]; simpl.
  - rewrite (Hc _ _ eq_refl eq_refl). reflexivity.
  - reflexivity.
Qed.

(** * shape of a parsed version *)

Lemma dot_not_digit : is_digit "."%char = false. Proof. reflexivity. Qed.

Lemma eqb_dot c : Ascii.eqb c "."%char = true -> c = "."%char.
Proof. apply Ascii.eqb_eq. Qed.

(** every valid version is "v" ++ major ++ tail, where tail is empty or starts with "." ++ minor ++ tail2, tail2 empty or '.'... *)
Lemma parse_shape v p : parse v = Some p ->
  canonical (p_major p) /\ canonical (p_minor p) /\
  exists rest, (v = s "v" ++ p_major p ++ rest) /\
    (rest = [] /\ p_minor p = s "0"
     \/ exists rest2, rest = s "." ++ p_minor p ++ rest2 /\ match rest2 with c :: _ => is_digit c = false | [] => True end).
Proof.
  unfold parse. destruct v as [|c v1]; [discriminate|].
  destruct (Ascii.eqb_spec c "v") as [->|]; simpl negb; cbv iota; [|discriminate].
  destruct (parse_int v1) as [[major v2]|] eqn:H1; [|discriminate].
  destruct (parse_int_spec _ _ _ H1) as (-> & Cm & Hr1).
  assert (canonical (s "0")) as C0.
  { split; [discriminate|]. split; [reflexivity|]. intros c r H _. injection H as _ <-. reflexivity. }
  destruct v2 as [|d v3].
  { intros H; injection H as <-. simpl. split; [exact Cm|]. split; [exact C0|].
    exists []. split; [reflexivity|]. left; auto. }
  destruct (Ascii.eqb_spec d ".") as [->|]; simpl negb; cbv iota; [|discriminate].
  destruct (parse_int v3) as [[minor v4]|] eqn:H2; [|discriminate].
  destruct (parse_int_spec _ _ _ H2) as (-> & Cn & Hr2).
  destruct v4 as [|e v5].
  { intros H; injection H as <-. simpl. split; [exact Cm|]. split; [exact Cn|].
    exists ("."%char :: minor ++ []). split; [reflexivity|]. right. exists []. split; [reflexivity|exact I]. }
  destruct (Ascii.eqb_spec e ".") as [->|]; simpl negb; cbv iota; [|discriminate].
  destruct (parse_int v5) as [[patch v6]|]; [|discriminate].
  match goal with |- context [match ?X with Some _ => _ | None => None end = Some p -> _] => destruct X as [[pre v7]|]; [|discriminate] end.
  match goal with |- context [match ?X with Some _ => _ | None => None end = Some p -> _] => destruct X as [[build v8]|]; [|discriminate] end.
  destruct v8; [|discriminate].
  intros H; injection H as <-. simpl. split; [exact Cm|]. split; [exact Cn|].
  exists ("."%char :: minor ++ "."%char :: v5). split; [reflexivity|]. right.
  exists ("."%char :: v5). split; [reflexivity|reflexivity].
Qed.

Lemma firstn_app_exact {A} (a b : list A) : firstn (length a) (a ++ b) = a.
Proof. induction a; simpl; [destruct b; reflexivity|congruence]. Qed.

Lemma major_spec v p : parse v = Some p -> major v = s "v" ++ p_major p.
Proof.
  intros H. unfold major. rewrite H.
  destruct (parse_shape v p H) as (_ & _ & rest & -> & _).
  change (s "v" ++ p_major p ++ rest) with (("v"%char :: p_major p) ++ rest).
  change (1 + length (p_major p))%nat with (length ("v"%char :: p_major p)).
  apply firstn_app_exact.
Qed.

Lemma skipn_app_exact {A} (a b : list A) : skipn (length a) (a ++ b) = b.
Proof. induction a; simpl; [reflexivity|assumption]. Qed.

Lemma nth_error_app_exact {A} (a b : list A) : nth_error (a ++ b) (length a) = nth_error b 0.
Proof. induction a; simpl; [reflexivity|assumption]. Qed.

Lemma major_minor_spec v p : parse v = Some p -> major_minor v = s "v" ++ p_major p ++ s "." ++ p_minor p.
Proof.
  intros H. unfold major_minor. rewrite H.
  destruct (parse_shape v p H) as (_ & _ & rest & -> & Hrest).
  set (pre := "v"%char :: p_major p).
  change (s "v" ++ p_major p ++ rest) with (pre ++ rest).
  change (1 + length (p_major p))%nat with (length pre).
  rewrite firstn_app_exact.
  match goal with |- (if ?c then _ else _) = _ => destruct c eqn:Hc end; [|reflexivity].
  apply andb_true_iff in Hc as [Hc _]. apply andb_true_iff in Hc as [Hlen Hdot].
  destruct Hrest as [[-> _]|(rest2 & -> & _)].
  - rewrite (nth_error_app_exact pre []) in Hdot. discriminate.
  - replace (length pre + 1 + length (p_minor p))%nat with (length (pre ++ s "." ++ p_minor p))
      by (rewrite !app_length; simpl; lia).
    replace (pre ++ s "." ++ p_minor p ++ rest2) with ((pre ++ s "." ++ p_minor p) ++ rest2)
      by (rewrite <- !app_assoc; reflexivity).
    rewrite firstn_app_exact. unfold pre. reflexivity.
Qed.

(** parsing  vMAJOR.MINOR.0  *)
Lemma parse_mm0 a b : canonical a -> canonical b ->
  parse (s "v" ++ a ++ s "." ++ b ++ s ".0") = Some (mk a b (s "0") [] [] []).
Proof.
  intros Ca Cb. unfold parse. simpl app at 1.
  change (Ascii.eqb "v" "v") with true. simpl negb. cbv iota.
  rewrite (parse_int_app a _ Ca) by reflexivity.
  simpl app. change (Ascii.eqb "." ".") with true. simpl negb. cbv iota.
  rewrite (parse_int_app b _ Cb) by reflexivity.
  simpl. reflexivity.
Qed.

Lemma compare_mm0 a b a' b' : canonical a -> canonical b -> canonical a' -> canonical b' -> a = a' ->
  compare (s "v" ++ a ++ s "." ++ b ++ s ".0") (s "v" ++ a' ++ s "." ++ b' ++ s ".0") = compare_int b b'.
Proof.
  intros Ca Cb Ca' Cb' <-. unfold compare. rewrite !parse_mm0 by assumption. simpl.
  unfold compare_int at 1. rewrite str_eqb_refl. simpl.
  destruct (Z.eqb_spec (compare_int b b') 0) as [E|E]; simpl; [|reflexivity].
  rewrite E. reflexivity.
Qed.

(** * the gate *)

Lemma is_valid_parse v : is_valid v = true -> exists p, parse v = Some p.
Proof. unfold is_valid. destruct (parse v); [eauto|discriminate]. Qed.

Lemma valid_no_v x : is_valid (s "v" ++ x) = true -> has_prefix (s "v") x = false.
Proof.
  intros H. destruct (is_valid_parse _ H) as [p Hp].
  destruct x as [|c x]; [reflexivity|].
  change (has_prefix (s "v") (c :: x)) with (Ascii.eqb "v" c && true).
  destruct (Ascii.eqb_spec "v"%char c) as [<-|]; [|reflexivity].
  exfalso. vm_compute in Hp. discriminate.
Qed.

Lemma split_at_dot (a b a' b' : str) : all_digits a = true -> all_digits a' = true ->
  a ++ s "." ++ b = a' ++ s "." ++ b' -> a = a' /\ b = b'.
Proof.
  revert a'; induction a as [|c a IH]; intros [|d a'] Da Da' E; cbn [app s list_ascii_of_string] in E.
  - injection E as E. auto.
  - injection E as Ec E. subst d. discriminate.
  - injection E as Ec E. subst c. discriminate.
  - injection E as -> E. cbn [all_digits forallb] in Da, Da'.
    apply andb_true_iff in Da as [_ Da]. apply andb_true_iff in Da' as [_ Da'].
    destruct (IH a' Da Da' E) as [-> ->]. auto.
Qed.

Theorem gate_correct B V :
  is_valid (s "v" ++ V) = true ->
  (validate_version B (Some V) = None <-> gate B (Some V) <> Reject).
Proof.
  intros HV. unfold validate_version.
  assert (validate_version_msg B (Some V) = None <-> gate B (Some V) <> Reject) as Hm.
  2:{ destruct (validate_version_msg B (Some V)); split; intros H; try discriminate; try reflexivity.
      - apply Hm in H. discriminate.
      - apply Hm. exact H. }
  unfold validate_version_msg, gate, sem.
  destruct (is_valid (s "v" ++ B)) eqn:HB.
  2:{ unfold is_valid in HB. destruct (parse (s "v" ++ B)); [discriminate|]. simpl. split; [discriminate|reflexivity]. }
  change (negb true) with false. cbv iota.
  destruct (is_valid_parse _ HB) as [pb Hpb]. destruct (is_valid_parse _ HV) as [pv Hpv].
  unfold given_norm. rewrite (valid_no_v _ HV).
  rewrite Hpb, Hpv.
  rewrite (major_spec _ _ Hpb), (major_spec _ _ Hpv), (major_minor_spec _ _ Hpb), (major_minor_spec _ _ Hpv).
  destruct (parse_shape _ _ Hpb) as (CMb & Cmb & _). destruct (parse_shape _ _ Hpv) as (CMv & Cmv & _).
  set (Mb := p_major pb) in *. set (mb := p_minor pb) in *. set (Mv := p_major pv) in *. set (mv := p_minor pv) in *.
  (* "v0" test *)
  assert (str_eqb (s "v" ++ Mb) (s "v0") = N.eqb (num Mb) 0) as Hz.
  { destruct (N.eqb_spec (num Mb) 0) as [E|E].
    - apply (canonical_zero Mb CMb) in E. rewrite E. reflexivity.
    - apply str_eqb_neq. intros E'. apply E. apply (canonical_zero Mb CMb).
      change (s "v" ++ Mb) with ("v"%char :: Mb) in E'. change (s "v0") with ("v"%char :: s "0") in E'. congruence. }
  rewrite Hz.
  destruct (N.eqb_spec (num Mb) 0) as [E0|E0].
  - (* major 0 *)
    match goal with |- context [str_eqb ?a ?b] => destruct (str_eqb_spec a b) as [E|E] end; simpl.
    + split; [intros _|reflexivity].
      apply app_inv_tail in E. apply app_inv_head in E.
      assert (Mb ++ s "." ++ mb = Mv ++ s "." ++ mv) as E2 by exact E.
      destruct CMb as (HMb0 & Db & HMbc), CMv as (HMv0 & Dv & HMvc).
      destruct (split_at_dot Mb mb Mv mv Db Dv E2) as [EM Em].
      rewrite <- EM, <- Em, !N.eqb_refl. simpl. discriminate.
    + split; [discriminate|]. intros Hg. exfalso.
      destruct (N.eqb_spec (num Mv) (num Mb)) as [E1|E1]; simpl in Hg; [|congruence].
      destruct (N.eqb_spec (num mv) (num mb)) as [E2|E2]; simpl in Hg; [|congruence].
      apply (canonical_eq_num Mv Mb CMv CMb) in E1. apply (canonical_eq_num mv mb Cmv Cmb) in E2.
      apply E. rewrite E1, E2. reflexivity.
  - (* major >= 1 *)
    match goal with |- context [negb (str_eqb ?a ?b)] => destruct (str_eqb_spec a b) as [E|E] end; simpl negb; cbv iota.
    + apply app_inv_head in E.
      rewrite <- !app_assoc. rewrite (compare_mm0 Mb mb Mv mv CMb Cmb CMv Cmv E).
      destruct (compare_int_num mb mv Cmb Cmv) as [_ Hlt].
      rewrite <- E, N.eqb_refl. simpl.
      destruct (Z.ltb_spec (compare_int mb mv) 0) as [L|L].
      * apply Hlt in L. split; [discriminate|]. destruct (N.leb_spec (num mv) (num mb)); [lia|congruence].
      * split; [intros _|reflexivity]. destruct (N.leb_spec (num mv) (num mb)); [discriminate|].
        exfalso. apply Hlt in H. lia.
    + split; [discriminate|]. intros Hg. exfalso.
      destruct (N.eqb_spec (num Mv) (num Mb)) as [E1|E1]; simpl in Hg; [|congruence].
      apply (canonical_eq_num Mv Mb CMv CMb) in E1. apply E. rewrite E1. reflexivity.
Qed.

Theorem gate_skip_no_version B : validate_version B None = None.
Proof. unfold validate_version, validate_version_msg. destruct (is_valid (s "v" ++ B)); reflexivity. Qed.

Theorem gate_skip_non_semver (B : str) (V : option str) : is_valid (s "v" ++ B) = false -> validate_version B V = None /\ gate B V = Skip.
Proof.
  intros H. unfold validate_version, validate_version_msg, gate, sem. rewrite H.
  unfold is_valid in H. destruct (parse (s "v" ++ B)); [discriminate|]. destruct V; split; reflexivity.
Qed.

(** patch numbers and prerelease/build suffixes never matter: the verdict is a function of (major, minor) *)
Theorem gate_patch_suffix_irrelevant B B' V V' :
  is_valid (s "v" ++ V) = true -> is_valid (s "v" ++ V') = true ->
  sem (s "v" ++ B) = sem (s "v" ++ B') -> sem (s "v" ++ V) = sem (s "v" ++ V') ->
  (validate_version B (Some V) = None <-> validate_version B' (Some V') = None).
Proof.
  intros HV HV' EB EV. rewrite (gate_correct B V HV), (gate_correct B' V' HV').
  unfold gate. rewrite EB, EV. tauto.
Qed.

(** a configured version with a leading "v" is a parse error *)
Theorem unmarshal_rejects_v x : unmarshal_version_ok (s "v" ++ x) = false.
Proof. unfold unmarshal_version_ok, is_valid, parse. simpl. reflexivity. Qed.

(** main.go: the linker-provided version loses its "v" exactly when it is a semantic version *)
Theorem build_version_trim x : is_valid (s "v" ++ x) = true -> build_version (s "v" ++ x) = x.
Proof. intros H. unfold build_version. simpl has_prefix. rewrite H. reflexivity. Qed.

Theorem build_version_keep x : is_valid x = false -> build_version x = x.
Proof. intros H. unfold build_version. rewrite H, andb_false_r. reflexivity. Qed.
