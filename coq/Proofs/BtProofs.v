(** Correctness of the backtracking matcher with captures [bt] / [bt_full] / [site_submatch] of Regex/Re.v
    with respect to the denotational semantics [Sem] (and hence the derivative matcher [dmatch]).

    - [bt_sound]            soundness, generalised over the continuation
    - [bt_sound_traced]     soundness + provenance of every capture entry written ("traced" soundness)
    - [bt_complete]         completeness, generalised over the continuation
    - [bt_full_iff_dmatch], [site_submatch_defined], [site_submatch_iff_dmatch] ...
    - [bt_full_caps_faithful]  every capture entry is a substring of the input matched by its group
    - determinism / last-write-wins notes, examples by [vm_compute]. *)
From GV Require Import Base.Str Regex.Re Proofs.RegexProofs.
From Coq Require Import Lia.

Definition kont := str -> caps -> option caps.

(** * the inner loop of [Star] as a top-level function *)
Section StarLoop.
  Variable f : str -> caps -> kont -> option caps.
  Variable k : kont.
  Fixpoint star_loop (n : nat) (x : str) (c : caps) {struct n} : option caps :=
    match n with
    | O => k x c
    | S n' =>
      match f x c (fun x' c' => if Nat.ltb (length x') (length x) then star_loop n' x' c' else None) with
      | Some r => Some r
      | None => k x c
      end
    end.
End StarLoop.

Lemma bt_Star : forall a x c k, bt (Star a) x c k = star_loop (bt a) k (S (length x)) x c.
Proof. reflexivity. Qed.

Lemma star_loop_S : forall f k n x c,
  star_loop f k (S n) x c =
  match f x c (fun x' c' => if Nat.ltb (length x') (length x) then star_loop f k n x' c' else None) with
  | Some r => Some r
  | None => k x c
  end.
Proof. reflexivity. Qed.

(** * capture groups occurring in a regex *)
Inductive subre_cap (i : nat) (a : re) : re -> Prop :=
| SC_here : subre_cap i a (Cap i a)
| SC_cap j r : subre_cap i a r -> subre_cap i a (Cap j r)
| SC_catl r1 r2 : subre_cap i a r1 -> subre_cap i a (Cat r1 r2)
| SC_catr r1 r2 : subre_cap i a r2 -> subre_cap i a (Cat r1 r2)
| SC_altl r1 r2 : subre_cap i a r1 -> subre_cap i a (Alt r1 r2)
| SC_altr r1 r2 : subre_cap i a r2 -> subre_cap i a (Alt r1 r2)
| SC_star r : subre_cap i a r -> subre_cap i a (Star r).

Definition substr (v x : str) : Prop := exists pre post, x = pre ++ v ++ post.

(** the entry [p = (i, v)] is a faithful capture for [r] on the matched word [x1] *)
Definition good (r : re) (x1 : str) (p : nat * str) : Prop :=
  exists a, subre_cap (fst p) a r /\ Sem a (snd p) /\ substr (snd p) x1.

(** [c'] is [c] with faithful entries pushed on top *)
Definition caps_ext (r : re) (x1 : str) (c c' : caps) : Prop :=
  exists new, c' = new ++ c /\ forall p, In p new -> good r x1 p.

Lemma substr_mono : forall v x1 l m, substr v x1 -> substr v (l ++ x1 ++ m).
Proof.
  intros v x1 l m [pre [post ->]]. exists (l ++ pre), (post ++ m).
  repeat rewrite <- app_assoc. reflexivity.
Qed.

Lemma good_mono : forall r r' x1 l m p,
  (forall i a, subre_cap i a r -> subre_cap i a r') ->
  good r x1 p -> good r' (l ++ x1 ++ m) p.
Proof.
  intros r r' x1 l m p Hsub [a [Hc [Hs Hx]]].
  exists a; split; [apply Hsub; exact Hc | split; [exact Hs | apply substr_mono; exact Hx]].
Qed.

Lemma caps_ext_refl : forall r x1 c, caps_ext r x1 c c.
Proof. intros r x1 c; exists []; split; [reflexivity | intros p []]. Qed.

Lemma caps_ext_mono : forall r r' x1 l m c c',
  (forall i a, subre_cap i a r -> subre_cap i a r') ->
  caps_ext r x1 c c' -> caps_ext r' (l ++ x1 ++ m) c c'.
Proof.
  intros r r' x1 l m c c' Hsub [new [-> Hn]].
  exists new; split; [reflexivity|]. intros p Hp. eapply good_mono; [exact Hsub | apply Hn; exact Hp].
Qed.

Lemma caps_ext_trans : forall r x1 c c' c'',
  caps_ext r x1 c c' -> caps_ext r x1 c' c'' -> caps_ext r x1 c c''.
Proof.
  intros r x1 c c' c'' [n1 [-> H1]] [n2 [-> H2]].
  exists (n2 ++ n1); split; [rewrite app_assoc; reflexivity|].
  intros p Hp. apply in_app_or in Hp. destruct Hp as [Hp|Hp]; [apply H2 | apply H1]; exact Hp.
Qed.

Lemma caps_ext_push : forall r x1 c c' p,
  caps_ext r x1 c c' -> good r x1 p -> caps_ext r x1 c (p :: c').
Proof.
  intros r x1 c c' p [new [-> Hn]] Hp.
  exists (p :: new); split; [reflexivity|].
  intros q [<-|Hq]; [exact Hp | apply Hn; exact Hq].
Qed.

(** left / right embedding into a concatenated word *)
Lemma caps_ext_left : forall r r' x1 y c c',
  (forall i a, subre_cap i a r -> subre_cap i a r') ->
  caps_ext r x1 c c' -> caps_ext r' (x1 ++ y) c c'.
Proof.
  intros r r' x1 y c c' Hsub H.
  change (x1 ++ y) with ([] ++ x1 ++ y). eapply caps_ext_mono; eassumption.
Qed.

Lemma caps_ext_right : forall r r' x1 y c c',
  (forall i a, subre_cap i a r -> subre_cap i a r') ->
  caps_ext r y c c' -> caps_ext r' (x1 ++ y) c c'.
Proof.
  intros r r' x1 y c c' Hsub H.
  replace (x1 ++ y) with (x1 ++ y ++ []) by (rewrite app_nil_r; reflexivity).
  eapply caps_ext_mono; eassumption.
Qed.

Lemma firstn_len_app : forall (x1 x2 : str), firstn (length (x1 ++ x2) - length x2) (x1 ++ x2) = x1.
Proof.
  intros x1 x2. rewrite app_length.
  replace (length x1 + length x2 - length x2)%nat with (length x1) by lia.
  rewrite firstn_app. replace (length x1 - length x1)%nat with 0%nat by lia.
  rewrite firstn_all. cbn [firstn]. apply app_nil_r.
Qed.

(** * 1 + 4. traced soundness *)
Definition bt_sound_at (r : re) : Prop :=
  forall x c (k : kont) res, bt r x c k = Some res ->
  exists x1 x2 c', x = x1 ++ x2 /\ Sem r x1 /\ k x2 c' = Some res /\ caps_ext r x1 c c'.

Lemma star_loop_sound : forall a, bt_sound_at a ->
  forall (k : kont) n x c res, star_loop (bt a) k n x c = Some res ->
  exists x1 x2 c', x = x1 ++ x2 /\ Sem (Star a) x1 /\ k x2 c' = Some res /\ caps_ext (Star a) x1 c c'.
Proof.
  intros a IHa k n; induction n as [|n IHn]; intros x c res H.
  - cbn [star_loop] in H. exists [], x, c.
    split; [reflexivity | split; [apply SStar0 | split; [exact H | apply caps_ext_refl]]].
  - rewrite star_loop_S in H.
    destruct (bt a x c _) as [r0|] eqn:E.
    + injection H as ->.
      apply IHa in E. destruct E as [x1 [x2 [c' [-> [Sa [K Ce]]]]]].
      destruct (Nat.ltb (length x2) (length (x1 ++ x2))); [|discriminate].
      apply IHn in K. destruct K as [y1 [y2 [c'' [-> [Ss [K Ce']]]]]].
      exists (x1 ++ y1), y2, c''.
      split; [rewrite app_assoc; reflexivity|].
      split; [apply SStarS; assumption|].
      split; [exact K|].
      eapply caps_ext_trans.
      * eapply caps_ext_left; [|exact Ce]. intros i b Hb; apply SC_star; exact Hb.
      * eapply caps_ext_right; [|exact Ce']. intros i b Hb; exact Hb.
    + exists [], x, c.
      split; [reflexivity | split; [apply SStar0 | split; [exact H | apply caps_ext_refl]]].
Qed.

(** the [Cap] node records exactly the word matched by its body *)
Lemma bt_Cap_step : forall i a, bt_sound_at a ->
  forall x c (k : kont) res, bt (Cap i a) x c k = Some res ->
  exists x1 x2 c', x = x1 ++ x2 /\ Sem a x1 /\ k x2 ((i, x1) :: c') = Some res /\ caps_ext a x1 c c'.
Proof.
  intros i a IHa x c k res H. cbn [bt] in H.
  apply IHa in H. destruct H as [x1 [x2 [c' [-> [Sa [K Ce]]]]]].
  rewrite firstn_len_app in K.
  exists x1, x2, c'. repeat split; assumption.
Qed.

Theorem bt_sound_traced : forall r x c (k : kont) res,
  bt r x c k = Some res ->
  exists x1 x2 c', x = x1 ++ x2 /\ Sem r x1 /\ k x2 c' = Some res /\ caps_ext r x1 c c'.
Proof.
  intros r; change (bt_sound_at r).
  induction r as [| |l|a IHa b IHb|a IHa b IHb|a IHa|i a IHa]; intros x c k res H.
  - discriminate H.
  - cbn [bt] in H. exists [], x, c.
    split; [reflexivity | split; [apply SEps | split; [exact H | apply caps_ext_refl]]].
  - cbn [bt] in H. destruct x as [|ch x']; [discriminate|].
    destruct (cls_match l ch) eqn:Hc; [|discriminate].
    exists [ch], x', c.
    split; [reflexivity | split; [apply SCls; exact Hc | split; [exact H | apply caps_ext_refl]]].
  - cbn [bt] in H.
    apply IHa in H. destruct H as [x1 [x2 [c' [-> [Sa [K Ce]]]]]].
    apply IHb in K. destruct K as [y1 [y2 [c'' [-> [Sb [K Ce']]]]]].
    exists (x1 ++ y1), y2, c''.
    split; [rewrite app_assoc; reflexivity|].
    split; [apply SCat; assumption|].
    split; [exact K|].
    eapply caps_ext_trans.
    + eapply caps_ext_left; [|exact Ce]. intros j d Hd; apply SC_catl; exact Hd.
    + eapply caps_ext_right; [|exact Ce']. intros j d Hd; apply SC_catr; exact Hd.
  - cbn [bt] in H. destruct (bt a x c k) as [r0|] eqn:E.
    + injection H as ->. apply IHa in E. destruct E as [x1 [x2 [c' [-> [Sa [K Ce]]]]]].
      exists x1, x2, c'. split; [reflexivity|]. split; [apply SAltL; exact Sa|]. split; [exact K|].
      rewrite <- (app_nil_r x1). eapply caps_ext_left; [|exact Ce]. intros j d Hd; apply SC_altl; exact Hd.
    + apply IHb in H. destruct H as [x1 [x2 [c' [-> [Sb [K Ce]]]]]].
      exists x1, x2, c'. split; [reflexivity|]. split; [apply SAltR; exact Sb|]. split; [exact K|].
      rewrite <- (app_nil_r x1). eapply caps_ext_left; [|exact Ce]. intros j d Hd; apply SC_altr; exact Hd.
  - rewrite bt_Star in H. eapply star_loop_sound; [exact IHa | exact H].
  - apply (bt_Cap_step i a IHa) in H. destruct H as [x1 [x2 [c' [-> [Sa [K Ce]]]]]].
    exists x1, x2, ((i, x1) :: c').
    split; [reflexivity|]. split; [apply SCap; exact Sa|]. split; [exact K|].
    apply caps_ext_push.
    + rewrite <- (app_nil_r x1). eapply caps_ext_left; [|exact Ce]. intros j d Hd; apply SC_cap; exact Hd.
    + exists a. cbn [fst snd]. split; [apply SC_here|]. split; [exact Sa|].
      exists [], []. cbn [app]. rewrite app_nil_r. reflexivity.
Qed.
Print Assumptions bt_sound_traced.

(** 1. soundness *)
Theorem bt_sound : forall r x c (k : kont) res,
  bt r x c k = Some res -> exists x1 x2 c', x = x1 ++ x2 /\ Sem r x1 /\ k x2 c' = Some res.
Proof.
  intros r x c k res H. apply bt_sound_traced in H.
  destruct H as [x1 [x2 [c' [E [S1 [K _]]]]]]. exists x1, x2, c'. auto.
Qed.
Print Assumptions bt_sound.

(** * 2. completeness *)

(** a word of [Sem (Star a)] is a concatenation of NON-EMPTY words of [Sem a] (and conversely) *)
Lemma Sem_Star_nonempty_decomp_len : forall a n x, (length x <= n)%nat -> Sem (Star a) x ->
  exists ws, x = concat ws /\ Forall (fun w => w <> [] /\ Sem a w) ws.
Proof.
  intros a n; induction n as [|n IHn]; intros x Hl H.
  - destruct x as [|ch x']; [|cbn [length] in Hl; lia].
    exists []; split; [reflexivity | constructor].
  - destruct x as [|ch x'].
    + exists []; split; [reflexivity | constructor].
    + apply Sem_Star_cons in H. destruct H as [y [z [-> [Sa Ss]]]].
      assert (Hz : (length z <= n)%nat).
      { cbn [length] in Hl. rewrite app_length in Hl. lia. }
      destruct (IHn z Hz Ss) as [ws [-> Hws]].
      exists ((ch :: y) :: ws); split; [reflexivity|].
      constructor; [split; [discriminate | exact Sa] | exact Hws].
Qed.

Theorem Sem_Star_nonempty_decomp : forall a x,
  Sem (Star a) x <-> exists ws, x = concat ws /\ Forall (fun w => w <> [] /\ Sem a w) ws.
Proof.
  intros a x; split.
  - apply (Sem_Star_nonempty_decomp_len a (length x) x). lia.
  - intros [ws [-> Hws]]. induction Hws as [|w ws [_ Hw] _ IH]; cbn [concat].
    + apply SStar0.
    + apply SStarS; assumption.
Qed.

Definition bt_complete_at (r : re) : Prop :=
  forall x c (k : kont),
  (exists x1 x2, x = x1 ++ x2 /\ Sem r x1 /\ forall c', k x2 c' <> None) -> bt r x c k <> None.

(** the fuel suffices as soon as it exceeds the length of the remaining input:
    every iteration that is followed consumes at least one byte *)
Lemma star_loop_complete : forall a, bt_complete_at a ->
  forall (k : kont) n x c, (length x < n)%nat ->
  (exists x1 x2, x = x1 ++ x2 /\ Sem (Star a) x1 /\ forall c', k x2 c' <> None) ->
  star_loop (bt a) k n x c <> None.
Proof.
  intros a IHa k n; induction n as [|n IHn]; intros x c Hl [x1 [x2 [-> [Ss Hk]]]]; [lia|].
  rewrite star_loop_S.
  destruct x1 as [|ch x1'].
  - cbn [app]. destruct (bt a x2 c _); [discriminate | apply Hk].
  - apply Sem_Star_cons in Ss. destruct Ss as [y [z [-> [Sa Ss]]]].
    match goal with |- context [bt a ?x c ?K] => assert (HK : bt a x c K <> None) end.
    { apply IHa. exists (ch :: y), (z ++ x2).
      split; [cbn [app]; rewrite <- app_assoc; reflexivity|].
      split; [exact Sa|]. intros c'.
      assert (Hlt : (length (z ++ x2) < length ((ch :: y ++ z) ++ x2))%nat).
      { cbn [app length]. repeat rewrite app_length. lia. }
      apply PeanoNat.Nat.ltb_lt in Hlt. rewrite Hlt.
      apply IHn.
      - apply PeanoNat.Nat.ltb_lt in Hlt. lia.
      - exists z, x2. split; [reflexivity|]. split; [exact Ss | exact Hk]. }
    destruct (bt a _ c _); [discriminate | congruence].
Qed.

Theorem bt_complete : forall r x c (k : kont),
  (exists x1 x2, x = x1 ++ x2 /\ Sem r x1 /\ forall c', k x2 c' <> None) -> bt r x c k <> None.
Proof.
  intros r; change (bt_complete_at r).
  induction r as [| |l|a IHa b IHb|a IHa b IHb|a IHa|i a IHa]; intros x c k [x1 [x2 [-> [S1 Hk]]]].
  - apply Sem_Empty in S1. destruct S1.
  - apply Sem_Eps in S1. subst x1. cbn [bt app]. apply Hk.
  - apply Sem_Cls in S1. destruct S1 as [ch [-> Hc]]. cbn [bt app]. rewrite Hc. apply Hk.
  - apply Sem_Cat in S1. destruct S1 as [u [v [-> [Sa Sb]]]]. cbn [bt].
    apply IHa. exists u, (v ++ x2). split; [rewrite app_assoc; reflexivity|]. split; [exact Sa|].
    intros c'. apply IHb. exists v, x2. split; [reflexivity|]. split; [exact Sb | exact Hk].
  - apply Sem_Alt in S1. cbn [bt].
    destruct (bt a (x1 ++ x2) c k) as [r0|] eqn:E; [discriminate|].
    destruct S1 as [Sa|Sb].
    + exfalso. revert E. apply IHa. exists x1, x2. split; [reflexivity|]. split; [exact Sa | exact Hk].
    + apply IHb. exists x1, x2. split; [reflexivity|]. split; [exact Sb | exact Hk].
  - rewrite bt_Star. apply star_loop_complete; [exact IHa | lia |].
    exists x1, x2. split; [reflexivity|]. split; [exact S1 | exact Hk].
  - apply Sem_Cap in S1. cbn [bt]. apply IHa. exists x1, x2.
    split; [reflexivity|]. split; [exact S1|]. intros c'. apply Hk.
Qed.
Print Assumptions bt_complete.

(** * 3. corollaries for [bt_full] and use sites *)
Definition k_end : kont := fun rest c => match rest with [] => Some c | _ => None end.

Lemma bt_full_unfold : forall r x, bt_full r x = bt r x [] k_end.
Proof. reflexivity. Qed.

Lemma k_end_Some : forall x2 c res, k_end x2 c = Some res -> x2 = [] /\ res = c.
Proof. intros [|ch x2] c res H; cbn [k_end] in H; [injection H as <-; auto | discriminate]. Qed.

Theorem bt_full_Sem : forall r x, bt_full r x <> None <-> Sem r x.
Proof.
  intros r x; split.
  - intros H. destruct (bt_full r x) as [res|] eqn:E; [|congruence].
    rewrite bt_full_unfold in E. apply bt_sound in E.
    destruct E as [x1 [x2 [c' [-> [S1 K]]]]]. apply k_end_Some in K. destruct K as [-> _].
    rewrite app_nil_r. exact S1.
  - intros H. rewrite bt_full_unfold. apply bt_complete.
    exists x, []. split; [rewrite app_nil_r; reflexivity|]. split; [exact H|]. intros c'; discriminate.
Qed.

Theorem bt_full_iff_dmatch : forall r x, bt_full r x <> None <-> dmatch r x = true.
Proof. intros r x. rewrite bt_full_Sem, dmatch_spec. reflexivity. Qed.
Print Assumptions bt_full_iff_dmatch.

Lemma dmatch_dmatch_prefix : forall r x, dmatch r x = true -> dmatch_prefix r x = true.
Proof.
  intros r x H. apply dmatch_prefix_spec. exists x, []. split; [rewrite app_nil_r; reflexivity|].
  apply dmatch_spec; exact H.
Qed.

Theorem site_submatch_defined : forall st x,
  site_end st = true -> (site_submatch st x <> None <-> site_match st x = true).
Proof.
  intros st x He. unfold site_submatch. split.
  - destruct (site_match st x); [reflexivity | congruence].
  - intros H. rewrite H. apply bt_full_iff_dmatch. unfold site_match in H. rewrite He in H. exact H.
Qed.

(** without [\z]: a defined submatch implies a match, and moreover the WHOLE string is in the language
    ([bt_full] always anchors at the end) *)
Theorem site_submatch_defined_noend : forall st x,
  site_end st = false ->
  site_submatch st x <> None -> site_match st x = true /\ dmatch (site_re st) x = true.
Proof.
  intros st x He H. unfold site_submatch in H.
  destruct (site_match st x); [|congruence].
  split; [reflexivity | apply bt_full_iff_dmatch; exact H].
Qed.

(** in both cases: [site_submatch] is defined exactly on the FULL matches *)
Theorem site_submatch_iff_dmatch : forall st x,
  site_submatch st x <> None <-> dmatch (site_re st) x = true.
Proof.
  intros st x. unfold site_submatch, site_match. split.
  - destruct (if site_end st then _ else _); [apply bt_full_iff_dmatch | congruence].
  - intros H. destruct (site_end st).
    + rewrite H. apply bt_full_iff_dmatch; exact H.
    + rewrite (dmatch_dmatch_prefix _ _ H). apply bt_full_iff_dmatch; exact H.
Qed.

Theorem site_submatch_Some : forall st x c,
  site_submatch st x = Some c -> site_match st x = true /\ bt_full (site_re st) x = Some c /\ Sem (site_re st) x.
Proof.
  intros st x c H. unfold site_submatch in H. destruct (site_match st x); [|discriminate].
  split; [reflexivity|]. split; [exact H|]. apply bt_full_Sem. congruence.
Qed.

(** the converse of [site_submatch_defined_noend] fails: a prefix-only match has no submatches *)
Example site_noend_gap :
  let st := {| site_re := Lit (s "a"); site_end := false; site_names := [] |} in
  site_match st (s "ab") = true /\ site_submatch st (s "ab") = None.
Proof. vm_compute. split; reflexivity. Qed.

(** * 4. captures are faithful *)
Theorem bt_caps_faithful : forall r x c0 (k : kont) res,
  bt r x c0 k = Some res ->
  exists x1 x2 new, x = x1 ++ x2 /\ Sem r x1 /\ k x2 (new ++ c0) = Some res /\
    forall i v, In (i, v) new -> exists a, subre_cap i a r /\ Sem a v /\ exists pre post, x1 = pre ++ v ++ post.
Proof.
  intros r x c0 k res H. apply bt_sound_traced in H.
  destruct H as [x1 [x2 [c' [-> [S1 [K [new [-> Hn]]]]]]]].
  exists x1, x2, new. split; [reflexivity|]. split; [exact S1|]. split; [exact K|].
  intros i v Hin. destruct (Hn _ Hin) as [a [Hc [Hs Hx]]]. exists a. cbn [fst snd] in *. auto.
Qed.

Theorem bt_full_caps_faithful : forall r x c i v,
  bt_full r x = Some c -> In (i, v) c ->
  exists a, subre_cap i a r /\ Sem a v /\ exists pre post, x = pre ++ v ++ post.
Proof.
  intros r x c i v H Hin. rewrite bt_full_unfold in H. apply bt_caps_faithful in H.
  destruct H as [x1 [x2 [new [-> [S1 [K Hn]]]]]]. apply k_end_Some in K. destruct K as [-> ->].
  rewrite app_nil_r in Hin. rewrite app_nil_r. apply Hn. exact Hin.
Qed.
Print Assumptions bt_full_caps_faithful.

Corollary site_submatch_caps_faithful : forall st x c i v,
  site_submatch st x = Some c -> In (i, v) c ->
  exists a, subre_cap i a (site_re st) /\ Sem a v /\ exists pre post, x = pre ++ v ++ post.
Proof.
  intros st x c i v H Hin. apply site_submatch_Some in H. destruct H as [_ [H _]].
  eapply bt_full_caps_faithful; eassumption.
Qed.

(** * 5. determinism, last write wins *)
Theorem bt_full_functional : forall r x c1 c2, bt_full r x = Some c1 -> bt_full r x = Some c2 -> c1 = c2.
Proof. intros r x c1 c2 H1 H2. rewrite H1 in H2. injection H2 as ->. reflexivity. Qed.

Lemma cap_get_cons_eq : forall i v c, cap_get i ((i, v) :: c) = v.
Proof. intros i v c. unfold cap_get. cbn [find fst]. rewrite PeanoNat.Nat.eqb_refl. reflexivity. Qed.

Lemma cap_get_cons_neq : forall i j v c, j <> i -> cap_get i ((j, v) :: c) = cap_get i c.
Proof.
  intros i j v c Hn. unfold cap_get. cbn [find fst].
  destruct (PeanoNat.Nat.eqb_spec j i) as [E|_]; [contradiction | reflexivity].
Qed.

Lemma cap_get_nil : forall i, cap_get i [] = [].
Proof. reflexivity. Qed.

(** [cap_get] returns either "" (group never written) or one of the entries *)
Lemma cap_get_In : forall i c, cap_get i c = [] \/ In (i, cap_get i c) c.
Proof.
  intros i c. induction c as [|[j v] c IH].
  - left; reflexivity.
  - destruct (PeanoNat.Nat.eq_dec j i) as [->|Hn].
    + rewrite cap_get_cons_eq. right; left; reflexivity.
    + rewrite (cap_get_cons_neq i j v c Hn). destruct IH as [IH|IH]; [left | right; right]; exact IH.
Qed.

(** what a use site reads back for a group is "" or a substring matched by a group with that index *)
Theorem bt_full_cap_get : forall r x c i,
  bt_full r x = Some c ->
  cap_get i c = [] \/
  exists a, subre_cap i a r /\ Sem a (cap_get i c) /\ exists pre post, x = pre ++ cap_get i c ++ post.
Proof.
  intros r x c i H. destruct (cap_get_In i c) as [E|Hin]; [left; exact E | right].
  eapply bt_full_caps_faithful; eassumption.
Qed.

(** a top-level group captures the whole input *)
Theorem bt_full_Cap_whole : forall i a x c, bt_full (Cap i a) x = Some c -> cap_get i c = x.
Proof.
  intros i a x c H. rewrite bt_full_unfold in H.
  apply (bt_Cap_step i a (bt_sound_traced a)) in H.
  destruct H as [x1 [x2 [c' [-> [_ [K _]]]]]]. apply k_end_Some in K. destruct K as [-> ->].
  rewrite cap_get_cons_eq, app_nil_r. reflexivity.
Qed.

(** * 6. examples *)
Definition cls_b : re := Cls [(98, 98)%N].

(** leftmost-first: group 1 takes the FIRST alternative "a" although "ab" would also lead to a match *)
Example ex_leftmost_first :
  bt_full (Cat (Cap 1 (Alt (Lit (s "a")) (Lit (s "ab")))) (Cap 2 (Star cls_b))) (s "abb")
  = Some [(2%nat, s "bb"); (1%nat, s "a")].
Proof. vm_compute. reflexivity. Qed.

(** backtracking: the first alternative fails later on, the second is taken; nothing stale is left *)
Example ex_backtrack :
  bt_full (Cat (Cap 1 (Alt (Lit (s "a")) (Lit (s "ab")))) (Cap 2 (Lit (s "c")))) (s "abc")
  = Some [(2%nat, s "c"); (1%nat, s "ab")].
Proof. vm_compute. reflexivity. Qed.

(** a group under a star is written once per iteration; [cap_get] sees the last iteration *)
Example ex_star_group :
  let r := Star (Cap 1 (Cls [(97, 98)%N])) in
  bt_full r (s "ab") = Some [(1%nat, s "b"); (1%nat, s "a")] /\
  option_map (cap_get 1) (bt_full r (s "ab")) = Some (s "b").
Proof. vm_compute. split; reflexivity. Qed.

(** greedy star gives back: a*a on "aaa" *)
Example ex_star_giveback :
  bt_full (Cat (Cap 1 (Star (Lit (s "a")))) (Cap 2 (Lit (s "a")))) (s "aaa")
  = Some [(2%nat, s "a"); (1%nat, s "aa")].
Proof. vm_compute. reflexivity. Qed.

(** nullable starred body: the progress check cuts the empty iteration, the match still succeeds *)
Example ex_star_nullable_body :
  bt_full (Star (Cap 1 (Star cls_b))) (s "bb") = Some [(1%nat, s "bb")] /\
  bt_full (Star (Cap 1 (Star cls_b))) [] = Some [] /\
  bt_full (Star (Cap 1 (Star cls_b))) (s "a") = None.
Proof. vm_compute. repeat split; reflexivity. Qed.

(** an unmatched group reads back as "" *)
Example ex_unmatched_group :
  option_map (cap_get 2) (bt_full (Alt (Cap 1 (Lit (s "a"))) (Cap 2 (Lit (s "b")))) (s "a")) = Some [].
Proof. vm_compute. reflexivity. Qed.
