(** Overrides and todo placeholders over WHOLE HISTORIES (Runtime/RT.v, Runtime/Load.v).

    0. histories: [run_ops] lemmas, lifting of step invariants
    A. generic invariants of the interpreters (parameter evaluator, [get], [step])
    1. an overridden parameter is sticky                 2. first read through a reference / the stale-cache caveat
    3. todo placeholders never evaluate, never get cached 4. laziness: only get operations extend the trace
    5. an overridden service is built by the overriding constructor            6. examples *)
From GV Require Import Base.Str Base.Quote Base.Sort Model.Env Model.Input Model.Imports Model.Token Model.Compile Model.OutVal
  Runtime.RT Runtime.Load Proofs.SortProofs Proofs.RTProofs Gen.EnvGen.
From Coq Require Import Lia.

(** * 0. Histories *)

Lemma run_ops_fst_cons st o l : fst (run_ops st (o :: l)) = fst (run_ops (fst (step st o)) l).
Proof. cbn [run_ops]. destruct (step st o) as [st1 r]. cbn [fst]. destruct (run_ops st1 l). reflexivity. Qed.

Lemma run_ops_snd_cons st o l : snd (run_ops st (o :: l)) = snd (step st o) :: snd (run_ops (fst (step st o)) l).
Proof. cbn [run_ops]. destruct (step st o) as [st1 r]. cbn [fst snd]. destruct (run_ops st1 l). reflexivity. Qed.

Lemma run_ops_fst_app l1 : forall st l2, fst (run_ops st (l1 ++ l2)) = fst (run_ops (fst (run_ops st l1)) l2).
Proof.
  induction l1 as [|o l1 IH]; intros st l2; [reflexivity|].
  cbn [app]. rewrite !run_ops_fst_cons. apply IH.
Qed.

Lemma run_ops_snd_app l1 : forall st l2,
  snd (run_ops st (l1 ++ l2)) = snd (run_ops st l1) ++ snd (run_ops (fst (run_ops st l1)) l2).
Proof.
  induction l1 as [|o l1 IH]; intros st l2; [reflexivity|].
  cbn [app]. rewrite !run_ops_snd_cons, run_ops_fst_cons, IH. reflexivity.
Qed.

(** one result per operation *)
Lemma run_ops_length l : forall st, length (snd (run_ops st l)) = length l.
Proof. induction l as [|o l IH]; intros st; [reflexivity|]. rewrite run_ops_snd_cons. cbn [length]. rewrite IH. reflexivity. Qed.

(** the history around position [i]: what comes later runs from the state the operation at [i] leaves *)
Lemma history_split st ops i o :
  nth_error ops i = Some o ->
  exists l1 l2, ops = l1 ++ o :: l2 /\ length l1 = i /\
    nth_error (snd (run_ops st ops)) i = Some (snd (step (fst (run_ops st l1)) o)) /\
    forall m, nth_error (snd (run_ops st ops)) (i + S m) = nth_error (snd (run_ops (fst (step (fst (run_ops st l1)) o)) l2)) m /\
              nth_error ops (i + S m) = nth_error l2 m.
Proof.
  intros H. destruct (nth_error_split ops i H) as [l1 [l2 [-> HL]]]. exists l1, l2.
  split; [reflexivity|]. split; [exact HL|].
  rewrite run_ops_snd_app, run_ops_snd_cons.
  assert (HL' : length (snd (run_ops st l1)) = i) by (rewrite run_ops_length; exact HL).
  split.
  - rewrite nth_error_app2 by lia. replace (i - length (snd (run_ops st l1))) with 0 by lia. reflexivity.
  - intros m. split.
    + rewrite nth_error_app2 by lia. replace (i + S m - length (snd (run_ops st l1))) with (S m) by lia. reflexivity.
    + rewrite nth_error_app2 by lia. replace (i + S m - length l1) with (S m) by lia. reflexivity.
Qed.

(** lifting a step invariant [I] and a property [Q] of the results to histories made of [allowed] operations *)
Section History.
  Variable I : rt -> Prop.
  Variable allowed : op -> Prop.
  Variable Q : op -> result value -> Prop.
  Hypothesis step_ok : forall st o, allowed o -> I st -> I (fst (step st o)) /\ Q o (snd (step st o)).

  Lemma run_ops_inv ops : forall st, Forall allowed ops -> I st ->
    I (fst (run_ops st ops)) /\ Forall2 Q ops (snd (run_ops st ops)).
  Proof.
    induction ops as [|o ops IH]; intros st HA HI.
    - split; [exact HI|constructor].
    - inversion HA as [|o' l' Ho Hl]; subst. destruct (step_ok st o Ho HI) as [HI1 HQ1].
      destruct (IH _ Hl HI1) as [HI2 HQ2]. rewrite run_ops_fst_cons, run_ops_snd_cons.
      split; [exact HI2|constructor; assumption].
  Qed.

  (** ... and at every intermediate point of the history *)
  Lemma run_ops_inv_prefix ops st k : Forall allowed ops -> I st -> I (fst (run_ops st (firstn k ops))).
  Proof.
    intros HA HI. apply run_ops_inv; [|exact HI].
    rewrite Forall_forall in *. intros o Ho. apply HA. rewrite <- (firstn_skipn k ops). apply in_or_app. left; exact Ho.
  Qed.

  (** the index form: only the operations BEFORE position [j] have to be allowed *)
  Lemma run_ops_inv_nth ops : forall st j o,
    I st -> nth_error ops j = Some o -> allowed o ->
    (forall k o', k < j -> nth_error ops k = Some o' -> allowed o') ->
    exists r, nth_error (snd (run_ops st ops)) j = Some r /\ Q o r.
  Proof.
    induction ops as [|o0 ops IH]; intros st j o HI Hj Ho Hbefore; [destruct j; discriminate|].
    rewrite run_ops_snd_cons. destruct j as [|j]; cbn [nth_error] in *.
    - inversion Hj; subst. eexists; split; [reflexivity|]. apply step_ok; assumption.
    - assert (H0 : allowed o0) by (apply (Hbefore 0 o0); [lia|reflexivity]).
      apply (IH (fst (step st o0)) j o); [apply step_ok; assumption|exact Hj|exact Ho|].
      intros k o' Hk Hn. apply (Hbefore (S k) o'); [lia|exact Hn].
  Qed.
End History.

Lemma Forall2_nth {A B} (Q : A -> B -> Prop) l l' : Forall2 Q l l' ->
  forall j a, nth_error l j = Some a -> exists b, nth_error l' j = Some b /\ Q a b.
Proof.
  induction 1 as [|x y l l' Hxy _ IH]; intros j a Hj; [destruct j; discriminate|].
  destruct j as [|j]; cbn [nth_error] in *.
  - inversion Hj; subst. exists y. split; [reflexivity|exact Hxy].
  - apply IH; exact Hj.
Qed.

(** the fuel [step] hands out is at least 16 *)
Lemma fuel_of_16 st : exists f, fuel_of st = 16 + f.
Proof. unfold fuel_of. eexists. rewrite Nat.add_comm. reflexivity. Qed.

(** * A. Generic invariants *)

Lemma param_body_frame f st d st1 r : param_body f st d = (st1, r) -> pframe st st1.
Proof.
  destruct d; cbn [param_body]; intros H; try (inversion H; subst; apply pframe_refl).
  eapply eval_pattern_frame; exact H.
Qed.

(** ** the parameter evaluator changes the state in two ways only: it appends to the trace (function calls) and it stores
       the value of a successfully evaluated, so far uncached parameter.  An invariant stable under both is an invariant of
       [get_param] / [eval_tok] / [eval_pattern], whatever the fuel. *)
Section ParamInv.
  Variable Inv : rt -> Prop.
  Hypothesis Inv_trace : forall st e, Inv st -> Inv (with_trace st e).
  Hypothesis Inv_cache : forall f st id dd st1 v,
    Inv st -> lookup id (rt_params st) = Some dd -> lookup id (rt_pcache st) = None ->
    param_body f st dd = (st1, ROk v) -> Inv st1 ->
    Inv (with_pcache st1 (assoc_set id v (rt_pcache st1))).

  Lemma cat_loop_pinv f :
    (forall st t st' r, eval_tok f st t = (st', r) -> Inv st -> Inv st') ->
    forall l st acc st' r, cat_loop f l st acc = (st', r) -> Inv st -> Inv st'.
  Proof.
    intros IHt. induction l as [|t l IH]; intros st acc st' r H HI; cbn [cat_loop] in H.
    - inversion H; subst. exact HI.
    - destruct (eval_tok f st t) as [st1 [v|e]] eqn:Ht; pose proof (IHt _ _ _ _ Ht HI) as H1.
      + destruct (cast_to_string v) as [x|e]; [|inversion H; subst; exact H1]. eapply IH; eassumption.
      + inversion H; subst; exact H1.
  Qed.

  Lemma param_pinv f :
    (forall st id st' r, get_param f st id = (st', r) -> Inv st -> Inv st') /\
    (forall st t st' r, eval_tok f st t = (st', r) -> Inv st -> Inv st') /\
    (forall st toks st' r, eval_pattern f st toks = (st', r) -> Inv st -> Inv st').
  Proof.
    induction f as [|f (IHp & IHt & IHpat)].
    - split; [|split]; intros ? ? ? ? H HI; inversion H; subst; exact HI.
    - split; [|split].
      + intros st id st' r H HI. rewrite get_param_unfold in H.
        destruct (lookup id (rt_params st)) as [d|] eqn:Hd; [|inversion H; subst; exact HI].
        destruct (lookup id (rt_pcache st)) as [v|] eqn:Hc; [inversion H; subst; exact HI|].
        destruct (param_body f st d) as [st1 r1] eqn:B.
        assert (H1 : Inv st1).
        { destruct d; cbn [param_body] in B; try (inversion B; subst; exact HI). eapply IHpat; eassumption. }
        destruct r1 as [v|e]; inversion H; subst; [|exact H1].
        exact (Inv_cache f st id d st1 v HI Hd Hc B H1).
      + intros st t st' r H HI. destruct t as [x| |n|o a l].
        * inversion H; subst; exact HI.
        * inversion H; subst; exact HI.
        * rewrite eval_tok_ref in H. eapply IHp; eassumption.
        * rewrite eval_tok_call in H. destruct (call_fn st o a l); inversion H; subst; apply Inv_trace; exact HI.
      + intros st toks st' r H HI. rewrite eval_pattern_unfold in H.
        destruct toks as [|t [|t' l]]; try (eapply (cat_loop_pinv f IHt); eassumption).
        eapply IHt; eassumption.
  Qed.

  Lemma get_param_pinv f st id st' r : get_param f st id = (st', r) -> Inv st -> Inv st'.
  Proof. apply (param_pinv f). Qed.
  Lemma eval_tok_pinv f st t st' r : eval_tok f st t = (st', r) -> Inv st -> Inv st'.
  Proof. apply (param_pinv f). Qed.
  Lemma eval_pattern_pinv f st toks st' r : eval_pattern f st toks = (st', r) -> Inv st -> Inv st'.
  Proof. apply (param_pinv f). Qed.

  (** ** ... and if moreover it only looks at the parameter definitions, the parameter cache and the trace, it is an invariant
         of the service interpreter and of every operation but the overrides of a parameter *)
  Hypothesis Inv_ext : forall st st',
    rt_params st' = rt_params st -> rt_pcache st' = rt_pcache st -> rt_trace st' = rt_trace st -> Inv st -> Inv st'.

  Section Loops.
    Variable depsf : rt -> str -> list str.
    Variable f : nat.
    Hypothesis Hg : forall st b n st' b' r, get depsf f st b n = ((st', b'), r) -> Inv st -> Inv st'.
    Hypothesis Hd : forall st b d st' b' r, resolve_dep depsf f st b d = ((st', b'), r) -> Inv st -> Inv st'.
    Hypothesis Hds : forall st b ds st' b' r, resolve_deps depsf f st b ds = ((st', b'), r) -> Inv st -> Inv st'.

    Lemma tag_loop_ginv l : forall st b acc st' b' r, tag_loop depsf f l st b acc = ((st', b'), r) -> Inv st -> Inv st'.
    Proof.
      induction l as [|n l IH]; intros st b acc st' b' r H HI; cbn [tag_loop] in H.
      - inversion H; subst; exact HI.
      - destruct (get depsf f st b n) as [[st1 b1] [v|e]] eqn:G; pose proof (Hg _ _ _ _ _ _ G HI) as H1.
        + eapply IH; eassumption.
        + inversion H; subst; exact H1.
    Qed.

    Lemma deps_loop_ginv l : forall st b acc err st' b' r, deps_loop depsf f l st b acc err = ((st', b'), r) -> Inv st -> Inv st'.
    Proof.
      induction l as [|d l IH]; intros st b acc err st' b' r H HI; cbn [deps_loop] in H.
      - inversion H; subst; exact HI.
      - destruct (resolve_dep depsf f st b d) as [[st1 b1] [v|e]] eqn:G; pose proof (Hd _ _ _ _ _ _ G HI) as H1;
          eapply IH; eassumption.
    Qed.

    Lemma fields_loop_ginv l : forall st b v err st' b' r, fields_loop depsf f l st b v err = ((st', b'), r) -> Inv st -> Inv st'.
    Proof.
      induction l as [|[n dp] l IH]; intros st b v err st' b' r H HI; cbn [fields_loop] in H.
      - inversion H; subst; exact HI.
      - destruct (resolve_dep depsf f st b dp) as [[st1 b1] [x|e]] eqn:G; pose proof (Hd _ _ _ _ _ _ G HI) as H1.
        + destruct (obj_set v n x) as [v'|e]; eapply IH; eassumption.
        + eapply IH; eassumption.
    Qed.

    Lemma calls_loop_ginv l : forall st b v err st' b' r, calls_loop depsf f l st b v err = ((st', b'), r) -> Inv st -> Inv st'.
    Proof.
      induction l as [|c l IH]; intros st b v err st' b' r H HI; cbn [calls_loop] in H.
      - inversion H; subst; exact HI.
      - destruct (resolve_deps depsf f st b (rc_deps c)) as [[st1 b1] [x|e]] eqn:G; pose proof (Hds _ _ _ _ _ _ G HI) as H1.
        + destruct (obj_call v (rc_method c) x) as [v'|e]; [eapply IH; eassumption|].
          destruct (rc_wither c); [inversion H; subst; exact H1|]. eapply IH; eassumption.
        + eapply IH; eassumption.
    Qed.

    Lemma Inv_allocated st e : Inv st -> Inv (with_serial (with_trace st e) (rt_serial st + 1)).
    Proof. intros HI. apply (Inv_ext (with_trace st e)); try reflexivity. apply Inv_trace. exact HI. Qed.

    Lemma decs_loop_ginv d id l : forall st b v st' b' r, decs_loop depsf f d id l st b v = ((st', b'), r) -> Inv st -> Inv st'.
    Proof.
      induction l as [|dd l IH]; intros st b v st' b' r H HI.
      - inversion H; subst; exact HI.
      - destruct (applies d dd) eqn:A.
        + destruct (resolve_deps depsf f st b (dd_deps dd)) as [[st1 b1] [args|e]] eqn:G; pose proof (Hds _ _ _ _ _ _ G HI) as H1.
          * rewrite (decs_loop_apply depsf f d id dd l st b v st1 b1 args A G) in H.
            eapply IH; [exact H|]. apply Inv_allocated. exact H1.
          * rewrite (decs_loop_apply_err depsf f d id dd l st b v st1 b1 e A G) in H. inversion H; subst; exact H1.
        + rewrite (decs_loop_skip depsf f d id dd l st b v A) in H. eapply IH; eassumption.
    Qed.

    Lemma create_ginv d st b st' b' r : create depsf f d st b = ((st', b'), r) -> Inv st -> Inv st'.
    Proof.
      unfold create. destruct (sd_create d) as [o fails deps|v| |]; try (intros H HI; inversion H; subst; exact HI).
      destruct (resolve_deps depsf f st b deps) as [[st1 b1] [args|e]] eqn:G; intros H HI; pose proof (Hds _ _ _ _ _ _ G HI) as H1.
      - destruct fails; cbn [alloc] in H; inversion H; subst.
        + apply Inv_trace. exact H1.
        + apply Inv_allocated. exact H1.
      - inversion H; subst; exact H1.
    Qed.

    Lemma build_ginv d id st b st' b' r : build depsf f d id st b = ((st', b'), r) -> Inv st -> Inv st'.
    Proof.
      unfold build. intros H HI.
      destruct (create depsf f d st b) as [[st1 b1] [v1|e]] eqn:C; pose proof (create_ginv _ _ _ _ _ _ C HI) as H1;
        [|inversion H; subst; exact H1].
      destruct (fields_loop depsf f (sd_fields d) st1 b1 v1 None) as [[st2 b2] [v2|e]] eqn:Fl;
        pose proof (fields_loop_ginv _ _ _ _ _ _ _ _ Fl H1) as H2; [|inversion H; subst; exact H2].
      destruct (calls_loop depsf f (sd_calls d) st2 b2 v2 None) as [[st3 b3] [v3|e]] eqn:Cl;
        pose proof (calls_loop_ginv _ _ _ _ _ _ _ _ Cl H2) as H3; [|inversion H; subst; exact H3].
      eapply decs_loop_ginv; eassumption.
    Qed.
  End Loops.

  Lemma get_ginvs depsf f :
    (forall st b n st' b' r, get depsf f st b n = ((st', b'), r) -> Inv st -> Inv st') /\
    (forall st b d st' b' r, resolve_dep depsf f st b d = ((st', b'), r) -> Inv st -> Inv st') /\
    (forall st b ds st' b' r, resolve_deps depsf f st b ds = ((st', b'), r) -> Inv st -> Inv st').
  Proof.
    induction f as [|f (IHg & IHd & IHds)].
    - split; [|split]; intros ? ? ? ? ? ? H HI; inversion H; subst; exact HI.
    - split; [|split].
      + intros st b id st' b' r H HI. rewrite get_shape in H.
        destruct (lookup id (rt_services st)) as [d|]; [|inversion H; subst; exact HI].
        destruct (cached_of (resolve_scope depsf st id) st b id); [inversion H; subst; exact HI|].
        destruct (build depsf f d id st b) as [[st4 b4] [v4|e4]] eqn:B;
          pose proof (build_ginv depsf f IHd IHds _ _ _ _ _ _ _ B HI) as H4; [|inversion H; subst; exact H4].
        unfold store in H. destruct (resolve_scope depsf st id); inversion H; subst; try exact H4.
        apply (Inv_ext st4); try reflexivity. exact H4.
      + intros st b d st' b' r H HI. rewrite resolve_dep_unfold in H.
        destruct d as [p|v|n|t| |toks]; try (inversion H; subst; exact HI).
        * eapply IHg; eassumption.
        * eapply (tag_loop_ginv depsf f IHg); eassumption.
        * destruct (eval_pattern f st toks) as [st1 r1] eqn:E. inversion H; subst.
          eapply eval_pattern_pinv; eassumption.
      + intros st b ds st' b' r H HI. rewrite resolve_deps_unfold in H. eapply (deps_loop_ginv depsf f IHd); eassumption.
  Qed.

  Definition not_param_override (o : op) : Prop := match o with OOverrideParam _ _ => False | _ => True end.

  (** every operation but [OOverrideParam] keeps the invariant *)
  Theorem step_pinv st o : not_param_override o -> Inv st -> Inv (fst (step st o)).
  Proof.
    intros Ho HI. destruct o as [n|c n|t|c t|p|p v|n o args|c]; cbn [step].
    - destruct (get rt_depsf (fuel_of st) st [] n) as [[st' b'] r] eqn:G. cbn [fst].
      eapply (proj1 (get_ginvs rt_depsf (fuel_of st))); eassumption.
    - destruct (get rt_depsf (fuel_of st) st (bag_of st c) n) as [[st' b'] r] eqn:G. cbn [fst].
      apply (Inv_ext st'); try reflexivity. eapply (proj1 (get_ginvs rt_depsf (fuel_of st))); eassumption.
    - destruct (resolve_dep rt_depsf (fuel_of st) st [] (DTag t)) as [[st' b'] r] eqn:G. cbn [fst].
      eapply (proj1 (proj2 (get_ginvs rt_depsf (fuel_of st)))); eassumption.
    - destruct (resolve_dep rt_depsf (fuel_of st) st (bag_of st c) (DTag t)) as [[st' b'] r] eqn:G. cbn [fst].
      apply (Inv_ext st'); try reflexivity. eapply (proj1 (proj2 (get_ginvs rt_depsf (fuel_of st)))); eassumption.
    - destruct (get_param (fuel_of st) st p) as [st' r] eqn:G. cbn [fst]. eapply get_param_pinv; eassumption.
    - destruct Ho.
    - cbn [fst]. apply (Inv_ext st); try reflexivity. exact HI.
    - cbn [fst]. apply (Inv_ext st); try reflexivity. exact HI.
  Qed.
End ParamInv.

(** ** invariants about ONE parameter [p]: its definition stays [d] and its cache entry stays [Good], on top of an
       invariant [J] of the same kind (so that such invariants can be stacked).  [okp] says which parameters may be overridden
       without breaking [J]. *)
Section OneParam.
  Variable J : rt -> Prop.
  Variable okp : str -> Prop.
  Hypothesis J_trace : forall st e, J st -> J (with_trace st e).
  Hypothesis J_cache : forall f st id dd st1 v,
    J st -> lookup id (rt_params st) = Some dd -> lookup id (rt_pcache st) = None ->
    param_body f st dd = (st1, ROk v) -> J st1 -> J (with_pcache st1 (assoc_set id v (rt_pcache st1))).
  Hypothesis J_ext : forall st st',
    rt_params st' = rt_params st -> rt_pcache st' = rt_pcache st -> rt_trace st' = rt_trace st -> J st -> J st'.
  Hypothesis J_ovr : forall st q w, okp q -> J st -> J (fst (step st (OOverrideParam q w))).

  Variable p : str.
  Variable d : rdep.
  Variable Good : option value -> Prop.

  Definition pin (st : rt) : Prop := J st /\ lookup p (rt_params st) = Some d /\ Good (lookup p (rt_pcache st)).

  Hypothesis body_good : forall f st st1 v,
    pin st -> lookup p (rt_pcache st) = None -> param_body f st d = (st1, ROk v) -> Good (Some v).

  Lemma pin_trace st e : pin st -> pin (with_trace st e).
  Proof. intros (HJ & Hd & Hg). split; [apply J_trace; exact HJ|]. split; assumption. Qed.

  Lemma pin_cache f st id dd st1 v :
    pin st -> lookup id (rt_params st) = Some dd -> lookup id (rt_pcache st) = None ->
    param_body f st dd = (st1, ROk v) -> pin st1 -> pin (with_pcache st1 (assoc_set id v (rt_pcache st1))).
  Proof.
    intros HP Hd Hc B HP1. pose proof HP as (HJ & Hpd & Hg). pose proof HP1 as (HJ1 & Hpd1 & Hg1).
    split; [exact (J_cache f st id dd st1 v HJ Hd Hc B HJ1)|]. split; [exact Hpd1|]. cbn [with_pcache rt_pcache].
    destruct (str_eq_dec p id) as [<-|Hn].
    - rewrite lookup_assoc_set_same. rewrite Hpd in Hd. inversion Hd; subst dd. exact (body_good f st st1 v HP Hc B).
    - rewrite lookup_assoc_set_other by exact Hn. exact Hg1.
  Qed.

  Lemma pin_ext st st' :
    rt_params st' = rt_params st -> rt_pcache st' = rt_pcache st -> rt_trace st' = rt_trace st -> pin st -> pin st'.
  Proof. intros E1 E2 E3 (HJ & Hd & Hg). split; [eapply J_ext; eassumption|]. rewrite E1, E2. split; assumption. Qed.

  Definition allowed_op (o : op) : Prop := match o with OOverrideParam q _ => okp q /\ q <> p | _ => True end.

  (** every operation but an override of [p] (or of a parameter [J] depends on) keeps the invariant *)
  Theorem pin_step st o : allowed_op o -> pin st -> pin (fst (step st o)).
  Proof.
    intros Ho HP. destruct o as [n|c n|t|c t|q|q w|n o args|c];
      try (apply (step_pinv pin pin_trace pin_cache pin_ext); [exact I|exact HP]).
    destruct Ho as [Hok Hn]. destruct HP as (HJ & Hd & Hg). split; [apply J_ovr; assumption|].
    rewrite step_override_param. cbn [fst overridden_param rt_params rt_pcache].
    rewrite lookup_assoc_set_other, lookup_assoc_del_other by (intros E; apply Hn; symmetry; exact E). split; assumption.
  Qed.

  (** the parameter evaluator keeps it, too *)
  Lemma pin_get_param f st id st' r : get_param f st id = (st', r) -> pin st -> pin st'.
  Proof. apply (get_param_pinv pin pin_trace pin_cache). Qed.
  Lemma pin_eval_tok f st t st' r : eval_tok f st t = (st', r) -> pin st -> pin st'.
  Proof. apply (eval_tok_pinv pin pin_trace pin_cache). Qed.
  Lemma pin_eval_pattern f st toks st' r : eval_pattern f st toks = (st', r) -> pin st -> pin st'.
  Proof. apply (eval_pattern_pinv pin pin_trace pin_cache). Qed.
End OneParam.

(** the trivial base invariant *)
Definition JT (st : rt) : Prop := True.
Definition okT (q : str) : Prop := True.
Lemma JT_trace st (e : str) : JT st -> JT (with_trace st e). Proof. trivial. Qed.
Lemma JT_cache (f : nat) st (id : str) (dd : rdep) st1 (v : value) :
  JT st -> lookup id (rt_params st) = Some dd -> lookup id (rt_pcache st) = None ->
  param_body f st dd = (st1, ROk v) -> JT st1 -> JT (with_pcache st1 (assoc_set id v (rt_pcache st1))).
Proof. trivial. Qed.
Lemma JT_ext st st' : rt_params st' = rt_params st -> rt_pcache st' = rt_pcache st -> rt_trace st' = rt_trace st -> JT st -> JT st'.
Proof. trivial. Qed.
Lemma JT_ovr st q w : okT q -> JT st -> JT (fst (step st (OOverrideParam q w))). Proof. trivial. Qed.

(** [o] is not an override of the parameter [p] *)
Definition no_override (p : str) (o : op) : Prop := match o with OOverrideParam q _ => q <> p | _ => True end.

Lemma no_override_spec p o : no_override p o <-> forall w, o <> OOverrideParam p w.
Proof.
  destruct o; cbn [no_override]; split; intros H; try exact I; try (intros w E; discriminate E).
  - intros w E. inversion E; subst. apply H; reflexivity.
  - intros ->. apply (H v); reflexivity.
Qed.

(** * 1. An overridden parameter is sticky *)

(** what [OverrideParam p v] installs: the literal definition; the cache entry of [p] is empty or holds the overriding value *)
Definition ovr_good (v : prim) (c : option value) : Prop := c = None \/ c = Some (value_of_prim v).
Definition overridden (st : rt) (p : str) (v : prim) : Prop :=
  lookup p (rt_params st) = Some (DLit v) /\ ovr_good v (lookup p (rt_pcache st)).

Lemma overridden_pin st p v : overridden st p v <-> pin JT p (DLit v) (ovr_good v) st.
Proof. unfold overridden, pin, JT. tauto. Qed.

Lemma ovr_body_good p v (f : nat) st st1 w :
  pin JT p (DLit v) (ovr_good v) st -> lookup p (rt_pcache st) = None -> param_body f st (DLit v) = (st1, ROk w) -> ovr_good v (Some w).
Proof. intros _ _ B. cbn [param_body] in B. inversion B; subst. right; reflexivity. Qed.

(** the override establishes it *)
Theorem override_establishes st p v : overridden (fst (step st (OOverrideParam p v))) p v.
Proof.
  rewrite step_override_param. cbn [fst]. split; cbn [overridden_param rt_params rt_pcache].
  - apply lookup_assoc_set_same.
  - left. apply lookup_assoc_del_same.
Qed.

(** every operation that is not an override of [p] keeps it: gets, tagged, overrides of other parameters, service overrides, contexts *)
Theorem overridden_step st p v o : no_override p o -> overridden st p v -> overridden (fst (step st o)) p v.
Proof.
  intros Ho H. apply overridden_pin. apply overridden_pin in H.
  apply (pin_step JT okT JT_trace JT_cache JT_ext JT_ovr p (DLit v) (ovr_good v) (ovr_body_good p v)); [|exact H].
  destruct o; try exact I. split; [exact I|exact Ho].
Qed.

(** reading an overridden parameter gives the overriding value *)
Theorem overridden_get st p v : overridden st p v -> snd (step st (OGetParam p)) = ROk (value_of_prim v).
Proof.
  intros [Hd Hc]. rewrite step_get_param. destruct (fuel_of_S st) as [f ->]. rewrite get_param_unfold, Hd.
  destruct Hc as [-> | ->]; reflexivity.
Qed.

Lemma overridden_step_ok p v st o :
  no_override p o -> overridden st p v ->
  overridden (fst (step st o)) p v /\ (o = OGetParam p -> snd (step st o) = ROk (value_of_prim v)).
Proof. intros Ho H. split; [apply overridden_step; assumption|]. intros ->. apply overridden_get; exact H. Qed.

(** over a whole history without overrides of [p]: the invariant holds at the end and every [OGetParam p] returned the value *)
Theorem overridden_history st p v ops :
  overridden st p v -> Forall (no_override p) ops ->
  overridden (fst (run_ops st ops)) p v /\
  Forall2 (fun o r => o = OGetParam p -> r = ROk (value_of_prim v)) ops (snd (run_ops st ops)).
Proof.
  intros H HA.
  apply (run_ops_inv (fun st => overridden st p v) (no_override p) (fun o r => o = OGetParam p -> r = ROk (value_of_prim v))
                     (overridden_step_ok p v) ops st HA H).
Qed.

(** THE STICKINESS THEOREM, index form: an [OOverrideParam p v] at position [i], an [OGetParam p] at a later position [j], no
    [OOverrideParam p _] strictly in between (anything else may occur): the result at [j] is the overriding value *)
Theorem override_sticky st ops i j p v :
  nth_error ops i = Some (OOverrideParam p v) -> i < j -> nth_error ops j = Some (OGetParam p) ->
  (forall k w, i < k < j -> nth_error ops k <> Some (OOverrideParam p w)) ->
  nth_error (snd (run_ops st ops)) j = Some (ROk (value_of_prim v)).
Proof.
  intros Hi Hij Hj Hbetween.
  destruct (history_split st ops i _ Hi) as [l1 [l2 [E [HL [_ Hlater]]]]].
  assert (Ej : j = i + S (j - i - 1)) by lia. destruct (Hlater (j - i - 1)) as [Hr Ho]. rewrite <- Ej in Hr, Ho.
  rewrite Hr. rewrite Hj in Ho. symmetry in Ho.
  destruct (run_ops_inv_nth (fun st => overridden st p v) (no_override p) (fun o r => o = OGetParam p -> r = ROk (value_of_prim v))
              (overridden_step_ok p v) l2 (fst (step (fst (run_ops st l1)) (OOverrideParam p v))) (j - i - 1) (OGetParam p))
    as [r [Hn Hq]].
  - apply override_establishes.
  - exact Ho.
  - exact I.
  - intros k o' Hk Hn. apply no_override_spec. intros w ->.
    apply (Hbetween (i + S k) w); [lia|]. rewrite (proj2 (Hlater k)). exact Hn.
  - rewrite Hn, (Hq eq_refl). reflexivity.
Qed.

(** the decomposition form *)
Corollary override_sticky_app st pre mid post p v :
  Forall (no_override p) mid ->
  nth_error (snd (run_ops st (pre ++ OOverrideParam p v :: mid ++ OGetParam p :: post))) (length pre + S (length mid))
  = Some (ROk (value_of_prim v)).
Proof.
  intros HA. apply (override_sticky st _ (length pre) _ p v).
  - rewrite nth_error_app2 by lia. rewrite Nat.sub_diag. reflexivity.
  - lia.
  - rewrite nth_error_app2 by lia. replace (length pre + S (length mid) - length pre) with (S (length mid)) by lia.
    cbn [nth_error]. rewrite nth_error_app2 by lia. rewrite Nat.sub_diag. reflexivity.
  - intros k w Hk Hn. rewrite nth_error_app2 in Hn by lia.
    replace (k - length pre) with (S (k - length pre - 1)) in Hn by lia. cbn [nth_error] in Hn.
    rewrite nth_error_app1 in Hn by lia. apply nth_error_In in Hn. rewrite Forall_forall in HA.
    apply HA in Hn. apply Hn. reflexivity.
Qed.

(** * 2. The first read after an override sees it through a reference; an already cached referrer does not *)

Lemma cast_prim v : exists x, cast_to_string (value_of_prim v) = ROk x.
Proof. destruct v as [|[|]|k t|k t|x|t]; eexists; reflexivity. Qed.

(** [q := "%p%"], [p] overridden by [v], [q] not cached: reading [q] gives the overriding value, with its type *)
Lemma ref_get st p q v :
  overridden st p v -> lookup q (rt_params st) = Some (DPattern [KRef p]) -> lookup q (rt_pcache st) = None ->
  snd (step st (OGetParam q)) = ROk (value_of_prim v).
Proof.
  intros [Hd Hg] Hq Hc. rewrite step_get_param. destruct (fuel_of_16 st) as [f ->].
  change (16 + f) with (S (S (S (S (12 + f))))).
  rewrite get_param_unfold, Hq, Hc. cbn [param_body]. rewrite eval_pattern_single, eval_tok_ref, get_param_unfold, Hd.
  destruct Hg as [-> | ->]; reflexivity.
Qed.

(** [q := "a%p%b"]: the overriding value is cast to a string and pasted between the literal chunks *)
Lemma ref3_get st p q v a b x :
  overridden st p v -> lookup q (rt_params st) = Some (DPattern [KLit a; KRef p; KLit b]) -> lookup q (rt_pcache st) = None ->
  cast_to_string (value_of_prim v) = ROk x ->
  snd (step st (OGetParam q)) = ROk (VStr (a ++ x ++ b)).
Proof.
  intros [Hd Hg] Hq Hc Hx. rewrite step_get_param. destruct (fuel_of_16 st) as [f ->].
  change (16 + f) with (S (S (S (S (12 + f))))).
  rewrite get_param_unfold, Hq, Hc. cbn [param_body]. rewrite eval_pattern_multi by (cbn [length]; lia).
  cbn [cat_loop]. rewrite eval_tok_lit, cast_str, eval_tok_ref, get_param_unfold, Hd.
  destruct Hg as [-> | ->]; cbn [param_body]; rewrite Hx, eval_tok_lit, cast_str; cbn [app snd]; rewrite <- app_assoc; reflexivity.
Qed.

Lemma overridden_param_other st p v q : q <> p ->
  lookup q (rt_params (overridden_param st p v)) = lookup q (rt_params st) /\
  lookup q (rt_pcache (overridden_param st p v)) = lookup q (rt_pcache st).
Proof.
  intros Hn. cbn [overridden_param rt_params rt_pcache]. split; [apply lookup_assoc_set_other|apply lookup_assoc_del_other]; exact Hn.
Qed.

(** item 2, single chunk *)
Theorem first_read_sees_override st p q v :
  lookup q (rt_params st) = Some (DPattern [KRef p]) -> lookup q (rt_pcache st) = None ->
  snd (run_ops st [OOverrideParam p v; OGetParam q]) = [ROk VNil; ROk (value_of_prim v)].
Proof.
  intros Hq Hc. rewrite !run_ops_snd_cons. cbn [run_ops snd]. f_equal. f_equal.
  pose proof (override_establishes st p v) as Ho. destruct (str_eq_dec q p) as [->|Hn].
  - apply overridden_get. exact Ho.
  - rewrite step_override_param in *. cbn [fst] in *. destruct (overridden_param_other st p v q Hn) as [E1 E2].
    apply (ref_get _ p q v Ho); [rewrite E1; exact Hq|rewrite E2; exact Hc].
Qed.

(** item 2, three chunks with the string cast (here [q <> p] matters: overriding [q] itself would replace the pattern) *)
Theorem first_read_sees_override_multi st p q v a b x :
  q <> p -> lookup q (rt_params st) = Some (DPattern [KLit a; KRef p; KLit b]) -> lookup q (rt_pcache st) = None ->
  cast_to_string (value_of_prim v) = ROk x ->
  snd (run_ops st [OOverrideParam p v; OGetParam q]) = [ROk VNil; ROk (VStr (a ++ x ++ b))].
Proof.
  intros Hn Hq Hc Hx. rewrite !run_ops_snd_cons. cbn [run_ops snd]. f_equal. f_equal.
  pose proof (override_establishes st p v) as Ho. rewrite step_override_param in *. cbn [fst] in *.
  destruct (overridden_param_other st p v q Hn) as [E1 E2].
  apply (ref3_get _ p q v a b x Ho); [rewrite E1; exact Hq|rewrite E2; exact Hc|exact Hx].
Qed.

(** the cast always succeeds on an overriding value (a primitive) *)
Corollary first_read_sees_override_multi_ex st p q v a b :
  q <> p -> lookup q (rt_params st) = Some (DPattern [KLit a; KRef p; KLit b]) -> lookup q (rt_pcache st) = None ->
  exists x, cast_to_string (value_of_prim v) = ROk x /\
            snd (run_ops st [OOverrideParam p v; OGetParam q]) = [ROk VNil; ROk (VStr (a ++ x ++ b))].
Proof.
  intros Hn Hq Hc. destruct (cast_prim v) as [x Hx]. exists x. split; [exact Hx|].
  apply first_read_sees_override_multi; assumption.
Qed.

(** ** over histories: as long as neither [p] nor [q] is overridden again, every read of [q := "%p%"] gives the overriding value *)
Section RefOverridden.
  Variables (p q : str) (v : prim).
  Let Jp := pin JT p (DLit v) (ovr_good v).
  Let okp := fun x : str => x <> p.

  Lemma Jp_ovr st x w : okp x -> Jp st -> Jp (fst (step st (OOverrideParam x w))).
  Proof.
    intros Hx H. apply (pin_step JT okT JT_trace JT_cache JT_ext JT_ovr p (DLit v) (ovr_good v) (ovr_body_good p v)); [|exact H].
    split; [exact I|exact Hx].
  Qed.

  Definition ref_overridden (st : rt) : Prop :=
    overridden st p v /\ lookup q (rt_params st) = Some (DPattern [KRef p]) /\ ovr_good v (lookup q (rt_pcache st)).

  Lemma ref_overridden_pin st : ref_overridden st <-> pin Jp q (DPattern [KRef p]) (ovr_good v) st.
  Proof. unfold ref_overridden, pin. rewrite overridden_pin. reflexivity. Qed.

  Lemma ref_body_good (f : nat) st st1 w :
    pin Jp q (DPattern [KRef p]) (ovr_good v) st -> lookup q (rt_pcache st) = None ->
    param_body f st (DPattern [KRef p]) = (st1, ROk w) -> ovr_good v (Some w).
  Proof.
    intros [HJ _] _ B. apply overridden_pin in HJ. destruct HJ as [Hd Hg]. cbn [param_body] in B.
    destruct f as [|f]; [inversion B|]. rewrite eval_pattern_single in B.
    destruct f as [|f]; [inversion B|]. rewrite eval_tok_ref in B.
    destruct f as [|f]; [inversion B|]. rewrite get_param_unfold, Hd in B.
    destruct Hg as [E | E]; rewrite E in B; cbn [param_body] in B; inversion B; subst; right; reflexivity.
  Qed.

  Lemma ref_overridden_step_ok st o :
    no_override p o /\ no_override q o -> ref_overridden st ->
    ref_overridden (fst (step st o)) /\ (o = OGetParam q \/ o = OGetParam p -> snd (step st o) = ROk (value_of_prim v)).
  Proof.
    intros [Hp Hq] H. split.
    - apply ref_overridden_pin. apply ref_overridden_pin in H.
      apply (pin_step Jp okp (pin_trace JT JT_trace p (DLit v) (ovr_good v))
                      (pin_cache JT JT_cache p (DLit v) (ovr_good v) (ovr_body_good p v))
                      (pin_ext JT JT_ext p (DLit v) (ovr_good v)) Jp_ovr q (DPattern [KRef p]) (ovr_good v) ref_body_good); [|exact H].
      destruct o; try exact I. split; [exact Hp|exact Hq].
    - destruct H as (Ho & Hd & Hg). intros [-> | ->]; [|apply overridden_get; exact Ho].
      destruct Hg as [Hc|Hc]; [apply (ref_get st p q v Ho Hd Hc)|].
      rewrite step_get_param. destruct (fuel_of_S st) as [f ->]. rewrite get_param_unfold, Hd, Hc. reflexivity.
  Qed.

  Theorem ref_overridden_history st ops :
    ref_overridden st -> Forall (fun o => no_override p o /\ no_override q o) ops ->
    ref_overridden (fst (run_ops st ops)) /\
    Forall2 (fun o r => o = OGetParam q \/ o = OGetParam p -> r = ROk (value_of_prim v)) ops (snd (run_ops st ops)).
  Proof.
    intros H HA.
    apply (run_ops_inv ref_overridden (fun o => no_override p o /\ no_override q o)
             (fun o r => o = OGetParam q \/ o = OGetParam p -> r = ROk (value_of_prim v)) ref_overridden_step_ok ops st HA H).
  Qed.

  (** [q] uncached when [p] is overridden: from then on all reads of [q] and of [p] give the overriding value *)
  Theorem ref_sees_override_history st ops :
    q <> p -> lookup q (rt_params st) = Some (DPattern [KRef p]) -> lookup q (rt_pcache st) = None ->
    Forall (fun o => no_override p o /\ no_override q o) ops ->
    Forall2 (fun o r => o = OGetParam q \/ o = OGetParam p -> r = ROk (value_of_prim v)) ops
            (snd (run_ops (fst (step st (OOverrideParam p v))) ops)).
  Proof.
    intros Hn Hq Hc HA. apply ref_overridden_history; [|exact HA].
    split; [apply override_establishes|]. rewrite step_override_param. cbn [fst].
    destruct (overridden_param_other st p v q Hn) as [E1 E2]. rewrite E1, E2. split; [exact Hq|left; exact Hc].
  Qed.
End RefOverridden.

(** ** the documented caveat: [OverrideParam p] drops ONLY [p]'s own cache entry, so a parameter [q] evaluated (cached) before
       keeps its value, whatever it refers to.  More generally a cached value is returned until the parameter itself is overridden. *)
Definition cached_param (st : rt) (q : str) (d : rdep) (w : value) : Prop :=
  lookup q (rt_params st) = Some d /\ lookup q (rt_pcache st) = Some w.

Lemma cached_param_pin st q d w : cached_param st q d w <-> pin JT q d (fun c => c = Some w) st.
Proof. unfold cached_param, pin, JT. tauto. Qed.

Lemma cached_body_good q d w (f : nat) st st1 (x : value) :
  pin JT q d (fun c => c = Some w) st -> lookup q (rt_pcache st) = None -> param_body f st d = (st1, ROk x) -> Some x = Some w.
Proof. intros (_ & _ & Hc) Hn _. rewrite Hc in Hn. discriminate Hn. Qed.

Theorem cached_step st q d w o : no_override q o -> cached_param st q d w -> cached_param (fst (step st o)) q d w.
Proof.
  intros Ho H. apply cached_param_pin. apply cached_param_pin in H.
  apply (pin_step JT okT JT_trace JT_cache JT_ext JT_ovr q d (fun c => c = Some w) (cached_body_good q d w)); [|exact H].
  destruct o; try exact I. split; [exact I|exact Ho].
Qed.

Theorem cached_get st q d w : cached_param st q d w -> snd (step st (OGetParam q)) = ROk w.
Proof. intros [Hd Hc]. rewrite step_get_param. destruct (fuel_of_S st) as [f ->]. rewrite get_param_unfold, Hd, Hc. reflexivity. Qed.

Lemma cached_step_ok q d w st o :
  no_override q o -> cached_param st q d w -> cached_param (fst (step st o)) q d w /\ (o = OGetParam q -> snd (step st o) = ROk w).
Proof. intros Ho H. split; [apply cached_step; assumption|]. intros ->. eapply cached_get; exact H. Qed.

Theorem cached_history st q d w ops :
  cached_param st q d w -> Forall (no_override q) ops ->
  cached_param (fst (run_ops st ops)) q d w /\ Forall2 (fun o r => o = OGetParam q -> r = ROk w) ops (snd (run_ops st ops)).
Proof.
  intros H HA.
  apply (run_ops_inv (fun st => cached_param st q d w) (no_override q) (fun o r => o = OGetParam q -> r = ROk w) (cached_step_ok q d w) ops st HA H).
Qed.

(** the caveat as stated: [q] cached before the override of [p] (and [q <> p]): [GetParam q] still returns the cached value *)
Theorem stale_cache_after_override st p q v d w :
  q <> p -> lookup q (rt_params st) = Some d -> lookup q (rt_pcache st) = Some w ->
  snd (run_ops st [OOverrideParam p v; OGetParam q]) = [ROk VNil; ROk w].
Proof.
  intros Hn Hd Hc. rewrite !run_ops_snd_cons. cbn [run_ops snd]. f_equal. f_equal.
  apply (cached_get _ q d w). apply cached_step; [intros E; apply Hn; symmetry; exact E|]. split; assumption.
Qed.

(** in particular for [q := "%p%"]: the override of [p] is NOT seen through an already evaluated [q] *)
Corollary stale_ref_after_override st p q v w :
  q <> p -> lookup q (rt_params st) = Some (DPattern [KRef p]) -> lookup q (rt_pcache st) = Some w ->
  snd (run_ops st [OOverrideParam p v; OGetParam q]) = [ROk VNil; ROk w].
Proof. intros Hn Hd Hc. eapply stale_cache_after_override; eassumption. Qed.

(** reads are repeatable: a successful [OGetParam q] at [i], another one at [j > i], no override of [q] in between (overrides of
    anything else, including the parameters [q] refers to, are allowed): the same value *)
Theorem get_param_repeatable st ops i j q w :
  nth_error ops i = Some (OGetParam q) -> nth_error (snd (run_ops st ops)) i = Some (ROk w) ->
  i < j -> nth_error ops j = Some (OGetParam q) ->
  (forall k x, i < k < j -> nth_error ops k <> Some (OOverrideParam q x)) ->
  nth_error (snd (run_ops st ops)) j = Some (ROk w).
Proof.
  intros Hi Hri Hij Hj Hbetween.
  destruct (history_split st ops i _ Hi) as [l1 [l2 [E [HL [Hat Hlater]]]]].
  rewrite Hat in Hri. injection Hri as Hr.
  set (st1 := fst (run_ops st l1)) in *.
  destruct (get_param (fuel_of st1) st1 q) as [st2 r2] eqn:G. cbn [snd] in Hr. subst r2.
  assert (HC : exists d, cached_param (fst (step st1 (OGetParam q))) q d w).
  { rewrite step_get_param, G. cbn [fst].
    pose proof (get_param_ok_exists _ _ _ _ _ G) as Hex. pose proof (get_param_frame _ _ _ _ _ G) as F.
    destruct (lookup q (rt_params st1)) as [d|] eqn:Hd; [|contradiction]. exists d.
    split; [rewrite (pf_params _ _ F); exact Hd|eapply get_param_cached; exact G]. }
  destruct HC as [d HC].
  assert (Ej : j = i + S (j - i - 1)) by lia. destruct (Hlater (j - i - 1)) as [Hr Ho]. rewrite <- Ej in Hr, Ho.
  rewrite Hr. rewrite Hj in Ho. symmetry in Ho.
  destruct (run_ops_inv_nth (fun st => cached_param st q d w) (no_override q) (fun o r => o = OGetParam q -> r = ROk w)
              (cached_step_ok q d w) l2 _ (j - i - 1) (OGetParam q) HC Ho I) as [r [Hn Hq]].
  - intros k o' Hk Hn. apply no_override_spec. intros x ->.
    apply (Hbetween (i + S k) x); [lia|]. rewrite (proj2 (Hlater k)). exact Hn.
  - rewrite Hn, (Hq eq_refl). reflexivity.
Qed.

(** * 3. Todo placeholders

    [%todo()%] / [%todo("message")%] is loaded (Load.rtok_of with the built-in function [todo -> paramTodo]) as the single-chunk
    pattern [[KCall "paramTodo" args label]]; [call_fn] on it always fails. *)
Definition todo_def (a l : str) : rdep := DPattern [KCall (s "paramTodo") a l].
Definition todo_message (a : str) : str := match parse_args a with VStr m :: _ => m | _ => s "parameter todo" end.

Lemma call_fn_todo st a l : call_fn st (s "paramTodo") a l = RErr (todo_message a).
Proof.
  unfold call_fn, todo_message. cbv zeta.
  change (str_eqb (s "paramTodo") (s "getEnv")) with false.
  change (str_eqb (s "paramTodo") (s "getEnvInt")) with false.
  change (str_eqb (s "paramTodo") (s "paramTodo")) with true. cbv iota.
  destruct (parse_args a) as [|[] ?]; reflexivity.
Qed.

Lemma todo_tok f st a l : is_err (snd (eval_tok f st (KCall (s "paramTodo") a l))).
Proof. destruct f as [|f]; [exact I|]. rewrite eval_tok_call, call_fn_todo. exact I. Qed.

Lemma todo_body_err f st a l : is_err (snd (param_body f st (todo_def a l))).
Proof. cbn [param_body todo_def]. destruct f as [|f]; [exact I|]. rewrite eval_pattern_single. apply todo_tok. Qed.

(** [p] is a todo placeholder that has not been evaluated successfully (it never is, see below) *)
Definition todo_param (st : rt) (p a l : str) : Prop :=
  lookup p (rt_params st) = Some (todo_def a l) /\ lookup p (rt_pcache st) = None.

Definition cache_none (c : option value) : Prop := c = None.

Lemma todo_param_pin st p a l : todo_param st p a l <-> pin JT p (todo_def a l) cache_none st.
Proof. unfold todo_param, pin, JT, cache_none. tauto. Qed.

Lemma todo_body_good p a l (f : nat) st st1 (x : value) :
  pin JT p (todo_def a l) cache_none st -> lookup p (rt_pcache st) = None -> param_body f st (todo_def a l) = (st1, ROk x) ->
  cache_none (Some x).
Proof. intros _ _ B. pose proof (todo_body_err f st a l) as HE. rewrite B in HE. destruct HE. Qed.

(** whatever the fuel, reading it is an error *)
Lemma todo_get_param_err f st p a l : todo_param st p a l -> is_err (snd (get_param f st p)).
Proof.
  intros [Hd Hc]. destruct f as [|f]; [exact I|]. rewrite get_param_unfold, Hd, Hc.
  pose proof (todo_body_err f st a l) as HE. destruct (param_body f st (todo_def a l)) as [st1 [x|e]]; [destruct HE|exact I].
Qed.

(** through [GetParam]: the error names the token and carries the message *)
Theorem todo_get st p a l :
  todo_param st p a l ->
  snd (step st (OGetParam p)) = RErr (s "cannot execute " ++ l ++ s ": provider returned error: " ++ todo_message a).
Proof.
  intros [Hd Hc]. rewrite step_get_param. destruct (fuel_of_16 st) as [f ->]. change (16 + f) with (S (S (S (13 + f)))).
  rewrite get_param_unfold, Hd, Hc. cbn [param_body todo_def]. rewrite eval_pattern_single, eval_tok_call, call_fn_todo. reflexivity.
Qed.

Corollary todo_get_err st p a l : todo_param st p a l -> is_err (snd (step st (OGetParam p))).
Proof. intros H. rewrite (todo_get st p a l H). exact I. Qed.

(** every operation that is not an override of [p] keeps [p] a todo, uncached *)
Theorem todo_step st p a l o : no_override p o -> todo_param st p a l -> todo_param (fst (step st o)) p a l.
Proof.
  intros Ho H. apply todo_param_pin. apply todo_param_pin in H.
  apply (pin_step JT okT JT_trace JT_cache JT_ext JT_ovr p (todo_def a l) cache_none (todo_body_good p a l)); [|exact H].
  destruct o; try exact I. split; [exact I|exact Ho].
Qed.

Definition todo_error (a l : str) : result value :=
  RErr (s "cannot execute " ++ l ++ s ": provider returned error: " ++ todo_message a).

Lemma todo_step_ok p a l st o :
  no_override p o -> todo_param st p a l ->
  todo_param (fst (step st o)) p a l /\ (o = OGetParam p -> snd (step st o) = todo_error a l).
Proof. intros Ho H. split; [apply todo_step; assumption|]. intros ->. apply todo_get; exact H. Qed.

(** in ANY history without [OOverrideParam p _]: every [OGetParam p] is an error (never [ROk]) ... *)
Theorem todo_history st p a l ops :
  todo_param st p a l -> Forall (no_override p) ops ->
  todo_param (fst (run_ops st ops)) p a l /\
  Forall2 (fun o r => o = OGetParam p -> r = todo_error a l) ops (snd (run_ops st ops)).
Proof.
  intros H HA.
  apply (run_ops_inv (fun st => todo_param st p a l) (no_override p) (fun o r => o = OGetParam p -> r = todo_error a l)
                     (todo_step_ok p a l) ops st HA H).
Qed.

Corollary todo_never_ok st p a l ops j v :
  todo_param st p a l -> Forall (no_override p) ops -> nth_error ops j = Some (OGetParam p) ->
  nth_error (snd (run_ops st ops)) j <> Some (ROk v).
Proof.
  intros H HA Hj. destruct (todo_history st p a l ops H HA) as [_ HF].
  destruct (Forall2_nth _ _ _ HF j _ Hj) as [r [Hr Hq]]. rewrite Hr, (Hq eq_refl). discriminate.
Qed.

(** ... and the parameter cache never gets an entry for [p], at any point of the history *)
Theorem todo_never_cached st p a l ops k :
  todo_param st p a l -> Forall (no_override p) ops -> lookup p (rt_pcache (fst (run_ops st (firstn k ops)))) = None.
Proof.
  intros H HA.
  apply (run_ops_inv_prefix (fun st => todo_param st p a l) (no_override p) (fun o r => o = OGetParam p -> r = todo_error a l)
                            (todo_step_ok p a l) ops st k HA H).
Qed.

(** index form: only the operations before [j] matter *)
Theorem todo_get_nth st p a l ops j :
  todo_param st p a l -> nth_error ops j = Some (OGetParam p) ->
  (forall k w, k < j -> nth_error ops k <> Some (OOverrideParam p w)) ->
  nth_error (snd (run_ops st ops)) j = Some (todo_error a l).
Proof.
  intros H Hj Hbefore.
  destruct (run_ops_inv_nth (fun st => todo_param st p a l) (no_override p) (fun o r => o = OGetParam p -> r = todo_error a l)
              (todo_step_ok p a l) ops st j (OGetParam p) H Hj I) as [r [Hn Hq]].
  - intros k o' Hk Hn. apply no_override_spec. intros w ->. apply (Hbefore k w Hk). exact Hn.
  - rewrite Hn, (Hq eq_refl). reflexivity.
Qed.

(** after an [OOverrideParam p v], section 1 applies ([override_sticky] has no hypothesis on the old definition): e.g. *)
Corollary todo_then_override st p a l ops i j j' v :
  todo_param st p a l ->
  nth_error ops i = Some (OOverrideParam p v) ->
  (forall k w, k <> i -> nth_error ops k <> Some (OOverrideParam p w)) ->
  nth_error ops j = Some (OGetParam p) -> nth_error ops j' = Some (OGetParam p) -> j < i < j' ->
  nth_error (snd (run_ops st ops)) j = Some (todo_error a l) /\
  nth_error (snd (run_ops st ops)) j' = Some (ROk (value_of_prim v)).
Proof.
  intros H Hi Honly Hj Hj' Hlt. split.
  - apply (todo_get_nth st p a l ops j H Hj). intros k w Hk. apply Honly. lia.
  - apply (override_sticky st ops i j' p v Hi); [lia|exact Hj'|]. intros k w Hk. apply Honly. lia.
Qed.

(** ** parameters that refer to a todo parameter fail, too (single- or multi-chunk), and are not cached *)
Section RefTodo.
  Variables (p a l : str).
  Let Jt := pin JT p (todo_def a l) cache_none.
  Let okp := fun x : str => x <> p.

  Lemma Jt_ovr st x w : okp x -> Jt st -> Jt (fst (step st (OOverrideParam x w))).
  Proof.
    intros Hx H. apply (pin_step JT okT JT_trace JT_cache JT_ext JT_ovr p (todo_def a l) cache_none (todo_body_good p a l)); [|exact H].
    split; [exact I|exact Hx].
  Qed.

  Lemma Jt_eval_tok f st t st' r : eval_tok f st t = (st', r) -> Jt st -> Jt st'.
  Proof. apply (pin_eval_tok JT JT_trace JT_cache p (todo_def a l) cache_none (todo_body_good p a l)). Qed.

  Lemma ref_tok_err f st : Jt st -> is_err (snd (eval_tok f st (KRef p))).
  Proof.
    intros H. apply todo_param_pin in H. destruct f as [|f]; [exact I|]. rewrite eval_tok_ref.
    eapply todo_get_param_err; exact H.
  Qed.

  Lemma cat_loop_ref_err f l0 : forall st acc, Jt st -> In (KRef p) l0 -> is_err (snd (cat_loop f l0 st acc)).
  Proof.
    induction l0 as [|t l0 IH]; intros st acc HJ Hin; [destruct Hin|]. cbn [cat_loop].
    destruct (eval_tok f st t) as [st1 [x|e]] eqn:Ht; [|exact I].
    destruct Hin as [->|Hin].
    - pose proof (ref_tok_err f st HJ) as HE. rewrite Ht in HE. destruct HE.
    - destruct (cast_to_string x); [|exact I]. apply IH; [|exact Hin]. eapply Jt_eval_tok; eassumption.
  Qed.

  (** a pattern with a chunk [%p%] fails, wherever the chunk is *)
  Lemma eval_pattern_ref_err f st toks : Jt st -> In (KRef p) toks -> is_err (snd (eval_pattern f st toks)).
  Proof.
    intros HJ Hin. destruct f as [|f]; [exact I|]. rewrite eval_pattern_unfold.
    destruct toks as [|t [|t' l0]]; try (apply cat_loop_ref_err; assumption).
    destruct Hin as [->|[]]. apply ref_tok_err. exact HJ.
  Qed.

  Variable q : str.
  Variable toks : list rtok.
  Hypothesis Hin : In (KRef p) toks.

  (** [q] refers to the todo parameter [p] and is not cached *)
  Definition ref_todo (st : rt) : Prop :=
    todo_param st p a l /\ lookup q (rt_params st) = Some (DPattern toks) /\ lookup q (rt_pcache st) = None.

  Lemma ref_todo_pin st : ref_todo st <-> pin Jt q (DPattern toks) cache_none st.
  Proof. unfold ref_todo, pin. rewrite todo_param_pin. reflexivity. Qed.

  Lemma ref_todo_body_good (f : nat) st st1 (x : value) :
    pin Jt q (DPattern toks) cache_none st -> lookup q (rt_pcache st) = None -> param_body f st (DPattern toks) = (st1, ROk x) ->
    cache_none (Some x).
  Proof.
    intros [HJ _] _ B. cbn [param_body] in B. pose proof (eval_pattern_ref_err f st toks HJ Hin) as HE. rewrite B in HE. destruct HE.
  Qed.

  Lemma ref_todo_get_err st : ref_todo st -> is_err (snd (step st (OGetParam q))).
  Proof.
    intros H. pose proof H as (Ht & Hd & Hc). apply todo_param_pin in Ht.
    rewrite step_get_param. destruct (fuel_of_S st) as [f ->]. rewrite get_param_unfold, Hd, Hc. cbn [param_body].
    pose proof (eval_pattern_ref_err f st toks Ht Hin) as HE.
    destruct (eval_pattern f st toks) as [st1 [x|e]]; [destruct HE|exact I].
  Qed.

  Lemma ref_todo_step_ok st o :
    no_override p o /\ no_override q o -> ref_todo st ->
    ref_todo (fst (step st o)) /\ (o = OGetParam q \/ o = OGetParam p -> is_err (snd (step st o))).
  Proof.
    intros [Hp Hq] H. split.
    - apply ref_todo_pin. apply ref_todo_pin in H.
      apply (pin_step Jt okp (pin_trace JT JT_trace p (todo_def a l) cache_none)
                      (pin_cache JT JT_cache p (todo_def a l) cache_none (todo_body_good p a l))
                      (pin_ext JT JT_ext p (todo_def a l) cache_none) Jt_ovr q (DPattern toks) cache_none ref_todo_body_good); [|exact H].
      destruct o; try exact I. split; [exact Hp|exact Hq].
    - intros [-> | ->]; [apply ref_todo_get_err; exact H|]. destruct H as [Ht _]. eapply todo_get_err; exact Ht.
  Qed.

  (** in any history that overrides neither [p] nor [q]: every read of [q] (and of [p]) fails and [q] never gets cached *)
  Theorem ref_todo_history st ops :
    ref_todo st -> Forall (fun o => no_override p o /\ no_override q o) ops ->
    ref_todo (fst (run_ops st ops)) /\
    Forall2 (fun o r => o = OGetParam q \/ o = OGetParam p -> is_err r) ops (snd (run_ops st ops)).
  Proof.
    intros H HA.
    apply (run_ops_inv ref_todo (fun o => no_override p o /\ no_override q o)
             (fun o r => o = OGetParam q \/ o = OGetParam p -> is_err r) ref_todo_step_ok ops st HA H).
  Qed.

  Corollary ref_todo_never_ok st ops j v :
    ref_todo st -> Forall (fun o => no_override p o /\ no_override q o) ops -> nth_error ops j = Some (OGetParam q) ->
    nth_error (snd (run_ops st ops)) j <> Some (ROk v).
  Proof.
    intros H HA Hj. destruct (ref_todo_history st ops H HA) as [_ HF].
    destruct (Forall2_nth _ _ _ HF j _ Hj) as [r [Hr Hq]]. rewrite Hr. intros E. inversion E; subst.
    exact (Hq (or_introl eq_refl)).
  Qed.

  Theorem ref_todo_never_cached st ops k :
    ref_todo st -> Forall (fun o => no_override p o /\ no_override q o) ops ->
    lookup q (rt_pcache (fst (run_ops st (firstn k ops)))) = None /\ lookup p (rt_pcache (fst (run_ops st (firstn k ops)))) = None.
  Proof.
    intros H HA.
    pose proof (run_ops_inv_prefix ref_todo (fun o => no_override p o /\ no_override q o)
                  (fun o r => o = OGetParam q \/ o = OGetParam p -> is_err r) ref_todo_step_ok ops st k HA H) as (Ht & _ & Hc).
    split; [exact Hc|apply Ht].
  Qed.
End RefTodo.

(** * 4. Laziness over histories: only get operations run constructors / functions *)

(** the operations that do not get anything *)
Definition is_admin (o : op) : bool :=
  match o with OOverrideParam _ _ | OOverrideService _ _ _ | ONewCtx _ => true | _ => false end.

(** per step: overrides and new contexts evaluate nothing *)
Theorem admin_step_lazy st o :
  is_admin o = true ->
  rt_trace (fst (step st o)) = rt_trace st /\ rt_serial (fst (step st o)) = rt_serial st /\ snd (step st o) = ROk VNil.
Proof. destruct o; intros H; try discriminate H; repeat split. Qed.

(** lifted: a history of overrides / new contexts leaves the trace and the serial alone *)
Theorem admin_history_lazy ops : forall st,
  forallb is_admin ops = true ->
  rt_trace (fst (run_ops st ops)) = rt_trace st /\ rt_serial (fst (run_ops st ops)) = rt_serial st /\
  snd (run_ops st ops) = map (fun _ => ROk VNil) ops.
Proof.
  induction ops as [|o ops IH]; intros st H; [repeat split|].
  cbn [forallb] in H. apply andb_prop in H. destruct H as [Ho Hl].
  destruct (admin_step_lazy st o Ho) as (E1 & E2 & E3). destruct (IH (fst (step st o)) Hl) as (F1 & F2 & F3).
  rewrite run_ops_fst_cons, run_ops_snd_cons, F1, F2, F3, E1, E2, E3. repeat split.
Qed.

(** in general the trace is only ever EXTENDED *)
Definition extends (t0 : list str) (st : rt) : Prop := exists ext, rt_trace st = t0 ++ ext.

Lemma extends_trace t0 st e : extends t0 st -> extends t0 (with_trace st e).
Proof. intros [ext E]. exists (ext ++ [e]). cbn [with_trace rt_trace]. rewrite E, app_assoc. reflexivity. Qed.
Lemma extends_cache t0 (f : nat) st (id : str) (dd : rdep) st1 (v : value) :
  extends t0 st -> lookup id (rt_params st) = Some dd -> lookup id (rt_pcache st) = None ->
  param_body f st dd = (st1, ROk v) -> extends t0 st1 -> extends t0 (with_pcache st1 (assoc_set id v (rt_pcache st1))).
Proof. intros _ _ _ _ H. exact H. Qed.
Lemma extends_ext t0 st st' :
  rt_params st' = rt_params st -> rt_pcache st' = rt_pcache st -> rt_trace st' = rt_trace st -> extends t0 st -> extends t0 st'.
Proof. intros _ _ E [ext H]. exists ext. rewrite E. exact H. Qed.

Theorem step_trace_extends st o : exists ext, rt_trace (fst (step st o)) = rt_trace st ++ ext.
Proof.
  destruct (is_admin o) eqn:A.
  - exists []. rewrite app_nil_r. apply (admin_step_lazy st o A).
  - apply (step_pinv (extends (rt_trace st)) (extends_trace _) (extends_cache _) (extends_ext _)).
    + destruct o; try exact I. discriminate A.
    + exists []. rewrite app_nil_r. reflexivity.
Qed.

(** what an operation appends to the trace *)
Definition step_ext (st : rt) (o : op) : list str := skipn (length (rt_trace st)) (rt_trace (fst (step st o))).

Theorem step_trace st o : rt_trace (fst (step st o)) = rt_trace st ++ step_ext st o.
Proof.
  unfold step_ext. destruct (step_trace_extends st o) as [ext E]. rewrite E at 2.
  rewrite skipn_app, skipn_all, Nat.sub_diag. exact E.
Qed.

Theorem step_ext_admin st o : is_admin o = true -> step_ext st o = [].
Proof. intros A. unfold step_ext. rewrite (proj1 (admin_step_lazy st o A)). apply skipn_all. Qed.

(** what a history appends: the contributions of its operations, those of overrides / new contexts being empty *)
Fixpoint run_ext (st : rt) (ops : list op) : list str :=
  match ops with
  | [] => []
  | o :: l => (if is_admin o then [] else step_ext st o) ++ run_ext (fst (step st o)) l
  end.

Theorem run_ops_trace ops : forall st, rt_trace (fst (run_ops st ops)) = rt_trace st ++ run_ext st ops.
Proof.
  induction ops as [|o ops IH]; intros st; cbn [run_ext]; [rewrite app_nil_r; reflexivity|].
  rewrite run_ops_fst_cons, IH, step_trace, <- app_assoc.
  destruct (is_admin o) eqn:A; [rewrite (step_ext_admin st o A)|]; reflexivity.
Qed.

Corollary run_ops_trace_extends st ops : exists ext, rt_trace (fst (run_ops st ops)) = rt_trace st ++ ext.
Proof. eexists. apply run_ops_trace. Qed.

(** the serial never decreases *)
Lemma set_bag_serial st c b : rt_serial (set_bag st c b) = rt_serial st. Proof. reflexivity. Qed.

Theorem step_serial_mono st o : (rt_serial st <= rt_serial (fst (step st o)))%N.
Proof.
  destruct o as [n|c n|t|c t|p|p v|n o args|c]; cbn [step]; try apply N.le_refl.
  - destruct (get rt_depsf (fuel_of st) st [] n) as [[st' b'] r] eqn:G. cbn [fst]. apply (gf_serial _ _ (get_frame _ _ _ _ _ _ _ _ G)).
  - destruct (get rt_depsf (fuel_of st) st (bag_of st c) n) as [[st' b'] r] eqn:G. cbn [fst]. rewrite set_bag_serial.
    apply (gf_serial _ _ (get_frame _ _ _ _ _ _ _ _ G)).
  - destruct (resolve_dep rt_depsf (fuel_of st) st [] (DTag t)) as [[st' b'] r] eqn:G. cbn [fst].
    apply (gf_serial _ _ (resolve_dep_frame _ _ _ _ _ _ _ _ G)).
  - destruct (resolve_dep rt_depsf (fuel_of st) st (bag_of st c) (DTag t)) as [[st' b'] r] eqn:G. cbn [fst]. rewrite set_bag_serial.
    apply (gf_serial _ _ (resolve_dep_frame _ _ _ _ _ _ _ _ G)).
  - destruct (get_param (fuel_of st) st p) as [st' r] eqn:G. cbn [fst]. rewrite (pf_serial _ _ (get_param_frame _ _ _ _ _ G)). apply N.le_refl.
Qed.

Theorem run_ops_serial_mono ops : forall st, (rt_serial st <= rt_serial (fst (run_ops st ops)))%N.
Proof.
  induction ops as [|o ops IH]; intros st; [apply N.le_refl|]. rewrite run_ops_fst_cons.
  eapply N.le_trans; [apply (step_serial_mono st o)|apply IH].
Qed.

(** * 5. Service overrides over histories *)

(** the definition [OverrideService n o args] installs: constructor [o] over the literal arguments, default scope, no fields,
    no calls, no tags *)
Definition newdef (o : str) (args : list prim) : sdef :=
  {| sd_create := CCtor o (failing o) (map DLit args); sd_fields := []; sd_calls := []; sd_tags := []; sd_scope := OScDefault |}.

(** literal arguments: no recursion, nothing changes *)
Lemma deps_loop_lits depsf f args : forall st b acc err,
  deps_loop depsf (S f) (map DLit args) st b acc err = ((st, b), fin err (rev acc ++ map value_of_prim args)).
Proof.
  induction args as [|a args IH]; intros st b acc err; cbn [map deps_loop]; [rewrite app_nil_r; reflexivity|].
  rewrite resolve_dep_unfold, IH. cbn [rev]. rewrite <- app_assoc. reflexivity.
Qed.

Lemma deps_loop_lits_inv depsf f args : forall st b acc st' b' vs,
  deps_loop depsf f (map DLit args) st b acc None = ((st', b'), ROk vs) ->
  st' = st /\ b' = b /\ vs = rev acc ++ map value_of_prim args.
Proof.
  destruct f as [|f]; intros st b acc st' b' vs H.
  - destruct args as [|a args]; cbn [map deps_loop] in H.
    + inversion H; subst. rewrite app_nil_r. auto.
    + rewrite resolve_dep_0 in H. cbn [keep_err] in H.
      pose proof (deps_loop_some depsf 0 (map DLit args) st b acc (s "out of fuel")) as HE. rewrite H in HE. discriminate HE.
  - rewrite deps_loop_lits in H. inversion H; subst. auto.
Qed.

Lemma resolve_deps_lits_inv depsf f args st b st' b' vs :
  resolve_deps depsf f st b (map DLit args) = ((st', b'), ROk vs) -> st' = st /\ b' = b /\ vs = map value_of_prim args.
Proof.
  destruct f as [|f]; [rewrite resolve_deps_0; discriminate|]. rewrite resolve_deps_unfold. intros H.
  apply deps_loop_lits_inv in H. exact H.
Qed.

(** the state after the constructor [o] ran on [st] *)
Definition constructed (st : rt) (o : str) : rt := with_serial (with_trace st (s "ctor:" ++ o)) (rt_serial st + 1).

(** building the overriding definition: if it succeeds, the object is the constructor's, over the literal arguments,
    undecorated (the definition carries no tags), and exactly one constructor ran *)
Lemma build_newdef_inv depsf f n o args st b st4 b4 v4 :
  build depsf f (newdef o args) n st b = ((st4, b4), ROk v4) ->
  failing o = false /\ st4 = constructed st o /\ b4 = b /\ v4 = VObj o (map value_of_prim args) [] [] (rt_serial st + 1).
Proof.
  unfold build, create. cbn [newdef sd_create sd_fields sd_calls].
  destruct (resolve_deps depsf f st b (map DLit args)) as [[st1 b1] [vs|e]] eqn:G; [|discriminate].
  apply resolve_deps_lits_inv in G. destruct G as (-> & -> & ->).
  destruct (failing o); [discriminate|]. cbn [alloc fields_loop calls_loop fin].
  rewrite decs_loop_none by (intros dd _; reflexivity). intros H. inversion H; subst. auto.
Qed.

Lemma build_newdef_ok depsf f n o args st b :
  failing o = false ->
  build depsf (S (S f)) (newdef o args) n st b = ((constructed st o, b), ROk (VObj o (map value_of_prim args) [] [] (rt_serial st + 1))).
Proof.
  intros Hf. unfold build, create. cbn [newdef sd_create sd_fields sd_calls].
  rewrite resolve_deps_unfold, deps_loop_lits, Hf. cbn [alloc fields_loop calls_loop rev app fin].
  rewrite decs_loop_none by (intros dd _; reflexivity). reflexivity.
Qed.

Lemma build_newdef_failing depsf f n o args st b :
  failing o = true ->
  build depsf (S (S f)) (newdef o args) n st b = ((with_trace st (s "ctor:" ++ o), b), RErr (s "constructor failed on purpose")).
Proof.
  intros Hf. unfold build, create. cbn [newdef sd_create sd_fields sd_calls].
  rewrite resolve_deps_unfold, deps_loop_lits, Hf. reflexivity.
Qed.

Section SvcOverride.
  Variables (n o : str) (args : list prim).

  (** an object made by the overriding constructor (the serial depends on when it was made) *)
  Definition good_obj (v : value) : Prop := exists sr, v = VObj o (map value_of_prim args) [] [] sr.
  Definition good_opt (c : option value) : Prop := match c with None => True | Some v => good_obj v end.

  Section Interp.
    Variable depsf : rt -> str -> list str.
    Variable st0 : rt.
    Hypothesis Hdef : lookup n (rt_services st0) = Some (newdef o args).

    (** the shared entry of [n] stays empty or good (the bags play no role in this) *)
    Definition G (st : rt) (b : bag) (st' : rt) (b' : bag) : Prop :=
      good_opt (lookup n (rt_shared st)) -> good_opt (lookup n (rt_shared st')).

    Lemma G_admin st b st' : rt_shared st' = rt_shared st -> G st b st' b.
    Proof. intros E H. rewrite E. exact H. Qed.
    Lemma G_trans st1 b1 st2 b2 st3 b3 : G st1 b1 st2 b2 -> G st2 b2 st3 b3 -> G st1 b1 st3 b3.
    Proof. unfold G. auto. Qed.

    Lemma get_G f :
      (forall st b id st' b' r, gframe st0 st -> get depsf f st b id = ((st', b'), r) -> G st b st' b') /\
      (forall st b d st' b' r, gframe st0 st -> resolve_dep depsf f st b d = ((st', b'), r) -> G st b st' b') /\
      (forall st b ds st' b' r, gframe st0 st -> resolve_deps depsf f st b ds = ((st', b'), r) -> G st b st' b').
    Proof.
      induction f as [|f (IHg & IHd & IHds)].
      - split; [|split]; intros ? ? ? ? ? ? _ H; inversion H; subst; apply G_admin; reflexivity.
      - split; [|split].
        + intros st b id st' b' r F H. rewrite get_shape in H. rewrite (gf_services _ _ F) in H.
          destruct (lookup id (rt_services st0)) as [d|] eqn:Hd; [|inversion H; subst; apply G_admin; reflexivity].
          destruct (cached_of (resolve_scope depsf st id) st b id); [inversion H; subst; apply G_admin; reflexivity|].
          destruct (build depsf f d id st b) as [[st4 b4] r4] eqn:B.
          assert (B4 : G st b st4 b4).
          { eapply (build_inv depsf f st0 G G_admin G_trans d id); [| |exact F|exact B].
            - intros sta ba dp sta' ba' ra Fa _ Ha. eapply IHd; eassumption.
            - intros sta ba ds sta' ba' ra Fa _ Ha. eapply IHds; eassumption. }
          destruct r4 as [v4|e4]; [|inversion H; subst; exact B4].
          eapply G_trans; [exact B4|].
          unfold store in H. destruct (resolve_scope depsf st id); inversion H; subst; try (intros Hx; exact Hx).
          intros H4. cbn [with_shared rt_shared]. destruct (str_eq_dec n id) as [<-|Hn].
          * rewrite lookup_assoc_set_same. rewrite Hdef in Hd. inversion Hd; subst d.
            apply build_newdef_inv in B. destruct B as (_ & _ & _ & ->). eexists; reflexivity.
          * rewrite lookup_assoc_set_other by exact Hn. exact H4.
        + intros st b d st' b' r F H. rewrite resolve_dep_unfold in H.
          destruct d as [p|v|m|t| |toks]; try (inversion H; subst; apply G_admin; reflexivity).
          * eapply IHg; eassumption.
          * eapply (tag_loop_inv depsf f st0 G G_admin G_trans (tagged st t)); [|exact F|exact H].
            intros sta ba m sta' ba' ra Fa _ Ha. eapply IHg; eassumption.
          * destruct (eval_pattern f st toks) as [st1 r1] eqn:E. inversion H; subst.
            apply G_admin. apply (pf_shared _ _ (eval_pattern_frame _ _ _ _ _ E)).
        + intros st b ds st' b' r F H. rewrite resolve_deps_unfold in H.
          eapply (deps_loop_inv depsf f st0 G G_admin G_trans ds); [|exact F|exact H].
          intros sta ba d sta' ba' ra Fa _ Ha. eapply IHd; eassumption.
    Qed.
  End Interp.
End SvcOverride.

Section SvcHistory.
  Variables (n o : str) (args : list prim).
  Local Notation good_obj := (good_obj o args).
  Local Notation good_opt := (good_opt o args).

  (** [n] is defined by the override and its shared instance, if any, was made by the overriding constructor *)
  Definition svc_overridden (st : rt) : Prop :=
    lookup n (rt_services st) = Some (newdef o args) /\ good_opt (lookup n (rt_shared st)).

  Theorem override_service_establishes st : svc_overridden (fst (step st (OOverrideService n o args))).
  Proof.
    cbn [step fst]. split; cbn [rt_services rt_shared].
    - apply lookup_assoc_set_same.
    - rewrite lookup_assoc_del_same. exact I.
  Qed.

  Definition no_svc_override (o' : op) : Prop := match o' with OOverrideService m _ _ => m <> n | _ => True end.

  Lemma no_svc_override_spec o' : no_svc_override o' <-> forall o2 a2, o' <> OOverrideService n o2 a2.
  Proof.
    destruct o'; cbn [no_svc_override]; split; intros H; try exact I; try (intros o2 a2 E; discriminate E).
    - intros o2 a2 E. inversion E; subst. apply H; reflexivity.
    - intros ->. apply (H origin args0); reflexivity.
  Qed.

  Lemma svc_get depsf f st b id st' b' r : get depsf f st b id = ((st', b'), r) -> svc_overridden st -> svc_overridden st'.
  Proof.
    intros H [Hd Hg]. split.
    - rewrite (gf_services _ _ (get_frame _ _ _ _ _ _ _ _ H)). exact Hd.
    - exact (proj1 (get_G n o args depsf st Hd f) st b id st' b' r (gframe_refl st) H Hg).
  Qed.

  Lemma svc_resolve_dep depsf f st b d st' b' r : resolve_dep depsf f st b d = ((st', b'), r) -> svc_overridden st -> svc_overridden st'.
  Proof.
    intros H [Hd Hg]. split.
    - rewrite (gf_services _ _ (resolve_dep_frame _ _ _ _ _ _ _ _ H)). exact Hd.
    - exact (proj1 (proj2 (get_G n o args depsf st Hd f)) st b d st' b' r (gframe_refl st) H Hg).
  Qed.

  (** every operation that is not an [OverrideService n] keeps it: gets (also of services depending on [n]), contexts,
      parameter overrides, overrides of other services *)
  Theorem svc_overridden_step st o' : no_svc_override o' -> svc_overridden st -> svc_overridden (fst (step st o')).
  Proof.
    intros Ho HS. destruct o' as [m|c m|t|c t|p|p v|m o2 a2|c]; cbn [step].
    - destruct (get rt_depsf (fuel_of st) st [] m) as [[st' b'] r] eqn:E. cbn [fst]. eapply svc_get; eassumption.
    - destruct (get rt_depsf (fuel_of st) st (bag_of st c) m) as [[st' b'] r] eqn:E. cbn [fst].
      apply (svc_get _ _ _ _ _ _ _ _ E) in HS. exact HS.
    - destruct (resolve_dep rt_depsf (fuel_of st) st [] (DTag t)) as [[st' b'] r] eqn:E. cbn [fst]. eapply svc_resolve_dep; eassumption.
    - destruct (resolve_dep rt_depsf (fuel_of st) st (bag_of st c) (DTag t)) as [[st' b'] r] eqn:E. cbn [fst].
      apply (svc_resolve_dep _ _ _ _ _ _ _ _ E) in HS. exact HS.
    - destruct (get_param (fuel_of st) st p) as [st' r] eqn:E. cbn [fst].
      pose proof (get_param_frame _ _ _ _ _ E) as F. destruct HS as [Hd Hg].
      split; [rewrite (pf_services _ _ F); exact Hd|rewrite (pf_shared _ _ F); exact Hg].
    - exact HS.
    - cbn [no_svc_override] in Ho. destruct HS as [Hd Hg]. cbn [fst]. split; cbn [rt_services rt_shared].
      + rewrite lookup_assoc_set_other by (intros E; apply Ho; symmetry; exact E). exact Hd.
      + rewrite lookup_assoc_del_other by (intros E; apply Ho; symmetry; exact E). exact Hg.
    - exact HS.
  Qed.

  (** a successful [get] of [n], in whatever bag whose entry for [n] is empty or good, returns an object made by the overriding
      constructor: origin [o], the literal arguments, no fields, no calls, not decorated *)
  Lemma svc_get_result depsf f st b st' b' v :
    svc_overridden st -> good_opt (lookup n b) -> get depsf f st b n = ((st', b'), ROk v) -> good_obj v.
  Proof.
    intros [Hd Hg] Hb E. destruct f as [|f]; [inversion E|].
    apply get_ok_inv in E. destruct E as [d [Hd' [[Hc _]|[_ [st4 [b4 [B _]]]]]]].
    - unfold cached_of in Hc. destruct (resolve_scope depsf st n); try discriminate Hc.
      + rewrite Hc in Hg. exact Hg.
      + rewrite Hc in Hb. exact Hb.
    - rewrite Hd in Hd'. inversion Hd'; subst d. apply build_newdef_inv in B. destruct B as (_ & _ & _ & ->). eexists; reflexivity.
  Qed.

  Theorem svc_overridden_get st v : svc_overridden st -> snd (step st (OGet n)) = ROk v -> good_obj v.
  Proof.
    intros HS. cbn [step]. destruct (get rt_depsf (fuel_of st) st [] n) as [[st' b'] r] eqn:E. cbn [snd]. intros ->.
    eapply svc_get_result; [exact HS| |exact E]. exact I.
  Qed.

  (** in a context: the same, provided the context's bag holds no instance of [n] made before the override
      ([OverrideService] does not touch the bags of the attached contexts) *)
  Theorem svc_overridden_get_ctx st c v :
    svc_overridden st -> good_opt (lookup n (bag_of st c)) -> snd (step st (OGetCtx c n)) = ROk v -> good_obj v.
  Proof.
    intros HS Hb. cbn [step]. destruct (get rt_depsf (fuel_of st) st (bag_of st c) n) as [[st' b'] r] eqn:E. cbn [snd]. intros ->.
    eapply svc_get_result; [exact HS|exact Hb|exact E].
  Qed.

  Lemma svc_step_ok st o' :
    no_svc_override o' -> svc_overridden st ->
    svc_overridden (fst (step st o')) /\ (o' = OGet n -> forall v, snd (step st o') = ROk v -> good_obj v).
  Proof. intros Ho H. split; [apply svc_overridden_step; assumption|]. intros -> v. apply svc_overridden_get; exact H. Qed.

  Theorem svc_overridden_history st ops :
    svc_overridden st -> Forall no_svc_override ops ->
    svc_overridden (fst (run_ops st ops)) /\
    Forall2 (fun o' r => o' = OGet n -> forall v, r = ROk v -> good_obj v) ops (snd (run_ops st ops)).
  Proof.
    intros H HA.
    apply (run_ops_inv svc_overridden no_svc_override (fun o' r => o' = OGet n -> forall v, r = ROk v -> good_obj v) svc_step_ok ops st HA H).
  Qed.

  (** THE SERVICE THEOREM, index form: [OOverrideService n o args] at [i], a successful [OGet n] at [j > i], no other
      [OOverrideService n] strictly in between: the object's origin is [o] *)
  Theorem service_override_sticky st ops i j v :
    nth_error ops i = Some (OOverrideService n o args) -> i < j -> nth_error ops j = Some (OGet n) ->
    (forall k o2 a2, i < k < j -> nth_error ops k <> Some (OOverrideService n o2 a2)) ->
    nth_error (snd (run_ops st ops)) j = Some (ROk v) ->
    exists sr, v = VObj o (map value_of_prim args) [] [] sr.
  Proof.
    intros Hi Hij Hj Hbetween Hres.
    destruct (history_split st ops i _ Hi) as [l1 [l2 [E [HL [_ Hlater]]]]].
    assert (Ej : j = i + S (j - i - 1)) by lia. destruct (Hlater (j - i - 1)) as [Hr Ho]. rewrite <- Ej in Hr, Ho.
    rewrite Hr in Hres. rewrite Hj in Ho. symmetry in Ho.
    destruct (run_ops_inv_nth svc_overridden no_svc_override (fun o' r => o' = OGet n -> forall v, r = ROk v -> good_obj v)
                svc_step_ok l2 (fst (step (fst (run_ops st l1)) (OOverrideService n o args))) (j - i - 1) (OGet n))
      as [r [Hn Hq]].
    - apply override_service_establishes.
    - exact Ho.
    - exact I.
    - intros k o' Hk Hn. apply no_svc_override_spec. intros o2 a2 ->.
      apply (Hbetween (i + S k) o2 a2); [lia|]. rewrite (proj2 (Hlater k)). exact Hn.
    - rewrite Hn in Hres. inversion Hres; subst r. exact (Hq eq_refl v eq_refl).
  Qed.

  (** right after the override the service is rebuilt (the shared instance was dropped): one constructor call, the next serial *)
  Theorem override_service_then_get st :
    failing o = false ->
    snd (run_ops st [OOverrideService n o args; OGet n]) = [ROk VNil; ROk (VObj o (map value_of_prim args) [] [] (rt_serial st + 1))] /\
    rt_trace (fst (run_ops st [OOverrideService n o args; OGet n])) = rt_trace st ++ [s "ctor:" ++ o].
  Proof.
    intros Hf. rewrite !run_ops_snd_cons, !run_ops_fst_cons. cbn [run_ops fst snd].
    set (st1 := fst (step st (OOverrideService n o args))).
    assert (Hd : lookup n (rt_services st1) = Some (newdef o args)) by apply override_service_establishes.
    assert (Hs : lookup n (rt_shared st1) = None) by apply override_service_own.
    assert (Hsr : rt_serial st1 = rt_serial st) by reflexivity.
    assert (Htr : rt_trace st1 = rt_trace st) by reflexivity.
    cbn [step]. destruct (fuel_of_16 st1) as [f ->]. change (16 + f) with (S (S (S (13 + f)))).
    rewrite get_shape, Hd.
    assert (Hc : cached_of (resolve_scope rt_depsf st1 n) st1 [] n = None).
    { unfold cached_of. destruct (resolve_scope rt_depsf st1 n); try reflexivity. exact Hs. }
    rewrite Hc, (build_newdef_ok rt_depsf (13 + f) n o args st1 [] Hf), Hsr.
    unfold store. destruct (resolve_scope rt_depsf st1 n); cbn [fst snd]; (split; [reflexivity|]);
      cbn [with_shared constructed with_serial with_trace rt_trace]; rewrite Htr; reflexivity.
  Qed.

  (** a failing overriding constructor: an error, never an object *)
  Theorem override_service_then_get_failing st :
    failing o = true ->
    snd (run_ops st [OOverrideService n o args; OGet n]) = [ROk VNil; RErr (s "constructor failed on purpose")].
  Proof.
    intros Hf. rewrite !run_ops_snd_cons. cbn [run_ops fst snd].
    set (st1 := fst (step st (OOverrideService n o args))).
    assert (Hd : lookup n (rt_services st1) = Some (newdef o args)) by apply override_service_establishes.
    assert (Hs : lookup n (rt_shared st1) = None) by apply override_service_own.
    cbn [step]. destruct (fuel_of_16 st1) as [f ->]. change (16 + f) with (S (S (S (13 + f)))).
    rewrite get_shape, Hd.
    assert (Hc : cached_of (resolve_scope rt_depsf st1 n) st1 [] n = None).
    { unfold cached_of. destruct (resolve_scope rt_depsf st1 n); try reflexivity. exact Hs. }
    rewrite Hc, (build_newdef_failing rt_depsf (13 + f) n o args st1 [] Hf). reflexivity.
  Qed.
End SvcHistory.

(** * 6. Non-vacuity *)

(** the loader (Load.rtoks, over the generated environment, with the built-in [todo -> paramTodo] registered the way
    StepCompileMeta registers functions) produces exactly the definitions the theorems talk about *)
Definition ex_fns : list fnfact := register_fn the_env [] (s "todo", s "paramTodo").

Example load_todo_is_todo_def :
  DPattern (rtoks the_env ex_fns ist0 (s "%todo(""fill me"")%")) = todo_def (s """fill me""") (s "%todo(""fill me"")%") /\
  DPattern (rtoks the_env ex_fns ist0 (s "%todo()%")) = todo_def [] (s "%todo()%").
Proof. split; vm_compute; reflexivity. Qed.

Example load_ref_pattern :
  rtoks the_env ex_fns ist0 (s "pre %p% post") = [KLit (s "pre "); KRef (s "p"); KLit (s " post")] /\
  rtoks the_env ex_fns ist0 (s "%p%") = [KRef (s "p")].
Proof. split; vm_compute; reflexivity. Qed.

(** [p := %todo("fill me")%], [q := "pre %p% post"], [r := "%p%"], and a service [svc] *)
Definition ex_st : rt :=
  {| rt_params := [(s "p", DPattern (rtoks the_env ex_fns ist0 (s "%todo(""fill me"")%")));
                   (s "q", DPattern (rtoks the_env ex_fns ist0 (s "pre %p% post")));
                   (s "r", DPattern (rtoks the_env ex_fns ist0 (s "%p%")))];
     rt_pcache := [];
     rt_services := [(s "svc", {| sd_create := CCtor (s "pkg.NewOld") false [DPattern [KRef (s "q")]]; sd_fields := []; sd_calls := [];
                                  sd_tags := [(s "t", 0%Z)]; sd_scope := OScDefault |})];
     rt_shared := [];
     rt_decorators := [{| dd_tag := s "t"; dd_origin := s "pkg.Decorate"; dd_deps := [] |}];
     rt_bags := []; rt_serial := 0; rt_env := []; rt_trace := [] |}.

Definition ex_todo_err : result value := RErr (s "cannot execute %todo(""fill me"")%: provider returned error: fill me").

(** the hypotheses of section 3 hold of it *)
Example ex_todo_param : todo_param ex_st (s "p") (s """fill me""") (s "%todo(""fill me"")%").
Proof. split; vm_compute; reflexivity. Qed.

Example ex_ref_todo :
  ref_todo (s "p") (s """fill me""") (s "%todo(""fill me"")%") (s "q") [KLit (s "pre "); KRef (s "p"); KLit (s " post")] ex_st.
Proof. split; [exact ex_todo_param|split; vm_compute; reflexivity]. Qed.

(** the history of the task: error, override, then the values *)
Example ex_history :
  snd (run_ops ex_st [OGetParam (s "q"); OOverrideParam (s "p") (PInt (s "int") (s "8080")); OGetParam (s "q"); OGetParam (s "p")])
  = [ex_todo_err; ROk VNil; ROk (VStr (s "pre 8080 post")); ROk (VNum (s "int") (s "8080"))].
Proof. vm_compute. reflexivity. Qed.

(** the placeholder itself, before and after; nothing is cached by the failures *)
Example ex_history_todo :
  let '(st', rs) := run_ops ex_st [OGetParam (s "p"); OGetParam (s "r"); OGetParam (s "q"); OGetParam (s "p")] in
  rs = [ex_todo_err; ex_todo_err; ex_todo_err; ex_todo_err] /\ rt_pcache st' = [] /\
  rt_trace st' = [s "fn:paramTodo"; s "fn:paramTodo"; s "fn:paramTodo"; s "fn:paramTodo"].
Proof. vm_compute. repeat split. Qed.

(** the caveat: [r := "%p%"] cannot be evaluated before the override here (it fails), but a referrer of an ordinary parameter
    that was read before the override keeps its old value *)
Definition ex_st2 : rt :=
  {| rt_params := [(s "p", DLit (PStr (s "old"))); (s "r", DPattern [KRef (s "p")]); (s "q", DPattern [KLit (s "pre "); KRef (s "p"); KLit (s " post")])];
     rt_pcache := []; rt_services := []; rt_shared := []; rt_decorators := []; rt_bags := []; rt_serial := 0; rt_env := []; rt_trace := [] |}.

Example ex_stale :
  snd (run_ops ex_st2 [OGetParam (s "r"); OOverrideParam (s "p") (PBool true); OGetParam (s "r"); OGetParam (s "q"); OGetParam (s "p")])
  = [ROk (VStr (s "old")); ROk VNil; ROk (VStr (s "old")); ROk (VStr (s "pre true post")); ROk (VBool true)].
Proof. vm_compute. reflexivity. Qed.

(** the service: built by its own constructor and decorated; after the override built by the overriding constructor over the
    literals, undecorated; overrides do not touch the trace *)
Example ex_service :
  let '(st', rs) := run_ops ex_st [OOverrideParam (s "p") (PStr (s "x")); OGet (s "svc");
                                   OOverrideService (s "svc") (s "pkg.NewOther") [PInt (s "int") (s "1"); PStr (s "a")];
                                   ONewCtx 1; OGet (s "svc"); OGet (s "svc")] in
  rs = [ROk VNil;
        ROk (VObj (s "pkg.Decorate") [VStr (s "t"); VStr (s "svc"); VObj (s "pkg.NewOld") [VStr (s "pre x post")] [] [] 1] [] [] 2);
        ROk VNil; ROk VNil;
        ROk (VObj (s "pkg.NewOther") [VNum (s "int") (s "1"); VStr (s "a")] [] [] 3);
        ROk (VObj (s "pkg.NewOther") [VNum (s "int") (s "1"); VStr (s "a")] [] [] 3)] /\
  rt_trace st' = [s "ctor:pkg.NewOld"; s "dec:pkg.Decorate"; s "ctor:pkg.NewOther"].
Proof. vm_compute. repeat split. Qed.

Print Assumptions step_pinv.
Print Assumptions pin_step.
Print Assumptions overridden_step.
Print Assumptions overridden_get.
Print Assumptions overridden_history.
Print Assumptions override_sticky.
Print Assumptions override_sticky_app.
Print Assumptions first_read_sees_override.
Print Assumptions first_read_sees_override_multi.
Print Assumptions ref_sees_override_history.
Print Assumptions stale_cache_after_override.
Print Assumptions cached_history.
Print Assumptions get_param_repeatable.
Print Assumptions todo_get.
Print Assumptions todo_history.
Print Assumptions todo_never_ok.
Print Assumptions todo_never_cached.
Print Assumptions todo_get_nth.
Print Assumptions todo_then_override.
Print Assumptions ref_todo_history.
Print Assumptions ref_todo_never_ok.
Print Assumptions ref_todo_never_cached.
Print Assumptions admin_history_lazy.
Print Assumptions step_trace_extends.
Print Assumptions run_ops_trace.
Print Assumptions run_ops_serial_mono.
Print Assumptions svc_overridden_step.
Print Assumptions svc_overridden_history.
Print Assumptions service_override_sticky.
Print Assumptions override_service_then_get.
Print Assumptions override_service_then_get_failing.
Print Assumptions ex_history.
Print Assumptions ex_service.
