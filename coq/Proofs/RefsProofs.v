(** Dangling references are detected exactly.
    Part A: [validate_params_exist] / [validate_services_exist] are exact w.r.t. the dependency lists of the output.
    Part B: what is declared ([pnames], [snames]) after a successful [compile].
    Part C: the recorded dependency lists are exactly the references written in the source. *)
From GV Require Import Base.Str Base.Quote Base.Gerr Base.Sort Regex.Re Model.Env Model.Input Model.Imports
  Model.Token Model.Compile Model.Validate Model.OutVal Model.Runner Proofs.SortProofs Proofs.TokenProofs.
From Coq Require Import Lia.

(** * generic list facts *)

Definition numbered {A} (l : list A) : list (nat * A) := combine (seq 0 (length l)) l.

Lemma In_combine_seq {A} (l : list A) : forall k j d,
  In (j, d) (combine (seq k (length l)) l) <-> (k <= j)%nat /\ nth_error l (j - k) = Some d.
Proof.
  induction l as [|x l IH]; intros k j d; cbn [length seq combine In].
  - split; [tauto|]. intros [_ H]. destruct (j - k)%nat; discriminate.
  - rewrite IH. split.
    + intros [H|[H1 H2]].
      * injection H as <- <-. split; [lia|]. rewrite Nat.sub_diag. reflexivity.
      * split; [lia|]. replace (j - k)%nat with (S (j - S k)) by lia. exact H2.
    + intros [H1 H2]. destruct (j - k)%nat as [|m] eqn:Hm.
      * left. cbn in H2. injection H2 as ->. f_equal. lia.
      * right. split; [lia|]. replace (j - S k)%nat with m by lia. exact H2.
Qed.

Lemma In_numbered {A} (l : list A) j d : In (j, d) (numbered l) <-> nth_error l j = Some d.
Proof.
  unfold numbered. rewrite In_combine_seq, Nat.sub_0_r. split; [tauto|]. intros H. split; [lia|exact H].
Qed.

Lemma In_missing d l n : In n (missing d l) <-> In n l /\ ~ In n d.
Proof.
  unfold missing. rewrite filter_In. rewrite negb_true_iff. rewrite <- mem_In with (l := d).
  destruct (mem n d); intuition congruence.
Qed.

Lemma missing_nil d l : missing d l = [] <-> forall n, In n l -> In n d.
Proof.
  split.
  - intros H n Hn. destruct (mem n d) eqn:M; [apply mem_In; exact M|].
    assert (In n (missing d l)) as Hi.
    { apply In_missing. split; [exact Hn|]. rewrite <- mem_In. congruence. }
    rewrite H in Hi. destruct Hi.
  - intros H. destruct (missing d l) as [|n r] eqn:M; [reflexivity|].
    assert (In n (missing d l)) as Hi by (rewrite M; left; reflexivity).
    apply In_missing in Hi. destruct Hi as [H1 H2]. elim H2. apply H. exact H1.
Qed.

Lemma missing_declared d l n : In n d -> ~ In n (missing d l).
Proof. intros H Hi. apply In_missing in Hi. tauto. Qed.

Lemma flat_map_collect_leaf {A} (f : A -> str) l : flat_map collect (map (fun n => leaf (f n)) l) = map f l.
Proof. induction l as [|x l IH]; cbn [map flat_map]; [reflexivity|]. rewrite IH. reflexivity. Qed.

Lemma flat_map_flat_map {A B C} (f : B -> list C) (g : A -> list B) l :
  flat_map f (flat_map g l) = flat_map (fun x => flat_map f (g x)) l.
Proof. induction l as [|x l IH]; cbn [flat_map]; [reflexivity|]. rewrite flat_map_app, IH. reflexivity. Qed.

Lemma map_flat_map {A B C} (f : B -> C) (g : A -> list B) l :
  map f (flat_map g l) = flat_map (fun x => map f (g x)) l.
Proof. induction l as [|x l IH]; cbn [flat_map map]; [reflexivity|]. rewrite map_app, IH. reflexivity. Qed.

Lemma flat_map_nil_iff {A B} (f : A -> list B) l : flat_map f l = [] <-> forall x, In x l -> f x = [].
Proof.
  induction l as [|x l IH]; cbn [flat_map In]; [tauto|].
  split.
  - intros H. apply app_eq_nil in H. destruct H as [H1 H2]. intros y [<-|Hy]; [exact H1|]. apply IH; assumption.
  - intros H. rewrite (H x (or_introl eq_refl)). cbn [app]. apply IH. intros y Hy. apply H. right. exact Hy.
Qed.

Lemma all_none_leaves {A} (f : A -> str) (l : list A) :
  (forall e, In e (map (fun n => leaf (f n)) l) -> e = None) <-> l = [].
Proof.
  split.
  - destruct l as [|x l]; [reflexivity|]. intros H. specialize (H _ (or_introl eq_refl)). discriminate.
  - intros ->. intros e [].
Qed.

(** an error list made of leaves only is all-[None] iff it is empty *)
Definition leaves_only (l : list err) : Prop := forall e, In e l -> e <> None.

Lemma leaves_only_app a b : leaves_only a -> leaves_only b -> leaves_only (a ++ b).
Proof. intros Ha Hb e He. apply in_app_or in He. destruct He; auto. Qed.

Lemma leaves_only_map {A} (f : A -> str) l : leaves_only (map (fun n => leaf (f n)) l).
Proof. intros e He. apply in_map_iff in He. destruct He as [x [<- _]]. discriminate. Qed.

Lemma leaves_only_flat_map {A} (g : A -> list err) l : (forall x, leaves_only (g x)) -> leaves_only (flat_map g l).
Proof. intros H e He. apply in_flat_map in He. destruct He as [x [_ Hx]]. eapply H; eassumption. Qed.

Lemma gprefix_leaves_none p l : leaves_only l -> (gprefix p l = None <-> l = []).
Proof.
  intros H. rewrite gprefix_none. split.
  - destruct l as [|e l]; [reflexivity|]. intros Hn. elim (H e (or_introl eq_refl)). apply Hn. left. reflexivity.
  - intros ->. intros e [].
Qed.

(** * Part A: the validators *)

Inductive referrer :=
| RefParam (name : str)
| RefService (name : str)
| RefDecorator (j : nat) (tag : str).

(** the exact texts of [validate_params_exist] *)
Definition param_msg (r : referrer) (n : str) : str :=
  match r with
  | RefParam name => quote (s "%" ++ name ++ s "%") ++ s ": param " ++ quote n ++ s " does not exist"
  | RefService name => quote (s "@" ++ name) ++ s ": param " ++ quote n ++ s " does not exist"
  | RefDecorator j tag => s "decorator(#" ++ dec_of_N (N.of_nat j) ++ s ", " ++ quote tag
                            ++ s "): param " ++ quote n ++ s " does not exist"
  end.

(** the exact texts of [validate_services_exist] *)
Definition service_msg (r : referrer) (n : str) : str :=
  match r with
  | RefParam name => []   (* never produced *)
  | RefService name => quote name ++ s ": service " ++ quote n ++ s " does not exist"
  | RefDecorator j tag => s "decorator(#" ++ dec_of_N (N.of_nat j) ++ s ", " ++ quote tag
                            ++ s "): service " ++ quote n ++ s " does not exist"
  end.

(** structured diagnostics: (referrer, missing name), in report order *)
Definition param_diags (o : output) : list (referrer * str) :=
  flat_map (fun p => map (fun n => (RefParam (op_name p), n)) (missing (pnames o) (op_depends p))) (o_params o)
  ++ flat_map (fun sv => map (fun n => (RefService (os_name sv), n))
                             (missing (pnames o) (flat_map a_params (all_args sv)))) (o_services o)
  ++ flat_map (fun jd => map (fun n => (RefDecorator (fst jd) (od_tag (snd jd)), n))
                             (missing (pnames o) (flat_map a_params (od_args (snd jd))))) (numbered (o_decorators o)).

Definition service_diags (o : output) : list (referrer * str) :=
  flat_map (fun sv => map (fun n => (RefService (os_name sv), n))
                          (missing (snames o) (flat_map a_services (all_args sv)))) (o_services o)
  ++ flat_map (fun jd => map (fun n => (RefDecorator (fst jd) (od_tag (snd jd)), n))
                             (missing (snames o) (flat_map a_services (od_args (snd jd))))) (numbered (o_decorators o)).

Definition params_prefix : str := s "output.ValidateParamsExist: ".
Definition services_prefix : str := s "output.ValidateServicesExist: ".

(** the report of the validator is the rendering of the structured diagnostics, in order *)
Theorem collect_params_exist o :
  collect (validate_params_exist o) = map (fun rn => params_prefix ++ param_msg (fst rn) (snd rn)) (param_diags o).
Proof.
  unfold validate_params_exist, param_diags. rewrite collect_gprefix. fold params_prefix.
  rewrite <- flat_map_concat_map. fold (numbered (o_decorators o)).
  rewrite <- (map_map (fun rn => param_msg (fst rn) (snd rn)) (fun m => params_prefix ++ m)).
  f_equal.
  rewrite !flat_map_app, !map_app, !flat_map_flat_map, !map_flat_map.
  f_equal; [|f_equal]; apply flat_map_ext; intros x; rewrite flat_map_collect_leaf, map_map; reflexivity.
Qed.

Theorem collect_services_exist o :
  collect (validate_services_exist o) = map (fun rn => services_prefix ++ service_msg (fst rn) (snd rn)) (service_diags o).
Proof.
  unfold validate_services_exist, service_diags. rewrite collect_gprefix. fold services_prefix.
  rewrite <- flat_map_concat_map. fold (numbered (o_decorators o)).
  rewrite <- (map_map (fun rn => service_msg (fst rn) (snd rn)) (fun m => services_prefix ++ m)).
  f_equal.
  rewrite !flat_map_app, !map_app, !flat_map_flat_map, !map_flat_map.
  f_equal; apply flat_map_ext; intros x; rewrite flat_map_collect_leaf, map_map; reflexivity.
Qed.

(** membership in the structured diagnostics *)
Theorem In_param_diags o r n :
  In (r, n) (param_diags o) <->
    (exists p, In p (o_params o) /\ In n (op_depends p) /\ ~ In n (pnames o) /\ r = RefParam (op_name p))
    \/ (exists sv a, In sv (o_services o) /\ In a (all_args sv) /\ In n (a_params a) /\ ~ In n (pnames o)
                     /\ r = RefService (os_name sv))
    \/ (exists j d a, nth_error (o_decorators o) j = Some d /\ In a (od_args d) /\ In n (a_params a)
                      /\ ~ In n (pnames o) /\ r = RefDecorator j (od_tag d)).
Proof.
  unfold param_diags. rewrite !in_app_iff, !in_flat_map.
  split.
  - intros [[p [Hp H]]|[[sv [Hsv H]]|[[j d] [Hd H]]]]; apply in_map_iff in H; destruct H as [n' [E' H]];
      injection E' as <- ->; apply In_missing in H; destruct H as [H1 H2].
    + left. exists p. auto.
    + right. left. apply in_flat_map in H1. destruct H1 as [a [Ha Hn]]. exists sv, a. auto.
    + right. right. apply in_flat_map in H1. destruct H1 as [a [Ha Hn]]. apply In_numbered in Hd.
      exists j, d, a. cbn [fst snd]. auto.
  - intros [[p [Hp [H1 [H2 ->]]]]|[[sv [a [Hsv [Ha [H1 [H2 ->]]]]]]|[j [d [a [Hd [Ha [H1 [H2 ->]]]]]]]]].
    + left. exists p. split; [exact Hp|]. apply in_map_iff. exists n. split; [reflexivity|].
      apply In_missing. auto.
    + right. left. exists sv. split; [exact Hsv|]. apply in_map_iff. exists n. split; [reflexivity|].
      apply In_missing. split; [|exact H2]. apply in_flat_map. exists a. auto.
    + right. right. exists (j, d). split; [apply In_numbered; exact Hd|]. apply in_map_iff. exists n.
      split; [reflexivity|]. apply In_missing. split; [|exact H2]. apply in_flat_map. exists a. auto.
Qed.

Theorem In_service_diags o r n :
  In (r, n) (service_diags o) <->
    (exists sv a, In sv (o_services o) /\ In a (all_args sv) /\ In n (a_services a) /\ ~ In n (snames o)
                     /\ r = RefService (os_name sv))
    \/ (exists j d a, nth_error (o_decorators o) j = Some d /\ In a (od_args d) /\ In n (a_services a)
                      /\ ~ In n (snames o) /\ r = RefDecorator j (od_tag d)).
Proof.
  unfold service_diags. rewrite !in_app_iff, !in_flat_map.
  split.
  - intros [[sv [Hsv H]]|[[j d] [Hd H]]]; apply in_map_iff in H; destruct H as [n' [E' H]];
      injection E' as <- ->; apply In_missing in H; destruct H as [H1 H2].
    + left. apply in_flat_map in H1. destruct H1 as [a [Ha Hn]]. exists sv, a. auto.
    + right. apply in_flat_map in H1. destruct H1 as [a [Ha Hn]]. apply In_numbered in Hd.
      exists j, d, a. cbn [fst snd]. auto.
  - intros [[sv [a [Hsv [Ha [H1 [H2 ->]]]]]]|[j [d [a [Hd [Ha [H1 [H2 ->]]]]]]]].
    + left. exists sv. split; [exact Hsv|]. apply in_map_iff. exists n. split; [reflexivity|].
      apply In_missing. split; [|exact H2]. apply in_flat_map. exists a. auto.
    + right. exists (j, d). split; [apply In_numbered; exact Hd|]. apply in_map_iff. exists n.
      split; [reflexivity|]. apply In_missing. split; [|exact H2]. apply in_flat_map. exists a. auto.
Qed.

(** A4 (structured form): nothing declared is ever reported *)
Theorem param_diags_undeclared o r n : In (r, n) (param_diags o) -> ~ In n (pnames o).
Proof. intros H. apply In_param_diags in H. destruct H as [[? H]|[[? [? H]]|[? [? [? H]]]]]; tauto. Qed.

Theorem service_diags_undeclared o r n : In (r, n) (service_diags o) -> ~ In n (snames o).
Proof. intros H. apply In_service_diags in H. destruct H as [[? [? H]]|[? [? [? H]]]]; tauto. Qed.

(** A2: every diagnostic names the referrer and the missing name, and every dangling reference has its diagnostic *)
Theorem params_exist_diag_iff o m :
  In m (collect (validate_params_exist o)) <->
    (exists p n, In p (o_params o) /\ In n (op_depends p) /\ ~ In n (pnames o) /\
       m = s "output.ValidateParamsExist: " ++ quote (s "%" ++ op_name p ++ s "%") ++ s ": param " ++ quote n ++ s " does not exist")
    \/ (exists sv a n, In sv (o_services o) /\ In a (all_args sv) /\ In n (a_params a) /\ ~ In n (pnames o) /\
       m = s "output.ValidateParamsExist: " ++ quote (s "@" ++ os_name sv) ++ s ": param " ++ quote n ++ s " does not exist")
    \/ (exists j d a n, nth_error (o_decorators o) j = Some d /\ In a (od_args d) /\ In n (a_params a) /\ ~ In n (pnames o) /\
       m = s "output.ValidateParamsExist: " ++ s "decorator(#" ++ dec_of_N (N.of_nat j) ++ s ", " ++ quote (od_tag d)
             ++ s "): param " ++ quote n ++ s " does not exist").
Proof.
  rewrite collect_params_exist, in_map_iff. fold params_prefix. split.
  - intros [[r n] [<- H]]. cbn [fst snd]. apply In_param_diags in H.
    destruct H as [[p [H1 [H2 [H3 ->]]]]|[[sv [a [H1 [H2 [H3 [H4 ->]]]]]]|[j [d [a [H1 [H2 [H3 [H4 ->]]]]]]]]].
    + left. exists p, n. auto.
    + right. left. exists sv, a, n. auto.
    + right. right. exists j, d, a, n. auto.
  - intros [[p [n [H1 [H2 [H3 ->]]]]]|[[sv [a [n [H1 [H2 [H3 [H4 ->]]]]]]]|[j [d [a [n [H1 [H2 [H3 [H4 ->]]]]]]]]]].
    + exists (RefParam (op_name p), n). split; [reflexivity|]. apply In_param_diags. left. exists p. auto.
    + exists (RefService (os_name sv), n). split; [reflexivity|]. apply In_param_diags. right. left. exists sv, a. auto.
    + exists (RefDecorator j (od_tag d), n). split; [reflexivity|]. apply In_param_diags. right. right.
      exists j, d, a. auto.
Qed.

Theorem services_exist_diag_iff o m :
  In m (collect (validate_services_exist o)) <->
    (exists sv a n, In sv (o_services o) /\ In a (all_args sv) /\ In n (a_services a) /\ ~ In n (snames o) /\
       m = s "output.ValidateServicesExist: " ++ quote (os_name sv) ++ s ": service " ++ quote n ++ s " does not exist")
    \/ (exists j d a n, nth_error (o_decorators o) j = Some d /\ In a (od_args d) /\ In n (a_services a) /\ ~ In n (snames o) /\
       m = s "output.ValidateServicesExist: " ++ s "decorator(#" ++ dec_of_N (N.of_nat j) ++ s ", " ++ quote (od_tag d)
             ++ s "): service " ++ quote n ++ s " does not exist").
Proof.
  rewrite collect_services_exist, in_map_iff. fold services_prefix. split.
  - intros [[r n] [<- H]]. cbn [fst snd]. apply In_service_diags in H.
    destruct H as [[sv [a [H1 [H2 [H3 [H4 ->]]]]]]|[j [d [a [H1 [H2 [H3 [H4 ->]]]]]]]].
    + left. exists sv, a, n. auto.
    + right. exists j, d, a, n. auto.
  - intros [[sv [a [n [H1 [H2 [H3 [H4 ->]]]]]]]|[j [d [a [n [H1 [H2 [H3 [H4 ->]]]]]]]]].
    + exists (RefService (os_name sv), n). split; [reflexivity|]. apply In_service_diags. left. exists sv, a. auto.
    + exists (RefDecorator j (od_tag d), n). split; [reflexivity|]. apply In_service_diags. right.
      exists j, d, a. auto.
Qed.

(** the validator is silent iff there is no structured diagnostic *)
Lemma params_exist_none_diags o : validate_params_exist o = None <-> param_diags o = [].
Proof.
  split.
  - intros H. pose proof (collect_params_exist o) as C. rewrite H in C. cbn [collect] in C.
    symmetry in C. apply map_eq_nil in C. exact C.
  - intros H. unfold validate_params_exist. apply gprefix_leaves_none.
    + rewrite <- flat_map_concat_map.
      repeat apply leaves_only_app; apply leaves_only_flat_map; intros x; apply leaves_only_map.
    + unfold param_diags in H. apply app_eq_nil in H. destruct H as [H1 H]. apply app_eq_nil in H. destruct H as [H2 H3].
      rewrite <- flat_map_concat_map. fold (numbered (o_decorators o)).
      pose proof (proj1 (flat_map_nil_iff _ _) H1) as H1'. pose proof (proj1 (flat_map_nil_iff _ _) H2) as H2'.
      pose proof (proj1 (flat_map_nil_iff _ _) H3) as H3'. clear H1 H2 H3.
      assert (forall A B (f : A -> B) l, map f l = [] -> l = []) as MN by (intros; eapply map_eq_nil; eassumption).
      assert (forall A (a b : list A), a = [] -> b = [] -> a ++ b = []) as AN by (intros ? ? ? -> ->; reflexivity).
      repeat apply AN; apply flat_map_nil_iff; intros x Hx.
      * rewrite (MN _ _ _ _ (H1' x Hx)). reflexivity.
      * rewrite (MN _ _ _ _ (H2' x Hx)). reflexivity.
      * rewrite (MN _ _ _ _ (H3' x Hx)). reflexivity.
Qed.

Lemma services_exist_none_diags o : validate_services_exist o = None <-> service_diags o = [].
Proof.
  split.
  - intros H. pose proof (collect_services_exist o) as C. rewrite H in C. cbn [collect] in C.
    symmetry in C. apply map_eq_nil in C. exact C.
  - intros H. unfold validate_services_exist. apply gprefix_leaves_none.
    + rewrite <- flat_map_concat_map.
      repeat apply leaves_only_app; apply leaves_only_flat_map; intros x; apply leaves_only_map.
    + unfold service_diags in H. apply app_eq_nil in H. destruct H as [H2 H3].
      rewrite <- flat_map_concat_map. fold (numbered (o_decorators o)).
      pose proof (proj1 (flat_map_nil_iff _ _) H2) as H2'.
      pose proof (proj1 (flat_map_nil_iff _ _) H3) as H3'. clear H2 H3.
      assert (forall A B (f : A -> B) l, map f l = [] -> l = []) as MN by (intros; eapply map_eq_nil; eassumption).
      assert (forall A (a b : list A), a = [] -> b = [] -> a ++ b = []) as AN by (intros ? ? ? -> ->; reflexivity).
      repeat apply AN; apply flat_map_nil_iff; intros x Hx.
      * rewrite (MN _ _ _ _ (H2' x Hx)). reflexivity.
      * rewrite (MN _ _ _ _ (H3' x Hx)). reflexivity.
Qed.

Lemma nil_iff_no_In {A} (l : list A) : l = [] <-> forall x, ~ In x l.
Proof.
  split; [intros -> x []|]. destruct l as [|x l]; [reflexivity|]. intros H. elim (H x). left. reflexivity.
Qed.

(** A1 *)
Theorem params_exist_ok_iff o :
  validate_params_exist o = None <->
    (forall p n, In p (o_params o) -> In n (op_depends p) -> In n (pnames o)) /\
    (forall sv a n, In sv (o_services o) -> In a (all_args sv) -> In n (a_params a) -> In n (pnames o)) /\
    (forall d a n, In d (o_decorators o) -> In a (od_args d) -> In n (a_params a) -> In n (pnames o)).
Proof.
  rewrite params_exist_none_diags, nil_iff_no_In. split.
  - intros H.
    repeat split.
    + intros p n Hp Hn. destruct (mem n (pnames o)) eqn:M; [apply mem_In; exact M|].
      elim (H (RefParam (op_name p), n)). apply In_param_diags. left. exists p.
      repeat split; auto. rewrite <- mem_In. congruence.
    + intros sv a n Hsv Ha Hn. destruct (mem n (pnames o)) eqn:M; [apply mem_In; exact M|].
      elim (H (RefService (os_name sv), n)). apply In_param_diags. right. left. exists sv, a.
      repeat split; auto. rewrite <- mem_In. congruence.
    + intros d a n Hd Ha Hn. destruct (mem n (pnames o)) eqn:M; [apply mem_In; exact M|].
      apply In_nth_error in Hd. destruct Hd as [j Hj].
      elim (H (RefDecorator j (od_tag d), n)). apply In_param_diags. right. right. exists j, d, a.
      repeat split; auto. rewrite <- mem_In. congruence.
  - intros [H1 [H2 H3]] [r n] Hi. apply In_param_diags in Hi.
    destruct Hi as [[p [Hp [Hn [Hm _]]]]|[[sv [a [Hsv [Ha [Hn [Hm _]]]]]]|[j [d [a [Hd [Ha [Hn [Hm _]]]]]]]]]; apply Hm.
    + eapply H1; eassumption.
    + eapply H2; eassumption.
    + apply nth_error_In in Hd. eapply H3; eassumption.
Qed.

(** A3 *)
Theorem services_exist_ok_iff o :
  validate_services_exist o = None <->
    (forall sv a n, In sv (o_services o) -> In a (all_args sv) -> In n (a_services a) -> In n (snames o)) /\
    (forall d a n, In d (o_decorators o) -> In a (od_args d) -> In n (a_services a) -> In n (snames o)).
Proof.
  rewrite services_exist_none_diags, nil_iff_no_In. split.
  - intros H. split.
    + intros sv a n Hsv Ha Hn. destruct (mem n (snames o)) eqn:M; [apply mem_In; exact M|].
      elim (H (RefService (os_name sv), n)). apply In_service_diags. left. exists sv, a.
      repeat split; auto. rewrite <- mem_In. congruence.
    + intros d a n Hd Ha Hn. destruct (mem n (snames o)) eqn:M; [apply mem_In; exact M|].
      apply In_nth_error in Hd. destruct Hd as [j Hj].
      elim (H (RefDecorator j (od_tag d), n)). apply In_service_diags. right. exists j, d, a.
      repeat split; auto. rewrite <- mem_In. congruence.
  - intros [H2 H3] [r n] Hi. apply In_service_diags in Hi.
    destruct Hi as [[sv [a [Hsv [Ha [Hn [Hm _]]]]]]|[j [d [a [Hd [Ha [Hn [Hm _]]]]]]]]; apply Hm.
    + eapply H2; eassumption.
    + apply nth_error_In in Hd. eapply H3; eassumption.
Qed.

Print Assumptions params_exist_ok_iff.
Print Assumptions services_exist_ok_iff.
Print Assumptions params_exist_diag_iff.
Print Assumptions services_exist_diag_iff.
Print Assumptions collect_params_exist.
Print Assumptions param_diags_undeclared.

(** * Parts B and C: the compiler *)

Ltac destruct_pairs :=
  repeat match goal with
         | |- context [match ?x with (_, _) => _ end] => destruct x
         end.

Lemma gprefix_single_none p e : gprefix p [e] = None -> e = None.
Proof. intros H. apply (proj1 (gprefix_none p [e]) H). left. reflexivity. Qed.

Lemma all_none_cons (e : err) es : (forall x, In x (e :: es) -> x = None) -> e = None /\ (forall x, In x es -> x = None).
Proof. intros H. split; [apply H; left; reflexivity|]. intros x Hx. apply H. right. exact Hx. Qed.

Lemma Forall2_flat_map {A B C D} (R : C -> D -> Prop) (P : A -> B -> Prop) (f : A -> list C) (g : B -> list D) l l' :
  (forall a b, P a b -> Forall2 R (f a) (g b)) -> Forall2 P l l' -> Forall2 R (flat_map f l) (flat_map g l').
Proof.
  intros H F. induction F as [|a b l l' Hab F IH]; cbn [flat_map]; [constructor|].
  apply Forall2_app; [apply H; exact Hab|exact IH].
Qed.

Lemma Forall2_map_both {A B C D} (R : C -> D -> Prop) (f : A -> C) (g : B -> D) l l' :
  Forall2 (fun a b => R (f a) (g b)) l l' -> Forall2 R (map f l) (map g l').
Proof. intros F. induction F; cbn [map]; constructor; assumption. Qed.

Lemma Forall2_map_eq {A B C} (f : A -> C) (g : B -> C) l l' :
  Forall2 (fun a b => g b = f a) l l' -> map g l' = map f l.
Proof. intros F. induction F as [|a b l l' H F IH]; cbn [map]; [reflexivity|]. rewrite H, IH. reflexivity. Qed.

Lemma Forall2_impl {A B} (P Q : A -> B -> Prop) l l' : (forall a b, P a b -> Q a b) -> Forall2 P l l' -> Forall2 Q l l'.
Proof. intros H F. induction F; constructor; auto. Qed.

Section WithEnv.
Variable E : env.

(** ** the function table never changes after StepCompileMeta *)

Lemma rk_resolve_fns k p c : cs_fns (snd (rk_resolve E k p c)) = cs_fns c.
Proof.
  destruct k, p; cbn [rk_resolve snd]; try reflexivity.
  - destruct (site_submatch (re_rs_value E) x); [|reflexivity]. destruct_pairs. reflexivity.
  - destruct (site_submatch (re_rs_service E) x); reflexivity.
  - destruct (site_submatch (re_rs_tagged E) x); reflexivity.
  - destruct (tokenize E (cs_fns c) x (cs_imports c)) as [[ts e] is1].
    destruct e; [reflexivity|]. destruct (go_code E ts); reflexivity.
Qed.

Lemma resolve_chain_fns ch p c : cs_fns (snd (resolve_chain E ch p c)) = cs_fns c.
Proof.
  induction ch as [|k ch IH]; cbn [resolve_chain]; [reflexivity|].
  destruct (rk_supports E k p); [apply rk_resolve_fns|exact IH].
Qed.

Lemma resolve_arg_fns p c : cs_fns (snd (resolve_arg E p c)) = cs_fns c.
Proof. apply resolve_chain_fns. Qed.

Lemma resolve_param_fns p c : cs_fns (snd (resolve_param E p c)) = cs_fns c.
Proof.
  unfold resolve_param. pose proof (resolve_chain_fns (w_param_chain E) p c) as H.
  destruct (resolve_chain E (w_param_chain E) p c) as [[a e] c1]. cbn [snd] in H.
  destruct (_ ++ _); exact H.
Qed.

(** ** Part B: names and lengths *)

Lemma compile_params_names l : forall c, map op_name (fst (fst (compile_params E l c))) = keys l.
Proof.
  induction l as [|[k v] l IH]; intros c; cbn [compile_params]; [reflexivity|].
  destruct (resolve_param E v c) as [[pe e] c1]. specialize (IH c1).
  destruct (compile_params E l c1) as [[ps es] c2]. cbn [fst] in IH.
  destruct e; cbn [fst map op_name keys]; unfold keys in IH; rewrite IH; reflexivity.
Qed.

Lemma process_service_name k v m c : os_name (fst (fst (process_service E k v m c))) = k.
Proof.
  unfold process_service. destruct (opt_or (sv_todo v) false); [reflexivity|].
  destruct_pairs. reflexivity.
Qed.

Lemma compile_services_names l m : forall c, map os_name (fst (fst (compile_services E l m c))) = keys l.
Proof.
  induction l as [|[k v] l IH]; intros c; cbn [compile_services]; [reflexivity|].
  pose proof (process_service_name k v m c) as N.
  destruct (process_service E k v m c) as [[sv e] c1]. specialize (IH c1).
  destruct (compile_services E l m c1) as [[svs es] c2]. cbn [fst] in IH, N.
  cbn [fst map keys]. unfold keys in IH. rewrite IH. cbn [set_scope os_name]. rewrite N. reflexivity.
Qed.

Lemma compile_decorators_length l : forall j c, length (fst (fst (compile_decorators E j l c))) = length l.
Proof.
  induction l as [|d l IH]; intros j c; cbn [compile_decorators]; [reflexivity|].
  destruct (qualify _ _ _) as [method i1].
  destruct (resolve_args E (d_args d) (with_imports c i1)) as [[args e] c1]. specialize (IH (S j) c1).
  destruct (compile_decorators E (S j) l c1) as [[ds es] c2]. cbn [fst length] in *. rewrite IH. reflexivity.
Qed.

Definition meta_fns (i : input) : list fnfact :=
  fold_left (register_fn E) (sorted_entries (m_functions (i_meta i))) [].

(** a successful run of the standard compiler, unrolled *)
Lemma compile_std_inv B i o c :
  w_compiler_steps E = [CValidate; CMeta; CParams; CServices; CDecorators] ->
  compile E B i = ((o, None), c) ->
  exists c1 ps es2 c2 svs es3 c3 ds es4,
    cs_fns c1 = meta_fns i /\
    compile_params E (sorted_entries (i_params i)) c1 = ((ps, es2), c2) /\
    compile_services E (sorted_entries (i_services i)) (i_meta i) c2 = ((svs, es3), c3) /\
    compile_decorators E 0 (i_decorators i) c3 = ((ds, es4), c) /\
    (forall e, In e es2 -> e = None) /\ (forall e, In e es3 -> e = None) /\ (forall e, In e es4 -> e = None) /\
    o_params o = ps /\ o_services o = svs /\ o_decorators o = ds.
Proof.
  intros Hs. unfold compile. rewrite Hs. cbn [compile_steps cstep].
  destruct (step_validate E B i); [discriminate|].
  unfold step_meta. destruct (register_imports _ _) as [es1 is1].
  match goal with |- context [gprefix ?p ?l] => destruct (gprefix p l) end; [discriminate|].
  unfold step_params.
  match goal with |- context [compile_params E ?l ?c] => set (c1 := c) end.
  destruct (compile_params E (sorted_entries (i_params i)) c1) as [[ps es2] c2] eqn:P.
  destruct (gprefix (s "compiler.StepCompileParams: ") es2) eqn:G2; [discriminate|].
  unfold step_services.
  destruct (compile_services E (sorted_entries (i_services i)) (i_meta i) c2) as [[svs es3] c3] eqn:S.
  destruct (gprefix (s "compiler.StepCompileServices: ") es3) eqn:G3; [discriminate|].
  unfold step_decorators.
  destruct (compile_decorators E 0 (i_decorators i) c3) as [[ds es4] c4] eqn:D.
  destruct (gprefix (s "compiler.StepCompileDecorators: ") es4) eqn:G4; [discriminate|].
  intros H. injection H as <- <-.
  exists c1, ps, es2, c2, svs, es3, c3, ds, es4. cbn [o_params o_services o_decorators empty_output app].
  repeat split; try assumption; try reflexivity; eapply gprefix_none; eassumption.
Qed.

Theorem compile_declared B i o c :
  w_compiler_steps E = [CValidate; CMeta; CParams; CServices; CDecorators] ->
  compile E B i = ((o, None), c) ->
  pnames o = sorted_keys (i_params i) /\ snames o = sorted_keys (i_services i) /\
  length (o_decorators o) = length (i_decorators i).
Proof.
  intros Hs H. destruct (compile_std_inv B i o c Hs H) as (c1 & ps & es2 & c2 & svs & es3 & c3 & ds & es4 & _ & P & S & D & _ & _ & _ & Op & Os & Od).
  unfold pnames, snames. rewrite Op, Os, Od. repeat split.
  - pose proof (compile_params_names (sorted_entries (i_params i)) c1) as N. rewrite P in N. cbn [fst] in N.
    rewrite N. apply keys_sorted_entries.
  - pose proof (compile_services_names (sorted_entries (i_services i)) (i_meta i) c2) as N. rewrite S in N. cbn [fst] in N.
    rewrite N. apply keys_sorted_entries.
  - pose proof (compile_decorators_length (i_decorators i) 0%nat c3) as N. rewrite D in N. exact N.
Qed.

(** ** Part C1: what one argument depends on *)

(** the parameters a chunk refers to: a [%name%] chunk that no registered function claims, that the reference
    factory supports and that is not the escape [%%] *)
Definition chunk_refs (fns : list fnfact) (ch : str) : list str :=
  if negb (existsb (fun f => ff_supports E f ch) fns) && fk_supports E FReference ch && negb (fk_supports E FPercent ch)
  then match to_expr E ch with Some e => [e] | None => [] end
  else [].

(** the parameters a pattern refers to: the references of its chunks, in order *)
Definition refs_of (fns : list fnfact) (x : str) : list str :=
  match chunks E x with
  | inl cs => flat_map (chunk_refs fns) cs
  | inr _ => []
  end.

Lemma ff_create_depends f x st : tk_depends (fst (ff_create E f x st)) = [].
Proof. unfold ff_create. destruct_pairs. reflexivity. Qed.

Lemma create_fn_spec fns x st :
  match create_fn E fns x st with
  | Some (t, _) => existsb (fun f => ff_supports E f x) fns = true /\ tk_depends t = []
  | None => existsb (fun f => ff_supports E f x) fns = false
  end.
Proof.
  induction fns as [|f fns IH]; cbn [create_fn existsb]; [reflexivity|].
  destruct (ff_supports E f x); cbn [orb]; [|exact IH].
  pose proof (ff_create_depends f x st) as D. destruct (ff_create E f x st) as [t st']. split; [reflexivity|exact D].
Qed.

Section Factories.
Hypothesis Hfact : w_factories E = [FPercent; FReference; FUnexpectedFunction; FUnexpectedToken; FString].

Lemma create_depends fns ch st : tk_depends (fst (fst (create E fns ch st))) = chunk_refs fns ch.
Proof.
  unfold create, chunk_refs. pose proof (create_fn_spec fns ch st) as F.
  destruct (create_fn E fns ch st) as [[t st']|].
  - destruct F as [-> D]. cbn [negb andb fst]. exact D.
  - rewrite F, Hfact. cbn [negb andb create_static].
    destruct (fk_supports E FPercent ch); [rewrite andb_false_r; reflexivity|].
    destruct (fk_supports E FReference ch) eqn:R; cbn [negb andb].
    + cbn [fk_create fst tk_depends]. unfold fk_supports in R. destruct (to_expr E ch); [reflexivity|discriminate].
    + destruct (fk_supports E FUnexpectedFunction ch); [reflexivity|].
      destruct (fk_supports E FUnexpectedToken ch); [reflexivity|].
      destruct (fk_supports E FString ch); reflexivity.
Qed.

Lemma create_all_depends fns cs : forall st,
  flat_map tk_depends (fst (fst (create_all E fns cs st))) = flat_map (chunk_refs fns) cs.
Proof.
  induction cs as [|ch cs IH]; intros st; cbn [create_all]; [reflexivity|].
  pose proof (create_depends fns ch st) as D. destruct (create E fns ch st) as [[t e] st1].
  specialize (IH st1). destruct (create_all E fns cs st1) as [[ts es] st2].
  cbn [fst flat_map] in *. rewrite D, IH. reflexivity.
Qed.

Lemma tokenize_depends fns x st : flat_map tk_depends (fst (fst (tokenize E fns x st))) = refs_of fns x.
Proof.
  unfold tokenize, refs_of. destruct (chunks E x) as [cs|b]; [|reflexivity].
  pose proof (create_all_depends fns cs st) as D. destruct (create_all E fns cs st) as [[ts es] st'].
  exact D.
Qed.

End Factories.

(** in words (delimiter [%]): a chunk refers to [n] iff it is [%n%] with [n] non-empty (so [%%] is no reference),
    [n] matches the reference syntax, and no registered function claims the chunk *)
Lemma chunk_refs_spec fns ch n :
  k_delim E = "%"%char ->
  (In n (chunk_refs fns ch) <->
   ch = "%"%char :: n ++ ["%"%char] /\ n <> [] /\ site_match (re_tk_TokenRef E) n = true /\
   existsb (fun f => ff_supports E f ch) fns = false).
Proof.
  intros Hd. unfold chunk_refs, fk_supports. rewrite Hd.
  destruct (existsb _ fns); cbn [negb andb].
  { split; [intros []|intros (_ & _ & _ & H); discriminate]. }
  destruct (to_expr E ch) as [e|] eqn:T.
  - apply (to_expr_spec E Hd) in T. unfold pct in T.
    assert (forall n', ch = "%"%char :: n' ++ ["%"%char] -> n' = e) as Inj.
    { intros n' Hn. rewrite Hn in T. injection T as T. apply app_inj_tail in T. tauto. }
    destruct (site_match (re_tk_TokenRef E) e) eqn:M; cbn [andb].
    + destruct (str_eqb_spec ch ["%"%char; "%"%char]) as [Heq|Hne]; cbn [negb].
      * split; [intros []|]. intros (Hc & Hn & _). apply Inj in Hc. subst n.
        rewrite T in Heq. injection Heq as Heq. destruct e; [tauto|]. destruct e; discriminate.
      * split.
        -- intros [<-|[]]. repeat split; auto. intros ->. apply Hne. exact T.
        -- intros (Hc & _). apply Inj in Hc. left. auto.
    + split; [intros []|]. intros (Hc & _ & Hm & _). apply Inj in Hc. subst n. congruence.
  - cbn [andb]. split; [intros []|]. intros (Hc & _). 
    assert (to_expr E ch = Some n) as T' by (apply (to_expr_spec E Hd); exact Hc). congruence.
Qed.

Lemma chunk_refs_escape fns : k_delim E = "%"%char -> chunk_refs fns (s "%%") = [].
Proof.
  intros Hd. unfold chunk_refs. replace (fk_supports E FPercent (s "%%")) with true.
  - rewrite andb_false_r. reflexivity.
  - unfold fk_supports. rewrite Hd. reflexivity.
Qed.

(** the source-level reading of one argument under the standard chain
    [RNonString; RValue; RService; RTagged; RFixed id v; RPattern] *)
Definition src_services (p : prim) : list str :=
  match p with
  | PStr x =>
    if site_match (re_rs_valuePrefix E) x then []
    else if site_match (re_rs_servicePrefix E) x then
      match site_submatch (re_rs_service E) x with
      | Some m => [sub (re_rs_service E) m (s "service")]
      | None => []
      end
    else []
  | _ => []
  end.

Definition src_tags (p : prim) : list str :=
  match p with
  | PStr x =>
    if site_match (re_rs_valuePrefix E) x then []
    else if site_match (re_rs_servicePrefix E) x then []
    else if site_match (re_rs_taggedPrefix E) x then
      match site_submatch (re_rs_tagged E) x with
      | Some m => [sub (re_rs_tagged E) m (s "tag")]
      | None => []
      end
    else []
  | _ => []
  end.

(** does the string fall through to the pattern resolver? *)
Definition is_pattern (id : str) (x : str) : bool :=
  negb (site_match (re_rs_valuePrefix E) x) && negb (site_match (re_rs_servicePrefix E) x)
  && negb (site_match (re_rs_taggedPrefix E) x) && negb (str_eqb id x).

Definition src_params (id : str) (fns : list fnfact) (p : prim) : list str :=
  match p with
  | PStr x => if is_pattern id x then refs_of fns x else []
  | _ => []
  end.

Definition arg_refs (id : str) (fns : list fnfact) (p : prim) (a : arg) : Prop :=
  a_params a = src_params id fns p /\ a_services a = src_services p /\ a_tags a = src_tags p.

Section Chain.
Variables (id v : str).
Hypothesis Hchain : w_arg_chain E = [RNonString; RValue; RService; RTagged; RFixed id v; RPattern].
Hypothesis Hfact : w_factories E = [FPercent; FReference; FUnexpectedFunction; FUnexpectedToken; FString].

(** C1 *)
Theorem resolve_arg_refs p c a c' :
  resolve_arg E p c = ((a, None), c') ->
  a_services a = src_services p /\ a_tags a = src_tags p /\ a_params a = src_params id (cs_fns c) p.
Proof.
  unfold resolve_arg. rewrite Hchain. cbn [resolve_chain].
  destruct p as [|b|k t|k t|x|t]; cbn [rk_supports is_primitive rk_resolve src_services src_tags src_params];
    try (intros H; injection H as <- _; repeat split; reflexivity); try discriminate.
  unfold is_pattern.
  destruct (site_match (re_rs_valuePrefix E) x); cbn [negb andb].
  { destruct (site_submatch (re_rs_value E) x); [|discriminate]. destruct_pairs.
    intros H; injection H as <- _; repeat split; reflexivity. }
  destruct (site_match (re_rs_servicePrefix E) x); cbn [negb andb].
  { destruct (site_submatch (re_rs_service E) x); [|discriminate].
    intros H; injection H as <- _; repeat split; reflexivity. }
  destruct (site_match (re_rs_taggedPrefix E) x); cbn [negb andb].
  { destruct (site_submatch (re_rs_tagged E) x); [|discriminate].
    intros H; injection H as <- _; repeat split; reflexivity. }
  destruct (str_eqb id x); cbn [negb andb].
  { intros H; injection H as <- _; repeat split; reflexivity. }
  pose proof (tokenize_depends Hfact (cs_fns c) x (cs_imports c)) as T.
  destruct (tokenize E (cs_fns c) x (cs_imports c)) as [[ts e] is1]. cbn [fst] in T.
  destruct e; [discriminate|]. destruct (go_code E ts); [|discriminate].
  intros H; injection H as <- _. cbn [mk_arg a_services a_tags a_params]. rewrite T. repeat split; reflexivity.
Qed.

Corollary resolve_arg_arg_refs p c a c' : resolve_arg E p c = ((a, None), c') -> arg_refs id (cs_fns c) p a.
Proof. intros H. apply resolve_arg_refs in H. unfold arg_refs. tauto. Qed.

(** the "iff" reading of C1 *)
Corollary resolve_arg_service_iff p c a c' n :
  resolve_arg E p c = ((a, None), c') ->
  (a_services a = [n] <->
   exists x m, p = PStr x /\ site_match (re_rs_valuePrefix E) x = false /\ site_match (re_rs_servicePrefix E) x = true /\
               site_submatch (re_rs_service E) x = Some m /\ n = sub (re_rs_service E) m (s "service")).
Proof.
  intros H. apply resolve_arg_refs in H. destruct H as [-> _]. unfold src_services. split.
  - destruct p as [| | | |x|]; try discriminate.
    destruct (site_match (re_rs_valuePrefix E) x) eqn:M1; [discriminate|].
    destruct (site_match (re_rs_servicePrefix E) x) eqn:M2; [|discriminate].
    destruct (site_submatch (re_rs_service E) x) as [m|] eqn:M3; [|discriminate].
    intros H. injection H as <-. exists x, m. repeat split; assumption || reflexivity.
  - intros (x & m & -> & -> & -> & -> & ->). reflexivity.
Qed.

Corollary resolve_arg_service_shape p c a c' :
  resolve_arg E p c = ((a, None), c') -> a_services a = [] \/ exists n, a_services a = [n].
Proof.
  intros H. apply resolve_arg_refs in H. destruct H as [-> _]. unfold src_services.
  destruct p as [| | | |x|]; auto.
  destruct (site_match (re_rs_valuePrefix E) x); auto.
  destruct (site_match (re_rs_servicePrefix E) x); auto.
  destruct (site_submatch (re_rs_service E) x) as [m|]; eauto.
Qed.

Corollary resolve_arg_tag_iff p c a c' n :
  resolve_arg E p c = ((a, None), c') ->
  (a_tags a = [n] <->
   exists x m, p = PStr x /\ site_match (re_rs_valuePrefix E) x = false /\ site_match (re_rs_servicePrefix E) x = false /\
               site_match (re_rs_taggedPrefix E) x = true /\
               site_submatch (re_rs_tagged E) x = Some m /\ n = sub (re_rs_tagged E) m (s "tag")).
Proof.
  intros H. apply resolve_arg_refs in H. destruct H as [_ [-> _]]. unfold src_tags. split.
  - destruct p as [| | | |x|]; try discriminate.
    destruct (site_match (re_rs_valuePrefix E) x) eqn:M1; [discriminate|].
    destruct (site_match (re_rs_servicePrefix E) x) eqn:M2; [discriminate|].
    destruct (site_match (re_rs_taggedPrefix E) x) eqn:M4; [|discriminate].
    destruct (site_submatch (re_rs_tagged E) x) as [m|] eqn:M3; [|discriminate].
    intros H. injection H as <-. exists x, m. repeat split; assumption || reflexivity.
  - intros (x & m & -> & -> & -> & -> & -> & ->). reflexivity.
Qed.

Corollary resolve_arg_tag_shape p c a c' :
  resolve_arg E p c = ((a, None), c') -> a_tags a = [] \/ exists n, a_tags a = [n].
Proof.
  intros H. apply resolve_arg_refs in H. destruct H as [_ [-> _]]. unfold src_tags.
  destruct p as [| | | |x|]; auto.
  destruct (site_match (re_rs_valuePrefix E) x); auto.
  destruct (site_match (re_rs_servicePrefix E) x); auto.
  destruct (site_match (re_rs_taggedPrefix E) x); auto.
  destruct (site_submatch (re_rs_tagged E) x) as [m|]; eauto.
Qed.

(** only a pattern string has parameter dependencies *)
Corollary resolve_arg_params_pattern p c a c' :
  resolve_arg E p c = ((a, None), c') ->
  (forall x, p = PStr x -> is_pattern id x = true -> a_params a = refs_of (cs_fns c) x) /\
  ((forall x, p = PStr x -> is_pattern id x = false) -> a_params a = []).
Proof.
  intros H. apply resolve_arg_refs in H. destruct H as [_ [_ ->]]. split.
  - intros x -> Hp. cbn [src_params]. rewrite Hp. reflexivity.
  - intros Hn. destruct p as [| | | |x|]; try reflexivity. cbn [src_params]. rewrite (Hn x eq_refl). reflexivity.
Qed.

(** ** Part C2: lifting to argument lists, services, decorators, parameters *)

Notation AR fns := (arg_refs id fns).

Lemma resolve_args_aux_refs l : forall j c as_ es c',
  resolve_args_aux E j l c = ((as_, es), c') -> (forall e, In e es -> e = None) ->
  Forall2 (AR (cs_fns c)) l as_ /\ cs_fns c' = cs_fns c.
Proof.
  induction l as [|p l IH]; intros j c as_ es c'; cbn [resolve_args_aux].
  - intros H _. injection H as <- _ <-. split; [constructor|reflexivity].
  - pose proof (resolve_arg_fns p c) as F.
    destruct (resolve_arg E p c) as [[a e] c1] eqn:R. cbn [snd] in F.
    destruct (resolve_args_aux E (S j) l c1) as [[as1 es1] c2] eqn:R2.
    intros H N. injection H as <- <- <-. apply all_none_cons in N. destruct N as [N1 N2].
    apply gprefix_single_none in N1. subst e.
    destruct (IH _ _ _ _ _ R2 N2) as [F2 Fc]. rewrite F in F2, Fc. split; [|exact Fc].
    constructor; [|exact F2]. eapply resolve_arg_arg_refs. exact R.
Qed.

Lemma resolve_args_refs l c as_ c' :
  resolve_args E l c = ((as_, None), c') -> Forall2 (AR (cs_fns c)) l as_ /\ cs_fns c' = cs_fns c.
Proof.
  unfold resolve_args. destruct (resolve_args_aux E 0 l c) as [[as1 es] c1] eqn:R.
  intros H. injection H as <- G <-. eapply resolve_args_aux_refs; [exact R|]. exact (proj1 (gprefix_none _ _) G).
Qed.

Lemma resolve_args_fns l c : cs_fns (snd (resolve_args E l c)) = cs_fns c.
Proof.
  unfold resolve_args. destruct (resolve_args_aux E 0 l c) as [[as1 es] c1] eqn:R. cbn [snd].
  revert c c1 as1 es R. generalize 0%nat.
  induction l as [|p l IH]; intros j c c1 as1 es; cbn [resolve_args_aux].
  - intros H. injection H as _ _ <-. reflexivity.
  - pose proof (resolve_arg_fns p c) as F. destruct (resolve_arg E p c) as [[a e] c2]. cbn [snd] in F.
    destruct (resolve_args_aux E (S j) l c2) as [[as2 es2] c3] eqn:R2. intros H. injection H as _ _ <-.
    rewrite (IH _ _ _ _ _ R2). exact F.
Qed.

Lemma compile_fields_refs l : forall c fs es c',
  compile_fields E l c = ((fs, es), c') -> (forall e, In e es -> e = None) ->
  Forall2 (fun kv na => fst na = fst kv /\ AR (cs_fns c) (snd kv) (snd na)) l fs /\ cs_fns c' = cs_fns c.
Proof.
  induction l as [|[n p] l IH]; intros c fs es c'; cbn [compile_fields].
  - intros H _. injection H as <- _ <-. split; [constructor|reflexivity].
  - pose proof (resolve_arg_fns p c) as F.
    destruct (resolve_arg E p c) as [[a e] c1] eqn:R. cbn [snd] in F.
    destruct (compile_fields E l c1) as [[fs1 es1] c2] eqn:R2.
    intros H N. injection H as <- <- <-.
    destruct e as [g|].
    { exfalso. specialize (N _ (or_introl eq_refl)). discriminate. }
    destruct (IH _ _ _ _ R2 N) as [F2 Fc]. rewrite F in F2, Fc. split; [|exact Fc].
    constructor; [|exact F2]. cbn [fst snd]. split; [reflexivity|]. eapply resolve_arg_arg_refs. exact R.
Qed.

Lemma compile_calls_refs l : forall j c cs es c',
  compile_calls E j l c = ((cs, es), c') -> (forall e, In e es -> e = None) ->
  Forall2 (fun cl oc => oc_method oc = c_method cl /\ Forall2 (AR (cs_fns c)) (c_args cl) (oc_args oc)) l cs
  /\ cs_fns c' = cs_fns c.
Proof.
  induction l as [|cl l IH]; intros j c cs es c'; cbn [compile_calls].
  - intros H _. injection H as <- _ <-. split; [constructor|reflexivity].
  - destruct (resolve_args E (c_args cl) c) as [[as_ e] c1] eqn:R.
    destruct (compile_calls E (S j) l c1) as [[cs1 es1] c2] eqn:R2.
    intros H N. injection H as <- <- <-. apply all_none_cons in N. destruct N as [N1 N2].
    apply gprefix_single_none in N1. subst e.
    apply resolve_args_refs in R. destruct R as [Fa F].
    destruct (IH _ _ _ _ _ R2 N2) as [F2 Fc]. rewrite F in F2, Fc. split; [|exact Fc].
    constructor; [|exact F2]. cbn [oc_method oc_args]. split; [reflexivity|exact Fa].
Qed.

(** the source arguments of a service, in the order of [all_args] *)
Definition source_args (svc : service) : list prim :=
  sv_args svc ++ flat_map c_args (sv_calls svc) ++ map snd (sorted_entries (sv_fields svc)).

Definition is_todo (svc : service) : bool := opt_or (sv_todo svc) false.

Lemma process_service_todo name svc m c :
  is_todo svc = true -> process_service E name svc m c =
    (({| os_name := name; os_getter := []; os_must_getter := false; os_type := []; os_value := []; os_constructor := [];
         os_args := []; os_calls := []; os_fields := []; os_tags := []; os_scope := OScDefault; os_todo := true |}, None), c).
Proof. unfold is_todo, process_service. intros ->. reflexivity. Qed.

Lemma process_service_refs name svc m c sv c' :
  is_todo svc = false -> process_service E name svc m c = ((sv, None), c') ->
  Forall2 (AR (cs_fns c)) (source_args svc) (all_args sv) /\ cs_fns c' = cs_fns c.
Proof.
  unfold is_todo, process_service. intros ->.
  destruct (compile_fields E (sorted_entries (sv_fields svc)) c) as [[fields ferrs] c1] eqn:RF.
  destruct (resolve_args E (sv_args svc) c1) as [[args aerr] c2] eqn:RA.
  destruct (compile_calls E 0 (sv_calls svc) c2) as [[calls cerrs] c3] eqn:RC.
  destruct (getter_of E svc m) as [[g mg] gerr_].
  destruct (service_type E (sv_type svc) (cs_imports c3)) as [ty i4].
  destruct (match sv_value svc with None => _ | Some v0 => _ end) as [va i5].
  destruct (service_constructor E (sv_constructor svc) i5) as [co i6].
  intros H. injection H as <- G <-. cbn [with_imports cs_fns].
  pose proof (proj1 (gprefix_none _ _) G) as N.
  assert (gprefix (s "fields: ") ferrs = None) as N1 by (apply N; cbn [In]; auto).
  assert (aerr = None) as N2 by (apply N; cbn [In]; auto).
  assert (gprefix (s "calls: ") cerrs = None) as N3 by (apply N; cbn [In]; auto).
  subst aerr. pose proof (proj1 (gprefix_none _ _) N1) as N1'. pose proof (proj1 (gprefix_none _ _) N3) as N3'.
  destruct (compile_fields_refs _ _ _ _ _ RF N1') as [FF F1].
  destruct (resolve_args_refs _ _ _ _ RA) as [FA F2].
  destruct (compile_calls_refs _ _ _ _ _ _ RC N3') as [FC F3].
  rewrite F2, F1 in F3. rewrite F1 in F2. rewrite F2 in FC. rewrite F1 in FA. split; [|exact F3].
  unfold source_args, all_args. cbn [os_args os_calls os_fields].
  apply Forall2_app; [exact FA|]. apply Forall2_app.
  - eapply Forall2_flat_map; [|exact FC]. intros a b [_ Hab]. exact Hab.
  - apply Forall2_map_both. eapply Forall2_impl; [|exact FF]. intros a b [_ Hab]. exact Hab.
Qed.

Lemma process_service_fns name svc m c : cs_fns (snd (process_service E name svc m c)) = cs_fns c.
Proof.
  unfold process_service. destruct (opt_or (sv_todo svc) false); [reflexivity|].
  destruct (compile_fields E (sorted_entries (sv_fields svc)) c) as [[fields ferrs] c1] eqn:RF.
  pose proof (resolve_args_fns (sv_args svc) c1) as F2.
  destruct (resolve_args E (sv_args svc) c1) as [[args aerr] c2] eqn:RA.
  destruct (compile_calls E 0 (sv_calls svc) c2) as [[calls cerrs] c3] eqn:RC.
  destruct_pairs. cbn [snd with_imports cs_fns] in *.
  assert (cs_fns c1 = cs_fns c) as F1.
  { clear - RF. revert c fields ferrs c1 RF. induction (sorted_entries (sv_fields svc)) as [|[n p] l IH];
      intros c fields ferrs c1; cbn [compile_fields].
    - intros H. injection H as _ _ <-. reflexivity.
    - pose proof (resolve_arg_fns p c) as F. destruct (resolve_arg E p c) as [[a e] c2]. cbn [snd] in F.
      destruct (compile_fields E l c2) as [[fs es] c3] eqn:R. intros H. injection H as _ _ <-.
      rewrite (IH _ _ _ _ R). exact F. }
  assert (cs_fns c3 = cs_fns c2) as F3.
  { clear - RC. revert c2 calls cerrs c3 RC. generalize 0%nat. induction (sv_calls svc) as [|cl l IH];
      intros j c2 calls cerrs c3; cbn [compile_calls].
    - intros H. injection H as _ _ <-. reflexivity.
    - pose proof (resolve_args_fns (c_args cl) c2) as F. destruct (resolve_args E (c_args cl) c2) as [[a e] c4]. cbn [snd] in F.
      destruct (compile_calls E (S j) l c4) as [[fs es] c5] eqn:R. intros H. injection H as _ _ <-.
      rewrite (IH _ _ _ _ _ R). exact F. }
  congruence.
Qed.

(** how a compiled service relates to its source entry *)
Definition service_refs (fns : list fnfact) (kv : str * service) (sv : oservice) : Prop :=
  os_name sv = fst kv /\
  (is_todo (snd kv) = true -> all_args sv = []) /\
  (is_todo (snd kv) = false -> Forall2 (AR fns) (source_args (snd kv)) (all_args sv)).

Lemma compile_services_refs l m : forall c svs es c',
  compile_services E l m c = ((svs, es), c') -> (forall e, In e es -> e = None) ->
  Forall2 (service_refs (cs_fns c)) l svs /\ cs_fns c' = cs_fns c.
Proof.
  induction l as [|[k svc] l IH]; intros c svs es c'; cbn [compile_services].
  - intros H _. injection H as <- _ <-. split; [constructor|reflexivity].
  - pose proof (process_service_fns k svc m c) as F. pose proof (process_service_name k svc m c) as Nm.
    destruct (process_service E k svc m c) as [[sv e] c1] eqn:R. cbn [snd fst] in F, Nm.
    destruct (compile_services E l m c1) as [[svs1 es1] c2] eqn:R2.
    intros H N. injection H as <- <- <-. apply all_none_cons in N. destruct N as [N1 N2]. subst e.
    destruct (IH _ _ _ _ R2 N2) as [F2 Fc]. rewrite F in F2, Fc. split; [|exact Fc].
    constructor; [|exact F2]. unfold service_refs. cbn [fst snd].
    change (all_args (set_scope sv (oscope_of (sv_scope svc)))) with (all_args sv).
    split; [exact Nm|]. split.
    + intros T. rewrite (process_service_todo k svc m c T) in R. injection R as <- _. reflexivity.
    + intros T. eapply process_service_refs; eassumption.
Qed.

Definition decorator_refs (fns : list fnfact) (d : decorator) (od : odecorator) : Prop :=
  od_tag od = d_tag d /\ od_raw od = d_decorator d /\ Forall2 (AR fns) (d_args d) (od_args od).

Lemma compile_decorators_refs l : forall j c ds es c',
  compile_decorators E j l c = ((ds, es), c') -> (forall e, In e es -> e = None) ->
  Forall2 (decorator_refs (cs_fns c)) l ds /\ cs_fns c' = cs_fns c.
Proof.
  induction l as [|d l IH]; intros j c ds es c'; cbn [compile_decorators].
  - intros H _. injection H as <- _ <-. split; [constructor|reflexivity].
  - destruct (qualify _ _ _) as [method i1].
    destruct (resolve_args E (d_args d) (with_imports c i1)) as [[args e] c1] eqn:R.
    destruct (compile_decorators E (S j) l c1) as [[ds1 es1] c2] eqn:R2.
    intros H N. injection H as <- <- <-. apply all_none_cons in N. destruct N as [N1 N2].
    apply gprefix_single_none in N1. subst e.
    apply resolve_args_refs in R. cbn [with_imports cs_fns] in R. destruct R as [Fa F].
    destruct (IH _ _ _ _ _ R2 N2) as [F2 Fc]. rewrite F in F2, Fc. split; [|exact Fc].
    constructor; [|exact F2]. unfold decorator_refs. cbn [od_tag od_raw od_args]. auto.
Qed.

(** parameters: the chain [RNonString; RPattern] *)
Definition param_refs (fns : list fnfact) (p : prim) : list str :=
  match p with PStr x => refs_of fns x | _ => [] end.

Section ParamChain.
Hypothesis Hpchain : w_param_chain E = [RNonString; RPattern].

Lemma resolve_param_refs p c pe c' :
  resolve_param E p c = ((pe, None), c') -> pe_depends pe = param_refs (cs_fns c) p.
Proof.
  unfold resolve_param. rewrite Hpchain. cbn [resolve_chain].
  destruct p as [|b|k t|k t|x|t]; cbn [rk_supports is_primitive rk_resolve mk_arg a_services a_tags app param_refs];
    try (intros H; injection H as <- _; reflexivity); try discriminate.
  pose proof (tokenize_depends Hfact (cs_fns c) x (cs_imports c)) as T.
  destruct (tokenize E (cs_fns c) x (cs_imports c)) as [[ts e] is1]. cbn [fst] in T.
  destruct e; [cbn [zero_arg a_services a_tags app]; discriminate|].
  destruct (go_code E ts); cbn [zero_arg mk_arg a_services a_tags app]; [|discriminate].
  intros H; injection H as <- _. cbn [pe_depends a_params]. exact T.
Qed.

Definition oparam_refs (fns : list fnfact) (kv : str * prim) (p : oparam) : Prop :=
  op_name p = fst kv /\ op_depends p = param_refs fns (snd kv).

Lemma compile_params_refs l : forall c ps es c',
  compile_params E l c = ((ps, es), c') -> (forall e, In e es -> e = None) ->
  Forall2 (oparam_refs (cs_fns c)) l ps /\ cs_fns c' = cs_fns c.
Proof.
  induction l as [|[k p] l IH]; intros c ps es c'; cbn [compile_params].
  - intros H _. injection H as <- _ <-. split; [constructor|reflexivity].
  - pose proof (resolve_param_fns p c) as F.
    destruct (resolve_param E p c) as [[pe e] c1] eqn:R. cbn [snd] in F.
    destruct (compile_params E l c1) as [[ps1 es1] c2] eqn:R2.
    destruct e as [g|].
    { intros H N. injection H as _ <- _. exfalso. specialize (N _ (or_introl eq_refl)). discriminate. }
    intros H N. injection H as <- <- <-.
    destruct (IH _ _ _ _ R2 N) as [F2 Fc]. rewrite F in F2, Fc. split; [|exact Fc].
    constructor; [|exact F2]. unfold oparam_refs. cbn [op_name op_depends fst snd]. split; [reflexivity|].
    eapply resolve_param_refs. exact R.
Qed.

(** C2, end to end: the dependency lists of the compiled output are the references of the source, entry by entry *)
Theorem compile_refs B i o c :
  w_compiler_steps E = [CValidate; CMeta; CParams; CServices; CDecorators] ->
  compile E B i = ((o, None), c) ->
  Forall2 (oparam_refs (meta_fns i)) (sorted_entries (i_params i)) (o_params o) /\
  Forall2 (service_refs (meta_fns i)) (sorted_entries (i_services i)) (o_services o) /\
  Forall2 (decorator_refs (meta_fns i)) (i_decorators i) (o_decorators o).
Proof.
  intros Hs H. destruct (compile_std_inv B i o c Hs H)
    as (c1 & ps & es2 & c2 & svs & es3 & c3 & ds & es4 & Fm & P & S & D & N2 & N3 & N4 & -> & -> & ->).
  destruct (compile_params_refs _ _ _ _ _ P N2) as [FP F1].
  destruct (compile_services_refs _ _ _ _ _ _ S N3) as [FS F2].
  destruct (compile_decorators_refs _ _ _ _ _ _ D N4) as [FD _].
  rewrite F2, F1, Fm in FD. rewrite F1, Fm in FS. rewrite Fm in FP. auto.
Qed.

End ParamChain.

(** the statement of C2 in [map] form, for one service *)
Corollary service_refs_maps fns kv sv :
  service_refs fns kv sv -> is_todo (snd kv) = false ->
  map a_params (all_args sv) = map (src_params id fns) (source_args (snd kv)) /\
  map a_services (all_args sv) = map src_services (source_args (snd kv)) /\
  map a_tags (all_args sv) = map src_tags (source_args (snd kv)).
Proof.
  intros [_ [_ H]] T. specialize (H T). repeat split; apply Forall2_map_eq; eapply Forall2_impl; try exact H;
    intros a b [H1 [H2 H3]]; assumption.
Qed.

Corollary decorator_refs_maps fns d od :
  decorator_refs fns d od ->
  map a_params (od_args od) = map (src_params id fns) (d_args d) /\
  map a_services (od_args od) = map src_services (d_args d) /\
  map a_tags (od_args od) = map src_tags (d_args d).
Proof.
  intros [_ [_ H]]. repeat split; apply Forall2_map_eq; eapply Forall2_impl; try exact H;
    intros a b [H1 [H2 H3]]; assumption.
Qed.

(** ** end to end: after a successful compile the validators answer the source-level question *)

Lemma Forall2_In_l {A B} (R : A -> B -> Prop) l l' a : Forall2 R l l' -> In a l -> exists b, In b l' /\ R a b.
Proof.
  intros F. induction F as [|x y l l' H F IH]; intros Hi; [destruct Hi|].
  destruct Hi as [<-|Hi]; [exists y; split; [left; reflexivity|exact H]|].
  destruct (IH Hi) as [b [Hb Hr]]. exists b. split; [right; exact Hb|exact Hr].
Qed.

Lemma Forall2_In_r {A B} (R : A -> B -> Prop) l l' b : Forall2 R l l' -> In b l' -> exists a, In a l /\ R a b.
Proof.
  intros F. induction F as [|x y l l' H F IH]; intros Hi; [destruct Hi|].
  destruct Hi as [<-|Hi]; [exists x; split; [left; reflexivity|exact H]|].
  destruct (IH Hi) as [a [Ha Hr]]. exists a. split; [right; exact Ha|exact Hr].
Qed.

Section EndToEnd.
Hypothesis Hpchain : w_param_chain E = [RNonString; RPattern].
Hypothesis Hsteps : w_compiler_steps E = [CValidate; CMeta; CParams; CServices; CDecorators].
Variables (B : str) (i : input) (o : output) (c : cst).
Hypothesis Hc : compile E B i = ((o, None), c).

(** "missing parameters" is silent iff every [%name%] written in a parameter, in an argument / call argument / field
    of a non-todo service, or in a decorator argument names a key of [parameters] *)
Theorem params_exist_source_iff :
  validate_params_exist o = None <->
    (forall k p n, In (k, p) (i_params i) -> In n (param_refs (meta_fns i) p) -> In n (keys (i_params i))) /\
    (forall k svc p n, In (k, svc) (i_services i) -> is_todo svc = false -> In p (source_args svc) ->
                       In n (src_params id (meta_fns i) p) -> In n (keys (i_params i))) /\
    (forall d p n, In d (i_decorators i) -> In p (d_args d) -> In n (src_params id (meta_fns i) p) ->
                   In n (keys (i_params i))).
Proof.
  rewrite params_exist_ok_iff.
  destruct (compile_declared B i o c Hsteps Hc) as [Pn _].
  destruct (compile_refs Hpchain B i o c Hsteps Hc) as [FP [FS FD]].
  assert (forall n, In n (pnames o) <-> In n (keys (i_params i))) as K.
  { intros n. rewrite Pn. apply In_sorted_keys. }
  split; intros [H1 [H2 H3]]; repeat split.
  - intros k p n Hi Hn. apply K. apply (proj2 (In_sorted_entries _ _)) in Hi.
    destruct (Forall2_In_l _ _ _ _ FP Hi) as [op [Hop [_ Hd]]]. cbn [snd] in Hd.
    apply (H1 op n Hop). rewrite Hd. exact Hn.
  - intros k svc p n Hi T Hp Hn. apply K. apply (proj2 (In_sorted_entries _ _)) in Hi.
    destruct (Forall2_In_l _ _ _ _ FS Hi) as [sv [Hsv [_ [_ Hf]]]]. cbn [snd] in Hf. specialize (Hf T).
    destruct (Forall2_In_l _ _ _ _ Hf Hp) as [a [Ha [Hpa _]]].
    apply (H2 sv a n Hsv Ha). rewrite Hpa. exact Hn.
  - intros d p n Hi Hp Hn. apply K.
    destruct (Forall2_In_l _ _ _ _ FD Hi) as [od [Hod [_ [_ Hf]]]].
    destruct (Forall2_In_l _ _ _ _ Hf Hp) as [a [Ha [Hpa _]]].
    apply (H3 od a n Hod Ha). rewrite Hpa. exact Hn.
  - intros op n Hop Hn. apply K.
    destruct (Forall2_In_r _ _ _ _ FP Hop) as [[k p] [Hi [_ Hd]]]. cbn [snd] in Hd. apply (proj1 (In_sorted_entries _ _)) in Hi.
    apply (H1 k p n Hi). rewrite <- Hd. exact Hn.
  - intros sv a n Hsv Ha Hn. apply K.
    destruct (Forall2_In_r _ _ _ _ FS Hsv) as [[k svc] [Hi [_ [Ht Hf]]]]. cbn [snd] in Ht, Hf. apply (proj1 (In_sorted_entries _ _)) in Hi.
    destruct (is_todo svc) eqn:T.
    + rewrite (Ht eq_refl) in Ha. destruct Ha.
    + destruct (Forall2_In_r _ _ _ _ (Hf eq_refl) Ha) as [p [Hp [Hpa _]]].
      apply (H2 k svc p n Hi T Hp). rewrite <- Hpa. exact Hn.
  - intros od a n Hod Ha Hn. apply K.
    destruct (Forall2_In_r _ _ _ _ FD Hod) as [d [Hi [_ [_ Hf]]]].
    destruct (Forall2_In_r _ _ _ _ Hf Ha) as [p [Hp [Hpa _]]].
    apply (H3 d p n Hi Hp). rewrite <- Hpa. exact Hn.
Qed.

(** "missing services" is silent iff every [@name] written in an argument of a non-todo service or of a decorator
    names a key of [services] (todo services count as declared) *)
Theorem services_exist_source_iff :
  validate_services_exist o = None <->
    (forall k svc p n, In (k, svc) (i_services i) -> is_todo svc = false -> In p (source_args svc) ->
                       In n (src_services p) -> In n (keys (i_services i))) /\
    (forall d p n, In d (i_decorators i) -> In p (d_args d) -> In n (src_services p) -> In n (keys (i_services i))).
Proof.
  rewrite services_exist_ok_iff.
  destruct (compile_declared B i o c Hsteps Hc) as [_ [Sn _]].
  destruct (compile_refs Hpchain B i o c Hsteps Hc) as [_ [FS FD]].
  assert (forall n, In n (snames o) <-> In n (keys (i_services i))) as K.
  { intros n. rewrite Sn. apply In_sorted_keys. }
  split; intros [H2 H3]; repeat split.
  - intros k svc p n Hi T Hp Hn. apply K. apply (proj2 (In_sorted_entries _ _)) in Hi.
    destruct (Forall2_In_l _ _ _ _ FS Hi) as [sv [Hsv [_ [_ Hf]]]]. cbn [snd] in Hf. specialize (Hf T).
    destruct (Forall2_In_l _ _ _ _ Hf Hp) as [a [Ha [_ [Hpa _]]]].
    apply (H2 sv a n Hsv Ha). rewrite Hpa. exact Hn.
  - intros d p n Hi Hp Hn. apply K.
    destruct (Forall2_In_l _ _ _ _ FD Hi) as [od [Hod [_ [_ Hf]]]].
    destruct (Forall2_In_l _ _ _ _ Hf Hp) as [a [Ha [_ [Hpa _]]]].
    apply (H3 od a n Hod Ha). rewrite Hpa. exact Hn.
  - intros sv a n Hsv Ha Hn. apply K.
    destruct (Forall2_In_r _ _ _ _ FS Hsv) as [[k svc] [Hi [_ [Ht Hf]]]]. cbn [snd] in Ht, Hf. apply (proj1 (In_sorted_entries _ _)) in Hi.
    destruct (is_todo svc) eqn:T.
    + rewrite (Ht eq_refl) in Ha. destruct Ha.
    + destruct (Forall2_In_r _ _ _ _ (Hf eq_refl) Ha) as [p [Hp [_ [Hpa _]]]].
      apply (H2 k svc p n Hi T Hp). rewrite <- Hpa. exact Hn.
  - intros od a n Hod Ha Hn. apply K.
    destruct (Forall2_In_r _ _ _ _ FD Hod) as [d [Hi [_ [_ Hf]]]].
    destruct (Forall2_In_r _ _ _ _ Hf Ha) as [p [Hp [_ [Hpa _]]]].
    apply (H3 d p n Hi Hp). rewrite <- Hpa. exact Hn.
Qed.

End EndToEnd.

End Chain.

End WithEnv.

Print Assumptions compile_declared.
Print Assumptions resolve_arg_refs.
Print Assumptions compile_refs.
Print Assumptions params_exist_source_iff.
Print Assumptions services_exist_source_iff.
Print Assumptions chunk_refs_spec.
