(** Correctness of the Brzozowski-derivative matcher of Regex/Re.v with respect to the denotational semantics [Sem]. *)
From GV Require Import Base.Str Regex.Re.
From Coq Require Import Lia.

(** * syntactic equality *)

Lemma ranges_eqb_eq : forall a b, ranges_eqb a b = true -> a = b.
Proof.
  induction a as [|[x y] a IH]; intros [|[u v] b] H; cbn [ranges_eqb] in H; try discriminate; try reflexivity.
  apply andb_true_iff in H; destruct H as [H H3].
  apply andb_true_iff in H; destruct H as [H1 H2].
  apply N.eqb_eq in H1; apply N.eqb_eq in H2; apply IH in H3; subst; reflexivity.
Qed.

Lemma ranges_eqb_refl : forall a, ranges_eqb a a = true.
Proof.
  induction a as [|[x y] a IH]; cbn [ranges_eqb]; [reflexivity|].
  rewrite !N.eqb_refl, IH; reflexivity.
Qed.

Lemma re_eqb_eq : forall a b, re_eqb a b = true -> a = b.
Proof.
  induction a as [| |l|a1 IH1 a2 IH2|a1 IH1 a2 IH2|a1 IH1|i a1 IH1]; intros b H;
    destruct b as [| |l'|b1 b2|b1 b2|b1|j b1]; cbn [re_eqb] in H; try discriminate; try reflexivity.
  - apply ranges_eqb_eq in H; subst; reflexivity.
  - apply andb_true_iff in H; destruct H as [H1 H2]; apply IH1 in H1; apply IH2 in H2; subst; reflexivity.
  - apply andb_true_iff in H; destruct H as [H1 H2]; apply IH1 in H1; apply IH2 in H2; subst; reflexivity.
  - apply IH1 in H; subst; reflexivity.
  - apply andb_true_iff in H; destruct H as [H1 H2]; apply Nat.eqb_eq in H1; apply IH1 in H2; subst; reflexivity.
Qed.

Lemma re_eqb_refl : forall a, re_eqb a a = true.
Proof.
  induction a as [| |l|a1 IH1 a2 IH2|a1 IH1 a2 IH2|a1 IH1|i a1 IH1]; cbn [re_eqb]; try reflexivity.
  - apply ranges_eqb_refl.
  - rewrite IH1, IH2; reflexivity.
  - rewrite IH1, IH2; reflexivity.
  - exact IH1.
  - rewrite Nat.eqb_refl, IH1; reflexivity.
Qed.

Lemma re_eqb_iff : forall a b, re_eqb a b = true <-> a = b.
Proof. intros a b; split; [apply re_eqb_eq | intros ->; apply re_eqb_refl]. Qed.

(** * inversion lemmas for [Sem] *)

Lemma Sem_Empty : forall x, Sem Empty x <-> False.
Proof. intros x; split; [intros H; inversion H | intros []]. Qed.

Lemma Sem_Eps : forall x, Sem Eps x <-> x = [].
Proof. intros x; split; [intros H; inversion H; reflexivity | intros ->; constructor]. Qed.

Lemma Sem_Cls : forall l x, Sem (Cls l) x <-> exists c, x = [c] /\ cls_match l c = true.
Proof.
  intros l x; split.
  - intros H; inversion H; subst; eexists; split; [reflexivity | assumption].
  - intros [c [-> H]]; constructor; assumption.
Qed.

Lemma Sem_Cat : forall a b x, Sem (Cat a b) x <-> exists y z, x = y ++ z /\ Sem a y /\ Sem b z.
Proof.
  intros a b x; split.
  - intros H; inversion H; subst. do 2 eexists; split; [reflexivity | split; assumption].
  - intros [y [z [-> [Ha Hb]]]]; constructor; assumption.
Qed.

Lemma Sem_Alt : forall a b x, Sem (Alt a b) x <-> Sem a x \/ Sem b x.
Proof.
  intros a b x; split.
  - intros H; inversion H; subst; auto.
  - intros [H|H]; [apply SAltL | apply SAltR]; assumption.
Qed.

Lemma Sem_Cap : forall i a x, Sem (Cap i a) x <-> Sem a x.
Proof.
  intros i a x; split.
  - intros H; inversion H; subst; assumption.
  - intros H; constructor; assumption.
Qed.

Lemma Sem_Star_unfold : forall a x,
  Sem (Star a) x <-> x = [] \/ exists y z, x = y ++ z /\ Sem a y /\ Sem (Star a) z.
Proof.
  intros a x; split.
  - intros H; inversion H; subst; [left; reflexivity | right].
    do 2 eexists; split; [reflexivity | split; assumption].
  - intros [->|[y [z [-> [Ha Hs]]]]]; [apply SStar0 | apply SStarS; assumption].
Qed.

(** a non-empty match of [Star a] starts with a non-empty iteration of [a] *)
Lemma Sem_Star_cons_inv_aux : forall r w, Sem r w ->
  forall a c x, r = Star a -> w = c :: x ->
  exists y z, x = y ++ z /\ Sem a (c :: y) /\ Sem (Star a) z.
Proof.
  intros r w H.
  induction H as [|l c0 Hc|a0 b0 x0 y0 Ha IHa Hb IHb|a0 b0 x0 Ha IHa|a0 b0 x0 Hb IHb|a0|a0 x0 y0 Ha IHa Hs IHs|i a0 x0 Ha IHa];
    intros a c x Er Ew; try discriminate.
  injection Er as ->.
  destruct x0 as [|c' x0'].
  - cbn [app] in Ew. apply (IHs a c x eq_refl Ew).
  - cbn [app] in Ew. injection Ew as -> <-.
    exists x0', y0; split; [reflexivity | split; assumption].
Qed.

Lemma Sem_Star_cons : forall a c x,
  Sem (Star a) (c :: x) <-> exists y z, x = y ++ z /\ Sem a (c :: y) /\ Sem (Star a) z.
Proof.
  intros a c x; split.
  - intros H; eapply Sem_Star_cons_inv_aux; [exact H | reflexivity | reflexivity].
  - intros [y [z [-> [Ha Hs]]]].
    change (c :: y ++ z) with ((c :: y) ++ z). apply SStarS; assumption.
Qed.

(** * convenience lemmas for the derived forms *)

Lemma Sem_Lit : forall y x, Sem (Lit y) x <-> x = y.
Proof.
  assert (Hone : forall c x, Sem (Cls [(code c, code c)]) x <-> x = [c]).
  { intros c x; rewrite Sem_Cls; split.
    - intros [d [-> Hd]]. unfold cls_match in Hd; cbn [in_ranges] in Hd.
      rewrite orb_false_r in Hd. apply andb_true_iff in Hd; destruct Hd as [H1 H2].
      apply N.leb_le in H1; apply N.leb_le in H2.
      assert (E : code d = code c) by lia.
      unfold code in E. rewrite <- (ascii_N_embedding d), <- (ascii_N_embedding c), E; reflexivity.
    - intros ->; exists c; split; [reflexivity|].
      unfold cls_match; cbn [in_ranges]. rewrite N.leb_refl; reflexivity. }
  induction y as [|c y IH]; intros x.
  - cbn [Lit]; apply Sem_Eps.
  - destruct y as [|c' y'].
    + cbn [Lit]; apply Hone.
    + change (Lit (c :: c' :: y')) with (Cat (Cls [(code c, code c)]) (Lit (c' :: y'))).
      rewrite Sem_Cat; split.
      * intros [u [v [-> [Hu Hv]]]]. apply Hone in Hu; apply IH in Hv; subst; reflexivity.
      * intros ->; exists [c], (c' :: y'); split; [reflexivity|]; split; [apply Hone | apply IH]; reflexivity.
Qed.

Lemma Sem_Plus : forall a x,
  Sem (Plus a) x <-> exists y z, x = y ++ z /\ Sem a y /\ Sem (Star a) z.
Proof. intros a x; unfold Plus; apply Sem_Cat. Qed.

Lemma Sem_Quest : forall a x, Sem (Quest a) x <-> Sem a x \/ x = [].
Proof. intros a x; unfold Quest; rewrite Sem_Alt, Sem_Eps; reflexivity. Qed.

(** * nullability *)

Lemma nullable_spec : forall r, nullable r = true <-> Sem r [].
Proof.
  induction r as [| |l|a IHa b IHb|a IHa b IHb|a IHa|i a IHa]; cbn [nullable].
  - rewrite Sem_Empty; split; [discriminate | intros []].
  - rewrite Sem_Eps; split; reflexivity.
  - rewrite Sem_Cls; split; [discriminate | intros [c [H _]]; discriminate].
  - rewrite andb_true_iff, IHa, IHb, Sem_Cat; split.
    + intros [Ha Hb]; exists [], []; auto.
    + intros [y [z [E [Ha Hb]]]]. symmetry in E; apply app_eq_nil in E; destruct E; subst; auto.
  - rewrite orb_true_iff, IHa, IHb, Sem_Alt; reflexivity.
  - split; [intros _; apply SStar0 | reflexivity].
  - rewrite IHa, Sem_Cap; reflexivity.
Qed.

(** * smart constructors *)

Lemma is_empty_true : forall r, is_empty r = true -> r = Empty.
Proof. intros [| | | | | |]; cbn; try discriminate; reflexivity. Qed.

Lemma is_eps_true : forall r, is_eps r = true -> r = Eps.
Proof. intros [| | | | | |]; cbn; try discriminate; reflexivity. Qed.

Lemma mkCat_spec : forall a b x, Sem (mkCat a b) x <-> Sem (Cat a b) x.
Proof.
  intros a b x; unfold mkCat.
  destruct (is_empty a) eqn:Ea; [apply is_empty_true in Ea; subst; cbn [orb]|].
  { rewrite Sem_Empty, Sem_Cat; split; [intros [] | intros [y [z [_ [H _]]]]; inversion H]. }
  destruct (is_empty b) eqn:Eb; [apply is_empty_true in Eb; subst; cbn [orb]|].
  { rewrite Sem_Empty, Sem_Cat; split; [intros [] | intros [y [z [_ [_ H]]]]; inversion H]. }
  cbn [orb].
  destruct (is_eps a) eqn:Pa; [apply is_eps_true in Pa; subst|].
  { rewrite Sem_Cat; split.
    - intros H; exists [], x; split; [reflexivity | split; [constructor | assumption]].
    - intros [y [z [-> [Hy Hz]]]]. apply Sem_Eps in Hy; subst; assumption. }
  destruct (is_eps b) eqn:Pb; [apply is_eps_true in Pb; subst|].
  { rewrite Sem_Cat; split.
    - intros H; exists x, []; split; [rewrite app_nil_r; reflexivity | split; [assumption | constructor]].
    - intros [y [z [-> [Hy Hz]]]]. apply Sem_Eps in Hz; subst; rewrite app_nil_r; assumption. }
  reflexivity.
Qed.

Lemma alt_mem_sound : forall a b x, alt_mem a b = true -> Sem a x -> Sem b x.
Proof.
  intros a b x; induction b as [| |l|b1 _ b2 _|b1 _ b2 IH2|b1 _|i b1 _]; cbn [alt_mem]; intros H Ha;
    try (apply re_eqb_eq in H; subst; assumption).
  apply orb_true_iff in H; destruct H as [H|H].
  - apply re_eqb_eq in H; subst; apply SAltL; assumption.
  - apply SAltR; apply IH2; assumption.
Qed.

Lemma mkAlt1_spec : forall a b x, Sem (mkAlt1 a b) x <-> Sem (Alt a b) x.
Proof.
  intros a b x; unfold mkAlt1; rewrite Sem_Alt.
  destruct (is_empty a) eqn:Ea; [apply is_empty_true in Ea; subst|].
  { rewrite Sem_Empty; tauto. }
  destruct (is_empty b) eqn:Eb; [apply is_empty_true in Eb; subst|].
  { rewrite Sem_Empty; tauto. }
  destruct (alt_mem a b) eqn:Em.
  - split; [auto | intros [H|H]; [eapply alt_mem_sound; eassumption | assumption]].
  - apply Sem_Alt.
Qed.

Lemma mkAlt_spec : forall a b x, Sem (mkAlt a b) x <-> Sem (Alt a b) x.
Proof.
  induction a as [| |l|a1 _ a2 _|a1 _ a2 IH2|a1 _|i a1 _]; intros b x; cbn [mkAlt]; try apply mkAlt1_spec.
  rewrite mkAlt1_spec, !Sem_Alt, IH2, !Sem_Alt; tauto.
Qed.

Lemma mkAlt_Sem : forall a b x, Sem (mkAlt a b) x <-> Sem a x \/ Sem b x.
Proof. intros; rewrite mkAlt_spec; apply Sem_Alt. Qed.

Lemma mkCat_Sem : forall a b x, Sem (mkCat a b) x <-> exists y z, x = y ++ z /\ Sem a y /\ Sem b z.
Proof. intros; rewrite mkCat_spec; apply Sem_Cat. Qed.

(** * derivatives *)

Lemma Sem_Cat_cons : forall a b c x,
  Sem (Cat a b) (c :: x) <->
  (exists y z, x = y ++ z /\ Sem a (c :: y) /\ Sem b z) \/ (Sem a [] /\ Sem b (c :: x)).
Proof.
  intros a b c x; rewrite Sem_Cat; split.
  - intros [y [z [E [Ha Hb]]]]. destruct y as [|c' y'].
    + cbn [app] in E; subst z; right; auto.
    + cbn [app] in E; injection E as <- ->. left; eauto.
  - intros [[y [z [-> [Ha Hb]]]] | [Ha Hb]].
    + exists (c :: y), z; auto.
    + exists [], (c :: x); auto.
Qed.

Lemma der_spec : forall r c x, Sem (der c r) x <-> Sem r (c :: x).
Proof.
  induction r as [| |l|a IHa b IHb|a IHa b IHb|a IHa|i a IHa]; intros c x; cbn [der].
  - rewrite !Sem_Empty; reflexivity.
  - rewrite Sem_Empty, Sem_Eps; split; [intros [] | discriminate].
  - rewrite Sem_Cls. destruct (cls_match l c) eqn:E.
    + rewrite Sem_Eps; split.
      * intros ->; exists c; auto.
      * intros [d [H _]]; injection H as _ ->; reflexivity.
    + rewrite Sem_Empty; split; [intros [] | intros [d [H Hd]]].
      injection H as -> _. congruence.
  - rewrite Sem_Cat_cons.
    assert (HL : Sem (mkCat (der c a) b) x <-> exists y z, x = y ++ z /\ Sem a (c :: y) /\ Sem b z).
    { rewrite mkCat_Sem; split; intros [y [z [E [Ha Hb]]]]; exists y, z; (split; [exact E|]); split; try assumption;
        apply IHa; assumption. }
    destruct (nullable a) eqn:Na.
    + rewrite mkAlt_Sem, HL, IHb. apply nullable_spec in Na. tauto.
    + rewrite HL. split; [auto | intros [H|[H _]]; [assumption|]].
      apply nullable_spec in H; congruence.
  - rewrite mkAlt_Sem, IHa, IHb, Sem_Alt; reflexivity.
  - rewrite mkCat_Sem, Sem_Star_cons; split; intros [y [z [E [Ha Hs]]]]; exists y, z; (split; [exact E|]); split;
      try assumption; apply IHa; assumption.
  - rewrite IHa, Sem_Cap; reflexivity.
Qed.

(** * the matchers *)

Theorem dmatch_spec : forall r x, dmatch r x = true <-> Sem r x.
Proof.
  intros r x; revert r; induction x as [|c x IH]; intros r; cbn [dmatch].
  - apply nullable_spec.
  - rewrite IH; apply der_spec.
Qed.

Theorem dmatch_prefix_spec : forall r x,
  dmatch_prefix r x = true <-> exists p q, x = p ++ q /\ Sem r p.
Proof.
  intros r x; revert r; induction x as [|c x IH]; intros r; cbn [dmatch_prefix]; rewrite orb_true_iff, nullable_spec.
  - split.
    + intros [H|H]; [exists [], []; auto | discriminate].
    + intros [p [q [E H]]]. symmetry in E; apply app_eq_nil in E; destruct E; subst; auto.
  - rewrite IH; split.
    + intros [H|[p [q [-> H]]]].
      * exists [], (c :: x); auto.
      * exists (c :: p), q; split; [reflexivity | apply der_spec; assumption].
    + intros [p [q [E H]]]. destruct p as [|c' p'].
      * left; assumption.
      * cbn [app] in E; injection E as <- ->. right; exists p', q; split; [reflexivity | apply der_spec; assumption].
Qed.

Lemma dmatch_false_spec : forall r x, dmatch r x = false <-> ~ Sem r x.
Proof.
  intros r x; rewrite <- dmatch_spec; destruct (dmatch r x); split; congruence.
Qed.

(** language equivalence and the two matchers *)
Lemma Sem_equiv_dmatch : forall a b, (forall x, Sem a x <-> Sem b x) <-> (forall x, dmatch a x = dmatch b x).
Proof.
  intros a b; split; intros H x.
  - apply eq_true_iff_eq; rewrite !dmatch_spec; apply H.
  - rewrite <- !dmatch_spec, H; reflexivity.
Qed.

Lemma Sem_equiv_dmatch_prefix : forall a b,
  (forall x, Sem a x <-> Sem b x) -> forall x, dmatch_prefix a x = dmatch_prefix b x.
Proof.
  intros a b H x; apply eq_true_iff_eq; rewrite !dmatch_prefix_spec.
  split; intros [p [q [E Hp]]]; exists p, q; (split; [exact E | apply H; exact Hp]).
Qed.

Print Assumptions dmatch_spec.
Print Assumptions dmatch_prefix_spec.
