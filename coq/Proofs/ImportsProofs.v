(** Proofs about the alias table (Model/Imports.v): invariant, injectivity of the hexadecimal counter,
    uniqueness and legality of generated local names, once-only behaviour, alias expansion, sorted output. *)
From Coq Require Import ZifyN ZifyNat Lia Permutation.
From GV Require Import Base.Str Base.Quote Base.Sort Base.Gerr Model.Imports.

(* ------------------------------------------------------------------------- *)
(** * Association-list helpers *)

Lemma lookup_None_keys {A} (k : str) (m : list (str * A)) : lookup k m = None <-> ~ In k (keys m).
Proof.
  induction m as [|[k' v] m IH]; cbn [lookup keys map fst In].
  - split; [intros _ []|reflexivity].
  - destruct (str_eqb_spec k k') as [->|Hne].
    + split; [discriminate|]. intros H; exfalso; apply H; left; reflexivity.
    + rewrite IH. unfold keys. split.
      * intros H [E|H']; [congruence|auto].
      * intros H H'; apply H; right; exact H'.
Qed.

Lemma lookup_Some_In {A} (k : str) (m : list (str * A)) v : lookup k m = Some v -> In (k, v) m.
Proof.
  induction m as [|[k' v'] m IH]; cbn [lookup In]; [discriminate|].
  destruct (str_eqb_spec k k') as [->|Hne].
  - intros E; injection E as ->; left; reflexivity.
  - intros H; right; auto.
Qed.

Lemma lookup_Some_keys {A} (k : str) (m : list (str * A)) v : lookup k m = Some v -> In k (keys m).
Proof. intros H. apply lookup_Some_In in H. unfold keys. change k with (fst (k, v)). apply in_map, H. Qed.

Lemma lookup_app {A} (k : str) (m1 m2 : list (str * A)) :
  lookup k (m1 ++ m2) = match lookup k m1 with Some v => Some v | None => lookup k m2 end.
Proof.
  induction m1 as [|[k' v'] m1 IH]; cbn [lookup app]; [reflexivity|].
  destruct (str_eqb k k'); [reflexivity|exact IH].
Qed.

Lemma lookup_app_Some {A} (k : str) (m1 m2 : list (str * A)) v :
  lookup k m1 = Some v -> lookup k (m1 ++ m2) = Some v.
Proof. intros H. rewrite lookup_app, H. reflexivity. Qed.

Lemma lookup_single {A} (k : str) (v : A) : lookup k [(k, v)] = Some v.
Proof. cbn [lookup]. rewrite str_eqb_refl. reflexivity. Qed.

Lemma NoDup_snoc {A} (l : list A) (x : A) : NoDup l -> ~ In x l -> NoDup (l ++ [x]).
Proof.
  intros Hn Hx. apply (Permutation_NoDup (l := x :: l)).
  - apply Permutation_cons_append.
  - constructor; assumption.
Qed.

Lemma split_at_first (c : ascii) (l1 r1 l2 r2 : str) :
  ~ In c l1 -> ~ In c l2 -> l1 ++ c :: r1 = l2 ++ c :: r2 -> l1 = l2 /\ r1 = r2.
Proof.
  revert l2. induction l1 as [|a l1 IH]; intros [|b l2] H1 H2 E; cbn [app] in E.
  - injection E as ->. split; reflexivity.
  - injection E as E1 E2. exfalso; apply H2; left; congruence.
  - injection E as E1 E2. exfalso; apply H1; left; congruence.
  - injection E as E1 E2. subst b.
    destruct (IH l2) as [-> ->]; [| |exact E2|split; reflexivity].
    + intros H; apply H1; right; exact H.
    + intros H; apply H2; right; exact H.
Qed.

(* ------------------------------------------------------------------------- *)
(** * [hex_of_N] is injective, and its digits are in [0-9a-f] *)

Section Hex.
Local Open Scope N_scope.

Definition hex_digit_val (c : ascii) : N := if N.ltb (code c) 58 then code c - 48 else code c - 87.
Definition hex_step (acc : N) (c : ascii) : N := acc * 16 + hex_digit_val c.
Definition hex_value (x : str) : N := fold_left hex_step x 0.

(** [0-9] or [a-f] *)
Definition is_hex_char (c : ascii) : Prop := (48 <= code c /\ code c <= 57) \/ (97 <= code c /\ code c <= 102).

Lemma code_ch n : n < 256 -> code (ch n) = n.
Proof. apply N_ascii_embedding. Qed.

Lemma hex_char_code d : d < 16 -> code (hex_char d) = if N.ltb d 10 then 48 + d else 87 + d.
Proof. intros H. unfold hex_char. destruct (N.ltb_spec d 10); apply code_ch; lia. Qed.

Lemma hex_char_val d : d < 16 -> hex_digit_val (hex_char d) = d.
Proof.
  intros H. unfold hex_digit_val. rewrite (hex_char_code d H).
  destruct (N.ltb_spec d 10) as [H1|H1].
  - destruct (N.ltb_spec (48 + d) 58); lia.
  - destruct (N.ltb_spec (87 + d) 58); lia.
Qed.

Lemma hex_char_is_hex d : d < 16 -> is_hex_char (hex_char d).
Proof.
  intros H. unfold is_hex_char. rewrite (hex_char_code d H).
  destruct (N.ltb_spec d 10); lia.
Qed.

Fixpoint pow16 (f : nat) : N := match f with O => 1 | S f' => 16 * pow16 f' end.

Lemma hex_fuel_value f : forall n acc, n < pow16 f ->
  fold_left hex_step (hex_fuel f n acc) 0 = fold_left hex_step acc n.
Proof.
  induction f as [|f IH]; intros n acc Hn; cbn [hex_fuel pow16] in *.
  - assert (n = 0) by lia. subst n. reflexivity.
  - destruct (N.ltb_spec n 16) as [Hlt|Hge].
    + change (fold_left hex_step (hex_char n :: acc) 0) with (fold_left hex_step acc (hex_step 0 (hex_char n))).
      f_equal. unfold hex_step. rewrite hex_char_val by exact Hlt. lia.
    + assert (Hm : n mod 16 < 16) by (apply N.mod_lt; lia).
      assert (Hd : n / 16 < pow16 f) by (apply N.div_lt_upper_bound; lia).
      rewrite IH by exact Hd.
      change (fold_left hex_step (hex_char (n mod 16) :: acc) (n / 16))
        with (fold_left hex_step acc (hex_step (n / 16) (hex_char (n mod 16)))).
      f_equal. unfold hex_step. rewrite hex_char_val by exact Hm.
      pose proof (N.div_mod n 16). lia.
Qed.

Lemma pos_lt_pow16 p : Npos p < pow16 (Pos.size_nat p).
Proof.
  induction p as [p IH|p IH|]; cbn [Pos.size_nat pow16].
  - change (Npos p~1) with (2 * Npos p + 1). lia.
  - change (Npos p~0) with (2 * Npos p). lia.
  - lia.
Qed.

Lemma N_lt_pow16 n : n < pow16 (S (N.size_nat n)).
Proof.
  destruct n as [|p]; cbn [N.size_nat pow16]; [lia|].
  pose proof (pos_lt_pow16 p). lia.
Qed.

Theorem hex_value_of_N n : hex_value (hex_of_N n) = n.
Proof. unfold hex_value, hex_of_N. rewrite hex_fuel_value by apply N_lt_pow16. reflexivity. Qed.

Theorem hex_of_N_inj a b : hex_of_N a = hex_of_N b -> a = b.
Proof. intros H. rewrite <- (hex_value_of_N a), <- (hex_value_of_N b), H. reflexivity. Qed.

Lemma hex_fuel_Forall (P : ascii -> Prop) (HP : forall d, d < 16 -> P (hex_char d)) f :
  forall n acc, Forall P acc -> Forall P (hex_fuel f n acc).
Proof.
  induction f as [|f IH]; intros n acc Ha; cbn [hex_fuel]; [exact Ha|].
  destruct (N.ltb_spec n 16) as [Hlt|Hge].
  - constructor; [apply HP, Hlt|exact Ha].
  - apply IH. constructor; [|exact Ha]. apply HP, N.mod_lt. lia.
Qed.

Theorem hex_of_N_digits n : Forall is_hex_char (hex_of_N n).
Proof. unfold hex_of_N. apply hex_fuel_Forall; [exact hex_char_is_hex|constructor]. Qed.

Lemma underscore_not_hex : ~ is_hex_char "_"%char.
Proof. unfold is_hex_char. change (code "_"%char) with 95. lia. Qed.

Theorem hex_of_N_no_underscore n : ~ In "_"%char (hex_of_N n).
Proof.
  intros H. pose proof (hex_of_N_digits n) as F. rewrite Forall_forall in F.
  exact (underscore_not_hex (F _ H)).
Qed.

Lemma is_hex_char_alnum c : is_hex_char c -> is_alnum c = true.
Proof.
  unfold is_hex_char, is_alnum, is_alpha, is_upper, is_lower, is_digit. intros [[H1 H2]|[H1 H2]].
  - assert (E1 : N.leb 48 (code c) = true) by (apply N.leb_le; lia).
    assert (E2 : N.leb (code c) 57 = true) by (apply N.leb_le; lia).
    rewrite E1, E2. apply orb_true_r.
  - assert (E1 : N.leb 97 (code c) = true) by (apply N.leb_le; lia).
    assert (E2 : N.leb (code c) 122 = true) by (apply N.leb_le; lia).
    rewrite E1, E2. cbn [andb]. rewrite orb_true_r. reflexivity.
Qed.

End Hex.

(* ------------------------------------------------------------------------- *)
(** * Local names: shape, injectivity in the counter, legal Go identifiers *)

Definition ident_char (c : ascii) : Prop := is_alnum c = true \/ c = "_"%char.

Lemma local_name_shape n p :
  local_name n p = "i"%char :: hex_of_N n ++ "_"%char :: sanitize (last_or (split_on "/"%char p) []).
Proof. reflexivity. Qed.

Theorem local_name_inj i p j q : local_name i p = local_name j q -> i = j.
Proof.
  rewrite !local_name_shape. intros E. injection E as E.
  apply split_at_first in E; try apply hex_of_N_no_underscore.
  apply hex_of_N_inj, E.
Qed.

Lemma sanitize_fuel_ident f : forall x, Forall ident_char (sanitize_fuel f x).
Proof.
  induction f as [|f IH]; intros x; cbn [sanitize_fuel]; [constructor|].
  destruct x as [|c x]; [constructor|].
  destruct (decode_rune (c :: x)) as [[r w]|].
  - constructor; [|apply IH].
    destruct (N.ltb r 128 && is_alnum c) eqn:E.
    + apply andb_true_iff in E. left; apply E.
    + right; reflexivity.
  - constructor; [right; reflexivity|apply IH].
Qed.

Lemma sanitize_ident x : Forall ident_char (sanitize x).
Proof. apply sanitize_fuel_ident. Qed.

Theorem local_name_ident n p : Forall ident_char (local_name n p).
Proof.
  rewrite local_name_shape. constructor; [left; reflexivity|].
  apply Forall_app. split.
  - eapply Forall_impl; [|apply hex_of_N_digits]. intros c H. left. apply is_hex_char_alnum, H.
  - constructor; [right; reflexivity|apply sanitize_ident].
Qed.

Theorem local_name_head n p : exists t, local_name n p = "i"%char :: t.
Proof. rewrite local_name_shape. eexists; reflexivity. Qed.

(** a legal Go identifier: first byte is a letter (here always [i]), all bytes in [A-Za-z0-9_] *)
Theorem local_name_go_identifier n p :
  (exists t, local_name n p = "i"%char :: t) /\ is_alpha "i"%char = true /\ Forall ident_char (local_name n p).
Proof. split; [apply local_name_head|]. split; [reflexivity|apply local_name_ident]. Qed.

(* ------------------------------------------------------------------------- *)
(** * The invariant *)

Definition inv (st : ist) : Prop :=
  length (is_imports st) = N.to_nat (is_counter st) /\
  NoDup (keys (is_imports st)) /\
  (forall i p a, nth_error (is_imports st) i = Some (p, a) -> a = local_name (N.of_nat i) p).

Theorem inv_ist0 : inv ist0.
Proof.
  unfold inv, ist0; cbn [is_imports is_counter length keys map]. split; [reflexivity|]. split; [constructor|].
  intros [|i] p a H; discriminate H.
Qed.

Theorem inv_alias_abs st p : inv st -> inv (snd (alias_abs st p)).
Proof.
  intros Hinv. unfold alias_abs. destruct (lookup p (is_imports st)) eqn:Hl; cbn [snd]; [exact Hinv|].
  destruct Hinv as (Hlen & Hnd & Hnth).
  unfold inv; cbn [is_imports is_counter]. split; [|split].
  - rewrite app_length, Hlen. cbn [length]. lia.
  - unfold keys. rewrite map_app. cbn [map fst]. apply NoDup_snoc; [exact Hnd|].
    apply lookup_None_keys, Hl.
  - intros i q a H. destruct (Nat.lt_ge_cases i (length (is_imports st))) as [Hlt|Hge].
    + rewrite nth_error_app1 in H by exact Hlt. apply Hnth, H.
    + rewrite nth_error_app2 in H by exact Hge.
      destruct (i - length (is_imports st))%nat as [|k] eqn:Ek.
      * cbn [nth_error] in H. injection H as <- <-.
        replace (N.of_nat i) with (is_counter st) by lia. reflexivity.
      * cbn [nth_error] in H. destruct k; discriminate H.
Qed.

Theorem inv_alias st imp : inv st -> inv (snd (alias st imp)).
Proof. apply inv_alias_abs. Qed.

Theorem inv_register_prefix st al path : inv st -> inv (fst (register_prefix al path st)).
Proof.
  intros Hinv. unfold register_prefix. destruct (lookup al (is_prefixes st)); cbn [fst]; exact Hinv.
Qed.

(** the same results in "equational" form *)
Corollary inv_alias_abs' st p a st' : inv st -> alias_abs st p = (a, st') -> inv st'.
Proof. intros H E. pose proof (inv_alias_abs st p H) as H'. rewrite E in H'. exact H'. Qed.

Corollary inv_alias' st imp a st' : inv st -> alias st imp = (a, st') -> inv st'.
Proof. apply inv_alias_abs'. Qed.

Corollary inv_register_prefix' st al path st' e : inv st -> register_prefix al path st = (st', e) -> inv st'.
Proof. intros H E. pose proof (inv_register_prefix st al path H) as H'. rewrite E in H'. exact H'. Qed.

(* ------------------------------------------------------------------------- *)
(** * Local names handed out are pairwise different *)

Theorem local_names_NoDup st : inv st -> NoDup (map snd (is_imports st)).
Proof.
  intros (Hlen & Hnd & Hnth). apply NoDup_nth_error. intros i j Hi E.
  rewrite map_length in Hi. rewrite !nth_error_map in E.
  destruct (nth_error (is_imports st) i) as [[p a]|] eqn:Ei.
  2:{ apply nth_error_None in Ei. lia. }
  destruct (nth_error (is_imports st) j) as [[q b]|] eqn:Ej; [|discriminate E].
  cbn [option_map snd] in E. injection E as E.
  apply Hnth in Ei. apply Hnth in Ej. subst a b.
  apply local_name_inj in E. lia.
Qed.

Theorem local_names_unique st p q a b :
  inv st -> In (p, a) (is_imports st) -> In (q, b) (is_imports st) -> p <> q -> a <> b.
Proof.
  intros Hinv Hp Hq Hne E. subst b.
  pose proof (local_names_NoDup st Hinv) as Hnd.
  destruct Hinv as (Hlen & _ & Hnth).
  apply In_nth_error in Hp. destruct Hp as [i Hi].
  apply In_nth_error in Hq. destruct Hq as [j Hj].
  assert (i = j).
  { pose proof (Hnth _ _ _ Hi) as E1. pose proof (Hnth _ _ _ Hj) as E2.
    rewrite E1 in E2. apply local_name_inj in E2. lia. }
  subst j. rewrite Hi in Hj. congruence.
Qed.

(** in terms of [lookup] *)
Corollary local_names_unique_lookup st p q a :
  inv st -> lookup p (is_imports st) = Some a -> lookup q (is_imports st) = Some a -> p = q.
Proof.
  intros Hinv Hp Hq. destruct (str_eq_dec p q) as [E|Hne]; [exact E|]. exfalso.
  apply lookup_Some_In in Hp. apply lookup_Some_In in Hq.
  exact (local_names_unique st p q a a Hinv Hp Hq Hne eq_refl).
Qed.

(* ------------------------------------------------------------------------- *)
(** * Once-only: a path gets one name, for ever *)

Theorem alias_abs_lookup st p a st' : alias_abs st p = (a, st') -> lookup p (is_imports st') = Some a.
Proof.
  unfold alias_abs. destruct (lookup p (is_imports st)) as [a0|] eqn:Hl; intros E; injection E as <- <-.
  - exact Hl.
  - cbn [is_imports]. rewrite lookup_app, Hl. apply lookup_single.
Qed.

Theorem alias_abs_idem st p a st' : alias_abs st p = (a, st') -> alias_abs st' p = (a, st').
Proof. intros E. apply alias_abs_lookup in E. unfold alias_abs. rewrite E. reflexivity. Qed.

Theorem alias_abs_stable st p a st' q b :
  alias_abs st p = (a, st') -> lookup q (is_imports st) = Some b -> lookup q (is_imports st') = Some b.
Proof.
  unfold alias_abs. destruct (lookup p (is_imports st)) as [a0|] eqn:Hl; intros E Hq; injection E as <- <-.
  - exact Hq.
  - cbn [is_imports]. apply lookup_app_Some, Hq.
Qed.

Theorem alias_abs_known st p a : lookup p (is_imports st) = Some a -> alias_abs st p = (a, st).
Proof. intros H. unfold alias_abs. rewrite H. reflexivity. Qed.

Theorem alias_abs_prefixes st p : is_prefixes (snd (alias_abs st p)) = is_prefixes st.
Proof. unfold alias_abs. destruct (lookup p (is_imports st)); reflexivity. Qed.

(** the same for user-written imports: alias expansion only reads [is_prefixes], which [alias] never changes *)
Lemma decorate_import_prefixes st st' imp :
  is_prefixes st' = is_prefixes st -> decorate_import st' imp = decorate_import st imp.
Proof. intros E. unfold decorate_import. rewrite E. reflexivity. Qed.

Theorem alias_lookup st imp a st' :
  alias st imp = (a, st') -> lookup (decorate_import st imp) (is_imports st') = Some a.
Proof. apply alias_abs_lookup. Qed.

Theorem alias_idem st imp a st' : alias st imp = (a, st') -> alias st' imp = (a, st').
Proof.
  unfold alias. intros E.
  assert (Hp : is_prefixes st' = is_prefixes st).
  { pose proof (alias_abs_prefixes st (decorate_import st imp)) as H. rewrite E in H. exact H. }
  rewrite (decorate_import_prefixes st st' imp Hp). exact (alias_abs_idem _ _ _ _ E).
Qed.

Theorem alias_stable st imp a st' q b :
  alias st imp = (a, st') -> lookup q (is_imports st) = Some b -> lookup q (is_imports st') = Some b.
Proof. apply alias_abs_stable. Qed.

(** a new name is handed out only for a new path, and it is the one built from the current counter *)
Theorem alias_abs_fresh st p :
  lookup p (is_imports st) = None ->
  fst (alias_abs st p) = local_name (is_counter st) p /\
  is_counter (snd (alias_abs st p)) = (is_counter st + 1)%N.
Proof. intros H. unfold alias_abs. rewrite H. split; reflexivity. Qed.

(* ------------------------------------------------------------------------- *)
(** * [cut_slash] and [decorate_import] *)

Theorem cut_slash_spec x :
  match cut_slash x with
  | (a, None) => x = a /\ ~ In "/"%char a
  | (a, Some b) => x = a ++ "/"%char :: b /\ ~ In "/"%char a
  end.
Proof.
  induction x as [|c x IH]; cbn [cut_slash].
  - split; [reflexivity|intros []].
  - destruct (Ascii.eqb_spec c "/"%char) as [->|Hne].
    + split; [reflexivity|intros []].
    + destruct (cut_slash x) as [a [b|]]; destruct IH as [-> Hn]; (split; [reflexivity|]);
        intros [E|H]; auto.
Qed.

Corollary cut_slash_None x a : cut_slash x = (a, None) -> x = a /\ ~ In "/"%char a.
Proof. intros E. pose proof (cut_slash_spec x) as H. rewrite E in H. exact H. Qed.

Corollary cut_slash_Some x a b : cut_slash x = (a, Some b) -> x = a ++ "/"%char :: b /\ ~ In "/"%char a.
Proof. intros E. pose proof (cut_slash_spec x) as H. rewrite E in H. exact H. Qed.

(** conversely: the first segment is *the* text before the first "/" *)
Lemma cut_slash_app a b : ~ In "/"%char a -> cut_slash (a ++ "/"%char :: b) = (a, Some b).
Proof.
  induction a as [|c a IH]; intros Hn; cbn [app cut_slash].
  - reflexivity.
  - destruct (Ascii.eqb_spec c "/"%char) as [->|Hne]; [exfalso; apply Hn; left; reflexivity|].
    rewrite IH; [reflexivity|]. intros H; apply Hn; right; exact H.
Qed.

Lemma cut_slash_whole a : ~ In "/"%char a -> cut_slash a = (a, None).
Proof.
  induction a as [|c a IH]; intros Hn; cbn [cut_slash].
  - reflexivity.
  - destruct (Ascii.eqb_spec c "/"%char) as [->|Hne]; [exfalso; apply Hn; left; reflexivity|].
    rewrite IH; [reflexivity|]. intros H; apply Hn; right; exact H.
Qed.

Theorem decorate_import_spec st imp :
  match cut_slash imp with
  | (seg, rest) =>
    match lookup seg (is_prefixes st) with
    | Some path => decorate_import st imp = match rest with
                                            | Some r => path ++ "/"%char :: r
                                            | None => path
                                            end
    | None => decorate_import st imp = imp
    end
  end.
Proof.
  unfold decorate_import. destruct (cut_slash imp) as [seg rest].
  destruct (lookup seg (is_prefixes st)); [|reflexivity]. destruct rest; reflexivity.
Qed.

(** alias applied to "alias/rest" *)
Theorem decorate_import_hit_rest st seg r path :
  ~ In "/"%char seg -> lookup seg (is_prefixes st) = Some path ->
  decorate_import st (seg ++ "/"%char :: r) = path ++ "/"%char :: r.
Proof. intros Hn Hl. unfold decorate_import. rewrite cut_slash_app by exact Hn. rewrite Hl. reflexivity. Qed.

(** alias applied to "alias" *)
Theorem decorate_import_hit_whole st seg path :
  ~ In "/"%char seg -> lookup seg (is_prefixes st) = Some path -> decorate_import st seg = path.
Proof. intros Hn Hl. unfold decorate_import. rewrite cut_slash_whole by exact Hn. rewrite Hl. reflexivity. Qed.

(** an alias only applies to the whole first segment *)
Theorem decorate_import_miss st imp :
  ~ In (fst (cut_slash imp)) (keys (is_prefixes st)) -> decorate_import st imp = imp.
Proof.
  intros H. apply lookup_None_keys in H. unfold decorate_import.
  destruct (cut_slash imp) as [seg rest]. cbn [fst] in H. rewrite H. reflexivity.
Qed.

Corollary decorate_import_miss_rest st seg r :
  ~ In "/"%char seg -> ~ In seg (keys (is_prefixes st)) ->
  decorate_import st (seg ++ "/"%char :: r) = seg ++ "/"%char :: r.
Proof. intros Hn Hk. apply decorate_import_miss. rewrite cut_slash_app by exact Hn. exact Hk. Qed.

Corollary decorate_import_miss_whole st seg :
  ~ In "/"%char seg -> ~ In seg (keys (is_prefixes st)) -> decorate_import st seg = seg.
Proof. intros Hn Hk. apply decorate_import_miss. rewrite cut_slash_whole by exact Hn. exact Hk. Qed.

(** the result is always one of the three shapes *)
Corollary decorate_import_cases st imp :
  decorate_import st imp = imp \/
  exists seg path, ~ In "/"%char seg /\ lookup seg (is_prefixes st) = Some path /\
    ((imp = seg /\ decorate_import st imp = path) \/
     (exists r, imp = seg ++ "/"%char :: r /\ decorate_import st imp = path ++ "/"%char :: r)).
Proof.
  pose proof (decorate_import_spec st imp) as H. pose proof (cut_slash_spec imp) as C.
  destruct (cut_slash imp) as [seg rest].
  destruct (lookup seg (is_prefixes st)) as [path|] eqn:Hl; [|left; exact H].
  right. exists seg, path. destruct rest as [r|]; destruct C as [E Hn]; (split; [exact Hn|]); (split; [exact Hl|]).
  - right. exists r. split; assumption.
  - left. split; assumption.
Qed.

(* ------------------------------------------------------------------------- *)
(** * Imports(): a permutation of the table *)

Lemma insert_by_perm {A} (lt : A -> A -> bool) x l : Permutation (insert_by lt x l) (x :: l).
Proof.
  induction l as [|y l IH]; cbn [insert_by]; [reflexivity|].
  destruct (lt y x); [|reflexivity].
  rewrite IH. apply perm_swap.
Qed.

Lemma sort_by_perm {A} (lt : A -> A -> bool) l : Permutation (sort_by lt l) l.
Proof.
  induction l as [|x l IH]; cbn [sort_by]; [reflexivity|].
  rewrite insert_by_perm. constructor. exact IH.
Qed.

Theorem imports_sorted_perm st : Permutation (imports_sorted st) (is_imports st).
Proof. apply sort_by_perm. Qed.

Corollary imports_sorted_In st e : In e (imports_sorted st) <-> In e (is_imports st).
Proof.
  split; apply Permutation_in; [|symmetry]; apply imports_sorted_perm.
Qed.

Corollary imports_sorted_names_NoDup st : inv st -> NoDup (map snd (imports_sorted st)).
Proof.
  intros H. apply (Permutation_NoDup (l := map snd (is_imports st))).
  - apply Permutation_map. symmetry. apply imports_sorted_perm.
  - apply local_names_NoDup, H.
Qed.

Corollary imports_sorted_keys_NoDup st : inv st -> NoDup (keys (imports_sorted st)).
Proof.
  intros (_ & H & _). apply (Permutation_NoDup (l := keys (is_imports st))).
  - apply Permutation_map. symmetry. apply imports_sorted_perm.
  - exact H.
Qed.

(* ------------------------------------------------------------------------- *)
Print Assumptions hex_of_N_inj.
Print Assumptions hex_of_N_no_underscore.
Print Assumptions local_name_inj.
Print Assumptions local_names_NoDup.
Print Assumptions local_names_unique.
Print Assumptions local_name_go_identifier.
Print Assumptions inv_alias_abs.
Print Assumptions inv_register_prefix.
Print Assumptions alias_abs_lookup.
Print Assumptions alias_abs_idem.
Print Assumptions alias_abs_stable.
Print Assumptions alias_idem.
Print Assumptions cut_slash_spec.
Print Assumptions decorate_import_miss.
Print Assumptions imports_sorted_perm.
