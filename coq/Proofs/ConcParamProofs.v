(** Every interleaving of the protocol of Runtime/ConcParam.v: per-parameter mutex, cache check / evaluate / store, the container-wide
    read/write lock (GetParam, Get, ... as readers; OverrideParam / HotSwap as writer sections with overrides and invalidations).
    Main results, all for every initial set of definitions, every schedule and every reachable state (no acyclicity assumed):
      [rw_lock_discipline], [writer_unique]      the global lock: one writer; while it holds, the container is quiescent; counter = holders
      [param_lock_discipline]                    holder of a mutex = the unique frame inside that critical section
      [param_evaluated_bound]                    evaluated p <= 1 + overrides p + invalidations p
      [param_evaluated_at_most_once]             ... <= 1 if p was never overridden / invalidated
      [param_cached_after_eval], [param_phases]  cached => evaluated exactly once since the last deletion; the phases in between
      [step_reader], [cached_value_stable]       only the lock-holding writer deletes / redefines; a cached entry is never recomputed
      [override_only_own_entry]                  an override leaves the entries of dependent parameters alone (stale values)
      [example_trace], [example_public_nested]   concrete runs (contention, hit, override, re-evaluation; recursive read lock)
      [example_deadlock]                         FINDING: recursive read lock (generated code) + one concurrent writer: the container is dead *)
From GV Require Import Base.Str Runtime.ConcParam.
From Coq Require Import List Arith Bool Lia.
Import ListNotations.

Module CPP.
Import CP.

Local Notation stk st t := (t_stack (threads st t)).
Local Notation md st t := (t_mode (threads st t)).

Ltac sst := cbn [defs plocks cache evaluated fresh overrides invalidations greaders gwriter threads set_thread set_stack set_mode
                 set_greaders set_gwriter set_plock set_cached count_eval do_override do_invalidate t_mode t_stack] in *.

(* ------------------------------------------------------------------------------------------------------------------ *)
(** * Function updates, sums *)

Lemma upd_same {A} (f : nat -> A) k v : upd f k v k = v.
Proof. unfold upd. now rewrite Nat.eqb_refl. Qed.

Lemma upd_other {A} (f : nat -> A) k v x : x <> k -> upd f k v x = f x.
Proof. intros H. unfold upd. destruct (Nat.eqb_spec x k); [contradiction | reflexivity]. Qed.

Fixpoint sumf (f : nat -> nat) (l : list nat) : nat := match l with [] => 0 | x :: r => f x + sumf f r end.

Lemma sumf_ext f g l : (forall x, In x l -> f x = g x) -> sumf f l = sumf g l.
Proof. induction l as [|a r IH]; cbn [sumf]; intros H; [reflexivity|]. rewrite (H a), IH; auto with datatypes. Qed.

Lemma sumf_In_le f l x : In x l -> f x <= sumf f l.
Proof. induction l as [|a r IH]; cbn [sumf In]; [tauto|]. intros [->|H]; [lia|]. specialize (IH H). lia. Qed.

(** changing the function at one point of a duplicate-free list *)
Lemma sumf_change f g l t : NoDup l -> In t l -> (forall x, x <> t -> g x = f x) -> sumf g l + f t = sumf f l + g t.
Proof.
  induction l as [|a r IH]; cbn [sumf In]; intros ND Hin Hext; [tauto|].
  inversion ND as [|? ? Hna ND']; subst.
  destruct (Nat.eq_dec a t) as [->|Hne].
  - rewrite (sumf_ext g f r); [lia|]. intros x Hx. apply Hext. intros ->. contradiction.
  - destruct Hin as [->|Hin]; [congruence|]. specialize (IH ND' Hin Hext). rewrite (Hext a Hne). lia.
Qed.

(* ------------------------------------------------------------------------------------------------------------------ *)
(** * Classification of frames *)

Definition is_rlock (p : pc) : bool := match p with PRLock => true | _ => false end.
Definition is_crit (p : pc) : bool := match p with PCheck | PDeps _ | PEval | PStore | PRelease => true | _ => false end.
Definition is_store (p : pc) : bool := match p with PStore => true | _ => false end.
Definition is_mid (p : pc) : bool := match p with PDeps _ | PEval => true | _ => false end.
Definition is_deps (p : pc) : bool := match p with PDeps _ => true | _ => false end.

(** the frame holds a read lock of its own: a public activation past [PRLock] *)
Definition rdb (fr : frame) : bool := f_pub fr && negb (is_rlock (f_pc fr)).
(** the frame is inside the critical section of parameter [i] *)
Definition heldb (i : pid) (fr : frame) : bool := Nat.eqb (f_id fr) i && is_crit (f_pc fr).
Definition storeb (i : pid) (fr : frame) : bool := Nat.eqb (f_id fr) i && is_store (f_pc fr).
Definition midb (i : pid) (fr : frame) : bool := Nat.eqb (f_id fr) i && is_mid (f_pc fr).

Fixpoint nrd (l : list frame) : nat := match l with [] => 0 | fr :: r => (if rdb fr then 1 else 0) + nrd r end.
Fixpoint nheld (i : pid) (l : list frame) : nat := match l with [] => 0 | fr :: r => (if heldb i fr then 1 else 0) + nheld i r end.
Definition hasS (i : pid) (l : list frame) : bool := existsb (storeb i) l.
Definition hasB (i : pid) (l : list frame) : bool := existsb (midb i) l.

Definition held (i : pid) (fr : frame) : Prop := f_id fr = i /\ is_crit (f_pc fr) = true.

Lemma heldb_held i fr : heldb i fr = true <-> held i fr.
Proof. unfold heldb, held. now rewrite andb_true_iff, Nat.eqb_eq. Qed.

Lemma nheld_In i l : 1 <= nheld i l <-> exists fr, In fr l /\ held i fr.
Proof.
  induction l as [|fr r IH]; cbn [nheld In].
  - split; [lia | intros (fr & [] & _)].
  - destruct (heldb i fr) eqn:E.
    + split; [intros _ | lia]. exists fr. split; [now left | now apply heldb_held].
    + cbn [Nat.add]. rewrite IH. split.
      * intros (fr' & Hin & Hh). exists fr'. auto.
      * intros (fr' & [<- | Hin] & Hh).
        -- apply heldb_held in Hh. congruence.
        -- exists fr'. auto.
Qed.

Lemma nheld_nth_unique i l : nheld i l <= 1 -> forall n1 n2 fr1 fr2,
  nth_error l n1 = Some fr1 -> nth_error l n2 = Some fr2 -> held i fr1 -> held i fr2 -> n1 = n2.
Proof.
  induction l as [|fr r IH]; intros Hle n1 n2 fr1 fr2 H1 H2 Hh1 Hh2.
  - destruct n1; discriminate.
  - cbn [nheld] in Hle.
    assert (Hr : forall n fr', nth_error r n = Some fr' -> held i fr' -> 1 <= nheld i r).
    { intros n fr' Hn Hh. apply nheld_In. exists fr'. split; [eapply nth_error_In; eauto | auto]. }
    destruct n1 as [|n1], n2 as [|n2]; cbn [nth_error] in H1, H2.
    + reflexivity.
    + injection H1 as ->. apply heldb_held in Hh1. rewrite Hh1 in Hle. specialize (Hr _ _ H2 Hh2). lia.
    + injection H2 as ->. apply heldb_held in Hh2. rewrite Hh2 in Hle. specialize (Hr _ _ H1 Hh1). lia.
    + f_equal. apply (IH ltac:(destruct (heldb i fr); lia) n1 n2 fr1 fr2); auto.
Qed.

Lemma nrd_In l : 1 <= nrd l <-> exists fr, In fr l /\ rdb fr = true.
Proof.
  induction l as [|fr r IH]; cbn [nrd In].
  - split; [lia | intros (fr & [] & _)].
  - destruct (rdb fr) eqn:E.
    + split; [intros _ | lia]. exists fr. auto.
    + cbn [Nat.add]. rewrite IH. split.
      * intros (fr' & Hin & Hh). exists fr'. auto.
      * intros (fr' & [<- | Hin] & Hh); [congruence|]. exists fr'. auto.
Qed.

Lemma hasS_nheld i l : hasS i l = true -> 1 <= nheld i l.
Proof.
  induction l as [|fr r IH]; cbn [hasS existsb nheld]; [discriminate|].
  unfold storeb at 1, heldb. destruct (Nat.eqb (f_id fr) i); cbn [andb].
  - destruct (f_pc fr); cbn; try lia; intros H; apply IH in H; lia.
  - cbn [orb]. intros H; apply IH in H. lia.
Qed.

Lemma hasB_nheld i l : hasB i l = true -> 1 <= nheld i l.
Proof.
  induction l as [|fr r IH]; cbn [hasB existsb nheld]; [discriminate|].
  unfold midb at 1, heldb. destruct (Nat.eqb (f_id fr) i); cbn [andb].
  - destruct (f_pc fr); cbn; try lia; intros H; apply IH in H; lia.
  - cbn [orb]. intros H; apply IH in H. lia.
Qed.

Lemma hasS_In i l : hasS i l = true <-> exists b, In {| f_id := i; f_pub := b; f_pc := PStore |} l.
Proof.
  unfold hasS. rewrite existsb_exists. split.
  - intros ([j b p] & Hin & Hs). unfold storeb in Hs. cbn in Hs. apply andb_true_iff in Hs as [Hj Hp].
    apply Nat.eqb_eq in Hj. subst j. destruct p; try discriminate. eauto.
  - intros (b & Hin). eexists. split; [exact Hin|]. unfold storeb. cbn. now rewrite Nat.eqb_refl.
Qed.

Lemma hasB_In i l : hasB i l = true <-> exists b p, In {| f_id := i; f_pub := b; f_pc := p |} l /\ is_mid p = true.
Proof.
  unfold hasB. rewrite existsb_exists. split.
  - intros ([j b p] & Hin & Hs). unfold midb in Hs. cbn in Hs. apply andb_true_iff in Hs as [Hj Hp].
    apply Nat.eqb_eq in Hj. subst j. eauto.
  - intros (b & p & Hin & Hp). eexists. split; [exact Hin|]. unfold midb. cbn. now rewrite Nat.eqb_refl.
Qed.

Lemma nrd_cons j b p r : nrd ({| f_id := j; f_pub := b; f_pc := p |} :: r) = (if b && negb (is_rlock p) then 1 else 0) + nrd r.
Proof. reflexivity. Qed.
Lemma nheld_cons i j b p r : nheld i ({| f_id := j; f_pub := b; f_pc := p |} :: r) = (if Nat.eqb j i && is_crit p then 1 else 0) + nheld i r.
Proof. reflexivity. Qed.
Lemma hasS_cons i j b p r : hasS i ({| f_id := j; f_pub := b; f_pc := p |} :: r) = Nat.eqb j i && is_store p || hasS i r.
Proof. reflexivity. Qed.
Lemma hasB_cons i j b p r : hasB i ({| f_id := j; f_pub := b; f_pc := p |} :: r) = Nat.eqb j i && is_mid p || hasB i r.
Proof. reflexivity. Qed.
Lemma nrd_nil : nrd [] = 0. Proof. reflexivity. Qed.
Lemma nheld_nil i : nheld i [] = 0. Proof. reflexivity. Qed.
Lemma hasS_nil i : hasS i [] = false. Proof. reflexivity. Qed.
Lemma hasB_nil i : hasB i [] = false. Proof. reflexivity. Qed.

Lemma entry_eq i b : entry i b = {| f_id := i; f_pub := b; f_pc := if b then PRLock else PAcquire |}.
Proof. reflexivity. Qed.

Ltac eqb_all :=
  repeat match goal with
  | |- context [Nat.eqb ?a ?b] => destruct (Nat.eqb_spec a b); subst; cbn [andb orb negb Nat.add] in *
  | H : context [Nat.eqb ?a ?b] |- _ => destruct (Nat.eqb_spec a b); subst; cbn [andb orb negb Nat.add] in *
  end.

Ltac frames :=
  rewrite ?entry_eq in *;
  rewrite ?nrd_cons, ?nheld_cons, ?hasS_cons, ?hasB_cons, ?nrd_nil, ?nheld_nil, ?hasS_nil, ?hasB_nil in *;
  cbn [is_rlock is_crit is_store is_mid is_deps negb] in *;
  rewrite ?andb_false_r, ?andb_true_r, ?orb_false_r in *; cbn [andb orb Nat.add] in *.

(* ------------------------------------------------------------------------------------------------------------------ *)
(** * Generic facts about steps and runs *)

Lemma step_other_thread st t st' : step st t st' -> forall t', t' <> t -> threads st' t' = threads st t'.
Proof. intros H t' Hne. destruct H; sst; unfold upd; destruct (Nat.eqb_spec t' t); subst; congruence. Qed.

Lemma reach_ind_inv (P : state -> Prop) :
  (forall st t st', P st -> step st t st' -> P st') -> forall st st', reach st st' -> P st -> P st'.
Proof. intros Hs st st' H. induction H; eauto. Qed.

Lemma reach_trans st1 st2 st3 : reach st1 st2 -> reach st2 st3 -> reach st1 st3.
Proof. intros H. induction H; intros H3; [exact H3|]. eapply RStep; eauto. Qed.

(* ------------------------------------------------------------------------------------------------------------------ *)
(** * 0. Structure: stacks, the read/write lock *)

Definition sessn (m : mode) : nat := match m with MSess => 1 | _ => 0 end.
(** number of read locks thread [t] holds *)
Definition rdc (st : state) (t : tid) : nat := nrd (stk st t) + sessn (md st t).

Fixpoint bottom (fr : frame) (rest : list frame) : frame := match rest with [] => fr | g :: r => bottom g r end.

(** only the innermost activation is active, the others wait for a dependency; the outermost activation of a thread that is not inside a
    service-side call is a public GetParam; writers evaluate nothing *)
Definition shape_ok (th : thread) : Prop :=
  (is_writer_mode (t_mode th) = true -> t_stack th = []) /\
  match t_stack th with
  | [] => True
  | fr :: rest => Forall (fun g => is_deps (f_pc g) = true) rest /\ (t_mode th = MOut -> f_pub (bottom fr rest) = true)
  end.

Definition struct_inv (st : state) : Prop :=
  (forall t, shape_ok (threads st t)) /\
  (forall t, is_writer_mode (md st t) = true <-> gwriter st = Some t) /\
  (forall t, md st t = MWHold -> greaders st = 0) /\
  (exists l, NoDup l /\ (forall t, ~ In t l -> rdc st t = 0) /\ greaders st = sumf (rdc st) l).

Lemma struct_inv_init d0 : struct_inv (init d0).
Proof.
  repeat split; cbn; try discriminate; auto.
  exists []. repeat split; auto. constructor.
Qed.

Lemma step_rdc st t st' : step st t st' ->
  (greaders st' = greaders st /\ rdc st' t = rdc st t) \/
  (greaders st' = S (greaders st) /\ rdc st' t = S (rdc st t)) \/
  (greaders st' = pred (greaders st) /\ S (rdc st' t) = rdc st t).
Proof.
  intros Hs. unfold rdc. destruct Hs; sst; rewrite ?upd_same; sst;
    repeat match goal with H : t_stack _ = _ |- _ => rewrite H | H : t_mode _ = _ |- _ => rewrite H end; frames; cbn [sessn]; auto.
  - destruct pub; frames; auto.
  - destruct (d_pub (defs st i)); frames; auto.
  - destruct p; try discriminate; frames; auto.
  - destruct b; frames; auto.
Qed.

Lemma bottom_pub_pc i b p1 p2 rest :
  f_pub (bottom {| f_id := i; f_pub := b; f_pc := p1 |} rest) = f_pub (bottom {| f_id := i; f_pub := b; f_pc := p2 |} rest).
Proof. destruct rest; reflexivity. Qed.

Lemma bottom_In fr rest : In (bottom fr rest) (fr :: rest).
Proof. revert fr. induction rest as [|g r IH]; intros fr; cbn [bottom]; [now left | right; apply IH]. Qed.

Lemma step_shape st t st' : step st t st' -> shape_ok (threads st t) -> shape_ok (threads st' t).
Proof.
  intros Hs (W & S). unfold shape_ok. destruct Hs; sst; rewrite ?upd_same; sst;
    repeat match goal with H : t_stack _ = _ |- _ => rewrite H in * | H : t_mode _ = _ |- _ => rewrite H in * end;
    cbn [is_writer_mode] in *; frames.
  all: (split; [intros Hw; try discriminate Hw; try (specialize (W Hw); discriminate W); auto | ]).
  all: try (match type of S with _ /\ _ => destruct S as [F B] end); auto.
  all: try (split; [ try constructor; auto | ]).
  all: try (intros Hm; try discriminate Hm; cbn [bottom f_pub]; auto).
  all: try (erewrite bottom_pub_pc; apply B; assumption).
  - destruct b; [split; [assumption | intros Hm; erewrite bottom_pub_pc; apply B; assumption]|].
    destruct rest as [|g r]; [exact I|]. inversion F; subst. split; [assumption | exact B].
  - destruct rest as [|g r]; [exact I|]. inversion F; subst. split; [assumption | exact B].
  - rewrite (W eq_refl). exact I.
  - rewrite (W eq_refl). exact I.
Qed.

Lemma struct_inv_step st t st' : struct_inv st -> step st t st' -> struct_inv st'.
Proof.
  intros (SH & WR & WH & (l & ND & OUT & SUM)) Hs.
  split; [|split; [|split]].
  - intros u. destruct (Nat.eq_dec u t) as [->|Hne].
    + eapply step_shape; eauto.
    + rewrite (step_other_thread _ _ _ Hs u Hne). apply SH.
  - intros u. pose proof (WR t) as WRt. specialize (WR u). pose proof (step_other_thread _ _ _ Hs u) as OT.
    destruct (SH t) as [Wt _].
    destruct Hs; sst; unfold upd in *; destruct (Nat.eqb_spec u t) as [->|Hne]; sst; try (rewrite OT by assumption); try assumption.
    all: repeat match goal with H : t_mode _ = _ |- _ => rewrite H in * end; cbn [is_writer_mode] in *; try tauto.
    + rewrite H1 in WR. split; [intros X; apply WR in X; discriminate X | intros X; congruence].
    + split; [discriminate | discriminate].
    + pose proof (proj1 WRt eq_refl) as G. split; [intros X; apply WR in X; congruence | discriminate].
  - intros u Hu. pose proof (WH u) as WHu. pose proof (proj1 (WR u)) as WRu. pose proof (step_other_thread _ _ _ Hs u) as OT.
    destruct (Nat.eq_dec u t) as [->|Hne]; [|rewrite OT in Hu by assumption; specialize (WHu Hu)];
      destruct Hs; sst; rewrite ?upd_same in Hu; sst; try congruence; try lia.
    all: try (rewrite Hu in WRu; specialize (WRu eq_refl); congruence).
    all: try (specialize (WHu Hu); lia).
  - assert (E : exists l', NoDup l' /\ In t l' /\ (forall u, ~ In u l' -> rdc st u = 0) /\ greaders st = sumf (rdc st) l').
    { destruct (in_dec Nat.eq_dec t l) as [Hin|Hnin]; [exists l; auto|].
      exists (t :: l). split; [constructor; auto|]. split; [now left|]. split.
      - intros u Hu. apply OUT. intros X. apply Hu. now right.
      - cbn [sumf]. rewrite (OUT t Hnin). lia. }
    clear l ND OUT SUM. destruct E as (l & ND & Hin & OUT & SUM).
    assert (OTH : forall u, u <> t -> rdc st' u = rdc st u).
    { intros u Hne. unfold rdc. now rewrite (step_other_thread _ _ _ Hs u Hne). }
    exists l. split; [assumption|]. split.
    + intros u Hu. rewrite OTH; [auto|]. intros ->. contradiction.
    + pose proof (sumf_change (rdc st) (rdc st') l t ND Hin OTH) as CH.
      pose proof (sumf_In_le (rdc st) l t Hin) as LE.
      destruct (step_rdc _ _ _ Hs) as [[E1 E2]|[[E1 E2]|[E1 E2]]]; lia.
Qed.

Lemma struct_inv_reach d0 st : reach (init d0) st -> struct_inv st.
Proof.
  intros H. refine (reach_ind_inv struct_inv _ _ _ H (struct_inv_init d0)).
  intros st0 t st1 IH Hs. eapply struct_inv_step; eauto.
Qed.

(** no read lock held at all: every thread is outside, or blocked at the entrance of a public GetParam *)
Definition parked (th : thread) : Prop :=
  t_mode th <> MSess /\ (t_stack th = [] \/ exists i, t_stack th = [{| f_id := i; f_pub := true; f_pc := PRLock |}]).

Lemma rdc_zero_parked st t : struct_inv st -> rdc st t = 0 -> parked (threads st t).
Proof.
  intros (SH & _) Hz. unfold rdc in Hz. destruct (SH t) as [W S]. split.
  - intros E. rewrite E in Hz. cbn [sessn] in Hz. lia.
  - destruct (stk st t) as [|fr rest] eqn:Es; [now left | right]. destruct S as [F B].
    destruct (md st t) eqn:Em; cbn [sessn is_writer_mode] in *; try lia; try (specialize (W eq_refl); discriminate W).
    specialize (B eq_refl). destruct rest as [|g r].
    + cbn [bottom] in B. destruct fr as [i b p]. cbn [f_pub] in B. subst b. frames. exists i.
      destruct p; cbn [is_rlock negb] in Hz; try lia. reflexivity.
    + exfalso. cbn [bottom] in B. pose proof (bottom_In g r) as Hin.
      rewrite Forall_forall in F. specialize (F _ Hin).
      assert (X : 1 <= nrd (fr :: g :: r)).
      { apply nrd_In. exists (bottom g r). split; [now right|]. unfold rdb. rewrite B. destruct (f_pc (bottom g r)); try discriminate. reflexivity. }
      lia.
Qed.

Lemma parked_no_crit th fr : parked th -> In fr (t_stack th) -> f_pc fr = PRLock.
Proof. intros (_ & [E | (i & E)]) Hin; rewrite E in Hin; cbn [In] in Hin; [tauto|]. destruct Hin as [<-|[]]. reflexivity. Qed.

(** no read lock held <-> every thread parked *)
Lemma greaders_zero st : struct_inv st -> greaders st = 0 -> forall t, parked (threads st t).
Proof.
  intros SI Hz t. apply rdc_zero_parked; [assumption|].
  destruct SI as (_ & _ & _ & (l & ND & OUT & SUM)).
  destruct (in_dec Nat.eq_dec t l) as [Hin|Hnin]; [|auto].
  pose proof (sumf_In_le (rdc st) l t Hin). lia.
Qed.

(** while the write lock is held, every thread is parked *)
Lemma writer_excludes st w : struct_inv st -> md st w = MWHold -> forall t, parked (threads st t).
Proof. intros SI Hw. apply greaders_zero; [assumption|]. destruct SI as (_ & _ & WH & _). eauto. Qed.

Lemma parked_counts th i : parked th -> nheld i (t_stack th) = 0 /\ hasS i (t_stack th) = false /\ hasB i (t_stack th) = false.
Proof. intros (_ & [E | (j & E)]); rewrite E; frames; auto. Qed.


(* ------------------------------------------------------------------------------------------------------------------ *)
(** * 1. The per-parameter mutexes *)

(** the number of frames of [i] inside the critical section on the stack of [t] is 1 if [t] holds the mutex of [i] and 0 otherwise *)
Definition lock_inv (st : state) : Prop :=
  forall i t, nheld i (stk st t) = match plocks st i with Some t' => if Nat.eqb t t' then 1 else 0 | None => 0 end.

Lemma lock_inv_init d0 : lock_inv (init d0).
Proof. intros i t. reflexivity. Qed.

Ltac notcon b := lazymatch b with true => fail | false => fail | _ => idtac end.
Ltac boolcases :=
  repeat match goal with
  | |- context [entry _ ?b] => notcon b; destruct b eqn:?; cbv beta iota
  | |- context [if ?b then _ :: _ else _] => notcon b; destruct b eqn:?; cbv beta iota
  | H : failable ?p = true |- _ => destruct p; try discriminate H; clear H
  end.

Lemma lock_inv_step st t0 st' : struct_inv st -> lock_inv st -> step st t0 st' -> lock_inv st'.
Proof.
  intros SI LK Hs i t. pose proof (LK i t) as Ht. pose proof (LK i t0) as Ht0.
  destruct Hs; sst; boolcases; unfold upd;
    try (destruct (Nat.eqb_spec t t0) as [->|Hne]; sst; [clear Ht; rewrite H in * | try rewrite H in Ht0]);
    frames; eqb_all; try assumption; try congruence.
  all: try (match goal with H : plocks _ _ = _ |- _ => rewrite H in * end); try assumption; try lia.
  all: try (repeat match goal with H : context [plocks ?s ?j] |- _ => destruct (plocks s j) as [?t|]; eqb_all end; try congruence; lia).
  destruct (parked_counts _ i0 (writer_excludes st t0 SI H t)) as (X & _). exact X.
Qed.

Lemma inv1_reach d0 st : reach (init d0) st -> struct_inv st /\ lock_inv st.
Proof.
  intros H. refine (reach_ind_inv (fun st => struct_inv st /\ lock_inv st) _ _ _ H (conj (struct_inv_init d0) (lock_inv_init d0))).
  intros st0 t st1 (IS & IL) Hs. split; [eapply struct_inv_step | eapply lock_inv_step]; eauto.
Qed.

Lemma lock_inv_le1 st i t : lock_inv st -> nheld i (stk st t) <= 1.
Proof. intros LK. rewrite (LK i t). destruct (plocks st i) as [t'|]; [destruct (Nat.eqb t t')|]; lia. Qed.

Lemma lock_inv_uniq st i t1 t2 : lock_inv st -> 1 <= nheld i (stk st t1) -> 1 <= nheld i (stk st t2) -> t1 = t2.
Proof.
  intros LK. rewrite (LK i t1), (LK i t2). destruct (plocks st i) as [t'|]; [|lia].
  destruct (Nat.eqb_spec t1 t'); destruct (Nat.eqb_spec t2 t'); subst; auto; lia.
Qed.

Lemma lock_inv_holder st i t : lock_inv st -> (plocks st i = Some t <-> 1 <= nheld i (stk st t)).
Proof.
  intros LK. rewrite (LK i t). destruct (plocks st i) as [t'|].
  - destruct (Nat.eqb_spec t t'); subst; split; intros; try lia; congruence.
  - split; [discriminate | lia].
Qed.

(** THEOREM 1 (lock discipline of the per-parameter mutexes).  In every reachable state, for every parameter [i]:
    (a) thread [t] holds the mutex of [i] iff some frame of [i] on its stack is inside the critical section (PCheck .. PRelease);
    (b) in the whole system there is at most ONE such frame (same thread, same position in its stack); no acyclicity needed:
        a thread re-entering [i] stays blocked at [PAcquire]; overrides replace the mutex only while nobody is inside (see Theorem 0);
    (c) an unlocked mutex means no frame of [i] inside the critical section anywhere. *)
Theorem param_lock_discipline d0 st i : reach (init d0) st ->
  (forall t, plocks st i = Some t <-> exists fr, In fr (stk st t) /\ f_id fr = i /\ is_crit (f_pc fr) = true) /\
  (forall t1 t2 n1 n2 fr1 fr2,
     nth_error (stk st t1) n1 = Some fr1 -> f_id fr1 = i -> is_crit (f_pc fr1) = true ->
     nth_error (stk st t2) n2 = Some fr2 -> f_id fr2 = i -> is_crit (f_pc fr2) = true ->
     t1 = t2 /\ n1 = n2) /\
  (plocks st i = None -> forall t fr, In fr (stk st t) -> f_id fr = i -> is_crit (f_pc fr) = false).
Proof.
  intros Hr. destruct (inv1_reach _ _ Hr) as [_ HL]. split; [|split].
  - intros t. rewrite (lock_inv_holder st i t HL), nheld_In. reflexivity.
  - intros t1 t2 n1 n2 fr1 fr2 H1 Hi1 Hp1 H2 Hi2 Hp2.
    assert (Hh1 : 1 <= nheld i (stk st t1)).
    { apply nheld_In. exists fr1. split; [eapply nth_error_In; eauto | split; auto]. }
    assert (Hh2 : 1 <= nheld i (stk st t2)).
    { apply nheld_In. exists fr2. split; [eapply nth_error_In; eauto | split; auto]. }
    assert (t1 = t2) as -> by (eapply lock_inv_uniq; eauto). split; [reflexivity|].
    eapply (nheld_nth_unique i (stk st t2)); eauto using lock_inv_le1; split; auto.
  - intros Hnone t fr Hin Hi. destruct (is_crit (f_pc fr)) eqn:Ep; auto.
    exfalso. assert (Hh : 1 <= nheld i (stk st t)) by (apply nheld_In; exists fr; split; [auto | split; auto]).
    apply (lock_inv_holder st i t HL) in Hh. congruence.
Qed.


(* ------------------------------------------------------------------------------------------------------------------ *)
(** * 2. At most one evaluation per cache epoch *)

(** the facts about one parameter [p]:  a frame of [p] between evaluation and store means: evaluated once in this epoch, not cached yet;
    a frame of [p] between the cache miss and the evaluation means: not evaluated in this epoch, not cached;
    cached means evaluated once in this epoch; the total number of evaluations is bounded by the number of epochs *)
Definition par_at (st : state) (p : pid) : Prop :=
  (forall t, hasS p (stk st t) = true -> fresh st p = 1 /\ cache st p = false) /\
  (forall t, hasB p (stk st t) = true -> fresh st p = 0 /\ cache st p = false) /\
  (cache st p = true -> fresh st p = 1) /\
  (cache st p = false -> fresh st p = 0 \/ exists t, hasS p (stk st t) = true) /\
  (fresh st p <= evaluated st p /\ evaluated st p <= fresh st p + overrides st p + invalidations st p).

Definition par_inv (st : state) : Prop := forall p, par_at st p.

Lemma par_inv_init d0 : par_inv (init d0).
Proof. intros p. cbn. repeat split; try discriminate; auto. Qed.

(** steps that neither touch the data of [p] nor the store / mid frames of [p] *)
Lemma par_neutral st st' t0 p :
  (forall u, u <> t0 -> threads st' u = threads st u) ->
  cache st' p = cache st p -> fresh st' p = fresh st p -> evaluated st' p = evaluated st p ->
  overrides st' p = overrides st p -> invalidations st' p = invalidations st p ->
  hasS p (stk st' t0) = hasS p (stk st t0) -> hasB p (stk st' t0) = hasB p (stk st t0) ->
  par_at st p -> par_at st' p.
Proof.
  intros OT E1 E2 E3 E4 E5 ES EB (A & B & C & D & E). unfold par_at. rewrite E1, E2, E3, E4, E5.
  assert (XS : forall u, hasS p (stk st' u) = hasS p (stk st u)).
  { intros u. destruct (Nat.eq_dec u t0) as [->|Hne]; [assumption | now rewrite OT]. }
  assert (XB : forall u, hasB p (stk st' u) = hasB p (stk st u)).
  { intros u. destruct (Nat.eq_dec u t0) as [->|Hne]; [assumption | now rewrite OT]. }
  split; [|split; [|split; [|split]]]; auto.
  - intros t. rewrite XS. apply A.
  - intros t. rewrite XB. apply B.
  - intros Hc. destruct (D Hc) as [Hz | (t & Ht)]; [now left | right]. exists t. now rewrite XS.
Qed.

(** the frame on top of [t0]'s stack is inside the critical section of [p]: no other store / mid frame of [p] anywhere *)
Lemma top_crit_exclusive st t0 p b c rest : lock_inv st ->
  stk st t0 = {| f_id := p; f_pub := b; f_pc := c |} :: rest -> is_crit c = true ->
  hasS p rest = false /\ hasB p rest = false /\ forall u, u <> t0 -> hasS p (stk st u) = false /\ hasB p (stk st u) = false.
Proof.
  intros LK H Hc. pose proof (lock_inv_le1 st p t0 LK) as Hle. rewrite H in Hle. frames. rewrite Nat.eqb_refl, Hc in Hle.
  assert (Hr : nheld p rest = 0) by (cbn in Hle; lia).
  split; [|split].
  - destruct (hasS p rest) eqn:E; [apply hasS_nheld in E; lia | reflexivity].
  - destruct (hasB p rest) eqn:E; [apply hasB_nheld in E; lia | reflexivity].
  - intros u Hne. assert (X : nheld p (stk st u) = 0).
    { destruct (nheld p (stk st u)) eqn:E; [reflexivity | exfalso; apply Hne].
      apply (lock_inv_uniq st p u t0 LK); [lia|]. rewrite H. frames. rewrite Nat.eqb_refl, Hc. cbn. lia. }
    split.
    + destruct (hasS p (stk st u)) eqn:E; [apply hasS_nheld in E; lia | reflexivity].
    + destruct (hasB p (stk st u)) eqn:E; [apply hasB_nheld in E; lia | reflexivity].
Qed.

Lemma par_inv_step st t0 st' : struct_inv st -> lock_inv st -> par_inv st -> step st t0 st' -> par_inv st'.
Proof.
  intros SI LK PI Hs p. pose proof (PI p) as PA. pose proof (step_other_thread _ _ _ Hs) as OT.
  destruct Hs.
  all: try (apply (par_neutral st _ t p OT); [..|exact PA]; sst; rewrite ?upd_same; sst;
            try reflexivity; try (rewrite H; boolcases; frames; eqb_all; reflexivity); fail).
  all: (destruct (Nat.eq_dec i p) as [->|Hip];
         [| apply (par_neutral st _ t p OT); [..|exact PA]; sst; rewrite ?upd_same; sst; rewrite ?upd_other by auto;
            try reflexivity; try (rewrite H; boolcases; frames; eqb_all; congruence)]).
  all: destruct PA as (A & B & C & D & E).
  all: try (destruct (top_crit_exclusive st t p b _ rest LK H ltac:(first [reflexivity | destruct p0; try discriminate; reflexivity])) as (RS & RB & OTH);
            pose proof (A t) as A0; pose proof (B t) as B0; rewrite H in A0, B0; frames; rewrite ?Nat.eqb_refl in *; cbn [andb orb] in *).
  all: unfold par_at; sst; rewrite ?upd_same; sst.
  all: try (assert (NS : forall u, hasS p (stk st u) = true -> u = t /\ hasS p (stk st t) = true)
              by (intros u Hu; destruct (Nat.eq_dec u t) as [->|Hne]; [auto | destruct (OTH u Hne); congruence]);
            rewrite H in NS; frames; rewrite ?Nat.eqb_refl, ?RS in NS; cbn [andb orb] in NS).
  all: try (assert (G1 : forall u, hasS p (t_stack (upd (threads st) t {| t_mode := md st t; t_stack := {| f_id := p; f_pub := b; f_pc := PRelease |} :: rest |} u)) = false)
              by (intros u; unfold upd; destruct (Nat.eqb_spec u t) as [->|Hu]; sst; frames; [assumption | apply (OTH u Hu)]);
            assert (G2 : forall u, hasB p (t_stack (upd (threads st) t {| t_mode := md st t; t_stack := {| f_id := p; f_pub := b; f_pc := PRelease |} :: rest |} u)) = false)
              by (intros u; unfold upd; destruct (Nat.eqb_spec u t) as [->|Hu]; sst; frames; [assumption | apply (OTH u Hu)])).
  - (* StMiss *)
    assert (Fr : fresh st p = 0).
    { destruct (D H0) as [Z|(u & Hu)]; [exact Z|]. apply NS in Hu. destruct Hu; discriminate. }
    split; [|split; [|split; [|split]]]; auto.
    + intros u; unfold upd; destruct (Nat.eqb_spec u t) as [->|Hu]; sst; frames; [congruence | destruct (OTH u Hu); congruence].
  - (* StEval *)
    destruct (B0 eq_refl) as [Fr Hc]. rewrite Fr.
    split; [|split; [|split; [|split]]]; auto; try lia; try congruence.
    + intros u; unfold upd; destruct (Nat.eqb_spec u t) as [->|Hu]; sst; frames; [congruence | destruct (OTH u Hu); congruence].
    + intros _. right. exists t. rewrite upd_same. sst. frames. now rewrite Nat.eqb_refl.
  - (* StFail *)
    assert (X : fresh st p = 0 /\ cache st p = false) by (destruct p0; try discriminate; apply B0; reflexivity).
    destruct X as [Fr Hc].
    split; [|split; [|split; [|split]]]; auto; try congruence;
      try (intros u; rewrite G1; discriminate); try (intros u; rewrite G2; discriminate).
  - (* StStore *)
    destruct (A0 eq_refl) as [Fr Hc].
    split; [|split; [|split; [|split]]]; auto; try discriminate;
      try (intros u; rewrite G1; discriminate); try (intros u; rewrite G2; discriminate).
  - (* StOverride *)
    pose proof (fun u => parked_counts _ p (writer_excludes st t SI H u)) as PK.
    assert (F1 : fresh st p <= 1).
    { destruct (cache st p) eqn:Ec; [rewrite C; auto|]. destruct (D eq_refl) as [Z|(u & Hu)]; [lia|].
      destruct (PK u) as (_ & X & _). congruence. }
    split; [|split; [|split; [|split]]]; auto; try discriminate; try lia.
    + intros u Hu. destruct (PK u) as (_ & X & _). congruence.
  - (* StInvalidate *)
    pose proof (fun u => parked_counts _ p (writer_excludes st t SI H u)) as PK.
    assert (F1 : fresh st p <= 1).
    { destruct (cache st p) eqn:Ec; [rewrite C; auto|]. destruct (D eq_refl) as [Z|(u & Hu)]; [lia|].
      destruct (PK u) as (_ & X & _). congruence. }
    split; [|split; [|split; [|split]]]; auto; try discriminate; try lia.
    + intros u Hu. destruct (PK u) as (_ & X & _). congruence.
Qed.

Lemma inv_reach d0 st : reach (init d0) st -> struct_inv st /\ lock_inv st /\ par_inv st.
Proof.
  intros H.
  refine (reach_ind_inv (fun st => struct_inv st /\ lock_inv st /\ par_inv st) _ _ _ H
            (conj (struct_inv_init d0) (conj (lock_inv_init d0) (par_inv_init d0)))).
  intros st0 t st1 (IS & IL & IP) Hs. split; [eapply struct_inv_step | split; [eapply lock_inv_step | eapply par_inv_step]]; eauto.
Qed.




(** THEOREM 0 (the container-wide read/write lock).  In every reachable state:
    (a) the writer slot names exactly the thread that is inside OverrideParam / HotSwap (waiting or holding); so there is at most one;
    (b) writers evaluate nothing;
    (c) while the write lock is HELD no thread holds a read lock: nobody is inside a service-side call and every activation of every
        thread is still blocked at the entrance of a public GetParam, i.e. overrides and invalidations only ever run against a quiescent
        container (in particular the mutex that overrideParam replaces is free);
    (d) the reader counter is 0 exactly when no thread holds a read lock. *)
Theorem rw_lock_discipline d0 st : reach (init d0) st ->
  (forall t, gwriter st = Some t <-> md st t = MWWait \/ md st t = MWHold) /\
  (forall t, md st t = MWWait \/ md st t = MWHold -> stk st t = []) /\
  (forall w, md st w = MWHold ->
     greaders st = 0 /\ forall t, md st t <> MSess /\ forall fr, In fr (stk st t) -> f_pc fr = PRLock) /\
  (greaders st = 0 <-> forall t, rdc st t = 0).
Proof.
  intros Hr. destruct (inv_reach _ _ Hr) as (SI & _ & _). pose proof SI as (SH & WR & WH & (l & ND & OUT & SUM)).
  split; [|split; [|split]].
  - intros t. rewrite <- WR. destruct (md st t); cbn; split; intros; try discriminate; auto; destruct H; discriminate.
  - intros t Hm. destruct (SH t) as [W _]. apply W. destruct Hm as [-> | ->]; reflexivity.
  - intros w Hw. split; [eauto|]. intros t. pose proof (writer_excludes st w SI Hw t) as PK. split; [apply PK|].
    intros fr. now apply parked_no_crit.
  - split.
    + intros Hz t. destruct (greaders_zero st SI Hz t) as [Hm [E | (i & E)]]; unfold rdc; rewrite E; frames;
        destruct (md st t); cbn [sessn]; congruence.
    + intros Hz. rewrite SUM. clear SUM ND OUT. induction l as [|a r IH]; cbn [sumf]; [reflexivity|]. rewrite Hz, IH. reflexivity.
Qed.

Theorem writer_unique d0 st t1 t2 : reach (init d0) st ->
  is_writer_mode (md st t1) = true -> is_writer_mode (md st t2) = true -> t1 = t2.
Proof.
  intros Hr H1 H2. destruct (inv_reach _ _ Hr) as ((_ & WR & _) & _ & _).
  apply WR in H1. apply WR in H2. congruence.
Qed.

Lemma par_fresh_le1 st p : par_at st p -> fresh st p <= 1.
Proof.
  intros (A & B & C & D & E). destruct (cache st p) eqn:Ec; [rewrite C; auto|].
  destruct (D eq_refl) as [Z|(u & Hu)]; [lia|]. destruct (A u Hu) as [-> _]. lia.
Qed.

(** THEOREM 2 (evaluations).  In every reachable state of every schedule, with any number of concurrent overrides and invalidations:
    a parameter has been evaluated successfully at most once per cache epoch, hence at most 1 + (number of its cache deletions) times. *)
Theorem param_evaluated_bound d0 st p : reach (init d0) st ->
  evaluated st p <= 1 + overrides st p + invalidations st p.
Proof.
  intros Hr. destruct (inv_reach _ _ Hr) as (_ & _ & PI). pose proof (par_fresh_le1 st p (PI p)).
  destruct (PI p) as (_ & _ & _ & _ & E). lia.
Qed.

(** ... and at most once if it was never overridden nor invalidated (in particular in every schedule without writers) *)
Corollary param_evaluated_at_most_once d0 st p : reach (init d0) st ->
  overrides st p = 0 -> invalidations st p = 0 -> evaluated st p <= 1.
Proof. intros Hr H1 H2. pose proof (param_evaluated_bound d0 st p Hr). lia. Qed.

(** THEOREM 3 (cache).  The cache holds a parameter only after it was evaluated -- exactly once since its last override / invalidation. *)
Theorem param_cached_after_eval d0 st p : reach (init d0) st ->
  fresh st p <= 1 /\ fresh st p <= evaluated st p /\ (cache st p = true -> fresh st p = 1 /\ 1 <= evaluated st p).
Proof.
  intros Hr. destruct (inv_reach _ _ Hr) as (_ & _ & PI). pose proof (par_fresh_le1 st p (PI p)).
  destruct (PI p) as (_ & _ & C & _ & E). repeat split; try lia. auto. specialize (C H0). lia.
Qed.

(** the finer picture: between the cache miss and the evaluation nothing has been evaluated in this epoch and nothing is cached;
    between evaluation and store there is exactly one evaluation and it is not cached yet *)
Theorem param_phases d0 st p t b c : reach (init d0) st ->
  In {| f_id := p; f_pub := b; f_pc := c |} (stk st t) ->
  match c with
  | PDeps _ | PEval => fresh st p = 0 /\ cache st p = false
  | PStore => fresh st p = 1 /\ cache st p = false
  | _ => True
  end.
Proof.
  intros Hr Hin. destruct (inv_reach _ _ Hr) as (_ & _ & PI). destruct (PI p) as (A & B & _).
  destruct c; auto.
  - apply (B t). apply hasB_In. eauto.
  - apply (B t). apply hasB_In. eauto.
  - apply (A t). apply hasS_In. eauto.
Qed.

(* ------------------------------------------------------------------------------------------------------------------ *)
(** * 3. Who changes what *)

(** only a thread holding the write lock changes definitions, deletes cache entries or moves the override / invalidation counters *)
Theorem step_reader st t st' : step st t st' -> md st t <> MWHold ->
  defs st' = defs st /\ overrides st' = overrides st /\ invalidations st' = invalidations st /\
  (forall p, cache st p = true -> cache st' p = true) /\ (forall p, evaluated st p <= evaluated st' p).
Proof.
  intros Hs Hm. destruct Hs; sst; try congruence; repeat split; auto.
  all: intros q; unfold upd; destruct (Nat.eqb_spec q i); subst; auto.
Qed.

Lemma step_counters_mono st t st' p : step st t st' ->
  overrides st p <= overrides st' p /\ invalidations st p <= invalidations st' p /\ evaluated st p <= evaluated st' p.
Proof. intros Hs. destruct Hs; sst; unfold upd; eqb_all; lia. Qed.

Lemma reach_counters_mono st st' p : reach st st' ->
  overrides st p <= overrides st' p /\ invalidations st p <= invalidations st' p /\ evaluated st p <= evaluated st' p.
Proof.
  intros H. induction H as [|st t st1 st2 Hs Hr IH]; [lia|]. pose proof (step_counters_mono _ _ _ p Hs). lia.
Qed.

Lemma step_cached_stable st t st' p : par_at st p -> cache st p = true -> step st t st' ->
  (cache st' p = true /\ evaluated st' p = evaluated st p /\ fresh st' p = fresh st p) \/
  (overrides st p + invalidations st p < overrides st' p + invalidations st' p).
Proof.
  intros (A & B & _) Hc Hs. destruct Hs; sst; auto.
  - destruct (Nat.eq_dec i p) as [->|Hne]; [|rewrite !upd_other by auto; auto].
    exfalso. destruct (B t) as [_ X]; [rewrite H; frames; now rewrite Nat.eqb_refl | congruence].
  - left. unfold upd. destruct (Nat.eqb p i); auto.
  - destruct (Nat.eq_dec i p) as [->|Hne]; [right; rewrite !upd_same; lia | left; rewrite !upd_other by auto; auto].
  - destruct (Nat.eq_dec i p) as [->|Hne]; [right; rewrite !upd_same; lia | left; rewrite !upd_other by auto; auto].
Qed.

(** THEOREM 4 (cache consistency).  Once a parameter is cached, every later state of every schedule in which it has not been overridden /
    invalidated in between still has it cached and NO further evaluation of it has taken place: all threads observe the result of the
    same single evaluation. *)
Theorem cached_value_stable d0 st st' p : reach (init d0) st -> reach st st' ->
  cache st p = true -> overrides st' p = overrides st p -> invalidations st' p = invalidations st p ->
  cache st' p = true /\ evaluated st' p = evaluated st p.
Proof.
  intros Hr H. revert Hr. induction H as [|st t st1 st2 Hs Hr' IH]; intros Hr Hc Eo Ei; [auto|].
  destruct (inv_reach _ _ Hr) as (_ & _ & PI).
  assert (Hr1 : reach (init d0) st1) by (eapply reach_trans; [exact Hr | eapply RStep; [exact Hs | apply RRefl]]).
  pose proof (step_counters_mono _ _ _ p Hs) as M1. pose proof (reach_counters_mono _ _ p Hr') as M2.
  destruct (step_cached_stable st t st1 p (PI p) Hc Hs) as [(C1 & E1 & _) | Lt]; [|lia].
  destruct (IH Hr1 C1) as [C2 E2]; try lia. split; [assumption | congruence].
Qed.

(* ------------------------------------------------------------------------------------------------------------------ *)
(** * 4. Non-vacuity: concrete runs *)

(** a reader in front of a taken mutex has no step *)
Lemma blocked_at_acquire st t i b rest h :
  stk st t = {| f_id := i; f_pub := b; f_pc := PAcquire |} :: rest -> md st t = MOut -> plocks st i = Some h -> forall st', ~ step st t st'.
Proof.
  intros H Hm Hp st' Hs. destruct Hs; rewrite ?H, ?Hm in *; try discriminate.
  - match goal with X : _ :: _ = _ :: _ |- _ => injection X as <- <- <- end. congruence.
  - match goal with X : _ :: _ = _ :: _ |- _ => injection X as <- <- <- <- end. discriminate.
Qed.

(** parameter 0 reads parameter 1 through the internal getParam (a dependencyParam); all other parameters are plain values *)
Definition exD : pid -> pdef := fun i => match i with 0 => {| d_deps := [1]; d_pub := false |} | _ => {| d_deps := []; d_pub := false |} end.

Local Ltac norm := cbv [init set_thread set_stack set_mode set_greaders set_gwriter set_plock set_cached count_eval do_override do_invalidate entry
                        defs plocks cache evaluated fresh overrides invalidations greaders gwriter threads t_mode t_stack d_deps d_pub exD
                        upd Nat.eqb pred nth_error].
Local Ltac stp t X := eapply RStep; [eapply (X _ t); reflexivity | norm].
Local Ltac call t i := eapply RStep; [eapply (StCall _ t i); reflexivity | norm].

(** thread 0 calls GetParam(0), takes the read lock and the mutex of 0 and misses; thread 1 calls GetParam(0) too, takes the read lock as well
    (two readers) and is BLOCKED at the mutex of 0 ([sta]: it has no step);  thread 0 evaluates 1 (nested, internal: no second read lock), then
    0, stores both and leaves ([stb]);  thread 1 now gets the mutex, HITS the cache and leaves: nothing is evaluated again ([stc]);
    thread 2 calls OverrideParam(1): announce, acquire (no reader left), override, release ([std]): the entry of 1 is gone, the entry of 0 --
    computed from the old 1 -- is still there;  thread 1 calls GetParam(1): evaluated a second time = 1 + overrides ([ste]); 0 was not. *)
Example example_trace : exists sta stb stc std ste,
  reach (init exD) sta /\
  (plocks sta 0 = Some 0 /\ greaders sta = 2 /\ stk sta 0 = [{| f_id := 0; f_pub := true; f_pc := PDeps 0 |}] /\
   stk sta 1 = [{| f_id := 0; f_pub := true; f_pc := PAcquire |}] /\ forall st', ~ step sta 1 st') /\
  reach sta stb /\
  (evaluated stb 0 = 1 /\ evaluated stb 1 = 1 /\ cache stb 0 = true /\ cache stb 1 = true /\ plocks stb 0 = None /\ plocks stb 1 = None /\
   stk stb 0 = [] /\ greaders stb = 1) /\
  reach stb stc /\
  (evaluated stc 0 = 1 /\ evaluated stc 1 = 1 /\ stk stc 1 = [] /\ greaders stc = 0 /\ plocks stc 0 = None) /\
  reach stc std /\
  (cache std 1 = false /\ cache std 0 = true /\ overrides std 1 = 1 /\ fresh std 1 = 0 /\ gwriter std = None /\ md std 2 = MOut) /\
  reach std ste /\
  (evaluated ste 1 = 2 /\ overrides ste 1 = 1 /\ evaluated ste 0 = 1 /\ cache ste 0 = true /\ cache ste 1 = true /\
   greaders ste = 0 /\ stk ste 1 = []).
Proof.
  do 5 eexists.
  split; [|split; [|split; [|split; [|split; [|split; [|split; [|split; [|split]]]]]]]].
  - call 0 0. stp 0 StRLock. stp 0 StAcquire. stp 0 StMiss.
    call 1 0. stp 1 StRLock. apply RRefl.
  - repeat split; try reflexivity.
    eapply blocked_at_acquire; reflexivity.
  - stp 0 StDep. stp 0 StAcquire. stp 0 StMiss. stp 0 StDepsDone. stp 0 StEval. stp 0 StStore. stp 0 StRelease.
    stp 0 StDepsDone. stp 0 StEval. stp 0 StStore. stp 0 StRelease. stp 0 StRUnlock. apply RRefl.
  - repeat split; reflexivity.
  - stp 1 StAcquire. stp 1 StHit. stp 1 StRelease. stp 1 StRUnlock. apply RRefl.
  - repeat split; reflexivity.
  - stp 2 StWAnnounce. stp 2 StWAcquire.
    eapply RStep; [eapply (StOverride _ 2 1 {| d_deps := []; d_pub := false |}); reflexivity | norm].
    stp 2 StWRelease. apply RRefl.
  - repeat split; reflexivity.
  - call 1 1. stp 1 StRLock. stp 1 StAcquire. stp 1 StMiss. stp 1 StDepsDone. stp 1 StEval. stp 1 StStore. stp 1 StRelease. stp 1 StRUnlock.
    apply RRefl.
  - repeat split; reflexivity.
Qed.

(* ------------------------------------------------------------------------------------------------------------------ *)
(** * 5. FINDING: recursive read lock + pending writer = deadlock *)

(** what the code generator emits: parameter 0 reads parameter 1 through a provider closure that calls the PUBLIC GetParam *)
Definition exP : pid -> pdef := fun i => match i with 0 => {| d_deps := [1]; d_pub := true |} | _ => {| d_deps := []; d_pub := true |} end.

(** thread 0 is inside GetParam(0) (one read lock, mutex of 0) and about to take the read lock a second time for the nested GetParam(1);
    thread 1 is the announced writer, waiting for the reader to leave; every other thread is outside or blocked in front of the read lock *)
Definition dl_inv (st : state) : Prop :=
  threads st 0 = {| t_mode := MOut; t_stack := [{| f_id := 1; f_pub := true; f_pc := PRLock |}; {| f_id := 0; f_pub := true; f_pc := PDeps 1 |}] |} /\
  threads st 1 = {| t_mode := MWWait; t_stack := [] |} /\
  gwriter st = Some 1 /\ greaders st = 1 /\
  (forall t, 2 <= t -> md st t = MOut /\ (stk st t = [] \/ exists i, stk st t = [{| f_id := i; f_pub := true; f_pc := PRLock |}])).

Lemma dl_step st t st' : dl_inv st -> step st t st' ->
  dl_inv st' /\ 2 <= t /\ stk st t = [] /\ evaluated st' = evaluated st /\ cache st' = cache st.
Proof.
  intros (H0 & H1 & Hw & Hg & Ho) Hs.
  assert (Ht : t = 0 \/ t = 1 \/ 2 <= t) by lia.
  destruct Hs; sst.
  all: destruct Ht as [->|[->|Ht]];
    [ rewrite H0 in *; cbn [t_stack t_mode] in *; try discriminate; try congruence
    | rewrite H1 in *; cbn [t_stack t_mode] in *; try discriminate; try congruence
    | destruct (Ho t Ht) as [Hm Hk]; try congruence; try (destruct Hk as [Hk|[j Hk]]; rewrite Hk in *; try discriminate; try congruence) ].
  all: try (match goal with X : _ :: _ = _ :: _ |- _ => injection X as <- <- <- <- end; discriminate).
  (* the only step left: some other thread calls GetParam and parks in front of the read lock *)
  split; [|auto].
  assert (N0 : Nat.eqb 0 t = false) by (apply Nat.eqb_neq; lia).
  assert (N1 : Nat.eqb 1 t = false) by (apply Nat.eqb_neq; lia).
  unfold dl_inv. sst. unfold upd. rewrite N0, N1. repeat split; auto.
  - destruct (Nat.eqb_spec t0 t) as [->|Hne]; [cbn; assumption | apply Ho; assumption].
  - destruct (Nat.eqb_spec t0 t) as [->|Hne]; [cbn; right; eexists; reflexivity | apply Ho; assumption].
Qed.

Lemma dl_reach st st' : dl_inv st -> reach st st' -> dl_inv st' /\ evaluated st' = evaluated st /\ cache st' = cache st.
Proof.
  intros HI H. induction H as [|st t st1 st2 Hs Hr IH]; [auto|].
  destruct (dl_step _ _ _ HI Hs) as (HI1 & _ & _ & E1 & E2). destruct (IH HI1) as (HI2 & E3 & E4).
  split; [assumption | split; congruence].
Qed.

(** FINDING.  A reachable state from which, in EVERY continuation of EVERY schedule: thread 0 (inside GetParam) and thread 1 (inside
    OverrideParam) never move again, no thread ever takes the read or the write lock again (every later call parks in front of it), and
    nothing is evaluated or cached any more -- the whole container is dead.  Ingredients: a parameter defined through a provider closure
    calling the public GetParam (what the generator emits for every reference to another parameter), and one concurrent OverrideParam /
    HotSwap; sync.RWMutex blocks new readers as soon as a writer is announced.  With internal dependencies ([d_pub] = false) the nested
    activation does not touch the global lock and this state is not reachable this way. *)
Theorem example_deadlock : exists st,
  reach (init exP) st /\
  stk st 0 = [{| f_id := 1; f_pub := true; f_pc := PRLock |}; {| f_id := 0; f_pub := true; f_pc := PDeps 1 |}] /\
  md st 1 = MWWait /\ plocks st 0 = Some 0 /\ greaders st = 1 /\ gwriter st = Some 1 /\
  forall st', reach st st' ->
    threads st' 0 = threads st 0 /\ threads st' 1 = threads st 1 /\ greaders st' = 1 /\ gwriter st' = Some 1 /\
    evaluated st' = evaluated st /\ cache st' = cache st /\
    (forall t, 2 <= t -> md st' t = MOut /\ (stk st' t = [] \/ exists i, stk st' t = [{| f_id := i; f_pub := true; f_pc := PRLock |}])) /\
    (forall t st'', step st' t st'' -> 2 <= t /\ stk st' t = []).
Proof.
  eexists. split; [|].
  - eapply RStep; [eapply (StCall _ 0 0); reflexivity|].
    eapply RStep; [eapply (StRLock _ 0); reflexivity|].
    eapply RStep; [eapply (StAcquire _ 0); reflexivity|].
    eapply RStep; [eapply (StMiss _ 0); reflexivity|].
    eapply RStep; [eapply (StDep _ 0); reflexivity|].
    eapply RStep; [eapply (StWAnnounce _ 1); reflexivity|].
    apply RRefl.
  - repeat (split; [reflexivity|]).
    intros st' Hr.
    match type of Hr with reach ?s _ => assert (HI : dl_inv s) end.
    { unfold dl_inv. repeat split; try reflexivity. all: destruct t as [|[|t]]; try lia; cbn; auto. }
    destruct (dl_reach _ _ HI Hr) as ((A & B & C & D & E) & F & G).
    repeat split; try assumption; try (apply E; assumption).
    all: intros; destruct (dl_step st' t st'' (conj A (conj B (conj C (conj D E)))) H) as (_ & X & Y & _); assumption.
Qed.

(* ------------------------------------------------------------------------------------------------------------------ *)
(** * 6. Two more facts about the source, as the model shows them *)

(** overrideParam(i) deletes the cache entry of [i] ONLY: a cached parameter that was computed from [i] keeps its (now stale) entry and,
    by [cached_value_stable], is never re-evaluated until it is itself overridden / invalidated (see [std], [ste] in [example_trace]) *)
Theorem override_only_own_entry st i d p : p <> i ->
  cache (do_override st i d) p = cache st p /\ fresh (do_override st i d) p = fresh st p /\ evaluated (do_override st i d) p = evaluated st p.
Proof. intros Hne. cbn. now rewrite !upd_other by auto. Qed.

(** without a writer around, the recursive read lock of generated code is harmless: thread 0 evaluates 0 and, nested and through the public
    GetParam, 1; in [stm] it holds TWO read locks; at the end everything is released and both parameters were evaluated once *)
Example example_public_nested : exists stm ste,
  reach (init exP) stm /\ (greaders stm = 2 /\ rdc stm 0 = 2 /\ plocks stm 0 = Some 0 /\ plocks stm 1 = Some 0) /\
  reach stm ste /\ (greaders ste = 0 /\ stk ste 0 = [] /\ evaluated ste 0 = 1 /\ evaluated ste 1 = 1 /\ cache ste 0 = true /\ cache ste 1 = true /\
                    plocks ste 0 = None /\ plocks ste 1 = None).
Proof.
  do 2 eexists. split; [|split; [|split]].
  - eapply RStep; [eapply (StCall _ 0 0); reflexivity|].
    eapply RStep; [eapply (StRLock _ 0); reflexivity|].
    eapply RStep; [eapply (StAcquire _ 0); reflexivity|].
    eapply RStep; [eapply (StMiss _ 0); reflexivity|].
    eapply RStep; [eapply (StDep _ 0); reflexivity|].
    eapply RStep; [eapply (StRLock _ 0); reflexivity|].
    eapply RStep; [eapply (StAcquire _ 0); reflexivity|].
    apply RRefl.
  - repeat split; reflexivity.
  - eapply RStep; [eapply (StMiss _ 0); reflexivity|].
    eapply RStep; [eapply (StDepsDone _ 0); reflexivity|].
    eapply RStep; [eapply (StEval _ 0); reflexivity|].
    eapply RStep; [eapply (StStore _ 0); reflexivity|].
    eapply RStep; [eapply (StRelease _ 0); reflexivity|].
    eapply RStep; [eapply (StRUnlock _ 0); reflexivity|].
    eapply RStep; [eapply (StDepsDone _ 0); reflexivity|].
    eapply RStep; [eapply (StEval _ 0); reflexivity|].
    eapply RStep; [eapply (StStore _ 0); reflexivity|].
    eapply RStep; [eapply (StRelease _ 0); reflexivity|].
    eapply RStep; [eapply (StRUnlock _ 0); reflexivity|].
    apply RRefl.
  - repeat split; reflexivity.
Qed.

End CPP.

Print Assumptions CPP.rw_lock_discipline.
Print Assumptions CPP.writer_unique.
Print Assumptions CPP.param_lock_discipline.
Print Assumptions CPP.param_evaluated_bound.
Print Assumptions CPP.param_evaluated_at_most_once.
Print Assumptions CPP.param_cached_after_eval.
Print Assumptions CPP.param_phases.
Print Assumptions CPP.step_reader.
Print Assumptions CPP.cached_value_stable.
Print Assumptions CPP.override_only_own_entry.
Print Assumptions CPP.example_trace.
Print Assumptions CPP.example_public_nested.
Print Assumptions CPP.example_deadlock.
