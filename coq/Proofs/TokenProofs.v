(** Properties of the %-chunker (internal/pkg/token Chunker.Chunks), [to_expr] and %%-escaping. *)
From GV Require Import Base.Str Model.Env Model.Token.
From Coq Require Import Lia Arith.

(** * vocabulary *)

Definition pct : ascii := "%"%char.

Fixpoint count_pct (x : str) : nat :=
  match x with
  | [] => 0%nat
  | c :: x' => ((if Ascii.eqb c pct then 1 else 0) + count_pct x')%nat
  end.

Definition no_pct (x : str) : bool := forallb (fun c => negb (Ascii.eqb c pct)) x.

(** escaping: every % is doubled *)
Definition double_pct (x : str) : str :=
  flat_map (fun c => if Ascii.eqb c pct then [pct; pct] else [c]) x.

(** a chunk is either a non-empty %-free literal or a token %...% without inner % *)
Definition lit_chunk (c : str) : Prop := no_pct c = true /\ c <> [].
Definition tok_chunk (c : str) : Prop := exists m, c = pct :: m ++ [pct] /\ no_pct m = true.
Definition chunk_shape (c : str) : Prop := lit_chunk c \/ tok_chunk c.

(** the token chunks of a chunk list *)
Definition tokens (cs : list str) : list str := filter (fun c => negb (no_pct c)) cs.

(** no two adjacent literal chunks *)
Fixpoint alt (cs : list str) : Prop :=
  match cs with
  | c1 :: (c2 :: _) as tl => ~ (no_pct c1 = true /\ no_pct c2 = true) /\ alt tl
  | _ => True
  end.

(** * basic facts about [no_pct] *)

Lemma no_pct_app a b : no_pct (a ++ b) = no_pct a && no_pct b.
Proof. unfold no_pct. apply forallb_app. Qed.

Lemma no_pct_cons c x : no_pct (c :: x) = negb (Ascii.eqb c pct) && no_pct x.
Proof. reflexivity. Qed.

Lemma no_pct_nil : no_pct [] = true.
Proof. reflexivity. Qed.

Lemma no_pct_snoc b c : no_pct b = true -> Ascii.eqb c pct = false -> no_pct (b ++ [c]) = true.
Proof.
  intros Hb Hc. rewrite no_pct_app, Hb, no_pct_cons, Hc. reflexivity.
Qed.

Lemma tok_not_lit c : tok_chunk c -> no_pct c = false.
Proof.
  intros [m [-> _]]. rewrite no_pct_cons. unfold pct. rewrite Ascii.eqb_refl. reflexivity.
Qed.

Lemma no_pct_count x : no_pct x = true <-> count_pct x = 0%nat.
Proof.
  induction x as [|c x IH]; [split; reflexivity|].
  rewrite no_pct_cons. cbn [count_pct].
  destruct (Ascii.eqb c pct); cbn [negb andb Nat.add].
  - split; [discriminate|lia].
  - exact IH.
Qed.

Lemma count_pct_app a b : count_pct (a ++ b) = (count_pct a + count_pct b)%nat.
Proof.
  induction a as [|c a IH]; [reflexivity|].
  cbn [app count_pct]. rewrite IH. lia.
Qed.

(** * an accumulator-free presentation of the chunker *)

Definition flush (b : str) : list str := match b with [] => [] | _ => [b] end.

Definition bindl (r : list str + str) (f : list str -> list str) : list str + str :=
  match r with inl cs => inl (f cs) | inr e => inr e end.

(** [o] = inside a token, [b] = current buffer (in order) *)
Fixpoint chk (x : str) (o : bool) (b : str) : list str + str :=
  match x with
  | [] => if o then inr b else inl (flush b)
  | c :: x' =>
    if Ascii.eqb c pct then
      if o then bindl (chk x' false []) (fun cs => (b ++ [c]) :: cs)
      else bindl (chk x' true [c]) (fun cs => flush b ++ cs)
    else chk x' o (b ++ [c])
  end.

Lemma flush_nonempty b : b <> [] -> flush b = [b].
Proof. destruct b; [congruence|reflexivity]. Qed.

Lemma flush_rev_cons a b : flush (rev (a :: b)) = [rev (a :: b)].
Proof.
  apply flush_nonempty. cbn [rev]. intros H. apply app_eq_nil in H as [_ H]. discriminate.
Qed.

Lemma bindl_bindl r f g : bindl (bindl r f) g = bindl r (fun cs => g (f cs)).
Proof. destruct r; reflexivity. Qed.

Lemma bindl_ext r f g : (forall cs, f cs = g cs) -> bindl r f = bindl r g.
Proof. intros H. destruct r; cbn [bindl]; [rewrite H|]; reflexivity. Qed.

Lemma bindl_inl r f cs : bindl r f = inl cs -> exists cs0, r = inl cs0 /\ cs = f cs0.
Proof. destruct r; cbn [bindl]; intros H; [injection H as <-; eauto|discriminate]. Qed.

Lemma bindl_inr r f e : bindl r f = inr e -> r = inr e.
Proof. destruct r; cbn [bindl]; intros H; [discriminate|exact H]. Qed.

Lemma concat_flush b : concat (flush b) = b.
Proof. destruct b; [reflexivity|]. cbn [flush concat]. apply app_nil_r. Qed.

Lemma tokens_app a b : tokens (a ++ b) = tokens a ++ tokens b.
Proof. apply filter_app. Qed.

Lemma tokens_flush b : no_pct b = true -> tokens (flush b) = [].
Proof.
  intros Hb. destruct b; [reflexivity|]. cbn [flush tokens filter]. rewrite Hb. reflexivity.
Qed.

Section WithEnv.
Variable E : env.
Hypothesis Hd : k_delim E = "%"%char.

Lemma chunks_aux_chk x : forall o buff acc,
  chunks_aux E x o buff acc = bindl (chk x o (rev buff)) (fun cs => rev acc ++ cs).
Proof.
  induction x as [|c x IH]; intros o buff acc; cbn [chunks_aux chk].
  - destruct o; [reflexivity|]. cbn [bindl]. f_equal.
    destruct buff as [|a buff].
    + cbn [rev flush]. symmetry; apply app_nil_r.
    + rewrite flush_rev_cons. reflexivity.
  - rewrite Hd. change "%"%char with pct.
    destruct (Ascii.eqb c pct) eqn:Hc.
    + destruct o.
      * rewrite IH. cbn [rev]. rewrite bindl_bindl. apply bindl_ext. intros cs.
        rewrite <- app_assoc. reflexivity.
      * rewrite IH. cbn [rev app]. rewrite bindl_bindl. apply bindl_ext. intros cs.
        destruct buff as [|a buff].
        -- reflexivity.
        -- rewrite flush_rev_cons. cbn [rev]. rewrite <- !app_assoc. reflexivity.
    + rewrite IH. reflexivity.
Qed.

Lemma chunks_chk x : x <> [] -> chunks E x = chk x false [].
Proof.
  intros Hx. destruct x as [|c x]; [congruence|].
  unfold chunks. rewrite chunks_aux_chk. cbn [rev app].
  destruct (chk (c :: x) false []); reflexivity.
Qed.

Lemma chunks_nil : chunks E [] = inl [[]].
Proof. reflexivity. Qed.

(** * 1. the chunks partition the input *)

Lemma chk_concat x : forall o b cs, chk x o b = inl cs -> concat cs = b ++ x.
Proof.
  induction x as [|c x IH]; intros o b cs H; cbn [chk] in H.
  - destruct o; [discriminate|]. injection H as <-. rewrite app_nil_r. apply concat_flush.
  - destruct (Ascii.eqb c pct).
    + destruct o; apply bindl_inl in H as [cs0 [H ->]]; apply IH in H.
      * cbn [concat]. rewrite H. cbn [app]. rewrite <- app_assoc. reflexivity.
      * rewrite concat_app, concat_flush, H. reflexivity.
    + apply IH in H. rewrite H, <- app_assoc. reflexivity.
Qed.

Theorem chunks_concat x cs : chunks E x = inl cs -> concat cs = x.
Proof.
  destruct x as [|c x].
  - cbn [chunks]. intros H. injection H as <-. reflexivity.
  - rewrite chunks_chk by discriminate. intros H. apply chk_concat in H. exact H.
Qed.

(** * 2. shape of the chunks *)

(** buffer invariant: outside a token the buffer is %-free, inside it is % followed by %-free bytes *)
Definition buf_ok (o : bool) (b : str) : Prop :=
  if o then exists m, b = pct :: m /\ no_pct m = true else no_pct b = true.

Lemma buf_ok_snoc o b c : buf_ok o b -> Ascii.eqb c pct = false -> buf_ok o (b ++ [c]).
Proof.
  intros Hb Hc. destruct o; cbn [buf_ok] in *.
  - destruct Hb as [m [-> Hm]]. exists (m ++ [c]). split; [reflexivity|]. apply no_pct_snoc; assumption.
  - apply no_pct_snoc; assumption.
Qed.

Lemma buf_ok_open c : Ascii.eqb c pct = true -> buf_ok true [c].
Proof.
  intros Hc. apply Ascii.eqb_eq in Hc. subst c. exists []. split; reflexivity.
Qed.

Lemma Forall_flush b : no_pct b = true -> Forall chunk_shape (flush b).
Proof.
  intros Hb. destruct b as [|a b]; [constructor|].
  cbn [flush]. constructor; [|constructor]. left. split; [exact Hb|discriminate].
Qed.

Lemma chk_shape x : forall o b cs, buf_ok o b -> chk x o b = inl cs -> Forall chunk_shape cs.
Proof.
  induction x as [|c x IH]; intros o b cs Hb H; cbn [chk] in H.
  - destruct o; [discriminate|]. injection H as <-. apply Forall_flush. exact Hb.
  - destruct (Ascii.eqb c pct) eqn:Hc.
    + destruct o; apply bindl_inl in H as [cs0 [H ->]].
      * constructor.
        -- right. destruct Hb as [m [-> Hm]]. exists m. split; [|exact Hm].
           apply Ascii.eqb_eq in Hc. subst c. reflexivity.
        -- apply (IH false [] cs0); [reflexivity|exact H].
      * apply Forall_app. split; [apply Forall_flush; exact Hb|].
        apply (IH true [c] cs0); [apply buf_ok_open; exact Hc|exact H].
    + apply (IH o (b ++ [c]) cs); [apply buf_ok_snoc; assumption|exact H].
Qed.

Theorem chunks_shape x cs :
  chunks E x = inl cs -> x <> [] ->
  Forall (fun c => (no_pct c = true /\ c <> []) \/ (exists m, c = pct :: m ++ [pct] /\ no_pct m = true)) cs.
Proof.
  intros H Hx. rewrite chunks_chk in H by exact Hx.
  apply (chk_shape x false [] cs); [reflexivity|exact H].
Qed.

(** * 3. literal chunks are maximal *)

Lemma chk_open_head x : forall b cs, chk x true b = inl cs -> exists m cs', cs = (b ++ m ++ [pct]) :: cs'.
Proof.
  induction x as [|c x IH]; intros b cs H; cbn [chk] in H; [discriminate|].
  destruct (Ascii.eqb c pct) eqn:Hc.
  - apply bindl_inl in H as [cs0 [_ ->]]. apply Ascii.eqb_eq in Hc. subst c.
    exists [], cs0. reflexivity.
  - apply IH in H as [m [cs' ->]]. exists (c :: m), cs'. rewrite <- app_assoc. reflexivity.
Qed.

Lemma alt_cons_tok c cs : no_pct c = false -> alt cs -> alt (c :: cs).
Proof.
  intros Hc Ha. destruct cs as [|c2 cs]; [exact I|].
  split; [|exact Ha]. intros [H _]. congruence.
Qed.

Lemma alt_flush_tok b c cs : no_pct c = false -> alt (c :: cs) -> alt (flush b ++ c :: cs).
Proof.
  intros Hc Ha. destruct b as [|a b]; [exact Ha|].
  cbn [flush app]. split; [|exact Ha]. intros [_ H]. congruence.
Qed.

Lemma alt_flush b : alt (flush b).
Proof. destruct b; exact I. Qed.

Lemma no_pct_head_pct b m : no_pct ((b ++ [pct]) ++ m) = false.
Proof.
  rewrite !no_pct_app, no_pct_cons. unfold pct at 1. rewrite Ascii.eqb_refl.
  cbn [negb andb]. rewrite andb_false_r. reflexivity.
Qed.

Lemma chk_alt x : forall o b cs, chk x o b = inl cs -> alt cs.
Proof.
  induction x as [|c x IH]; intros o b cs H; cbn [chk] in H.
  - destruct o; [discriminate|]. injection H as <-. apply alt_flush.
  - destruct (Ascii.eqb c pct) eqn:Hc.
    + apply Ascii.eqb_eq in Hc. subst c.
      destruct o; apply bindl_inl in H as [cs0 [H ->]].
      * apply alt_cons_tok; [|apply IH in H; exact H].
        rewrite <- (app_nil_r (b ++ [pct])). apply no_pct_head_pct.
      * pose proof (chk_open_head _ _ _ H) as [m [cs' ->]].
        apply alt_flush_tok; [|apply IH in H; exact H].
        apply (no_pct_head_pct [] (m ++ [pct])).
    + apply IH in H. exact H.
Qed.

Lemma alt_spec cs : alt cs ->
  forall l1 c1 c2 l2, cs = l1 ++ c1 :: c2 :: l2 -> no_pct c1 = true -> no_pct c2 = true -> False.
Proof.
  intros Ha l1. revert cs Ha. induction l1 as [|a l1 IH]; intros cs Ha c1 c2 l2 -> H1 H2.
  - cbn [app alt] in Ha. destruct Ha as [Ha _]. apply Ha. split; assumption.
  - apply (IH (l1 ++ c1 :: c2 :: l2)) with (c1 := c1) (c2 := c2) (l2 := l2); try assumption; try reflexivity.
    cbn [app alt] in Ha. destruct (l1 ++ c1 :: c2 :: l2) eqn:Hl.
    + exact I.
    + destruct Ha as [_ Ha]. exact Ha.
Qed.

Lemma chunks_alt x cs : chunks E x = inl cs -> alt cs.
Proof.
  destruct x as [|c x].
  - cbn [chunks]. intros H. injection H as <-. exact I.
  - rewrite chunks_chk by discriminate. apply chk_alt.
Qed.

(** in [cs] a %-free chunk is never immediately followed by a %-free chunk *)
Theorem chunks_alternate x cs :
  chunks E x = inl cs ->
  forall l1 c1 c2 l2, cs = l1 ++ c1 :: c2 :: l2 -> no_pct c1 = true -> no_pct c2 = true -> False.
Proof. intros H. apply alt_spec. apply (chunks_alt x). exact H. Qed.

(** * 4. success / failure is the parity of the number of % *)

Definition is_inr (r : list str + str) : bool := match r with inl _ => false | inr _ => true end.

Lemma is_inr_bindl r f : is_inr (bindl r f) = is_inr r.
Proof. destruct r; reflexivity. Qed.

Lemma chk_is_inr x : forall o b, is_inr (chk x o b) = xorb o (Nat.odd (count_pct x)).
Proof.
  induction x as [|c x IH]; intros o b; cbn [chk count_pct].
  - destruct o; reflexivity.
  - destruct (Ascii.eqb c pct).
    + change (1 + count_pct x)%nat with (S (count_pct x)).
      rewrite Nat.odd_succ, <- Nat.negb_odd.
      destruct o; rewrite is_inr_bindl, IH; destruct (Nat.odd (count_pct x)); reflexivity.
    + cbn [Nat.add]. apply IH.
Qed.

Lemma chunks_is_inr x : is_inr (chunks E x) = Nat.odd (count_pct x).
Proof.
  destruct x as [|c x]; [reflexivity|].
  rewrite chunks_chk by discriminate. rewrite chk_is_inr. apply xorb_false_l.
Qed.

Theorem chunks_err_iff x : (exists b, chunks E x = inr b) <-> Nat.odd (count_pct x) = true.
Proof.
  rewrite <- chunks_is_inr. destruct (chunks E x) as [cs|b]; cbn [is_inr].
  - split; [intros [b H]; discriminate|discriminate].
  - split; [reflexivity|eauto].
Qed.

Theorem chunks_ok_iff x : (exists cs, chunks E x = inl cs) <-> Nat.even (count_pct x) = true.
Proof.
  rewrite <- Nat.negb_odd, <- chunks_is_inr. destruct (chunks E x) as [cs|b]; cbn [is_inr negb].
  - split; [reflexivity|eauto].
  - split; [intros [cs H]; discriminate|discriminate].
Qed.

Lemma chk_err x : forall o b e, buf_ok o b -> chk x o b = inr e ->
  exists pre, b ++ x = pre ++ e /\ exists m, e = pct :: m /\ no_pct m = true.
Proof.
  induction x as [|c x IH]; intros o b e Hb H; cbn [chk] in H.
  - destruct o; [|discriminate]. injection H as <-. exists []. rewrite app_nil_r. split; [reflexivity|exact Hb].
  - destruct (Ascii.eqb c pct) eqn:Hc.
    + destruct o; apply bindl_inr in H.
      * apply (IH false [] e) in H; [|reflexivity]. destruct H as [pre [Hx Hm]].
        exists ((b ++ [c]) ++ pre). split; [|exact Hm].
        cbn [app] in Hx. rewrite Hx, <- !app_assoc. reflexivity.
      * apply (IH true [c] e) in H; [|apply buf_ok_open; exact Hc]. destruct H as [pre [Hx Hm]].
        exists (b ++ pre). split; [|exact Hm].
        cbn [app] in Hx. rewrite Hx, <- !app_assoc. reflexivity.
    + apply (IH o (b ++ [c]) e) in H; [|apply buf_ok_snoc; assumption].
      destruct H as [pre [Hx Hm]]. exists pre. split; [|exact Hm].
      rewrite <- Hx, <- app_assoc. reflexivity.
Qed.

(** on error the returned buffer is the unterminated tail *)
Theorem chunks_err_tail x b :
  chunks E x = inr b -> exists pre, x = pre ++ b /\ exists m, b = pct :: m /\ no_pct m = true.
Proof.
  destruct x as [|c x]; [discriminate|].
  rewrite chunks_chk by discriminate. intros H.
  apply (chk_err (c :: x) false [] b) in H; [exact H|reflexivity].
Qed.

(** * 5. [to_expr] *)

Theorem to_expr_spec c m : to_expr E c = Some m <-> c = pct :: m ++ [pct].
Proof.
  unfold to_expr. rewrite Hd. change "%"%char with pct. split.
  - destruct c as [|a rest]; [discriminate|].
    destruct (rev rest) as [|d mid] eqn:Hr; [discriminate|].
    destruct (Ascii.eqb_spec a pct) as [->|Ha]; [|discriminate].
    destruct (Ascii.eqb_spec d pct) as [->|Hd']; [|discriminate].
    cbn [andb]. intros H. injection H as <-.
    rewrite <- (rev_involutive rest), Hr. reflexivity.
  - intros ->. rewrite rev_app_distr. cbn [rev app].
    rewrite Ascii.eqb_refl. cbn [andb]. rewrite rev_involutive. reflexivity.
Qed.

Lemma to_expr_single : to_expr E [pct] = None.
Proof. reflexivity. Qed.

Lemma to_expr_length c m : to_expr E c = Some m -> length c = (length m + 2)%nat.
Proof.
  intros H. apply to_expr_spec in H. subst c. cbn [length]. rewrite app_length. cbn [length]. lia.
Qed.

(** every token chunk has an expression, no literal chunk has one *)
Lemma to_expr_tok c : tok_chunk c -> exists m, to_expr E c = Some m /\ no_pct m = true.
Proof. intros [m [-> Hm]]. exists m. split; [apply to_expr_spec; reflexivity|exact Hm]. Qed.

Lemma to_expr_lit c : no_pct c = true -> to_expr E c = None.
Proof.
  intros Hc. destruct (to_expr E c) as [m|] eqn:H; [|reflexivity].
  apply to_expr_spec in H. subst c. rewrite no_pct_cons in Hc. unfold pct in Hc at 1.
  rewrite Ascii.eqb_refl in Hc. discriminate.
Qed.

(** * 6. escaping *)

Definition unescape_chunk (c : str) : str := if str_eqb c [pct; pct] then [pct] else c.

Lemma unescape_lit c : no_pct c = true -> unescape_chunk c = c.
Proof.
  intros Hc. unfold unescape_chunk. destruct (str_eqb_spec c [pct; pct]) as [->|_]; [|reflexivity].
  rewrite no_pct_cons in Hc. unfold pct in Hc at 1. rewrite Ascii.eqb_refl in Hc. discriminate.
Qed.

Lemma unescape_flush b : no_pct b = true -> concat (map unescape_chunk (flush b)) = b.
Proof.
  intros Hb. destruct b as [|a b]; [reflexivity|].
  cbn [flush map concat]. rewrite unescape_lit by exact Hb. apply app_nil_r.
Qed.

Lemma Forall_flush_esc b : no_pct b = true -> Forall (fun c => no_pct c = true \/ c = [pct; pct]) (flush b).
Proof.
  intros Hb. destruct b as [|a b]; [constructor|]. cbn [flush]. constructor; [left; exact Hb|constructor].
Qed.

Lemma chk_double_pct x : forall b, no_pct b = true ->
  exists cs, chk (double_pct x) false b = inl cs
    /\ Forall (fun c => no_pct c = true \/ c = [pct; pct]) cs
    /\ concat (map unescape_chunk cs) = b ++ x.
Proof.
  induction x as [|c x IH]; intros b Hb.
  - exists (flush b). cbn [double_pct flat_map chk]. split; [reflexivity|].
    split; [apply Forall_flush_esc; exact Hb|]. rewrite app_nil_r. apply unescape_flush; exact Hb.
  - unfold double_pct. cbn [flat_map]. fold (double_pct x).
    destruct (Ascii.eqb c pct) eqn:Hc.
    + destruct (IH [] eq_refl) as [cs [H [HF HC]]].
      exists (flush b ++ [pct; pct] :: cs).
      cbn [app chk]. unfold pct at 1 3. rewrite Ascii.eqb_refl. fold pct.
      cbn [bindl]. rewrite H. cbn [bindl app]. split; [reflexivity|]. split.
      * apply Forall_app. split; [apply Forall_flush_esc; exact Hb|]. constructor; [right; reflexivity|exact HF].
      * rewrite map_app, concat_app, unescape_flush by exact Hb.
        cbn [map concat]. rewrite HC. unfold unescape_chunk. rewrite str_eqb_refl.
        apply Ascii.eqb_eq in Hc. subst c. reflexivity.
    + destruct (IH (b ++ [c]) (no_pct_snoc b c Hb Hc)) as [cs [H [HF HC]]].
      exists cs. cbn [app chk]. rewrite Hc. split; [exact H|]. split; [exact HF|].
      rewrite HC, <- app_assoc. reflexivity.
Qed.

Theorem chunks_double_pct x :
  exists cs, chunks E (double_pct x) = inl cs
    /\ Forall (fun c => no_pct c = true \/ c = [pct; pct]) cs
    /\ concat (map (fun c => if str_eqb c [pct; pct] then [pct] else c) cs) = x.
Proof.
  destruct (double_pct x) as [|d y] eqn:Hx.
  - destruct x as [|c x].
    + exists [[]]. split; [reflexivity|]. split; [constructor; [left; reflexivity|constructor]|reflexivity].
    + unfold double_pct in Hx. cbn [flat_map] in Hx. destruct (Ascii.eqb c pct); discriminate.
  - rewrite chunks_chk by discriminate. rewrite <- Hx.
    destruct (chk_double_pct x [] eq_refl) as [cs [H [HF HC]]].
    exists cs. split; [exact H|]. split; [exact HF|exact HC].
Qed.

(** doubling never produces an unterminated token *)
Corollary count_pct_double_even x : Nat.even (count_pct (double_pct x)) = true.
Proof.
  apply chunks_ok_iff. destruct (chunks_double_pct x) as [cs [H _]]. eauto.
Qed.

(** * 7. %-free context does not change the token chunks *)

Lemma chk_no_pct q : forall o b, no_pct q = true -> chk q o b = if o then inr (b ++ q) else inl (flush (b ++ q)).
Proof.
  induction q as [|c q IH]; intros o b Hq.
  - cbn [chk]. rewrite app_nil_r. reflexivity.
  - rewrite no_pct_cons in Hq. apply andb_true_iff in Hq as [Hc Hq].
    apply negb_true_iff in Hc. cbn [chk]. rewrite Hc, IH by exact Hq.
    rewrite <- app_assoc. reflexivity.
Qed.

(** suffix *)
Lemma chk_suffix_ok q x : no_pct q = true -> forall o b cs, buf_ok o b -> chk x o b = inl cs ->
  exists cs', chk (x ++ q) o b = inl cs' /\ tokens cs' = tokens cs.
Proof.
  intros Hq. induction x as [|c x IH]; intros o b cs Hb H.
  - cbn [chk] in H. destruct o; [discriminate|]. injection H as <-.
    cbn [app]. rewrite chk_no_pct by exact Hq. exists (flush (b ++ q)). split; [reflexivity|].
    cbn [buf_ok] in Hb. rewrite !tokens_flush; [reflexivity|exact Hb|].
    rewrite no_pct_app, Hb, Hq. reflexivity.
  - cbn [app chk] in *. destruct (Ascii.eqb c pct) eqn:Hc.
    + destruct o; apply bindl_inl in H as [cs0 [H ->]].
      * apply (IH false []) in H; [|reflexivity]. destruct H as [cs' [H HT]].
        rewrite H. cbn [bindl]. eexists; split; [reflexivity|].
        cbn [tokens filter]. fold (tokens cs') (tokens cs0). rewrite HT. reflexivity.
      * apply (IH true [c]) in H; [|apply buf_ok_open; exact Hc]. destruct H as [cs' [H HT]].
        rewrite H. cbn [bindl]. eexists; split; [reflexivity|].
        rewrite !tokens_app, HT. reflexivity.
    + apply IH; [apply buf_ok_snoc; assumption|exact H].
Qed.

Lemma chk_suffix_err q x : no_pct q = true -> forall o b e, chk x o b = inr e -> chk (x ++ q) o b = inr (e ++ q).
Proof.
  intros Hq. induction x as [|c x IH]; intros o b e H.
  - cbn [chk] in H. destruct o; [|discriminate]. injection H as <-.
    cbn [app]. rewrite chk_no_pct by exact Hq. reflexivity.
  - cbn [app chk] in *. destruct (Ascii.eqb c pct).
    + destruct o; apply bindl_inr in H; apply IH in H; rewrite H; reflexivity.
    + apply IH. exact H.
Qed.

(** prefix = change of the initial literal buffer *)
Lemma chk_prefix p x b : no_pct p = true -> chk (p ++ x) false b = chk x false (b ++ p).
Proof.
  revert b. induction p as [|c p IH]; intros b Hp.
  - rewrite app_nil_r. reflexivity.
  - rewrite no_pct_cons in Hp. apply andb_true_iff in Hp as [Hc Hp]. apply negb_true_iff in Hc.
    cbn [app chk]. rewrite Hc, IH by exact Hp. rewrite <- app_assoc. reflexivity.
Qed.

Lemma chk_buffer_ok x : forall b b' cs, no_pct b = true -> no_pct b' = true -> chk x false b = inl cs ->
  exists cs', chk x false b' = inl cs' /\ tokens cs' = tokens cs.
Proof.
  induction x as [|c x IH]; intros b b' cs Hb Hb' H; cbn [chk] in *.
  - injection H as <-. eexists; split; [reflexivity|]. rewrite !tokens_flush by assumption. reflexivity.
  - destruct (Ascii.eqb c pct) eqn:Hc.
    + apply bindl_inl in H as [cs0 [H ->]]. rewrite H. cbn [bindl]. eexists; split; [reflexivity|].
      rewrite !tokens_app, !tokens_flush by assumption. reflexivity.
    + apply (IH (b ++ [c])); [apply no_pct_snoc; assumption|apply no_pct_snoc; assumption|exact H].
Qed.

Lemma chk_buffer_err x : forall b b' e, chk x false b = inr e -> chk x false b' = inr e.
Proof.
  induction x as [|c x IH]; intros b b' e H; cbn [chk] in *; [discriminate|].
  destruct (Ascii.eqb c pct).
  - apply bindl_inr in H. rewrite H. reflexivity.
  - apply (IH (b ++ [c])). exact H.
Qed.

(** [chunks] and [chk] agree up to the special empty-string chunk, which is not a token *)
Lemma chunks_chk_ok x cs : chunks E x = inl cs -> exists cs0, chk x false [] = inl cs0 /\ tokens cs0 = tokens cs.
Proof.
  destruct x as [|c x].
  - cbn [chunks]. intros H. injection H as <-. exists []. split; reflexivity.
  - rewrite chunks_chk by discriminate. eauto.
Qed.

Lemma chk_chunks_ok x cs0 : chk x false [] = inl cs0 -> exists cs, chunks E x = inl cs /\ tokens cs = tokens cs0.
Proof.
  destruct x as [|c x].
  - cbn [chk]. intros H. injection H as <-. exists [[]]. split; reflexivity.
  - rewrite chunks_chk by discriminate. eauto.
Qed.

Lemma chunks_chk_err x e : chunks E x = inr e <-> chk x false [] = inr e.
Proof.
  destruct x as [|c x].
  - cbn [chunks chk flush]. split; discriminate.
  - rewrite chunks_chk by discriminate. reflexivity.
Qed.

Theorem chunks_app_literal p q x cs :
  no_pct p = true -> no_pct q = true -> chunks E x = inl cs ->
  exists cs', chunks E (p ++ x ++ q) = inl cs' /\ tokens cs' = tokens cs.
Proof.
  intros Hp Hq H. apply chunks_chk_ok in H as [cs0 [H HT0]].
  apply (chk_suffix_ok q x Hq false [] cs0 eq_refl) in H as [cs1 [H HT1]].
  apply (chk_buffer_ok (x ++ q) [] ([] ++ p) cs1 eq_refl Hp) in H as [cs2 [H HT2]].
  rewrite <- chk_prefix in H by exact Hp.
  apply chk_chunks_ok in H as [cs3 [H HT3]].
  exists cs3. split; [exact H|]. congruence.
Qed.

Theorem chunks_app_literal_err p q x e :
  no_pct p = true -> no_pct q = true -> chunks E x = inr e -> chunks E (p ++ x ++ q) = inr (e ++ q).
Proof.
  intros Hp Hq H. apply chunks_chk_err in H. apply chunks_chk_err.
  rewrite chk_prefix by exact Hp. apply (chk_buffer_err (x ++ q) []).
  apply chk_suffix_err; assumption.
Qed.

End WithEnv.

Print Assumptions chunks_concat.
Print Assumptions chunks_shape.
Print Assumptions chunks_alternate.
Print Assumptions chunks_err_iff.
Print Assumptions chunks_ok_iff.
Print Assumptions chunks_err_tail.
Print Assumptions to_expr_spec.
Print Assumptions chunks_double_pct.
Print Assumptions chunks_app_literal.
Print Assumptions chunks_app_literal_err.
