(** Graph algorithms of Model/OutVal.v: [succs], the worklist [reach] / [reachable_from] (sound and complete
    w.r.t. the transitive closure of the edge relation, fuel shown sufficient) and the enumeration of the
    elementary cycles [cycles_from] / [all_cycles] (sound, complete, empty iff acyclic, duplicate free, sorted). *)
From GV Require Import Base.Str Base.Sort Model.OutVal.
From Coq Require Import Relations.Relation_Operators Sorting.Sorted Sorting.Permutation Lia.

Local Open Scope nat_scope.

(** * Specification vocabulary *)

Definition edge (g : graph) (a b : nat) : Prop := In (a, b) (g_edges g).
Definition path (g : graph) : nat -> nat -> Prop := clos_trans_1n nat (edge g).
Definition wf_graph (g : graph) : Prop :=
  forall a b, In (a, b) (g_edges g) -> a < length (g_nodes g) /\ b < length (g_nodes g).

(** consecutive elements are edges *)
Fixpoint chain (g : graph) (l : list nat) : Prop :=
  match l with
  | a :: t => match t with b :: _ => edge g a b /\ chain g t | [] => True end
  | [] => True
  end.

(** [c = v :: rest ++ [v]], the nodes [v :: rest] pairwise distinct, consecutive nodes are edges *)
Definition is_elem_cycle (g : graph) (c : list nat) : Prop :=
  exists v rest, c = v :: rest ++ [v] /\ NoDup (v :: rest) /\ chain g c.
(** ... and moreover the first node is the smallest one: the normal form listed by [all_cycles] *)
Definition is_cycle (g : graph) (c : list nat) : Prop :=
  exists v rest, c = v :: rest ++ [v] /\ NoDup (v :: rest) /\ chain g c /\ Forall (fun x => v < x) rest.
(** [c'] is [c] started at another of its nodes *)
Definition cyc_rot (c c' : list nat) : Prop :=
  exists p1 p2, c = (p1 ++ p2) ++ [hd 0 (p1 ++ p2)] /\ c' = (p2 ++ p1) ++ [hd 0 (p2 ++ p1)].

Lemma is_cycle_elem g c : is_cycle g c -> is_elem_cycle g c.
Proof. intros (v & rest & H1 & H2 & H3 & _). exists v, rest. auto. Qed.

(** * Small facts *)

Lemma nmem_In n l : nmem n l = true <-> In n l.
Proof.
  unfold nmem. rewrite existsb_exists. split.
  - intros (x & Hx & He). apply Nat.eqb_eq in He. subst. exact Hx.
  - intros H. exists n. split; [exact H | apply Nat.eqb_refl].
Qed.

Lemma nmem_false n l : nmem n l = false <-> ~ In n l.
Proof. rewrite <- nmem_In. destruct (nmem n l); split; congruence. Qed.

(** 1. successors *)
Theorem succs_spec g a b : In b (succs g a) <-> edge g a b.
Proof.
  unfold succs, edge. rewrite in_map_iff. split.
  - intros ([x y] & Hy & Hin). apply filter_In in Hin. destruct Hin as [Hin He].
    cbn in Hy, He. apply Nat.eqb_eq in He. subst. exact Hin.
  - intros H. exists (a, b). split; [reflexivity|]. apply filter_In. split; [exact H|].
    cbn. apply Nat.eqb_refl.
Qed.

Lemma succs_NoDup g a : NoDup (g_edges g) -> NoDup (succs g a).
Proof.
  unfold succs. induction (g_edges g) as [|[x y] l IH]; intros Hnd; cbn [filter map].
  - constructor.
  - inversion Hnd as [|? ? Hni Hnd']; subst.
    destruct (Nat.eqb_spec (fst (x, y)) a) as [He|He]; cbn [fst] in He.
    + cbn [map snd]. constructor; [|auto].
      intros Hin. apply in_map_iff in Hin. destruct Hin as ([x' y'] & Hy & Hin).
      apply filter_In in Hin. destruct Hin as [Hin He']. cbn in Hy, He'. apply Nat.eqb_eq in He'.
      subst. contradiction.
    + auto.
Qed.

(** pigeonhole *)
Lemma bounded_NoDup_length (l : list nat) n : NoDup l -> (forall x, In x l -> x < n) -> length l <= n.
Proof.
  intros Hnd Hb. rewrite <- (seq_length n 0). apply NoDup_incl_length; [exact Hnd|].
  intros x Hx. apply in_seq. specialize (Hb x Hx). lia.
Qed.

(** * 2. Reachability *)

Definition dedup (l : list nat) : list nat :=
  fold_right (fun m acc => if nmem m acc then acc else m :: acc) [] l.

Lemma dedup_In l x : In x (dedup l) <-> In x l.
Proof.
  induction l as [|y l IH]; cbn [dedup fold_right]; [tauto|].
  fold (dedup l). destruct (nmem y (dedup l)) eqn:E.
  - apply nmem_In in E. cbn [In]. split; [tauto|]. intros [->|H]; tauto.
  - cbn [In]. tauto.
Qed.

Lemma dedup_NoDup l : NoDup (dedup l).
Proof.
  induction l as [|y l IH]; cbn [dedup fold_right]; [constructor|].
  fold (dedup l). destruct (nmem y (dedup l)) eqn:E; [exact IH|].
  apply nmem_false in E. constructor; assumption.
Qed.

Definition newnodes (g : graph) (n : nat) (seen : list nat) : list nat :=
  dedup (filter (fun m => negb (nmem m seen)) (succs g n)).

Lemma reach_step g f n rest seen :
  reach g (S f) (n :: rest) seen = reach g f (rest ++ newnodes g n seen) (seen ++ newnodes g n seen).
Proof. reflexivity. Qed.

Lemma newnodes_In g n seen x : In x (newnodes g n seen) <-> edge g n x /\ ~ In x seen.
Proof.
  unfold newnodes. rewrite dedup_In, filter_In, succs_spec, negb_true_iff, nmem_false. tauto.
Qed.

Lemma newnodes_NoDup g n seen : NoDup (newnodes g n seen).
Proof. apply dedup_NoDup. Qed.

Lemma NoDup_app_intro (A : Type) (l1 l2 : list A) :
  NoDup l1 -> NoDup l2 -> (forall x, In x l1 -> ~ In x l2) -> NoDup (l1 ++ l2).
Proof.
  induction l1 as [|a l1 IH]; intros H1 H2 Hd; cbn [app]; [exact H2|].
  inversion H1; subst. constructor.
  - rewrite in_app_iff. intros [H|H]; [contradiction|]. apply (Hd a); [left; reflexivity|exact H].
  - apply IH; auto. intros x Hx. apply Hd. right. exact Hx.
Qed.

Lemma NoDup_app_r (A : Type) (l1 l2 : list A) : NoDup (l1 ++ l2) -> NoDup l2.
Proof. induction l1 as [|a l1 IH]; cbn [app]; [tauto|]. intros H. inversion H; subst. auto. Qed.

Lemma path_step g a b : edge g a b -> path g a b.
Proof. intros H. apply t1n_step. exact H. Qed.

Lemma path_snoc g a b c : path g a b -> edge g b c -> path g a c.
Proof.
  intros H He. induction H as [x y Hxy | x y z Hxy Hyz IH].
  - eapply t1n_trans; [exact Hxy | apply t1n_step; exact He].
  - eapply t1n_trans; [exact Hxy | apply IH; exact He].
Qed.

Lemma path_trans g a b c : path g a b -> path g b c -> path g a c.
Proof.
  intros H1 H2. induction H1 as [x y Hxy | x y z Hxy Hyz IH].
  - eapply t1n_trans; eassumption.
  - eapply t1n_trans; [exact Hxy | apply IH; exact H2].
Qed.

(** soundness for any fuel *)
Lemma reach_sound g a fuel : forall frontier seen,
  (forall x, In x frontier -> x = a \/ path g a x) ->
  (forall x, In x seen -> path g a x) ->
  forall x, In x (reach g fuel frontier seen) -> path g a x.
Proof.
  induction fuel as [|f IH]; intros frontier seen Hf Hs x Hx.
  - apply Hs. exact Hx.
  - destruct frontier as [|n rest]; [apply Hs; exact Hx|].
    rewrite reach_step in Hx.
    assert (Hnew : forall y, In y (newnodes g n seen) -> path g a y).
    { intros y Hy. apply newnodes_In in Hy. destruct Hy as [He _].
      destruct (Hf n (or_introl eq_refl)) as [->|Hp]; [apply path_step; exact He|].
      eapply path_snoc; eassumption. }
    eapply IH; [| |exact Hx].
    + intros y Hy. apply in_app_iff in Hy. destruct Hy as [Hy|Hy].
      * apply Hf. right. exact Hy.
      * right. apply Hnew. exact Hy.
    + intros y Hy. apply in_app_iff in Hy. destruct Hy as [Hy|Hy]; [apply Hs; exact Hy | apply Hnew; exact Hy].
Qed.

Theorem reachable_from_sound g a b : In b (reachable_from g a) -> path g a b.
Proof.
  unfold reachable_from. apply reach_sound.
  - intros x [<-|[]]. left. reflexivity.
  - intros x [].
Qed.

Lemma reach_NoDup g fuel : forall frontier seen, NoDup seen -> NoDup (reach g fuel frontier seen).
Proof.
  induction fuel as [|f IH]; intros frontier seen Hnd; [exact Hnd|].
  destruct frontier as [|n rest]; [exact Hnd|].
  rewrite reach_step. apply IH. apply NoDup_app_intro; [exact Hnd | apply newnodes_NoDup |].
  intros x Hx Hx'. apply newnodes_In in Hx'. tauto.
Qed.

Theorem reachable_from_NoDup g a : NoDup (reachable_from g a).
Proof. apply reach_NoDup. constructor. Qed.

(** the result is closed under successors as soon as the fuel is at least
    [length frontier + (number of nodes - length seen)]: this quantity decreases by exactly one per step *)
Lemma reach_complete_fuel g (Hwf : wf_graph g) fuel : forall frontier seen,
  NoDup seen ->
  (forall x, In x seen -> x < length (g_nodes g)) ->
  (forall x, In x seen -> In x frontier \/ forall y, edge g x y -> In y seen) ->
  length frontier + length (g_nodes g) <= fuel + length seen ->
  let R := reach g fuel frontier seen in
  incl seen R /\
  (forall x, In x frontier -> forall y, edge g x y -> In y R) /\
  (forall x, In x R -> forall y, edge g x y -> In y R).
Proof.
  induction fuel as [|f IH]; intros frontier seen Hnd Hb Hcl Hfuel.
  - pose proof (bounded_NoDup_length seen _ Hnd Hb) as Hlen.
    destruct frontier as [|n rest]; [|cbn [length] in Hfuel; lia].
    cbn [reach]. split; [apply incl_refl|]. split; [intros x []|].
    intros x Hx. destruct (Hcl x Hx) as [[]|H]. exact H.
  - destruct frontier as [|n rest].
    + cbn [reach]. split; [apply incl_refl|]. split; [intros x []|].
      intros x Hx. destruct (Hcl x Hx) as [[]|H]. exact H.
    + rewrite reach_step.
      set (new := newnodes g n seen).
      assert (Hnew : forall y, In y new <-> edge g n y /\ ~ In y seen) by (intro; apply newnodes_In).
      destruct (IH (rest ++ new) (seen ++ new)) as (I1 & I2 & I3).
      * apply NoDup_app_intro; [exact Hnd | apply newnodes_NoDup |].
        intros x Hx Hx'. apply Hnew in Hx'. tauto.
      * intros x Hx. apply in_app_iff in Hx. destruct Hx as [Hx|Hx]; [apply Hb; exact Hx|].
        apply Hnew in Hx. destruct Hx as [He _]. apply Hwf in He. tauto.
      * intros x Hx. apply in_app_iff in Hx. destruct Hx as [Hx|Hx].
        -- destruct (Hcl x Hx) as [[<-|Hr]|Hs].
           ++ right. intros y He. apply in_app_iff.
              destruct (in_dec Nat.eq_dec y seen) as [Hy|Hy]; [left; exact Hy|].
              right. apply Hnew. tauto.
           ++ left. apply in_app_iff. left. exact Hr.
           ++ right. intros y He. apply in_app_iff. left. apply Hs. exact He.
        -- left. apply in_app_iff. right. exact Hx.
      * rewrite !app_length. cbn [length] in Hfuel. lia.
      * split; [|split].
        -- intros x Hx. apply I1. apply in_app_iff. left. exact Hx.
        -- intros x [<-|Hx] y He.
           ++ apply I1. apply in_app_iff.
              destruct (in_dec Nat.eq_dec y seen) as [Hy|Hy]; [left; exact Hy|].
              right. apply Hnew. tauto.
           ++ eapply I2; [|exact He]. apply in_app_iff. left. exact Hx.
        -- exact I3.
Qed.

(** completeness; the hypothesis [a < length (g_nodes g)] of the task statement is not needed *)
Theorem reachable_from_complete_strong g a b :
  wf_graph g -> path g a b -> In b (reachable_from g a).
Proof.
  intros Hwf Hp. unfold reachable_from.
  destruct (reach_complete_fuel g Hwf (S (length (g_nodes g) * S (length (g_nodes g)))) [a] [])
    as (_ & H2 & H3).
  - constructor.
  - intros x [].
  - intros x [].
  - cbn [length]. lia.
  - set (R := reach g _ [a] []) in *.
    assert (H : forall x y, path g x y -> (x = a \/ In x R) -> In y R).
    { intros x y Hxy. induction Hxy as [x y He | x y z He Hyz IH]; intros Hx.
      - destruct Hx as [->|Hx]; [eapply H2; [left; reflexivity | exact He] | eapply H3; eassumption].
      - apply IH. right.
        destruct Hx as [->|Hx]; [eapply H2; [left; reflexivity | exact He] | eapply H3; eassumption]. }
    apply (H a b Hp). left. reflexivity.
Qed.

Theorem reachable_from_complete g a b :
  wf_graph g -> a < length (g_nodes g) -> path g a b -> In b (reachable_from g a).
Proof. intros Hwf _. apply reachable_from_complete_strong. exact Hwf. Qed.

Corollary reachable_from_iff g a b : wf_graph g -> (In b (reachable_from g a) <-> path g a b).
Proof.
  intros Hwf. split; [apply reachable_from_sound | apply reachable_from_complete_strong; exact Hwf].
Qed.

(** [a] itself is listed exactly when it lies on a cycle *)
Corollary reachable_from_self g a : wf_graph g -> (In a (reachable_from g a) <-> path g a a).
Proof. apply reachable_from_iff. Qed.

(** * 3. Elementary cycles *)

Lemma chain_app_mid g l1 u l2 : chain g (l1 ++ u :: l2) <-> chain g (l1 ++ [u]) /\ chain g (u :: l2).
Proof.
  induction l1 as [|x l1 IH].
  - cbn [app]. cbn [chain]. tauto.
  - destruct l1 as [|y l1].
    + cbn [app].
      change (chain g (x :: u :: l2)) with (edge g x u /\ chain g (u :: l2)).
      change (chain g [x; u]) with (edge g x u /\ True). tauto.
    + cbn [app] in *.
      change (chain g (x :: y :: l1 ++ u :: l2)) with (edge g x y /\ chain g (y :: l1 ++ u :: l2)).
      change (chain g (x :: y :: l1 ++ [u])) with (edge g x y /\ chain g (y :: l1 ++ [u])).
      tauto.
Qed.

Lemma chain_cons g a b l : chain g (a :: b :: l) <-> edge g a b /\ chain g (b :: l).
Proof. reflexivity. Qed.

Lemma chain_tail g a l : chain g (a :: l) -> chain g l.
Proof. destruct l as [|b l]; [intros; exact I|]. rewrite chain_cons. tauto. Qed.

Lemma chain_suffix g l1 l2 : chain g (l1 ++ l2) -> chain g l2.
Proof. induction l1 as [|x l1 IH]; cbn [app]; [tauto|]. intros H. apply IH. eapply chain_tail. exact H. Qed.

(** a chain from [a] to [b] is a path *)
Lemma chain_path g : forall l a b, chain g (a :: l ++ [b]) -> path g a b.
Proof.
  induction l as [|x l IH]; intros a b H.
  - cbn [app] in H. apply chain_cons in H. destruct H as [H _]. apply path_step. exact H.
  - cbn [app] in H. apply chain_cons in H. destruct H as [He H].
    eapply t1n_trans; [exact He | apply IH; exact H].
Qed.

Lemma chain_bounded g (Hwf : wf_graph g) : forall l a, chain g (a :: l) -> forall x, In x l -> x < length (g_nodes g).
Proof.
  induction l as [|b l IH]; intros a H x Hx; [destruct Hx|].
  apply chain_cons in H. destruct H as [He H]. destruct Hx as [<-|Hx].
  - apply Hwf in He. tauto.
  - eapply IH; eassumption.
Qed.

Lemma chain_head_bounded g (Hwf : wf_graph g) a b l : chain g (a :: b :: l) -> a < length (g_nodes g).
Proof. intros H. apply chain_cons in H. destruct H as [He _]. apply Hwf in He. tauto. Qed.

(** ** [cycles_from] *)

Definition cyc_branch (g : graph) (f root : nat) (path : list nat) (m : nat) : list (list nat) :=
  if Nat.eqb m root then [rev (root :: path)]
  else if Nat.ltb root m && negb (nmem m path) then cycles_from g f root m (m :: path)
  else [].

Lemma cycles_from_S g f root cur path :
  cycles_from g (S f) root cur path = flat_map (cyc_branch g f root path) (succs g cur).
Proof. reflexivity. Qed.

Lemma cycles_from_sound g : forall f root cur path c,
  In c (cycles_from g f root cur path) ->
  exists ext, c = rev path ++ ext ++ [root] /\ chain g (cur :: ext ++ [root]) /\ NoDup ext /\
              (forall x, In x ext -> root < x /\ ~ In x path).
Proof.
  induction f as [|f IH]; intros root cur path c Hc; [destruct Hc|].
  rewrite cycles_from_S in Hc. apply in_flat_map in Hc. destruct Hc as (m & Hm & Hc).
  apply succs_spec in Hm. unfold cyc_branch in Hc.
  destruct (Nat.eqb_spec m root) as [->|Hne].
  - destruct Hc as [<-|[]]. exists []. cbn [app rev]. split; [reflexivity|].
    split; [apply chain_cons; split; [exact Hm | exact I]|].
    split; [constructor | intros x []].
  - destruct (Nat.ltb_spec root m) as [Hlt|Hge]; cbn [andb] in Hc; [|destruct Hc].
    destruct (nmem m path) eqn:Enm; cbn [negb] in Hc; [destruct Hc|].
    apply nmem_false in Enm.
    apply IH in Hc. destruct Hc as (ext & -> & Hch & Hnd & Hext).
    exists (m :: ext). split; [cbn [rev app]; rewrite <- !app_assoc; reflexivity|].
    split; [cbn [app]; apply chain_cons; split; assumption|].
    split.
    + constructor; [|exact Hnd]. intros Hin. apply Hext in Hin. destruct Hin as [_ Hin].
      apply Hin. left. reflexivity.
    + intros x [<-|Hx]; [split; assumption|]. apply Hext in Hx. destruct Hx as [Hx1 Hx2].
      split; [exact Hx1|]. intros Hin. apply Hx2. right. exact Hin.
Qed.

Lemma cycles_from_complete g : forall ext f root cur path,
  chain g (cur :: ext ++ [root]) -> NoDup ext ->
  (forall x, In x ext -> root < x /\ ~ In x path) ->
  length ext < f ->
  In (rev path ++ ext ++ [root]) (cycles_from g f root cur path).
Proof.
  induction ext as [|m ext IH]; intros f root cur path Hch Hnd Hext Hf;
    (destruct f as [|f]; [lia|]); rewrite cycles_from_S; apply in_flat_map.
  - cbn [app] in *. apply chain_cons in Hch. destruct Hch as [He _].
    exists root. split; [apply succs_spec; exact He|].
    unfold cyc_branch. rewrite Nat.eqb_refl. left. reflexivity.
  - cbn [app] in Hch. apply chain_cons in Hch. destruct Hch as [He Hch].
    exists m. split; [apply succs_spec; exact He|].
    destruct (Hext m (or_introl eq_refl)) as [Hlt Hni].
    unfold cyc_branch.
    destruct (Nat.eqb_spec m root) as [->|Hne]; [lia|].
    destruct (Nat.ltb_spec root m) as [_|Hge]; [|lia].
    apply nmem_false in Hni. rewrite Hni. cbn [negb andb].
    inversion Hnd as [|? ? Hm Hnd']; subst.
    replace (rev path ++ (m :: ext) ++ [root]) with (rev (m :: path) ++ ext ++ [root])
      by (cbn [rev app]; rewrite <- !app_assoc; reflexivity).
    apply IH; [exact Hch | exact Hnd' | | cbn [length] in Hf; lia].
    intros x Hx. destruct (Hext x (or_intror Hx)) as [H1 H2]. split; [exact H1|].
    intros [<-|Hin]; [contradiction | apply H2; exact Hin].
Qed.

(** every listed cycle extends [rev path] *)
Lemma cycles_from_prefix g f root cur path c :
  In c (cycles_from g f root cur path) -> exists t, c = rev path ++ t.
Proof.
  intros H. apply cycles_from_sound in H. destruct H as (ext & -> & _). eexists. reflexivity.
Qed.

Lemma NoDup_flat_map (A B : Type) (f : A -> list B) (l : list A) :
  NoDup l -> (forall x, In x l -> NoDup (f x)) ->
  (forall x y b, In x l -> In y l -> In b (f x) -> In b (f y) -> x = y) ->
  NoDup (flat_map f l).
Proof.
  induction l as [|a l IH]; intros Hnd Hf Hdisj; cbn [flat_map]; [constructor|].
  inversion Hnd as [|? ? Hni Hnd']; subst.
  apply NoDup_app_intro.
  - apply Hf. left. reflexivity.
  - apply IH; [exact Hnd' | intros x Hx; apply Hf; right; exact Hx|].
    intros x y b Hx Hy. apply Hdisj; right; assumption.
  - intros b Hb Hb'. apply in_flat_map in Hb'. destruct Hb' as (y & Hy & Hb').
    assert (a = y) by (eapply Hdisj; [left; reflexivity | right; exact Hy | exact Hb | exact Hb']).
    subst. contradiction.
Qed.

Lemma cyc_branch_nth g f root path m c :
  In c (cyc_branch g f root path m) -> nth_error c (length path) = Some m.
Proof.
  unfold cyc_branch. intros H.
  assert (Hn : forall t, nth_error ((rev path ++ [m]) ++ t) (length path) = Some m).
  { intros t. rewrite <- app_assoc. rewrite nth_error_app2; rewrite rev_length; [|lia].
    rewrite Nat.sub_diag. reflexivity. }
  destruct (Nat.eqb_spec m root) as [->|Hne].
  - destruct H as [<-|[]]. cbn [rev]. rewrite <- (app_nil_r (rev path ++ [root])). apply Hn.
  - destruct (Nat.ltb root m && negb (nmem m path)); [|destruct H].
    apply cycles_from_prefix in H. destruct H as (t & ->). cbn [rev]. apply Hn.
Qed.

Lemma cycles_from_NoDup g (Hnd : NoDup (g_edges g)) : forall f root cur path,
  NoDup (cycles_from g f root cur path).
Proof.
  induction f as [|f IH]; intros root cur path; [constructor|].
  rewrite cycles_from_S. apply NoDup_flat_map.
  - apply succs_NoDup. exact Hnd.
  - intros m _. unfold cyc_branch. destruct (Nat.eqb m root).
    + constructor; [intros []|constructor].
    + destruct (Nat.ltb root m && negb (nmem m path)); [apply IH | constructor].
  - intros x y c _ _ Hx Hy. apply cyc_branch_nth in Hx. apply cyc_branch_nth in Hy. congruence.
Qed.

(** ** [sort_by]: membership, duplicates, order *)

Lemma insert_by_In (A : Type) (lt : A -> A -> bool) x l y : In y (insert_by lt x l) <-> y = x \/ In y l.
Proof.
  induction l as [|z l IH]; cbn [insert_by].
  - cbn [In]. intuition.
  - destruct (lt z x); cbn [In]; [rewrite IH|]; intuition.
Qed.

Lemma sort_by_In (A : Type) (lt : A -> A -> bool) l y : In y (sort_by lt l) <-> In y l.
Proof.
  induction l as [|z l IH]; cbn [sort_by]; [tauto|].
  rewrite insert_by_In, IH. cbn [In]. intuition.
Qed.

Lemma insert_by_NoDup (A : Type) (lt : A -> A -> bool) x l : ~ In x l -> NoDup l -> NoDup (insert_by lt x l).
Proof.
  induction l as [|z l IH]; intros Hni Hnd; cbn [insert_by].
  - constructor; [intros []|constructor].
  - inversion Hnd; subst. destruct (lt z x).
    + constructor.
      * rewrite insert_by_In. intros [->|H]; [apply Hni; left; reflexivity | contradiction].
      * apply IH; [|assumption]. intros H. apply Hni. right. exact H.
    + constructor; assumption.
Qed.

Lemma sort_by_NoDup (A : Type) (lt : A -> A -> bool) l : NoDup l -> NoDup (sort_by lt l).
Proof.
  induction l as [|z l IH]; intros Hnd; cbn [sort_by]; [constructor|].
  inversion Hnd; subst. apply insert_by_NoDup; [rewrite sort_by_In; assumption | auto].
Qed.

Section SortedBy.
  Context {A : Type} (lt : A -> A -> bool).
  Hypothesis lt_asym : forall a b, lt a b = true -> lt b a = false.
  Definition le_by (a b : A) : Prop := lt b a = false.

  Lemma insert_by_hd x l a : HdRel le_by a l -> le_by a x -> HdRel le_by a (insert_by lt x l).
  Proof.
    intros Hl Hx. destruct l as [|z l]; cbn [insert_by]; [constructor; exact Hx|].
    destruct (lt z x); constructor; [inversion Hl; assumption | exact Hx].
  Qed.

  Lemma insert_by_Sorted x l : Sorted le_by l -> Sorted le_by (insert_by lt x l).
  Proof.
    induction l as [|z l IH]; intros Hs; cbn [insert_by].
    - constructor; constructor.
    - inversion Hs as [|? ? Hs' Hhd]; subst. destruct (lt z x) eqn:E.
      + constructor; [apply IH; exact Hs'|]. apply insert_by_hd; [exact Hhd|].
        unfold le_by. apply lt_asym. exact E.
      + constructor; [exact Hs|]. constructor. exact E.
  Qed.

  Lemma sort_by_Sorted l : Sorted le_by (sort_by lt l).
  Proof. induction l as [|z l IH]; cbn [sort_by]; [constructor | apply insert_by_Sorted; exact IH]. Qed.
End SortedBy.

(** [lex_lt] is a strict total order *)
Lemma lex_lt_irrefl a : lex_lt a a = false.
Proof. induction a as [|x a IH]; cbn [lex_lt]; [reflexivity|]. rewrite Nat.eqb_refl. exact IH. Qed.

Lemma lex_lt_trans : forall a b c, lex_lt a b = true -> lex_lt b c = true -> lex_lt a c = true.
Proof.
  induction a as [|x a IH]; intros [|y b] [|z c]; cbn [lex_lt]; try congruence.
  destruct (Nat.eqb_spec x y) as [->|Hxy].
  - destruct (Nat.eqb_spec y z) as [->|Hyz]; [apply IH | tauto].
  - intros H1. apply Nat.ltb_lt in H1.
    destruct (Nat.eqb_spec y z) as [->|Hyz].
    + intros _. destruct (Nat.eqb_spec x z); [lia|]. apply Nat.ltb_lt. exact H1.
    + intros H2. apply Nat.ltb_lt in H2. destruct (Nat.eqb_spec x z); [lia|]. apply Nat.ltb_lt. lia.
Qed.

Lemma lex_lt_total : forall a b, lex_lt a b = false -> lex_lt b a = false -> a = b.
Proof.
  induction a as [|x a IH]; intros [|y b]; cbn [lex_lt]; try congruence.
  destruct (Nat.eqb_spec x y) as [->|Hxy].
  - rewrite Nat.eqb_refl. intros H1 H2. f_equal. apply IH; assumption.
  - destruct (Nat.eqb_spec y x) as [->|_]; [congruence|].
    intros H1 H2. apply Nat.ltb_ge in H1. apply Nat.ltb_ge in H2. lia.
Qed.

Lemma lex_lt_asym a b : lex_lt a b = true -> lex_lt b a = false.
Proof.
  intros H. destruct (lex_lt b a) eqn:E; [|reflexivity].
  pose proof (lex_lt_trans _ _ _ H E) as Hc. rewrite lex_lt_irrefl in Hc. discriminate.
Qed.

(** ** [all_cycles] *)

Definition raw_cycles (g : graph) : list (list nat) :=
  flat_map (fun r => cycles_from g (S (length (g_nodes g))) r r [r]) (seq 0 (length (g_nodes g))).

Lemma all_cycles_raw g : all_cycles g = sort_by lex_lt (raw_cycles g).
Proof. reflexivity. Qed.

Lemma all_cycles_In g c :
  In c (all_cycles g) <->
  exists r, r < length (g_nodes g) /\ In c (cycles_from g (S (length (g_nodes g))) r r [r]).
Proof.
  rewrite all_cycles_raw, sort_by_In. unfold raw_cycles. rewrite in_flat_map.
  split; intros (r & Hr & Hc); exists r; (split; [|exact Hc]); [apply in_seq in Hr; lia | apply in_seq; lia].
Qed.

Theorem all_cycles_sound g c : In c (all_cycles g) -> is_cycle g c.
Proof.
  intros H. apply all_cycles_In in H. destruct H as (r & _ & H).
  apply cycles_from_sound in H. destruct H as (ext & -> & Hch & Hnd & Hext).
  exists r, ext. split; [reflexivity|]. split; [|split].
  - constructor; [|exact Hnd]. intros Hin. apply Hext in Hin. destruct Hin as [_ Hin].
    apply Hin. left. reflexivity.
  - exact Hch.
  - apply Forall_forall. intros x Hx. apply Hext in Hx. tauto.
Qed.

Theorem all_cycles_complete g c : wf_graph g -> is_cycle g c -> In c (all_cycles g).
Proof.
  intros Hwf (v & rest & -> & Hnd & Hch & Hmin).
  apply all_cycles_In. exists v.
  assert (Hv : v < length (g_nodes g)).
  { destruct rest as [|b rest]; cbn [app] in Hch; eapply chain_head_bounded; eassumption. }
  split; [exact Hv|].
  inversion Hnd as [|? ? Hni Hnd']; subst.
  change (v :: rest ++ [v]) with (rev [v] ++ rest ++ [v]).
  apply cycles_from_complete; [exact Hch | exact Hnd' | |].
  - intros x Hx. split; [rewrite Forall_forall in Hmin; apply Hmin; exact Hx|].
    intros [<-|[]]. contradiction.
  - assert (length rest <= length (g_nodes g)); [|lia].
    apply bounded_NoDup_length; [exact Hnd'|].
    intros x Hx. eapply (chain_bounded g Hwf (rest ++ [v]) v Hch). apply in_app_iff. left. exact Hx.
Qed.

Corollary all_cycles_iff g c : wf_graph g -> (In c (all_cycles g) <-> is_cycle g c).
Proof. intros Hwf. split; [apply all_cycles_sound | apply all_cycles_complete; exact Hwf]. Qed.

(** ** closed walks contain elementary cycles *)

(** a path can be shortened to a simple one: interior nodes distinct and different from both ends *)
Lemma path_simple g a b : path g a b ->
  exists l, chain g (a :: l ++ [b]) /\ NoDup l /\ ~ In a l /\ ~ In b l.
Proof.
  intros H. induction H as [a b He | a y b He Hyb IH].
  - exists []. cbn [app]. split; [apply chain_cons; split; [exact He | exact I]|].
    split; [constructor|]. split; intros [].
  - destruct IH as (l & Hch & Hnd & Hy & Hb).
    destruct (Nat.eq_dec a y) as [->|Hay]; [exists l; tauto|].
    destruct (in_dec Nat.eq_dec a l) as [Hin|Hnin].
    + apply in_split in Hin. destruct Hin as (l1 & l2 & ->).
      exists l2. split.
      * apply (chain_suffix g (y :: l1)). cbn [app]. rewrite <- app_assoc in Hch. exact Hch.
      * apply NoDup_remove in Hnd. destruct Hnd as [Hnd Hni].
        split; [|split].
        -- apply NoDup_app_r in Hnd. exact Hnd.
        -- intros Hin. apply Hni. apply in_app_iff. right. exact Hin.
        -- intros Hin. apply Hb. apply in_app_iff. right. right. exact Hin.
    + destruct (Nat.eq_dec y b) as [->|Hyb'].
      * exists []. cbn [app]. split; [apply chain_cons; split; [exact He | exact I]|].
        split; [constructor|]. split; intros [].
      * exists (y :: l). split; [cbn [app]; apply chain_cons; split; [exact He | exact Hch]|].
        split; [constructor; assumption|].
        split; intros [Heq|Hin]; auto.
Qed.

(** every node of a closed walk lies on an elementary cycle through it *)
Lemma path_elem_cycle g a : path g a a -> exists c, is_elem_cycle g c /\ hd_error c = Some a.
Proof.
  intros H. apply path_simple in H. destruct H as (l & Hch & Hnd & Ha & _).
  exists (a :: l ++ [a]). split; [|reflexivity].
  exists a, l. split; [reflexivity|]. split; [constructor; assumption | exact Hch].
Qed.

Lemma list_min_exists (p : list nat) : p <> [] -> exists m, In m p /\ forall x, In x p -> m <= x.
Proof.
  induction p as [|a p IH]; [congruence|]. intros _.
  destruct p as [|b p].
  - exists a. split; [left; reflexivity|]. intros x [<-|[]]. lia.
  - destruct IH as (m & Hm & Hmin); [discriminate|].
    destruct (le_lt_dec a m) as [Hle|Hlt].
    + exists a. split; [left; reflexivity|]. intros x [<-|Hx]; [lia|]. specialize (Hmin x Hx). lia.
    + exists m. split; [right; exact Hm|]. intros x [<-|Hx]; [lia | apply Hmin; exact Hx].
Qed.

(** rotation of an elementary cycle to any of its nodes *)
Lemma elem_cycle_rotate g v rest m :
  NoDup (v :: rest) -> chain g (v :: rest ++ [v]) -> In m (v :: rest) ->
  exists l1 l2, v :: rest = l1 ++ m :: l2 /\ NoDup (m :: l2 ++ l1) /\ chain g (m :: (l2 ++ l1) ++ [m]).
Proof.
  intros Hnd Hch Hin. apply in_split in Hin. destruct Hin as (l1 & l2 & Heq).
  exists l1, l2. split; [exact Heq|]. split.
  - eapply Permutation_NoDup; [|exact Hnd]. rewrite Heq.
    change (m :: l2 ++ l1) with ((m :: l2) ++ l1). apply Permutation_app_comm.
  - destruct l1 as [|a l1].
    + cbn [app] in Heq. injection Heq as <- <-. rewrite app_nil_r. exact Hch.
    + cbn [app] in Heq. injection Heq as <- ->.
      change (v :: (l1 ++ m :: l2) ++ [v]) with ((v :: l1 ++ m :: l2) ++ [v]) in Hch.
      change (v :: l1 ++ m :: l2) with ((v :: l1) ++ m :: l2) in Hch.
      rewrite <- app_assoc in Hch. apply chain_app_mid in Hch. destruct Hch as [H1 H2].
      change (m :: (l2 ++ v :: l1) ++ [m]) with ((m :: l2 ++ v :: l1) ++ [m]).
      change (m :: l2 ++ v :: l1) with ((m :: l2) ++ v :: l1).
      rewrite <- app_assoc. apply chain_app_mid. split.
      * exact H2.
      * exact H1.
Qed.

(** every elementary cycle has a rotation (to its smallest node) in [all_cycles] *)
Theorem elem_cycle_covered g c : wf_graph g -> is_elem_cycle g c ->
  exists c', cyc_rot c c' /\ In c' (all_cycles g) /\ (forall x, In x c <-> In x c').
Proof.
  intros Hwf (v & rest & -> & Hnd & Hch).
  destruct (list_min_exists (v :: rest)) as (m & Hm & Hmin); [discriminate|].
  destruct (elem_cycle_rotate g v rest m Hnd Hch Hm) as (l1 & l2 & Heq & Hnd' & Hch').
  exists (m :: (l2 ++ l1) ++ [m]). split; [|split].
  - exists l1, (m :: l2). rewrite <- Heq. cbn [app hd]. split; reflexivity.
  - apply all_cycles_complete; [exact Hwf|].
    exists m, (l2 ++ l1). split; [reflexivity|]. split; [exact Hnd'|]. split; [exact Hch'|].
    apply Forall_forall. intros x Hx.
    assert (Hx' : In x (v :: rest)).
    { rewrite Heq. apply in_app_iff. apply in_app_iff in Hx. cbn [In]. tauto. }
    specialize (Hmin x Hx').
    inversion Hnd' as [|? ? Hni _]; subst.
    assert (x <> m) by (intros ->; contradiction). lia.
  - intros x.
    change (v :: rest ++ [v]) with ((v :: rest) ++ [v]).
    change (m :: (l2 ++ l1) ++ [m]) with ((m :: l2 ++ l1) ++ [m]).
    rewrite !in_app_iff. rewrite Heq. rewrite in_app_iff. cbn [In]. rewrite in_app_iff.
    assert (Hv : In v (l1 ++ m :: l2)) by (rewrite <- Heq; left; reflexivity).
    apply in_app_iff in Hv. cbn [In] in Hv.
    split.
    + intros [[H|[H|H]]|[H|[]]]; try tauto. subst x. tauto.
    + intros [[H|[H|H]]|[H|[]]]; tauto.
Qed.

(** a node on a closed walk lies on a listed cycle *)
Theorem on_cycle_covered g a : wf_graph g -> path g a a -> exists c, In c (all_cycles g) /\ In a c.
Proof.
  intros Hwf H. apply path_elem_cycle in H. destruct H as (c & Hc & Hhd).
  destruct (elem_cycle_covered g c Hwf Hc) as (c' & _ & Hin & Hsame).
  exists c'. split; [exact Hin|]. apply Hsame.
  destruct c as [|x c]; [discriminate|]. injection Hhd as ->. left. reflexivity.
Qed.

(** conversely every node of a listed cycle lies on a closed walk *)
Lemma elem_cycle_path g c a : is_elem_cycle g c -> In a c -> path g a a.
Proof.
  intros (v & rest & -> & Hnd & Hch) Hin.
  assert (Hin' : In a (v :: rest)).
  { change (v :: rest ++ [v]) with ((v :: rest) ++ [v]) in Hin. apply in_app_iff in Hin.
    destruct Hin as [H|[<-|[]]]; [exact H | left; reflexivity]. }
  destruct (elem_cycle_rotate g v rest a Hnd Hch Hin') as (l1 & l2 & _ & _ & Hch').
  eapply chain_path. exact Hch'.
Qed.

Theorem on_cycle_iff g a : wf_graph g -> (path g a a <-> exists c, In c (all_cycles g) /\ In a c).
Proof.
  intros Hwf. split; [apply on_cycle_covered; exact Hwf|].
  intros (c & Hc & Ha). apply all_cycles_sound in Hc. apply is_cycle_elem in Hc.
  eapply elem_cycle_path; eassumption.
Qed.

Theorem all_cycles_nil_iff_acyclic g : wf_graph g -> (all_cycles g = [] <-> forall a, ~ path g a a).
Proof.
  intros Hwf. split.
  - intros Hnil a Hp. destruct (on_cycle_covered g a Hwf Hp) as (c & Hc & _).
    rewrite Hnil in Hc. destruct Hc.
  - intros Hac. destruct (all_cycles g) as [|c l] eqn:E; [reflexivity|]. exfalso.
    assert (Hc : In c (all_cycles g)) by (rewrite E; left; reflexivity).
    apply all_cycles_sound in Hc. destruct Hc as (v & rest & -> & _ & Hch & _).
    apply (Hac v). eapply chain_path. exact Hch.
Qed.

(** ** no duplicates, sorted *)

Lemma raw_cycles_NoDup g : NoDup (g_edges g) -> NoDup (raw_cycles g).
Proof.
  intros Hnd. unfold raw_cycles. apply NoDup_flat_map.
  - apply seq_NoDup.
  - intros r _. apply cycles_from_NoDup. exact Hnd.
  - intros x y c _ _ Hx Hy.
    apply cycles_from_prefix in Hx. apply cycles_from_prefix in Hy.
    destruct Hx as (t1 & ->). destruct Hy as (t2 & Heq). cbn [rev app] in Heq. congruence.
Qed.

Theorem all_cycles_NoDup g : NoDup (g_edges g) -> NoDup (all_cycles g).
Proof. intros H. rewrite all_cycles_raw. apply sort_by_NoDup. apply raw_cycles_NoDup. exact H. Qed.

(** weakly sorted, for every graph *)
Theorem all_cycles_sorted_le g : Sorted (fun a b => lex_lt b a = false) (all_cycles g).
Proof. rewrite all_cycles_raw. apply (sort_by_Sorted lex_lt lex_lt_asym). Qed.

Lemma Sorted_le_NoDup_lt (l : list (list nat)) :
  Sorted (fun a b => lex_lt b a = false) l -> NoDup l -> Sorted (fun a b => lex_lt a b = true) l.
Proof.
  induction l as [|a l IH]; intros Hs Hnd; [constructor|].
  inversion Hs as [|? ? Hs' Hhd]; subst. inversion Hnd as [|? ? Hni Hnd']; subst.
  constructor; [auto|].
  destruct l as [|b l]; constructor.
  inversion Hhd as [|? ? Hle]; subst.
  destruct (lex_lt a b) eqn:E; [reflexivity|]. exfalso. apply Hni. left.
  symmetry. apply lex_lt_total; assumption.
Qed.

(** strictly sorted when the edge list has no duplicates (which [set_edge] maintains) *)
Theorem all_cycles_sorted g : NoDup (g_edges g) ->
  StronglySorted (fun a b => lex_lt a b = true) (all_cycles g).
Proof.
  intros Hnd. apply Sorted_StronglySorted.
  - intros a b c. apply lex_lt_trans.
  - apply Sorted_le_NoDup_lt; [apply all_cycles_sorted_le | apply all_cycles_NoDup; exact Hnd].
Qed.

Print Assumptions reachable_from_sound.
Print Assumptions reachable_from_complete.
Print Assumptions all_cycles_sound.
Print Assumptions all_cycles_complete.
Print Assumptions all_cycles_nil_iff_acyclic.
Print Assumptions on_cycle_covered.
Print Assumptions all_cycles_sorted.
