(** Split invariance of multi-file merging (property C09).

    A configuration [i] may be distributed over several files.  A [mask] decides, for EVERY piece of [i],
    whether it goes to file 1, file 2 or both; list-valued attributes whose merge rule is concatenation
    (calls, tags, decorators) are cut at a point; arguments (rule: non-empty replaces) go as a whole.
    [split2_invariant]: merging the two parts gives back [i] (up to the extensional [input_eq]).
    [splitN_invariant]: the same for any number of files (successive masks).
    Also: congruence of [merge] w.r.t. [input_eq], empty files anywhere, commutation of disjoint files,
    and concrete examples showing that the notion is tight.

    The only side condition is [wf_input i] (Go maps have unique keys).  Notes on representation:
    - arguments are a plain list, so the absent and the empty argument list are identified (no Some [] / None issue);
    - a service that is present in a file with no attribute at all is the pair (name, empty_service): merging it is harmless;
    - cut points are arbitrary naturals ([firstn]/[skipn] saturate). *)
From Coq Require Import Lia.
From GV Require Import Base.Str Base.Sort Model.Input Model.Merge Proofs.MergeProofs.

(** * 1. Masks *)
Inductive side := ToL | ToR | ToBoth.

Definition in1 (d : side) : bool := match d with ToR => false | _ => true end.
Definition in2 (d : side) : bool := match d with ToL => false | _ => true end.

Definition opt_to {A} (b : bool) (o : option A) : option A := if b then o else None.
Definition list_to {A} (b : bool) (l : list A) : list A := if b then l else [].
Definition map_to {A} (f : str -> bool) (m : list (str * A)) : list (str * A) :=
  filter (fun kv => f (fst kv)) m.

Record svmask := {
  km_getter : side; km_must_getter : side; km_type : side; km_value : side; km_constructor : side;
  km_scope : side; km_todo : side;
  km_args : side;              (* the whole argument list *)
  km_calls : nat;              (* cut point *)
  km_tags : nat;               (* cut point *)
  km_fields : str -> side }.

Inductive svplace := OnlyL | OnlyR | Split (sm : svmask).

Record mask := {
  mk_version : side; mk_pkg : side; mk_container_type : side; mk_container_constructor : side;
  mk_default_must_getter : side;
  mk_imports : str -> side; mk_functions : str -> side; mk_params : str -> side;
  mk_services : str -> svplace;
  mk_decorators : nat }.

Definition sv_part1 (sm : svmask) (x : service) : service :=
  {| sv_getter := opt_to (in1 (km_getter sm)) (sv_getter x);
     sv_must_getter := opt_to (in1 (km_must_getter sm)) (sv_must_getter x);
     sv_type := opt_to (in1 (km_type sm)) (sv_type x);
     sv_value := opt_to (in1 (km_value sm)) (sv_value x);
     sv_constructor := opt_to (in1 (km_constructor sm)) (sv_constructor x);
     sv_args := list_to (in1 (km_args sm)) (sv_args x);
     sv_calls := firstn (km_calls sm) (sv_calls x);
     sv_fields := map_to (fun k => in1 (km_fields sm k)) (sv_fields x);
     sv_tags := firstn (km_tags sm) (sv_tags x);
     sv_scope := opt_to (in1 (km_scope sm)) (sv_scope x);
     sv_todo := opt_to (in1 (km_todo sm)) (sv_todo x) |}.

Definition sv_part2 (sm : svmask) (x : service) : service :=
  {| sv_getter := opt_to (in2 (km_getter sm)) (sv_getter x);
     sv_must_getter := opt_to (in2 (km_must_getter sm)) (sv_must_getter x);
     sv_type := opt_to (in2 (km_type sm)) (sv_type x);
     sv_value := opt_to (in2 (km_value sm)) (sv_value x);
     sv_constructor := opt_to (in2 (km_constructor sm)) (sv_constructor x);
     sv_args := list_to (in2 (km_args sm)) (sv_args x);
     sv_calls := skipn (km_calls sm) (sv_calls x);
     sv_fields := map_to (fun k => in2 (km_fields sm k)) (sv_fields x);
     sv_tags := skipn (km_tags sm) (sv_tags x);
     sv_scope := opt_to (in2 (km_scope sm)) (sv_scope x);
     sv_todo := opt_to (in2 (km_todo sm)) (sv_todo x) |}.

Definition svs_part1 (pl : str -> svplace) (ss : list (str * service)) : list (str * service) :=
  flat_map (fun kv => match pl (fst kv) with
                      | OnlyL => [kv]
                      | OnlyR => []
                      | Split sm => [(fst kv, sv_part1 sm (snd kv))]
                      end) ss.
Definition svs_part2 (pl : str -> svplace) (ss : list (str * service)) : list (str * service) :=
  flat_map (fun kv => match pl (fst kv) with
                      | OnlyL => []
                      | OnlyR => [kv]
                      | Split sm => [(fst kv, sv_part2 sm (snd kv))]
                      end) ss.

Definition meta_part1 (m : mask) (x : meta) : meta :=
  {| m_pkg := opt_to (in1 (mk_pkg m)) (m_pkg x);
     m_container_type := opt_to (in1 (mk_container_type m)) (m_container_type x);
     m_container_constructor := opt_to (in1 (mk_container_constructor m)) (m_container_constructor x);
     m_default_must_getter := opt_to (in1 (mk_default_must_getter m)) (m_default_must_getter x);
     m_imports := map_to (fun k => in1 (mk_imports m k)) (m_imports x);
     m_functions := map_to (fun k => in1 (mk_functions m k)) (m_functions x) |}.
Definition meta_part2 (m : mask) (x : meta) : meta :=
  {| m_pkg := opt_to (in2 (mk_pkg m)) (m_pkg x);
     m_container_type := opt_to (in2 (mk_container_type m)) (m_container_type x);
     m_container_constructor := opt_to (in2 (mk_container_constructor m)) (m_container_constructor x);
     m_default_must_getter := opt_to (in2 (mk_default_must_getter m)) (m_default_must_getter x);
     m_imports := map_to (fun k => in2 (mk_imports m k)) (m_imports x);
     m_functions := map_to (fun k => in2 (mk_functions m k)) (m_functions x) |}.

Definition part1 (m : mask) (i : input) : input :=
  {| i_version := opt_to (in1 (mk_version m)) (i_version i);
     i_meta := meta_part1 m (i_meta i);
     i_params := map_to (fun k => in1 (mk_params m k)) (i_params i);
     i_services := svs_part1 (mk_services m) (i_services i);
     i_decorators := firstn (mk_decorators m) (i_decorators i) |}.
Definition part2 (m : mask) (i : input) : input :=
  {| i_version := opt_to (in2 (mk_version m)) (i_version i);
     i_meta := meta_part2 m (i_meta i);
     i_params := map_to (fun k => in2 (mk_params m k)) (i_params i);
     i_services := svs_part2 (mk_services m) (i_services i);
     i_decorators := skipn (mk_decorators m) (i_decorators i) |}.

(** * 2. Elementary facts *)
Lemma split_opt {A} (d : side) (o : option A) : merge_ptr (opt_to (in1 d) o) (opt_to (in2 d) o) = o.
Proof. destruct d, o; reflexivity. Qed.

Lemma split_args (d : side) (l : list prim) : merge_args (list_to (in1 d) l) (list_to (in2 d) l) = l.
Proof. destruct d, l; reflexivity. Qed.

Lemma in1_or_in2 d : in1 d = false -> in2 d = true.
Proof. destruct d; [discriminate|reflexivity|discriminate]. Qed.

Section MapTo.
Context {A : Type}.
Implicit Types (m : list (str * A)) (f : str -> bool).

Lemma lookup_map_to k f m : lookup k (map_to f m) = if f k then lookup k m else None.
Proof.
  induction m as [|[k1 v1] m IH]; cbn [map_to filter lookup fst].
  - destruct (f k); reflexivity.
  - fold (map_to f m). destruct (str_eqb_spec k k1) as [->|Hn].
    + destruct (f k1) eqn:E; cbn [lookup].
      * rewrite str_eqb_refl. reflexivity.
      * exact IH.
    + destruct (f k1); cbn [lookup].
      * destruct (str_eqb_spec k k1); [contradiction|exact IH].
      * exact IH.
Qed.

Lemma keys_map_to f m : keys (map_to f m) = filter f (keys m).
Proof.
  induction m as [|[k1 v1] m IH]; cbn [map_to filter keys map fst]; [reflexivity|].
  destruct (f k1); cbn [map fst]; fold (map_to f m); fold (keys (map_to f m)); fold (keys m);
    rewrite IH; reflexivity.
Qed.

Lemma nodup_keys_map_to f m : NoDup (keys m) -> NoDup (keys (map_to f m)).
Proof. intros H. rewrite keys_map_to. apply NoDup_filter, H. Qed.

(** a map distributed key-wise over two files *)
Lemma split_map (g : str -> side) m :
  NoDup (keys m) ->
  map_eq (merge_map (map_to (fun k => in1 (g k)) m) (map_to (fun k => in2 (g k)) m)) m.
Proof.
  intros Hnd k. rewrite lookup_merge_map by (apply nodup_keys_map_to, Hnd).
  rewrite !lookup_map_to. destruct (g k); cbn [in1 in2]; destruct (lookup k m); reflexivity.
Qed.
End MapTo.

Lemma split_service sm x : wf_service x -> service_eq (merge_service (sv_part1 sm x) (sv_part2 sm x)) x.
Proof.
  intros Hx. unfold service_eq, merge_service, sv_part1, sv_part2.
  cbn [sv_getter sv_must_getter sv_type sv_value sv_constructor sv_args sv_calls sv_fields sv_tags sv_scope sv_todo].
  repeat split; try apply split_opt.
  - apply split_args.
  - apply firstn_skipn.
  - apply split_map, Hx.
  - apply firstn_skipn.
Qed.

Lemma lookup_svs_part1 pl k ss :
  lookup k (svs_part1 pl ss) =
  match lookup k ss with
  | None => None
  | Some x => match pl k with OnlyL => Some x | OnlyR => None | Split sm => Some (sv_part1 sm x) end
  end.
Proof.
  induction ss as [|[k1 v1] ss IH]; cbn [svs_part1 flat_map lookup fst snd]; [reflexivity|].
  fold (svs_part1 pl ss). rewrite lookup_app.
  destruct (str_eqb_spec k k1) as [->|Hn].
  - destruct (pl k1) eqn:E; cbn [lookup]; rewrite ?str_eqb_refl; try reflexivity.
    rewrite IH. destruct (lookup k1 ss); reflexivity.
  - destruct (pl k1); cbn [lookup]; try exact IH;
      (destruct (str_eqb_spec k k1); [contradiction|exact IH]).
Qed.

Lemma lookup_svs_part2 pl k ss :
  lookup k (svs_part2 pl ss) =
  match lookup k ss with
  | None => None
  | Some x => match pl k with OnlyL => None | OnlyR => Some x | Split sm => Some (sv_part2 sm x) end
  end.
Proof.
  induction ss as [|[k1 v1] ss IH]; cbn [svs_part2 flat_map lookup fst snd]; [reflexivity|].
  fold (svs_part2 pl ss). rewrite lookup_app.
  destruct (str_eqb_spec k k1) as [->|Hn].
  - destruct (pl k1) eqn:E; cbn [lookup]; rewrite ?str_eqb_refl; try reflexivity.
    rewrite IH. destruct (lookup k1 ss); reflexivity.
  - destruct (pl k1); cbn [lookup]; try exact IH;
      (destruct (str_eqb_spec k k1); [contradiction|exact IH]).
Qed.

Lemma keys_svs_part1 pl ss :
  keys (svs_part1 pl ss) = filter (fun k => match pl k with OnlyR => false | _ => true end) (keys ss).
Proof.
  induction ss as [|[k1 v1] ss IH]; cbn [svs_part1 flat_map keys map fst filter]; [reflexivity|].
  fold (svs_part1 pl ss). fold (keys ss). rewrite <- IH. unfold keys at 1. rewrite map_app.
  destruct (pl k1); reflexivity.
Qed.

Lemma keys_svs_part2 pl ss :
  keys (svs_part2 pl ss) = filter (fun k => match pl k with OnlyL => false | _ => true end) (keys ss).
Proof.
  induction ss as [|[k1 v1] ss IH]; cbn [svs_part2 flat_map keys map fst filter]; [reflexivity|].
  fold (svs_part2 pl ss). fold (keys ss). rewrite <- IH. unfold keys at 1. rewrite map_app.
  destruct (pl k1); reflexivity.
Qed.

Lemma wf_sv_part1 sm x : wf_service x -> wf_service (sv_part1 sm x).
Proof. unfold wf_service. cbn [sv_part1 sv_fields]. apply nodup_keys_map_to. Qed.
Lemma wf_sv_part2 sm x : wf_service x -> wf_service (sv_part2 sm x).
Proof. unfold wf_service. cbn [sv_part2 sv_fields]. apply nodup_keys_map_to. Qed.

Lemma wf_svs_part1 pl ss : wf_services ss -> wf_services (svs_part1 pl ss).
Proof.
  intros Hs. apply wf_services_intro.
  - rewrite keys_svs_part1. apply NoDup_filter, Hs.
  - intros k sv. rewrite lookup_svs_part1. destruct (lookup k ss) as [x|] eqn:E; [|discriminate].
    pose proof (wf_services_lookup ss k x Hs E) as Hx.
    destruct (pl k); intros Heq; inversion Heq; subst; [exact Hx|apply wf_sv_part1, Hx].
Qed.

Lemma wf_svs_part2 pl ss : wf_services ss -> wf_services (svs_part2 pl ss).
Proof.
  intros Hs. apply wf_services_intro.
  - rewrite keys_svs_part2. apply NoDup_filter, Hs.
  - intros k sv. rewrite lookup_svs_part2. destruct (lookup k ss) as [x|] eqn:E; [|discriminate].
    pose proof (wf_services_lookup ss k x Hs E) as Hx.
    destruct (pl k); intros Heq; inversion Heq; subst; [exact Hx|apply wf_sv_part2, Hx].
Qed.

Lemma wf_part1 m i : wf_input i -> wf_input (part1 m i).
Proof.
  intros ([Hi Hf] & Hp & Hs). unfold wf_input, wf_meta, part1, meta_part1.
  cbn [i_meta i_params i_services m_imports m_functions].
  split; [split; apply nodup_keys_map_to; assumption|].
  split; [apply nodup_keys_map_to; assumption|apply wf_svs_part1; assumption].
Qed.

Lemma wf_part2 m i : wf_input i -> wf_input (part2 m i).
Proof.
  intros ([Hi Hf] & Hp & Hs). unfold wf_input, wf_meta, part2, meta_part2.
  cbn [i_meta i_params i_services m_imports m_functions].
  split; [split; apply nodup_keys_map_to; assumption|].
  split; [apply nodup_keys_map_to; assumption|apply wf_svs_part2; assumption].
Qed.

Lemma split_services pl ss :
  wf_services ss -> services_eq (merge_services (svs_part1 pl ss) (svs_part2 pl ss)) ss.
Proof.
  intros Hs k.
  rewrite lookup_merge_services by (apply wf_svs_part2, Hs).
  rewrite lookup_svs_part1, lookup_svs_part2.
  destruct (lookup k ss) as [x|] eqn:E; [|exact I].
  destruct (pl k) as [| |sm]; try apply service_eq_refl.
  apply split_service. exact (wf_services_lookup ss k x Hs E).
Qed.

Lemma split_meta m x : wf_meta x -> meta_eq (merge_meta (meta_part1 m x) (meta_part2 m x)) x.
Proof.
  intros [Hi Hf]. unfold meta_eq, merge_meta, meta_part1, meta_part2.
  cbn [m_pkg m_container_type m_container_constructor m_default_must_getter m_imports m_functions].
  repeat split; try apply split_opt; apply split_map; assumption.
Qed.

(** * 3. Two files *)
Theorem split2_invariant m i : wf_input i -> input_eq (merge (part1 m i) (part2 m i)) i.
Proof.
  intros (Hm & Hp & Hs). unfold input_eq, merge, part1, part2.
  cbn [i_version i_meta i_params i_services i_decorators].
  split; [apply split_opt|].
  split; [apply split_meta, Hm|].
  split; [apply split_map, Hp|].
  split; [apply split_services, Hs|apply firstn_skipn].
Qed.

(** the components that are not Go maps come back literally *)
Corollary split2_invariant_lists m i :
  i_version (merge (part1 m i) (part2 m i)) = i_version i /\
  i_decorators (merge (part1 m i) (part2 m i)) = i_decorators i /\
  (wf_input i ->
   forall k x, lookup k (i_services i) = Some x ->
     exists y, lookup k (i_services (merge (part1 m i) (part2 m i))) = Some y /\
               sv_args y = sv_args x /\ sv_calls y = sv_calls x /\ sv_tags y = sv_tags x).
Proof.
  split; [apply split_opt|]. split; [apply firstn_skipn|].
  intros Hwf k x E. destruct (split2_invariant m i Hwf) as (_ & _ & _ & Hs & _).
  specialize (Hs k). rewrite E in Hs.
  destruct (lookup k (i_services (merge (part1 m i) (part2 m i)))) as [y|]; [|contradiction].
  exists y. destruct Hs as (_&_&_&_&_&Ha&Hc&_&Ht&_). repeat split; assumption.
Qed.

(** * 4. Congruence of [merge] for the extensional equality *)
Lemma merge_map_congr {A} (a a' b b' : list (str * A)) :
  NoDup (keys b) -> NoDup (keys b') -> map_eq a a' -> map_eq b b' ->
  map_eq (merge_map a b) (merge_map a' b').
Proof.
  intros Hb Hb' Ha Hbb k. rewrite !lookup_merge_map by assumption. rewrite (Ha k), (Hbb k). reflexivity.
Qed.

Lemma merge_service_congr x x' y y' :
  wf_service y -> wf_service y' -> service_eq x x' -> service_eq y y' ->
  service_eq (merge_service x y) (merge_service x' y').
Proof.
  intros Hy Hy' (H1&H2&H3&H4&H5&H6&H7&H8&H9&H10&H11) (G1&G2&G3&G4&G5&G6&G7&G8&G9&G10&G11).
  unfold service_eq, merge_service.
  cbn [sv_getter sv_must_getter sv_type sv_value sv_constructor sv_args sv_calls sv_fields sv_tags sv_scope sv_todo].
  repeat split; try congruence.
  apply merge_map_congr; assumption.
Qed.

Lemma services_eq_wf_lookup (b b' : list (str * service)) k :
  services_eq b b' ->
  match lookup k b, lookup k b' with
  | Some y, Some y' => service_eq y y'
  | None, None => True
  | _, _ => False
  end.
Proof. intros H. exact (H k). Qed.

Lemma merge_services_congr a a' b b' :
  wf_services b -> wf_services b' -> services_eq a a' -> services_eq b b' ->
  services_eq (merge_services a b) (merge_services a' b').
Proof.
  intros Hb Hb' Ha Hbb k.
  rewrite (lookup_merge_services k a b) by apply Hb.
  rewrite (lookup_merge_services k a' b') by apply Hb'.
  specialize (Ha k). specialize (Hbb k).
  destruct (lookup k b) as [y|] eqn:Eb; destruct (lookup k b') as [y'|] eqn:Eb'; try contradiction.
  - destruct (lookup k a) as [x|]; destruct (lookup k a') as [x'|]; try contradiction; [|exact Hbb].
    apply merge_service_congr; try assumption.
    + exact (wf_services_lookup b k y Hb Eb).
    + exact (wf_services_lookup b' k y' Hb' Eb').
  - exact Ha.
Qed.

Lemma merge_meta_congr x x' y y' :
  wf_meta y -> wf_meta y' -> meta_eq x x' -> meta_eq y y' ->
  meta_eq (merge_meta x y) (merge_meta x' y').
Proof.
  intros [Hy1 Hy2] [Hy1' Hy2'] (H1&H2&H3&H4&H5&H6) (G1&G2&G3&G4&G5&G6).
  unfold meta_eq, merge_meta.
  cbn [m_pkg m_container_type m_container_constructor m_default_must_getter m_imports m_functions].
  repeat split; try congruence; apply merge_map_congr; assumption.
Qed.

(** only the RIGHT operands have to be well formed *)
Theorem merge_congr a a' b b' :
  wf_input b -> wf_input b' -> input_eq a a' -> input_eq b b' ->
  input_eq (merge a b) (merge a' b').
Proof.
  intros (Hm & Hp & Hs) (Hm' & Hp' & Hs') (H1&H2&H3&H4&H5) (G1&G2&G3&G4&G5).
  unfold input_eq, merge. cbn [i_version i_meta i_params i_services i_decorators].
  split; [congruence|].
  split; [apply merge_meta_congr; assumption|].
  split; [apply merge_map_congr; assumption|].
  split; [apply merge_services_congr; assumption|congruence].
Qed.

Corollary merge_congr_l a a' b : wf_input b -> input_eq a a' -> input_eq (merge a b) (merge a' b).
Proof. intros Hb Ha. apply merge_congr; try assumption. apply input_eq_refl. Qed.

Corollary merge_congr_r a b b' : wf_input b -> wf_input b' -> input_eq b b' -> input_eq (merge a b) (merge a b').
Proof. intros Hb Hb' H. apply merge_congr; try assumption. apply input_eq_refl. Qed.

(** * 5. [merge_all] over concatenations *)
Lemma merge_all_cons f fs :
  wf_input f -> Forall wf_input fs -> input_eq (merge_all (f :: fs)) (merge f (merge_all fs)).
Proof.
  intros Hf. induction fs as [|g fs IH] using rev_ind; intros Hall.
  - change (merge_all [f]) with (merge empty_input f). rewrite merge_empty_l_eq by exact Hf.
    change (merge_all []) with empty_input. rewrite merge_empty_r. apply input_eq_refl.
  - apply Forall_app in Hall. destruct Hall as [Hfs Hg]. inversion Hg as [|y l Hwg _]; subst.
    rewrite app_comm_cons, !merge_all_snoc.
    eapply input_eq_trans; [apply merge_congr_l; [exact Hwg|apply IH; exact Hfs]|].
    apply merge_assoc; [exact Hf|apply wf_merge_all; exact Hfs|exact Hwg].
Qed.

Lemma merge_all_app l1 l2 :
  Forall wf_input l1 -> Forall wf_input l2 ->
  input_eq (merge_all (l1 ++ l2)) (merge (merge_all l1) (merge_all l2)).
Proof.
  intros H1. induction l2 as [|g l2 IH] using rev_ind; intros H2.
  - rewrite app_nil_r. change (merge_all []) with empty_input. rewrite merge_empty_r. apply input_eq_refl.
  - apply Forall_app in H2. destruct H2 as [H2 Hg]. inversion Hg as [|y l Hwg _]; subst.
    rewrite app_assoc, !merge_all_snoc.
    eapply input_eq_trans; [apply merge_congr_l; [exact Hwg|apply IH; exact H2]|].
    apply merge_assoc; [apply wf_merge_all; exact H1|apply wf_merge_all; exact H2|exact Hwg].
Qed.

(** element-wise extensionally equal file lists merge to extensionally equal containers *)
Lemma merge_all_congr l l' :
  Forall wf_input l -> Forall wf_input l' -> Forall2 input_eq l l' ->
  input_eq (merge_all l) (merge_all l').
Proof.
  intros Hl Hl' H2. revert Hl Hl'.
  induction H2 as [|f f' l l' Hff H2 IH]; intros Hl Hl'; [apply input_eq_refl|].
  inversion Hl as [|x1 y1 Hf Hl0]; subst. inversion Hl' as [|x2 y2 Hf' Hl0']; subst.
  eapply input_eq_trans; [apply merge_all_cons; assumption|].
  eapply input_eq_trans; [|apply input_eq_sym, merge_all_cons; assumption].
  apply merge_congr; try (apply wf_merge_all; assumption); [exact Hff|apply IH; assumption].
Qed.

(** * 6. Any number of files: successive masks (file 1 / rest, then the rest again, ...) *)
Fixpoint parts (ms : list mask) (i : input) : list input :=
  match ms with
  | [] => [i]
  | m :: ms' => part1 m i :: parts ms' (part2 m i)
  end.

Lemma length_parts ms i : length (parts ms i) = S (length ms).
Proof. revert i; induction ms as [|m ms IH]; intros i; cbn [parts length]; [reflexivity|]. rewrite IH. reflexivity. Qed.

Lemma wf_parts ms i : wf_input i -> Forall wf_input (parts ms i).
Proof.
  revert i; induction ms as [|m ms IH]; intros i Hi; cbn [parts].
  - constructor; [exact Hi|constructor].
  - constructor; [apply wf_part1, Hi|apply IH, wf_part2, Hi].
Qed.

Theorem splitN_invariant ms i : wf_input i -> input_eq (merge_all (parts ms i)) i.
Proof.
  revert i; induction ms as [|m ms IH]; intros i Hi; cbn [parts].
  - change (merge_all [i]) with (merge empty_input i). apply merge_empty_l, Hi.
  - pose proof (wf_part1 m i Hi) as H1. pose proof (wf_part2 m i Hi) as H2.
    eapply input_eq_trans; [apply merge_all_cons; [exact H1|apply wf_parts, H2]|].
    eapply input_eq_trans; [|apply split2_invariant, Hi].
    apply merge_congr_r; [apply wf_merge_all, wf_parts, H2|exact H2|apply IH, H2].
Qed.

(** a tree-shaped distribution: each side of a split may be split again *)
Inductive plan := Whole | Cut (m : mask) (l r : plan).
Fixpoint tparts (p : plan) (i : input) : list input :=
  match p with
  | Whole => [i]
  | Cut m l r => tparts l (part1 m i) ++ tparts r (part2 m i)
  end.

Lemma wf_tparts p i : wf_input i -> Forall wf_input (tparts p i).
Proof.
  revert i; induction p as [|m l IHl r IHr]; intros i Hi; cbn [tparts].
  - constructor; [exact Hi|constructor].
  - apply Forall_app. split; [apply IHl, wf_part1, Hi|apply IHr, wf_part2, Hi].
Qed.

Theorem split_tree_invariant p i : wf_input i -> input_eq (merge_all (tparts p i)) i.
Proof.
  revert i; induction p as [|m l IHl r IHr]; intros i Hi; cbn [tparts].
  - change (merge_all [i]) with (merge empty_input i). apply merge_empty_l, Hi.
  - pose proof (wf_part1 m i Hi) as H1. pose proof (wf_part2 m i Hi) as H2.
    eapply input_eq_trans; [apply merge_all_app; apply wf_tparts; assumption|].
    eapply input_eq_trans; [|apply split2_invariant, Hi].
    apply merge_congr; [apply wf_merge_all, wf_tparts, H2|exact H2|apply IHl, H1|apply IHr, H2].
Qed.

(** * 7. Empty files anywhere (plain equalities, no side condition) *)
Theorem merge_all_empty_anywhere_eq l1 l2 :
  merge_all (l1 ++ empty_input :: l2) = merge_all (l1 ++ l2).
Proof.
  unfold merge_all. rewrite !fold_left_app. cbn [fold_left].
  fold (merge_all l1). rewrite merge_empty_r. reflexivity.
Qed.

Theorem merge_all_empty_anywhere l1 l2 :
  input_eq (merge_all (l1 ++ empty_input :: l2)) (merge_all (l1 ++ l2)).
Proof. rewrite merge_all_empty_anywhere_eq. apply input_eq_refl. Qed.

Theorem merge_all_empties_anywhere_eq n l1 l2 :
  merge_all (l1 ++ repeat empty_input n ++ l2) = merge_all (l1 ++ l2).
Proof.
  induction n as [|n IH]; cbn [repeat app]; [reflexivity|].
  rewrite merge_all_empty_anywhere_eq. exact IH.
Qed.

(** [l'] is [l] with empty files inserted at arbitrary places *)
Inductive pad_empty : list input -> list input -> Prop :=
| pad_nil : pad_empty [] []
| pad_keep f l l' : pad_empty l l' -> pad_empty (f :: l) (f :: l')
| pad_ins l l' : pad_empty l l' -> pad_empty l (empty_input :: l').

Lemma fold_merge_pad l l' : pad_empty l l' -> forall a, fold_left merge l' a = fold_left merge l a.
Proof.
  induction 1 as [|f l l' _ IH|l l' _ IH]; intros a; cbn [fold_left]; [reflexivity|apply IH|].
  rewrite merge_empty_r. apply IH.
Qed.

Theorem merge_all_pad_empty l l' : pad_empty l l' -> merge_all l' = merge_all l.
Proof. intros H. apply fold_merge_pad, H. Qed.

(** * 8. Files touching disjoint pieces commute *)
Definition opt_disj {A} (x y : option A) : Prop := x = None \/ y = None.
Definition keys_disj {A} (m m' : list (str * A)) : Prop := forall k, In k (keys m) -> In k (keys m') -> False.

Definition meta_disjoint (x y : meta) : Prop :=
  opt_disj (m_pkg x) (m_pkg y) /\ opt_disj (m_container_type x) (m_container_type y) /\
  opt_disj (m_container_constructor x) (m_container_constructor y) /\
  opt_disj (m_default_must_getter x) (m_default_must_getter y) /\
  keys_disj (m_imports x) (m_imports y) /\ keys_disj (m_functions x) (m_functions y).

Definition disjoint (a b : input) : Prop :=
  opt_disj (i_version a) (i_version b) /\ meta_disjoint (i_meta a) (i_meta b) /\
  keys_disj (i_params a) (i_params b) /\ keys_disj (i_services a) (i_services b) /\
  (i_decorators a = [] \/ i_decorators b = []).

Lemma merge_ptr_comm_disj {A} (x y : option A) : opt_disj x y -> merge_ptr x y = merge_ptr y x.
Proof. intros [->| ->]; [destruct y|destruct x]; reflexivity. Qed.

Lemma keys_disj_lookup {A} (m m' : list (str * A)) k :
  keys_disj m m' -> lookup k m = None \/ lookup k m' = None.
Proof.
  intros H. destruct (lookup k m) as [v|] eqn:E; [|left; reflexivity]. right.
  apply lookup_None. intros Hin. apply (H k); [|exact Hin]. exact (lookup_Some_In_keys k m v E).
Qed.

Lemma merge_map_comm_disj {A} (a b : list (str * A)) :
  NoDup (keys a) -> NoDup (keys b) -> keys_disj a b -> map_eq (merge_map a b) (merge_map b a).
Proof.
  intros Ha Hb Hd k. rewrite !lookup_merge_map by assumption.
  destruct (keys_disj_lookup a b k Hd) as [E|E]; rewrite E.
  - destruct (lookup k b); reflexivity.
  - destruct (lookup k a); reflexivity.
Qed.

Lemma merge_services_comm_disj a b :
  NoDup (keys a) -> NoDup (keys b) -> keys_disj a b ->
  services_eq (merge_services a b) (merge_services b a).
Proof.
  intros Ha Hb Hd k. rewrite !lookup_merge_services by assumption.
  destruct (keys_disj_lookup a b k Hd) as [E|E]; rewrite E.
  - destruct (lookup k b); [apply service_eq_refl|exact I].
  - destruct (lookup k a); [apply service_eq_refl|exact I].
Qed.

Theorem merge_comm_disjoint a b :
  wf_input a -> wf_input b -> disjoint a b -> input_eq (merge a b) (merge b a).
Proof.
  intros ([Hai Haf] & Hap & [Has _]) ([Hbi Hbf] & Hbp & [Hbs _]) (Dv & (D1&D2&D3&D4&D5&D6) & Dp & Ds & Dd).
  unfold input_eq, meta_eq, merge, merge_meta.
  cbn [i_version i_meta i_params i_services i_decorators
       m_pkg m_container_type m_container_constructor m_default_must_getter m_imports m_functions].
  split; [apply merge_ptr_comm_disj, Dv|].
  split; [repeat split; try (apply merge_ptr_comm_disj; assumption); apply merge_map_comm_disj; assumption|].
  split; [apply merge_map_comm_disj; assumption|].
  split; [apply merge_services_comm_disj; assumption|].
  destruct Dd as [-> | ->]; rewrite app_nil_r; reflexivity.
Qed.

Lemma disjoint_sym a b : disjoint a b -> disjoint b a.
Proof.
  assert (Ho : forall A (x y : option A), opt_disj x y -> opt_disj y x) by (intros A x y [H|H]; [right|left]; exact H).
  assert (Hk : forall A (m m' : list (str * A)), keys_disj m m' -> keys_disj m' m)
    by (intros A m m' H k H1 H2; exact (H k H2 H1)).
  intros (Dv & (D1&D2&D3&D4&D5&D6) & Dp & Ds & Dd). unfold disjoint, meta_disjoint.
  repeat split; try (apply Ho; assumption); try (apply Hk; assumption). tauto.
Qed.

(** the two halves of a split that sends nothing to both sides, keeps every service whole and does not cut
    the decorators in the middle are disjoint: such files may be given in either order *)
Definition exclusive (m : mask) : Prop :=
  mk_version m <> ToBoth /\ mk_pkg m <> ToBoth /\ mk_container_type m <> ToBoth /\ mk_container_constructor m <> ToBoth /\
  mk_default_must_getter m <> ToBoth /\
  (forall k, mk_imports m k <> ToBoth) /\ (forall k, mk_functions m k <> ToBoth) /\ (forall k, mk_params m k <> ToBoth) /\
  (forall k, match mk_services m k with Split _ => False | _ => True end).

Lemma opt_disj_parts {A} d (o : option A) : d <> ToBoth -> opt_disj (opt_to (in1 d) o) (opt_to (in2 d) o).
Proof. intros H. destruct d; [right; reflexivity|left; reflexivity|congruence]. Qed.

Lemma keys_disj_parts {A} (g : str -> side) (m : list (str * A)) :
  (forall k, g k <> ToBoth) -> keys_disj (map_to (fun k => in1 (g k)) m) (map_to (fun k => in2 (g k)) m).
Proof.
  intros Hg k H1 H2. rewrite keys_map_to in H1, H2. apply filter_In in H1, H2.
  destruct H1 as [_ H1], H2 as [_ H2]. specialize (Hg k). destruct (g k); cbn in *; congruence.
Qed.

Theorem exclusive_parts_disjoint m i :
  exclusive m -> (length (i_decorators i) <= mk_decorators m \/ mk_decorators m = 0)%nat ->
  disjoint (part1 m i) (part2 m i).
Proof.
  intros (E1&E2&E3&E4&E5&E6&E7&E8&E9) Hd. unfold disjoint, meta_disjoint, part1, part2, meta_part1, meta_part2.
  cbn [i_version i_meta i_params i_services i_decorators
       m_pkg m_container_type m_container_constructor m_default_must_getter m_imports m_functions].
  repeat split; try (apply opt_disj_parts; assumption); try (apply keys_disj_parts; assumption).
  - intros k H1 H2. rewrite keys_svs_part1 in H1. rewrite keys_svs_part2 in H2.
    apply filter_In in H1, H2. destruct H1 as [_ H1], H2 as [_ H2].
    specialize (E9 k). destruct (mk_services m k); [discriminate|discriminate|contradiction].
  - destruct Hd as [Hd| ->]; [right; apply skipn_all2; exact Hd|left; reflexivity].
Qed.

Corollary exclusive_split_either_order m i :
  wf_input i -> exclusive m -> (length (i_decorators i) <= mk_decorators m \/ mk_decorators m = 0)%nat ->
  input_eq (merge (part2 m i) (part1 m i)) i.
Proof.
  intros Hi He Hd. eapply input_eq_trans; [|apply split2_invariant, Hi].
  apply input_eq_sym, merge_comm_disjoint; [apply wf_part1, Hi|apply wf_part2, Hi|].
  apply exclusive_parts_disjoint; assumption.
Qed.

(** * 9. A boolean well-formedness check (for concrete inputs) *)
Fixpoint nodupb (l : list str) : bool :=
  match l with [] => true | x :: r => negb (mem x r) && nodupb r end.

Lemma nodupb_NoDup l : nodupb l = true -> NoDup l.
Proof.
  induction l as [|x l IH]; cbn [nodupb]; intros H; [constructor|].
  apply andb_true_iff in H. destruct H as [Hn Hd]. apply negb_true_iff in Hn.
  constructor; [|apply IH, Hd]. intros Hin. apply mem_In in Hin. congruence.
Qed.

Definition wf_input_b (i : input) : bool :=
  nodupb (keys (m_imports (i_meta i))) && nodupb (keys (m_functions (i_meta i))) &&
  nodupb (keys (i_params i)) && nodupb (keys (i_services i)) &&
  forallb (fun kv => nodupb (keys (sv_fields (snd kv)))) (i_services i).

Lemma wf_input_b_sound i : wf_input_b i = true -> wf_input i.
Proof.
  unfold wf_input_b. rewrite !andb_true_iff. intros ((((H1 & H2) & H3) & H4) & H5).
  unfold wf_input, wf_meta, wf_services.
  split; [split; apply nodupb_NoDup; assumption|].
  split; [apply nodupb_NoDup; assumption|].
  split; [apply nodupb_NoDup; assumption|].
  apply Forall_forall. intros kv Hin. rewrite forallb_forall in H5.
  apply nodupb_NoDup, H5, Hin.
Qed.

(** * 10. Concrete examples *)
Module Examples.

Definition all_L : str -> side := fun _ => ToL.

(** the example configuration: two services, one with calls / tags / fields / arguments, meta with imports,
    three decorators *)
Definition call1 := {| c_method := s "SetA"; c_args := [PStr (s "a")]; c_immutable := false |}.
Definition call2 := {| c_method := s "SetB"; c_args := [PInt (s "int") (s "2")]; c_immutable := false |}.
Definition call3 := {| c_method := s "WithC"; c_args := []; c_immutable := true |}.
Definition tag1 := {| t_name := s "http"; t_prio := 10%Z |}.
Definition tag2 := {| t_name := s "rpc"; t_prio := (-1)%Z |}.
Definition dec1 := {| d_tag := s "http"; d_decorator := s "logDecorator"; d_args := [] |}.
Definition dec2 := {| d_tag := s "rpc"; d_decorator := s "traceDecorator"; d_args := [PBool true] |}.
Definition dec3 := {| d_tag := s "http"; d_decorator := s "authDecorator"; d_args := [PStr (s "%realm%")] |}.

Definition svc_db : service :=
  {| sv_getter := Some (s "GetDB"); sv_must_getter := Some true; sv_type := Some (s "*sql.DB");
     sv_value := None; sv_constructor := Some (s "sql.Open");
     sv_args := [PStr (s "%driver%"); PStr (s "%dsn%")];
     sv_calls := [call1; call2; call3];
     sv_fields := [(s "MaxOpen", PInt (s "int") (s "5")); (s "Name", PStr (s "main")); (s "Debug", PBool false)];
     sv_tags := [tag1; tag2];
     sv_scope := Some ScShared; sv_todo := None |}.
Definition svc_clock : service :=
  {| sv_getter := None; sv_must_getter := None; sv_type := None; sv_value := Some (s "time.Now");
     sv_constructor := None; sv_args := []; sv_calls := []; sv_fields := []; sv_tags := [];
     sv_scope := Some ScNonShared; sv_todo := Some false |}.
Definition svc_mailer : service :=
  {| sv_getter := Some (s "GetMailer"); sv_must_getter := None; sv_type := None; sv_value := None;
     sv_constructor := Some (s "NewMailer"); sv_args := [PStr (s "@db")]; sv_calls := []; sv_fields := []; sv_tags := [tag1];
     sv_scope := None; sv_todo := None |}.

Definition cfg : input :=
  {| i_version := Some (s "^0.4");
     i_meta := {| m_pkg := Some (s "main"); m_container_type := Some (s "Gontainer");
                  m_container_constructor := None; m_default_must_getter := Some false;
                  m_imports := [(s "sql", s "database/sql"); (s "log", s "log/slog"); (s "viper", s "github.com/spf13/viper")];
                  m_functions := [(s "env", s "os.Getenv")] |};
     i_params := [(s "driver", PStr (s "postgres")); (s "dsn", PStr (s "%env(DSN)%")); (s "port", PInt (s "int") (s "8080"))];
     i_services := [(s "db", svc_db); (s "clock", svc_clock); (s "mailer", svc_mailer)];
     i_decorators := [dec1; dec2; dec3] |}.

Lemma wf_cfg : wf_input cfg.
Proof. apply wf_input_b_sound. vm_compute. reflexivity. Qed.

(** the mask: the db service is split attribute by attribute, clock goes to file 1, mailer to file 2 *)
Definition db_mask : svmask :=
  {| km_getter := ToL; km_must_getter := ToR; km_type := ToBoth; km_value := ToL; km_constructor := ToR;
     km_scope := ToBoth; km_todo := ToR;
     km_args := ToR; km_calls := 1; km_tags := 1;
     km_fields := fun k => if str_eqb k (s "MaxOpen") then ToL else if str_eqb k (s "Name") then ToBoth else ToR |}.

Definition cfg_mask : mask :=
  {| mk_version := ToBoth; mk_pkg := ToL; mk_container_type := ToR; mk_container_constructor := ToL;
     mk_default_must_getter := ToBoth;
     mk_imports := fun k => if str_eqb k (s "sql") then ToL else if str_eqb k (s "log") then ToBoth else ToR;
     mk_functions := fun _ => ToR;
     mk_params := fun k => if str_eqb k (s "driver") then ToBoth else if str_eqb k (s "dsn") then ToL else ToR;
     mk_services := fun k => if str_eqb k (s "db") then Split db_mask
                             else if str_eqb k (s "clock") then OnlyL else OnlyR;
     mk_decorators := 2 |}.

(** both files are non-trivial ... *)
Example file1_shape :
  keys (i_services (part1 cfg_mask cfg)) = [s "db"; s "clock"] /\
  keys (i_services (part2 cfg_mask cfg)) = [s "db"; s "mailer"] /\
  i_decorators (part1 cfg_mask cfg) = [dec1; dec2] /\ i_decorators (part2 cfg_mask cfg) = [dec3] /\
  option_map sv_calls (lookup (s "db") (i_services (part1 cfg_mask cfg))) = Some [call1] /\
  option_map sv_calls (lookup (s "db") (i_services (part2 cfg_mask cfg))) = Some [call2; call3] /\
  option_map sv_args (lookup (s "db") (i_services (part1 cfg_mask cfg))) = Some [] /\
  option_map (fun x => keys (sv_fields x)) (lookup (s "db") (i_services (part1 cfg_mask cfg))) = Some [s "MaxOpen"; s "Name"] /\
  option_map (fun x => keys (sv_fields x)) (lookup (s "db") (i_services (part2 cfg_mask cfg))) = Some [s "Name"; s "Debug"] /\
  keys (m_imports (i_meta (part1 cfg_mask cfg))) = [s "sql"; s "log"] /\
  keys (m_imports (i_meta (part2 cfg_mask cfg))) = [s "log"; s "viper"] /\
  part1 cfg_mask cfg <> cfg /\ part2 cfg_mask cfg <> cfg.
Proof. repeat split; try (vm_compute; reflexivity); intros H; apply (f_equal i_decorators) in H; vm_compute in H; discriminate. Qed.

(** ... and merging them gives the configuration back, here even literally (every field, including key order) *)
Example split2_cfg_literal : merge (part1 cfg_mask cfg) (part2 cfg_mask cfg) = cfg.
Proof. vm_compute. reflexivity. Qed.

Example split2_cfg_by_theorem : input_eq (merge (part1 cfg_mask cfg) (part2 cfg_mask cfg)) cfg.
Proof. apply split2_invariant, wf_cfg. Qed.

(** three files: the second file of the split is split again (all of the rest of db to the last file) *)
Definition cfg_mask2 : mask :=
  {| mk_version := ToR; mk_pkg := ToL; mk_container_type := ToL; mk_container_constructor := ToL;
     mk_default_must_getter := ToL;
     mk_imports := fun _ => ToBoth; mk_functions := fun _ => ToL; mk_params := fun _ => ToR;
     mk_services := fun k => if str_eqb k (s "db") then
         Split {| km_getter := ToL; km_must_getter := ToL; km_type := ToL; km_value := ToL; km_constructor := ToBoth;
                  km_scope := ToR; km_todo := ToR; km_args := ToBoth; km_calls := 1; km_tags := 0; km_fields := fun _ => ToR |}
         else OnlyR;
     mk_decorators := 0 |}.

Example splitN_cfg_literal :
  length (parts [cfg_mask; cfg_mask2] cfg) = 3%nat /\ merge_all (parts [cfg_mask; cfg_mask2] cfg) = cfg.
Proof. split; vm_compute; reflexivity. Qed.

(** a mask that moves a LEADING key to file 2 only: the merged Go map has the same bindings but the association
    list is in another order, which is why the theorem is stated with [input_eq] and not with [=] *)
Definition mask_reorder : mask :=
  {| mk_version := ToL; mk_pkg := ToL; mk_container_type := ToL; mk_container_constructor := ToL; mk_default_must_getter := ToL;
     mk_imports := all_L; mk_functions := all_L;
     mk_params := fun k => if str_eqb k (s "driver") then ToR else ToL;
     mk_services := fun _ => OnlyL; mk_decorators := 3 |}.

Example reorder_not_literal :
  merge (part1 mask_reorder cfg) (part2 mask_reorder cfg) <> cfg /\
  keys (i_params (merge (part1 mask_reorder cfg) (part2 mask_reorder cfg))) = [s "dsn"; s "port"; s "driver"] /\
  input_eq (merge (part1 mask_reorder cfg) (part2 mask_reorder cfg)) cfg.
Proof.
  split; [|split; [vm_compute; reflexivity|apply split2_invariant, wf_cfg]].
  intros H. apply (f_equal (fun i => keys (i_params i))) in H. vm_compute in H. discriminate.
Qed.

(** ** Tightness: splits that do not respect the rules change the result *)
Definition with_db (x : service) : input :=
  {| i_version := None; i_meta := empty_meta; i_params := []; i_services := [(s "db", x)]; i_decorators := [] |}.
Definition set_args (x : service) (l : list prim) : service :=
  {| sv_getter := sv_getter x; sv_must_getter := sv_must_getter x; sv_type := sv_type x; sv_value := sv_value x;
     sv_constructor := sv_constructor x; sv_args := l; sv_calls := sv_calls x; sv_fields := sv_fields x;
     sv_tags := sv_tags x; sv_scope := sv_scope x; sv_todo := sv_todo x |}.
Definition set_calls (x : service) (l : list call) : service :=
  {| sv_getter := sv_getter x; sv_must_getter := sv_must_getter x; sv_type := sv_type x; sv_value := sv_value x;
     sv_constructor := sv_constructor x; sv_args := sv_args x; sv_calls := l; sv_fields := sv_fields x;
     sv_tags := sv_tags x; sv_scope := sv_scope x; sv_todo := sv_todo x |}.

(** (a) arguments split element-wise: the second file's list REPLACES the first one's *)
Example args_elementwise_breaks :
  let f1 := with_db (set_args svc_db [PStr (s "%driver%")]) in
  let f2 := with_db (set_args empty_service [PStr (s "%dsn%")]) in
  option_map sv_args (lookup (s "db") (i_services (merge f1 f2))) = Some [PStr (s "%dsn%")] /\
  ~ input_eq (merge f1 f2) (with_db svc_db).
Proof.
  split; [vm_compute; reflexivity|]. intros (_ & _ & _ & H & _). specialize (H (s "db")).
  vm_compute in H. destruct H as (_&_&_&_&_&H&_). discriminate.
Qed.

(** (b) the tail of the calls given to the FIRST file and the head to the second: the order changes *)
Example calls_reversed_breaks :
  let f1 := with_db (set_calls svc_db [call2; call3]) in
  let f2 := with_db (set_calls empty_service [call1]) in
  option_map sv_calls (lookup (s "db") (i_services (merge f1 f2))) = Some [call2; call3; call1] /\
  ~ input_eq (merge f1 f2) (with_db svc_db).
Proof.
  split; [vm_compute; reflexivity|]. intros (_ & _ & _ & H & _). specialize (H (s "db")).
  vm_compute in H. destruct H as (_&_&_&_&_&_&H&_). discriminate.
Qed.

(** (c) the same for decorators *)
Example decorators_reversed_breaks :
  let f1 := {| i_version := None; i_meta := empty_meta; i_params := []; i_services := []; i_decorators := [dec3] |} in
  let f2 := {| i_version := None; i_meta := empty_meta; i_params := []; i_services := []; i_decorators := [dec1; dec2] |} in
  i_decorators (merge f1 f2) = [dec3; dec1; dec2] /\ i_decorators (merge f2 f1) = [dec1; dec2; dec3].
Proof. split; vm_compute; reflexivity. Qed.

(** (d) a piece given to NO file is lost *)
Example dropped_piece_breaks :
  let f1 := with_db (set_args svc_db []) in
  let f2 := with_db empty_service in
  ~ input_eq (merge f1 f2) (with_db svc_db).
Proof.
  intros f1 f2 (_ & _ & _ & H & _). specialize (H (s "db")). vm_compute in H. destruct H as (_&_&_&_&_&H&_). discriminate.
Qed.

(** (e) [wf_input] is needed: with a duplicated key (impossible for a Go map) the second file rebuilds the map
    and the LAST binding wins, while [lookup] on the single file sees the FIRST one *)
Definition bad_cfg : input :=
  {| i_version := None; i_meta := empty_meta;
     i_params := [(s "p", PStr (s "one")); (s "p", PStr (s "two"))]; i_services := []; i_decorators := [] |}.
Definition mask_all_R : mask :=
  {| mk_version := ToR; mk_pkg := ToR; mk_container_type := ToR; mk_container_constructor := ToR; mk_default_must_getter := ToR;
     mk_imports := fun _ => ToR; mk_functions := fun _ => ToR; mk_params := fun _ => ToR;
     mk_services := fun _ => OnlyR; mk_decorators := 0 |}.
Example wf_needed : ~ input_eq (merge (part1 mask_all_R bad_cfg) (part2 mask_all_R bad_cfg)) bad_cfg.
Proof. intros (_ & _ & H & _). specialize (H (s "p")). vm_compute in H. discriminate. Qed.

(** ** Order sensitivity: overlapping files do not commute *)
Definition ov1 : input :=
  {| i_version := None; i_meta := empty_meta; i_params := [(s "port", PInt (s "int") (s "80"))];
     i_services := []; i_decorators := [] |}.
Definition ov2 : input :=
  {| i_version := None; i_meta := empty_meta; i_params := [(s "port", PInt (s "int") (s "8080"))];
     i_services := []; i_decorators := [] |}.
Example overlap_not_commutative :
  wf_input ov1 /\ wf_input ov2 /\ ~ disjoint ov1 ov2 /\ ~ input_eq (merge ov1 ov2) (merge ov2 ov1).
Proof.
  assert (W : forall p, wf_input {| i_version := None; i_meta := empty_meta; i_params := [(s "port", p)];
                                    i_services := []; i_decorators := [] |}).
  { intros p. unfold wf_input, wf_meta, wf_services. cbn.
    repeat split; try constructor; try (intros []); constructor. }
  split; [apply W|]. split; [apply W|]. split.
  - intros (_ & _ & H & _). apply (H (s "port")); left; reflexivity.
  - intros (_ & _ & H & _). specialize (H (s "port")). vm_compute in H. discriminate.
Qed.

(** the well-formedness hypotheses of [merge_comm_disjoint] are needed: a duplicated key does not even commute
    with the empty file *)
Example comm_wf_needed : disjoint bad_cfg empty_input /\ ~ input_eq (merge bad_cfg empty_input) (merge empty_input bad_cfg).
Proof.
  split.
  - unfold disjoint, meta_disjoint, opt_disj, keys_disj. cbn. repeat split; try (left; reflexivity); intros k _ [].
  - intros (_ & _ & H & _). specialize (H (s "p")). vm_compute in H. discriminate.
Qed.

(** overlapping on a service: attributes of the later file win, calls are appended in file order *)
Example overlap_service_not_commutative :
  let f1 := with_db (set_calls svc_db [call1]) in
  let f2 := with_db (set_calls empty_service [call2]) in
  ~ input_eq (merge f1 f2) (merge f2 f1).
Proof.
  intros f1 f2 (_ & _ & _ & H & _). specialize (H (s "db")). vm_compute in H.
  destruct H as (_&_&_&_&_&_&H&_). discriminate.
Qed.

(** disjoint files commute: the exclusive split of [cfg] in either order *)
Definition mask_excl : mask :=
  {| mk_version := ToL; mk_pkg := ToR; mk_container_type := ToL; mk_container_constructor := ToR; mk_default_must_getter := ToL;
     mk_imports := fun k => if str_eqb k (s "log") then ToR else ToL; mk_functions := fun _ => ToR;
     mk_params := fun k => if str_eqb k (s "dsn") then ToL else ToR;
     mk_services := fun k => if str_eqb k (s "clock") then OnlyR else OnlyL; mk_decorators := 3 |}.
Example disjoint_commute_cfg :
  disjoint (part1 mask_excl cfg) (part2 mask_excl cfg) /\
  input_eq (merge (part2 mask_excl cfg) (part1 mask_excl cfg)) cfg /\
  merge (part2 mask_excl cfg) (part1 mask_excl cfg) <> cfg.
Proof.
  assert (E : exclusive mask_excl).
  { unfold exclusive, mask_excl. cbn [mk_version mk_pkg mk_container_type mk_container_constructor
      mk_default_must_getter mk_imports mk_functions mk_params mk_services].
    repeat split; try discriminate; intros k.
    - destruct (str_eqb k (s "log")); discriminate.
    - destruct (str_eqb k (s "dsn")); discriminate.
    - destruct (str_eqb k (s "clock")); exact I. }
  split; [apply exclusive_parts_disjoint; [exact E|left; vm_compute; lia]|].
  split; [apply exclusive_split_either_order; [exact wf_cfg|exact E|left; vm_compute; lia]|].
  intros H. apply (f_equal (fun i => keys (i_services i))) in H. vm_compute in H. discriminate.
Qed.

End Examples.

Print Assumptions split2_invariant.
Print Assumptions split2_invariant_lists.
Print Assumptions merge_congr.
Print Assumptions merge_all_cons.
Print Assumptions merge_all_app.
Print Assumptions merge_all_congr.
Print Assumptions splitN_invariant.
Print Assumptions split_tree_invariant.
Print Assumptions merge_all_empty_anywhere_eq.
Print Assumptions merge_all_empty_anywhere.
Print Assumptions merge_all_empties_anywhere_eq.
Print Assumptions merge_all_pad_empty.
Print Assumptions merge_comm_disjoint.
Print Assumptions exclusive_parts_disjoint.
Print Assumptions exclusive_split_either_order.
Print Assumptions Examples.split2_cfg_literal.
Print Assumptions Examples.splitN_cfg_literal.
Print Assumptions Examples.args_elementwise_breaks.
Print Assumptions Examples.calls_reversed_breaks.
Print Assumptions Examples.overlap_not_commutative.
